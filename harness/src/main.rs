// vharness — runs the implementation (/repo, built with --cfg chess_verif) on generated
// scenarios and prints one canonical line per operation and observation.
//
//   lines without a prefix are operations (the model runner replays exactly these),
//   "< ..." lines are the implementation's observations,
//   "! ..." lines are property-level failures decided by the harness itself,
//   "# ..." lines are comments / statistics.
mod util;
mod obs;
mod scen;
mod special;

use std::env;

fn main() {
    // silent panics: every op runs under catch_unwind and reports "< PANIC"
    std::panic::set_hook(Box::new(|_| {}));
    let args: Vec<String> = env::args().collect();
    if args.len() < 2 {
        eprintln!("usage: vharness <command> [key=value ...]");
        std::process::exit(2);
    }
    let kv = util::Args::parse(&args[2..]);
    match args[1].as_str() {
        "zobrist" => special::dump_zobrist(),
        "magics" => special::dump_magics(),
        "magic-sweep" => special::magic_sweep(&kv),
        "tables" => special::dump_tables(),
        "scen" => scen::run(&kv),
        // child mode of the `pvp` operation: the real player-vs-player loop on this process's stdin/stdout
        "pvpchild" => chess::game::player_vs_player::player_vs_player(),
        // child mode of the `play` operation: the real human-vs-computer loop
        "playchild" => {
            let d: u8 = kv.get("depth", "1").parse().unwrap();
            let c = if kv.get("color", "w") == "w" { chess::board::color::Color::White } else { chess::board::color::Color::Black };
            chess::game::human_vs_computer::play_computer(d, c)
        }
        "replay" => scen::replay(&kv),
        "search" => special::search_cmd(&kv),
        "sched" => special::sched_cmd(&kv),
        "perft" => special::perft_cmd(&kv),
        "book" => special::book_cmd(&kv),
        "evaltab" => special::evaltab_cmd(),
        other => {
            eprintln!("unknown command {}", other);
            std::process::exit(2);
        }
    }
}
