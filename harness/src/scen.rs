// scen.rs — scenario generation and replay. A scenario is a sequence of operation lines;
// the executor performs each on the implementation and prints its observation.
use crate::obs::*;
use crate::util::*;
use chess::board::color::Color;
use chess::board::piece::Piece;
use chess::board::Board;
use chess::chess_move::chess_move::ChessMove;
use std::collections::HashMap;
use std::io::Write;
use std::panic::{catch_unwind, AssertUnwindSafe};

pub struct Exec {
    pub ctx: Ctx,
    pub node_ops: Vec<String>,
    pub saved: Vec<String>, // full snapshots taken before each apply (C04 decision predicate)
    pub out: std::io::BufWriter<std::io::Stdout>,
    pub nodes: u64,
    pub ops: u64,
    pub kinds: HashMap<&'static str, u64>,
    pub dist: HashMap<String, u64>,
    pub keymap: HashMap<u64, String>, // position key -> (placement, rights, ep) seen with it (C05)
    pub posmap: HashMap<String, u64>,
    pub extra: crate::special::Extra,
    pub hist: Vec<String>,
    pub sync: bool, // emit `sync <position>` before the node ops: the model re-reads the position
}

pub fn full_snapshot(b: &Board) -> String {
    format!("{} | {} | {}", snap(b), stacks(b), bbs(b))
}

fn position_id(b: &Board) -> String {
    // what the key may depend on: placement, castling rights, en-passant target
    let p = Pos::of_board(b);
    let cells: String = p
        .cells
        .iter()
        .map(|c| match c {
            Some((p, c)) => pchar(*p, *c),
            None => '.',
        })
        .collect();
    format!("{} {} {}", cells, p.rights, p.ep.map(sqname).unwrap_or_else(|| "-".into()))
}

impl Exec {
    pub fn new(node_ops: Vec<String>) -> Exec {
        Exec {
            ctx: Ctx::new(),
            node_ops,
            saved: vec![],
            out: std::io::BufWriter::new(std::io::stdout()),
            nodes: 0,
            ops: 0,
            kinds: HashMap::new(),
            dist: HashMap::new(),
            keymap: HashMap::new(),
            posmap: HashMap::new(),
            extra: crate::special::Extra::new(),
            hist: vec![],
            sync: false,
        }
    }
    fn line(&mut self, s: &str) {
        writeln!(self.out, "{}", s).unwrap();
    }
    fn tally(&mut self, k: &str) {
        *self.dist.entry(k.to_string()).or_insert(0) += 1;
    }

    /// perform one operation line on the implementation and print it with its observation
    pub fn exec(&mut self, op: &str) {
        self.ops += 1;
        self.line(op);
        let toks: Vec<&str> = op.split_whitespace().collect();
        let ctx = &mut self.ctx;
        let r: String = match toks[0] {
            "new" => {
                ctx.board = Board::new();
                ctx.stack.clear();
                self.saved.clear();
                "ok".into()
            }
            "pos" => {
                let p = Pos::parse_line(&op[4..]);
                match catch_unwind(AssertUnwindSafe(|| p.setup())) {
                    Ok(b) => {
                        ctx.board = b;
                        ctx.stack.clear();
                        self.saved.clear();
                        "ok".into()
                    }
                    Err(_) => "PANIC".into(),
                }
            }
            "put" => {
                let (p, c) = parse_pchar(toks[2].chars().next().unwrap());
                let sq = parse_sq(toks[1]);
                guard(|| match ctx.board.put(bb(sq), p, c) {
                    Ok(()) => "ok".into(),
                    Err(_) => "ERR".into(),
                })
            }
            "remove" => {
                let sq = parse_sq(toks[1]);
                guard(|| match ctx.board.remove(bb(sq)) {
                    Some((p, c)) => format!("removed {}", pchar(p, c)),
                    None => "none".into(),
                })
            }
            "lose" => {
                let m: u8 = toks[1].parse().unwrap();
                guard(|| format!("rights {}", ctx.board.lose_castle_rights(m)))
            }
            "poprights" => guard(|| format!("rights {}", ctx.board.pop_castle_rights())),
            "pushep" => {
                let t = if toks[1] == "-" { common::bitboard::bitboard::Bitboard::EMPTY } else { bb(parse_sq(toks[1])) };
                guard(|| {
                    ctx.board.push_en_passant_target(t);
                    "ok".into()
                })
            }
            "popep" => guard(|| {
                let v = ctx.board.pop_en_passant_target();
                format!("ep {}", if v.is_empty() { "-".to_string() } else { sqname(idx(v)) })
            }),
            "toggle" => {
                ctx.board.toggle_turn();
                "ok".into()
            }
            "sync" | "gsync" => "ok".into(),
            "inv" => {
                // C12 decision predicate on the implementation's own observables
                match invariants(&ctx.board) {
                    Ok(()) => "inv ok".into(),
                    Err(e) => {
                        let msg = format!("! C12 {} in [{}] [{}]", e, snap(&ctx.board), bbs(&ctx.board));
                        self.line(&msg);
                        "inv ok".into()
                    }
                }
            }
            "flipmat" => {
                // C18 decision predicate: static score of the colour-swapped, 180-degree
                // rotated position is the exact negative
                let p = Pos::of_board(&ctx.board);
                let mut q = Pos::empty();
                for i in 0..64 {
                    q.cells[63 - i] = p.cells[i].map(|(pc, c)| (pc, c.opposite()));
                }
                q.turn = p.turn.opposite();
                let fb = q.setup();
                let a = chess::evaluate::board_material_score(&ctx.board) as i32;
                let f = chess::evaluate::board_material_score(&fb) as i32;
                if a != -f {
                    let msg = format!("! C18 static score {} but flipped position scores {} (not the negative) in [{}]", a, f, p.line());
                    self.line(&msg);
                }
                format!("flipmat {} {}", a, f)
            }
            "apply" => {
                let m = parse_mv(toks[1]);
                self.saved.push(full_snapshot(&ctx.board));
                let r = guard(|| match m.apply(&mut ctx.board) {
                    Ok(()) => "ok".into(),
                    Err(e) => format!("ERR {:?}", e).split_whitespace().take(2).collect::<Vec<_>>().join(" "),
                });
                ctx.stack.push(m);
                r
            }
            "undo" => match ctx.stack.pop() {
                None => "nothing".into(),
                Some(m) => {
                    let r = guard(|| match m.undo(&mut ctx.board) {
                        Ok(()) => "ok".into(),
                        Err(_) => "ERR".into(),
                    });
                    let before = self.saved.pop().unwrap();
                    let after = full_snapshot(&ctx.board);
                    if r == "ok" && before != after {
                        let msg = format!("! C04 undo of {} did not restore the state: before [{}] after [{}]", mv_text(&m), before, after);
                        self.line(&msg);
                    }
                    r
                }
            },
            "count" => guard(|| format!("count {}", ctx.board.count_current_position())),
            "uncount" => guard(|| format!("count {}", ctx.board.uncount_current_position())),
            "snap" => guard(|| snap(&ctx.board)),
            "stacks" => stacks(&ctx.board),
            "bbs" => guard(|| bbs(&ctx.board)),
            "gen" => guard(|| gen(ctx)),
            "genl" => guard(|| genl(ctx)),
            "att" => guard(|| att(ctx)),
            "verdict" => {
                let r = guard(|| verdict(ctx, false));
                // C16 decision predicate: the move-count draw is reported exactly when the
                // half-move clock has reached 100 (no repetition involved here)
                let hm = ctx.board.halfmove_clock();
                let seen = ctx.board.max_seen_position_count();
                let mut msgs: Vec<String> = vec![];
                if seen != 3 && r != "PANIC" {
                    let drawn = r.ends_with(" D");
                    if drawn && hm < 100 {
                        msgs.push(format!("! C16 game reported drawn on move count with half-move clock {} (< 100) in [{}]", hm, snap(&ctx.board)));
                    }
                    if !drawn && hm >= 100 {
                        msgs.push(format!("! C16 game not reported drawn with half-move clock {} (>= 100) in [{}]", hm, snap(&ctx.board)));
                    }
                }
                for m in msgs {
                    self.line(&m);
                }
                r
            }
            "verdictl" => guard(|| verdict(ctx, true)),
            "effects" => guard(|| effects(ctx, false)),
            "effectsl" => guard(|| effects(ctx, true)),
            "san" => guard(|| san(ctx)),
            "uci" => guard(|| uci(ctx)),
            "mat" => guard(|| mat(ctx)),
            "score" => {
                let d: u8 = toks[1].parse().unwrap();
                guard(|| score(ctx, d))
            }
            "clearlong" => {
                ctx.long.clear_caches_for_verif();
                "ok".into()
            }
            "key" => {
                // C05 decision predicate, implementation only: equal (placement, rights, ep)
                // must give equal keys; one key must not serve two different positions
                let id = position_id(&ctx.board);
                let k = ctx.board.current_position_hash();
                let mut msgs = vec![];
                if let Some(k0) = self.posmap.get(&id) {
                    if *k0 != k {
                        msgs.push(format!("! C05 same position [{}] has keys {:016x} and {:016x} (history-dependent key)", id, k0, k));
                    }
                } else {
                    self.posmap.insert(id.clone(), k);
                }
                if let Some(id0) = self.keymap.get(&k) {
                    if *id0 != id {
                        msgs.push(format!("! C05 key {:016x} serves two positions [{}] and [{}]", k, id0, id));
                    }
                } else {
                    self.keymap.insert(k, id);
                }
                for m in msgs {
                    self.line(&m);
                }
                format!("key {:016x}", k)
            }
            _ => match crate::special::exec_special(ctx, &mut self.extra, &mut self.hist, &toks) {
                Some(r) => r,
                None => panic!("unknown op {}", op),
            },
        };
        let l = format!("< {}", r);
        self.line(&l);
    }

    pub fn node(&mut self) {
        self.nodes += 1;
        if self.sync {
            let l = format!("sync {}", Pos::of_board(&self.ctx.board).line());
            self.exec(&l);
        }
        let ops = self.node_ops.clone();
        for o in ops.iter() {
            self.exec(o);
        }
        // input distribution
        let b = &self.ctx.board;
        let n = piece_counts(b);
        let phase = if n > 24 { "pieces>24" } else if n > 12 { "pieces13-24" } else { "pieces<=12" };
        let turn = if b.turn() == Color::White { "wtm" } else { "btm" };
        let ep = !b.peek_en_passant_target().is_empty();
        let r = b.peek_castle_rights();
        self.tally(phase);
        self.tally(turn);
        if ep {
            self.tally("ep-target-set");
        }
        if r != 0 {
            self.tally("some-castling-right");
        }
    }

    pub fn legal(&mut self) -> Vec<ChessMove> {
        // generation itself can abort (e.g. an overflowing counter): end the walk there
        match catch_unwind(AssertUnwindSafe(|| gen_fresh(&mut self.ctx))) {
            Ok(v) => v,
            Err(_) => {
                self.line("# move generation panicked while choosing the next move");
                vec![]
            }
        }
    }

    fn kind(&mut self, m: &ChessMove) {
        let k = match m {
            ChessMove::Standard(_) => {
                if m.captures().is_some() {
                    "capture"
                } else {
                    "quiet"
                }
            }
            ChessMove::PawnPromotion(_) => "promotion",
            ChessMove::EnPassant(_) => "en-passant",
            ChessMove::Castle(_) => "castle",
        };
        *self.kinds.entry(k).or_insert(0) += 1;
    }

    pub fn play(&mut self, m: &ChessMove) {
        self.kind(m);
        self.exec(&format!("apply {}", mv_text(m)));
        self.exec("toggle");
    }
    pub fn unplay(&mut self) {
        self.exec("toggle");
        self.exec("undo");
    }

    pub fn tree(&mut self, depth: u32, budget: &mut i64) {
        self.node();
        *budget -= 1;
        if depth == 0 || *budget <= 0 {
            return;
        }
        let ms = self.legal();
        for m in ms.iter() {
            if *budget <= 0 {
                break;
            }
            self.play(m);
            self.tree(depth - 1, budget);
            self.unplay();
        }
    }

    pub fn walk(&mut self, rng: &mut Rng, len: usize, undo_pct: u64) {
        self.node();
        let mut plies = 0;
        while plies < len {
            if !self.ctx.stack.is_empty() && rng.chance(undo_pct, 100) {
                let k = 1 + rng.below(self.ctx.stack.len().min(6));
                for _ in 0..k {
                    self.unplay();
                }
                self.node();
                continue;
            }
            let ms = self.legal();
            if ms.is_empty() {
                break;
            }
            // bias towards the rarer kinds so that walks exercise them
            let special: Vec<&ChessMove> = ms
                .iter()
                .filter(|m| !matches!(m, ChessMove::Standard(_)) || m.captures().is_some())
                .collect();
            let m = if !special.is_empty() && rng.chance(35, 100) {
                special[rng.below(special.len())].clone()
            } else {
                ms[rng.below(ms.len())].clone()
            };
            self.play(&m);
            self.node();
            plies += 1;
        }
    }

    pub fn finish(&mut self, family: &str) {
        let mut kinds: Vec<_> = self.kinds.iter().map(|(k, v)| format!("{}={}", k, v)).collect();
        kinds.sort();
        let mut dist: Vec<_> = self.dist.iter().map(|(k, v)| format!("{}={}", k, v)).collect();
        dist.sort();
        let l = format!(
            "# stats family={} nodes={} ops={} {} {}",
            family,
            self.nodes,
            self.ops,
            kinds.join(" "),
            dist.join(" ")
        );
        self.line(&l);
        self.out.flush().unwrap();
    }
}

/// every clause of C12's statement, evaluated on the implementation's observables
pub fn invariants(b: &Board) -> Result<(), String> {
    let mut m = [None; 64];
    for i in 0..64 {
        m[i] = b.get(bb(i));
    }
    let mut union = 0u64;
    for c in [Color::White, Color::Black] {
        let ps = b.pieces(c);
        let mut occ = 0u64;
        for p in PIECES {
            let l = ps.locate(p).0;
            if occ & l != 0 {
                return Err(format!("two {} pieces share a square", cchar(c)));
            }
            occ |= l;
            for i in 0..64 {
                if (l >> i) & 1 == 1 && m[i] != Some((p, c)) {
                    return Err(format!("per-piece summary disagrees with square contents on {}", sqname(i)));
                }
            }
        }
        if occ != ps.occupied().0 {
            return Err(format!("per-colour occupancy summary of {} disagrees with its pieces", cchar(c)));
        }
        if union & occ != 0 {
            return Err("a square holds a white and a black piece".into());
        }
        union |= occ;
        if ps.locate(Piece::King).0.count_ones() != 1 {
            return Err(format!("{} has {} kings", cchar(c), ps.locate(Piece::King).0.count_ones()));
        }
        if ps.locate(Piece::Pawn).0 & 0xFF000000000000FF != 0 {
            return Err("pawn on the first or eighth rank".into());
        }
    }
    if union != b.occupied().0 {
        return Err("whole-board occupancy disagrees with contents".into());
    }
    for i in 0..64 {
        if (union >> i) & 1 == 0 && m[i].is_some() {
            return Err("get() sees a piece the summaries do not".into());
        }
    }
    let r = b.peek_castle_rights();
    let chk = |bit: u8, k: usize, rk: usize, c: Color| -> bool { r & bit == 0 || (m[k] == Some((Piece::King, c)) && m[rk] == Some((Piece::Rook, c))) };
    if !(chk(8, 4, 7, Color::White) && chk(2, 4, 0, Color::White) && chk(4, 60, 63, Color::Black) && chk(1, 60, 56, Color::Black)) {
        return Err(format!("castling right held without king and rook at home (rights {})", r));
    }
    let ep = b.peek_en_passant_target().0;
    if ep != 0 {
        if ep.count_ones() != 1 {
            return Err("en-passant target is not a single square".into());
        }
        let i = ep.trailing_zeros() as usize;
        let ok = if i / 8 == 2 {
            m[i + 8] == Some((Piece::Pawn, Color::White)) && m[i].is_none() && m[i - 8].is_none()
        } else if i / 8 == 5 {
            m[i - 8] == Some((Piece::Pawn, Color::Black)) && m[i].is_none() && m[i + 8].is_none()
        } else {
            false
        };
        if !ok {
            return Err(format!("en-passant target {} without a just-advanced pawn in front and empty squares behind", sqname(i)));
        }
    }
    Ok(())
}

// ---- mailbox reference used only to build consistent random set-ups ----
fn attacked(m: &[Option<(Piece, Color)>; 64], sq: usize, c: Color) -> bool {
    let (r, f) = ((sq / 8) as i32, (sq % 8) as i32);
    let at = |r: i32, f: i32| -> Option<(Piece, Color)> {
        if (0..8).contains(&r) && (0..8).contains(&f) {
            m[(r * 8 + f) as usize]
        } else {
            None
        }
    };
    let pr = if c == Color::White { r - 1 } else { r + 1 };
    for df in [-1, 1] {
        if at(pr, f + df) == Some((Piece::Pawn, c)) {
            return true;
        }
    }
    for (dr, df) in [(1, 2), (2, 1), (-1, 2), (-2, 1), (1, -2), (2, -1), (-1, -2), (-2, -1)] {
        if at(r + dr, f + df) == Some((Piece::Knight, c)) {
            return true;
        }
    }
    for (dr, df) in [(1, 0), (-1, 0), (0, 1), (0, -1), (1, 1), (1, -1), (-1, 1), (-1, -1)] {
        if at(r + dr, f + df) == Some((Piece::King, c)) {
            return true;
        }
        let (mut rr, mut ff) = (r + dr, f + df);
        while (0..8).contains(&rr) && (0..8).contains(&ff) {
            if let Some((p, pc)) = at(rr, ff) {
                let diag = dr != 0 && df != 0;
                if pc == c && (p == Piece::Queen || (diag && p == Piece::Bishop) || (!diag && p == Piece::Rook)) {
                    return true;
                }
                break;
            }
            rr += dr;
            ff += df;
        }
    }
    false
}

/// a random consistent set-up: one king each, no pawn on ranks 1/8, side not to move not
/// in check, rights only with king and rook at home, ep target only behind a pawn that
/// may just have made a double step
pub fn random_setup(rng: &mut Rng) -> Pos {
    loop {
        let mut p = Pos::empty();
        let wk = rng.below(64);
        let mut bk = rng.below(64);
        // favour home squares so that castling rights occur
        let (wk, bkh) = if rng.chance(40, 100) { (4, 60) } else { (wk, bk) };
        bk = bkh;
        if wk == bk {
            continue;
        }
        let (dr, df) = (((wk / 8) as i32 - (bk / 8) as i32).abs(), ((wk % 8) as i32 - (bk % 8) as i32).abs());
        if dr <= 1 && df <= 1 {
            continue;
        }
        p.cells[wk] = Some((Piece::King, Color::White));
        p.cells[bk] = Some((Piece::King, Color::Black));
        let n = rng.below(26);
        let heavy = rng.chance(15, 100); // material-extreme set-ups (many queens)
        for _ in 0..n {
            let sq = rng.below(64);
            if p.cells[sq].is_some() {
                continue;
            }
            let c = if rng.chance(1, 2) { Color::White } else { Color::Black };
            let piece = if heavy {
                [Piece::Queen, Piece::Queen, Piece::Rook, Piece::Knight, Piece::Pawn][rng.below(5)]
            } else {
                [Piece::Pawn, Piece::Pawn, Piece::Pawn, Piece::Knight, Piece::Bishop, Piece::Rook, Piece::Queen, Piece::Rook, Piece::Knight][rng.below(9)]
            };
            if piece == Piece::Pawn && (sq < 8 || sq >= 56) {
                continue;
            }
            p.cells[sq] = Some((piece, c));
        }
        // rooks at home more often when the king is
        for (k, r1, r2, c) in [(4usize, 0usize, 7usize, Color::White), (60, 56, 63, Color::Black)] {
            if p.cells[k] == Some((Piece::King, c)) {
                for r in [r1, r2] {
                    if rng.chance(60, 100) {
                        p.cells[r] = Some((Piece::Rook, c));
                    }
                }
            }
        }
        p.turn = if rng.chance(1, 2) { Color::White } else { Color::Black };
        let other = p.turn.opposite();
        let ok = if other == Color::White { wk } else { bk };
        if attacked(&p.cells, ok, p.turn) {
            continue;
        }
        let mut rights = 0u8;
        for (bit, k, r, c) in [(8u8, 4usize, 7usize, Color::White), (2, 4, 0, Color::White), (4, 60, 63, Color::Black), (1, 60, 56, Color::Black)] {
            if p.cells[k] == Some((Piece::King, c)) && p.cells[r] == Some((Piece::Rook, c)) && rng.chance(70, 100) {
                rights |= bit;
            }
        }
        p.rights = rights;
        // en-passant target: the side that just moved is `other`
        let mut cands = vec![];
        for f in 0..8 {
            if other == Color::Black {
                let (pawn, mid, orig) = (32 + f, 40 + f, 48 + f);
                if p.cells[pawn] == Some((Piece::Pawn, Color::Black)) && p.cells[mid].is_none() && p.cells[orig].is_none() {
                    cands.push(mid);
                }
            } else {
                let (pawn, mid, orig) = (24 + f, 16 + f, 8 + f);
                if p.cells[pawn] == Some((Piece::Pawn, Color::White)) && p.cells[mid].is_none() && p.cells[orig].is_none() {
                    cands.push(mid);
                }
            }
        }
        if !cands.is_empty() && rng.chance(60, 100) {
            p.ep = Some(cands[rng.below(cands.len())]);
        }
        p.half = rng.below(40) as u8;
        p.full = 1 + rng.below(80) as u16;
        return p;
    }
}

fn corpus_subset(kv: &Args) -> Vec<(String, Pos)> {
    let all = load_corpus(&kv.get("corpus", "/verif/corpus/positions.txt"));
    // every corpus position must be a consistent set-up (the domain of the properties)
    for (name, p) in all.iter() {
        let b = p.setup();
        if let Err(e) = invariants(&b) {
            eprintln!("corpus position {} is not consistent: {}", name, e);
            std::process::exit(3);
        }
        let other = p.turn.opposite();
        let k = (0..64).find(|&i| p.cells[i] == Some((Piece::King, other))).unwrap();
        if attacked(&p.cells, k, p.turn) {
            eprintln!("corpus position {}: the side not to move is in check", name);
            std::process::exit(3);
        }
    }
    let names = kv.get("names", "");
    if names.is_empty() {
        return all;
    }
    let want: Vec<&str> = names.split(',').collect();
    all.into_iter().filter(|(n, _)| want.iter().any(|w| n.starts_with(w))).collect()
}

/// random board-editing histories (C05): put/remove/rights/ep pushes and pops, moves, undos
fn history(e: &mut Exec, rng: &mut Rng, len: usize) {
    e.exec("new");
    e.exec("key");
    let mut ep_depth = 0usize;
    let mut cr_depth = 0usize;
    for _ in 0..len {
        let pick = rng.below(100);
        if pick < 35 {
            let sq = rng.below(64);
            let (p, c) = (PIECES[rng.below(6)], if rng.chance(1, 2) { Color::White } else { Color::Black });
            e.exec(&format!("put {} {}", sqname(sq), pchar(p, c)));
        } else if pick < 55 {
            let occ: Vec<usize> = (0..64).filter(|&i| e.ctx.board.get(bb(i)).is_some()).collect();
            let sq = if !occ.is_empty() && rng.chance(4, 5) { occ[rng.below(occ.len())] } else { rng.below(64) };
            e.exec(&format!("remove {}", sqname(sq)));
        } else if pick < 65 {
            e.exec(&format!("lose {}", rng.below(16)));
            cr_depth += 1;
        } else if pick < 72 {
            if cr_depth > 0 {
                e.exec("poprights");
                cr_depth -= 1;
            }
        } else if pick < 84 {
            let t = if rng.chance(1, 4) { "-".to_string() } else { sqname(rng.below(64)) };
            e.exec(&format!("pushep {}", t));
            ep_depth += 1;
        } else if pick < 92 {
            if ep_depth > 0 {
                e.exec("popep");
                ep_depth -= 1;
            }
        } else {
            e.exec("toggle");
        }
        e.exec("snap");
        e.exec("key");
    }
}

/// transposition families that reach one position through different histories (C05/C02)
fn transpositions(e: &mut Exec, rng: &mut Rng, rounds: usize) {
    let start = Pos::from_fen("rnbqkbnr/pppppppp/8/8/8/8/PPPPPPPP/RNBQKBNR w KQkq - 0 1");
    for _ in 0..rounds {
        // play a random legal line, then replay a random permutation-compatible reordering:
        // white's and black's moves of the line shuffled independently, kept if legal
        e.exec(&format!("pos {}", start.line()));
        let mut line: Vec<ChessMove> = vec![];
        let n = 4 + 2 * rng.below(3);
        for _ in 0..n {
            let ms = e.legal();
            let quiet: Vec<&ChessMove> = ms.iter().filter(|m| m.captures().is_none()).collect();
            if quiet.is_empty() {
                break;
            }
            let m = quiet[rng.below(quiet.len())].clone();
            e.play(&m);
            line.push(m);
            e.node();
        }
        if line.len() < 4 {
            continue;
        }
        for _ in 0..3 {
            let mut w: Vec<ChessMove> = line.iter().step_by(2).cloned().collect();
            let mut b: Vec<ChessMove> = line.iter().skip(1).step_by(2).cloned().collect();
            for v in [&mut w, &mut b] {
                for i in (1..v.len()).rev() {
                    let j = rng.below(i + 1);
                    v.swap(i, j);
                }
            }
            e.exec(&format!("pos {}", start.line()));
            let mut ok = true;
            for i in 0..line.len() {
                let m = if i % 2 == 0 { w[i / 2].clone() } else { b[i / 2].clone() };
                let ms = e.legal();
                if !ms.iter().any(|x| mv_text(x) == mv_text(&m)) {
                    ok = false;
                    break;
                }
                e.play(&m);
                e.node();
            }
            if ok {
                e.tally("transposition-pairs");
            }
        }
    }
}

/// move-order families reaching one placement with and without an en-passant possibility
/// (the double step made last vs. earlier), for white and for black capturers
fn epfamilies(e: &mut Exec) {
    let start = Pos::from_fen("rnbqkbnr/pppppppp/8/8/8/8/PPPPPPPP/RNBQKBNR w KQkq - 0 1");
    let f = |c: u8| (b'a' + c) as char;
    let mut fams: Vec<(Vec<String>, Vec<String>)> = vec![];
    for file in 0..8u8 {
        for adj in [file.wrapping_sub(1), file + 1] {
            if adj > 7 {
                continue;
            }
            let spare = (0..8u8).find(|s| *s != file && *s != adj && (*s as i32 - file as i32).abs() > 1 && (*s as i32 - adj as i32).abs() > 1).unwrap();
            let spare2 = (0..8u8).rev().find(|s| *s != file && *s != adj && *s != spare && (*s as i32 - file as i32).abs() > 1 && (*s as i32 - adj as i32).abs() > 1).unwrap();
            // white capturer on `file`, black double step on `adj`
            let with_ep = vec![format!("{}2{}4", f(file), f(file)), format!("{}7{}6", f(spare), f(spare)), format!("{}4{}5", f(file), f(file)), format!("{}7{}5", f(adj), f(adj))];
            let without = vec![format!("{}2{}4", f(file), f(file)), format!("{}7{}5", f(adj), f(adj)), format!("{}4{}5", f(file), f(file)), format!("{}7{}6", f(spare), f(spare))];
            fams.push((with_ep, without));
            // black capturer on `file`, white double step on `adj`
            let with_ep = vec![format!("{}2{}3", f(spare), f(spare)), format!("{}7{}5", f(file), f(file)), format!("{}2{}3", f(spare2), f(spare2)), format!("{}5{}4", f(file), f(file)), format!("{}2{}4", f(adj), f(adj))];
            let without = vec![format!("{}2{}4", f(adj), f(adj)), format!("{}7{}5", f(file), f(file)), format!("{}2{}3", f(spare), f(spare)), format!("{}5{}4", f(file), f(file)), format!("{}2{}3", f(spare2), f(spare2))];
            fams.push((with_ep, without));
        }
    }
    for (k, (a, b)) in fams.iter().enumerate() {
        let order: [&Vec<String>; 2] = if k % 2 == 0 { [a, b] } else { [b, a] };
        for line in order {
            e.exec(&format!("pos {}", start.line()));
            e.node();
            let mut ok = true;
            for mv in line.iter() {
                let ms = e.legal();
                let (from, to) = (parse_sq(&mv[0..2]), parse_sq(&mv[2..4]));
                match ms.iter().find(|m| idx(m.from_square()) == from && idx(m.to_square()) == to) {
                    Some(m) => {
                        let m = m.clone();
                        e.play(&m);
                        e.node();
                    }
                    None => {
                        ok = false;
                        break;
                    }
                }
            }
            if ok {
                e.tally("ep-order-family-lines");
            }
        }
    }
}

pub fn run(kv: &Args) {
    let family = kv.get("family", "walk");
    let seed = kv.num("seed", 1);
    let mut rng = Rng(seed ^ 0xC0FFEE);
    let ops: Vec<String> = kv.get("ops", "snap").split(',').filter(|s| !s.is_empty()).map(|s| s.replace(':', " ")).collect();
    let mut e = Exec::new(ops);
    e.sync = kv.num("sync", 0) == 1;
    let shard = kv.num("shard", 0) as usize;
    let shards = kv.num("shards", 1) as usize;
    match family.as_str() {
        "tree" => {
            let depth = kv.num("depth", 2) as u32;
            let per = kv.num("budget", 2000) as i64;
            for (i, (name, p)) in corpus_subset(kv).iter().enumerate() {
                if i % shards != shard {
                    continue;
                }
                e.line(&format!("# corpus {}", name));
                e.exec(&format!("pos {}", p.line()));
                let mut b = per;
                e.tree(depth, &mut b);
            }
        }
        "walk" => {
            let count = kv.num("count", 10) as usize;
            let len = kv.num("len", 60) as usize;
            let undo = kv.num("undo", 0);
            let corpus = corpus_subset(kv);
            for i in 0..count {
                let mut r = Rng(seed.wrapping_mul(1000003).wrapping_add(i as u64));
                if i % shards != shard {
                    continue;
                }
                let (name, p) = &corpus[r.below(corpus.len())];
                e.line(&format!("# walk {} from {}", i, name));
                e.exec(&format!("pos {}", p.line()));
                e.walk(&mut r, len, undo);
            }
        }
        "setups" => {
            let count = kv.num("count", 100) as usize;
            let depth = kv.num("depth", 0) as u32;
            for i in 0..count {
                let mut r = Rng(seed.wrapping_mul(7919).wrapping_add(i as u64));
                if i % shards != shard {
                    continue;
                }
                let p = random_setup(&mut r);
                e.exec(&format!("pos {}", p.line()));
                let mut b = kv.num("budget", 50) as i64;
                e.tree(depth, &mut b);
            }
        }
        "history" => {
            let count = kv.num("count", 20) as usize;
            let len = kv.num("len", 80) as usize;
            for i in 0..count {
                let mut r = Rng(seed.wrapping_mul(104729).wrapping_add(i as u64));
                if i % shards != shard {
                    continue;
                }
                history(&mut e, &mut r, len);
            }
        }
        "epfamilies" => {
            if shard == 0 {
                epfamilies(&mut e);
            }
        }
        "transpositions" => {
            let count = kv.num("count", 20) as usize;
            if shard == 0 {
                transpositions(&mut e, &mut rng, count);
            }
        }
        other => panic!("unknown family {}", other),
    }
    e.finish(&family);
}

/// re-run the operation lines of a scenario file on the implementation
pub fn replay(kv: &Args) {
    let path = kv.get("file", "");
    let txt = std::fs::read_to_string(&path).expect("scenario file");
    let mut e = Exec::new(vec![]);
    for line in txt.lines() {
        let l = line.trim();
        if l.is_empty() || l.starts_with('<') || l.starts_with('#') || l.starts_with('!') || l.starts_with('=') {
            continue;
        }
        e.exec(l);
    }
    e.finish("replay");
}
