// scen.rs — scenario generation and replay. A scenario is a sequence of operation lines;
// the executor performs each on the implementation and prints its observation.
use crate::obs::*;
use crate::util::*;
use chess::board::color::Color;
use chess::board::piece::Piece;
use chess::board::Board;
use chess::chess_move::chess_move::ChessMove;
use chess::game::game::Game;
use std::collections::HashMap;
use std::io::Write;
use std::panic::{catch_unwind, AssertUnwindSafe};

pub struct Exec {
    pub ctx: Ctx,
    pub node_ops: Vec<String>,
    pub saved: Vec<String>, // full snapshots taken before each apply (C04 decision predicate)
    pub out: std::io::BufWriter<std::io::Stdout>,
    pub nodes: u64,
    pub ops: u64,
    pub kinds: HashMap<&'static str, u64>,
    pub dist: HashMap<String, u64>,
    pub keymap: HashMap<u64, String>, // position key -> (placement, rights, ep) seen with it (C05)
    pub posmap: HashMap<String, u64>,
    pub extra: crate::special::Extra,
    pub hist: Vec<String>,
    pub sync: bool, // emit `sync <position>` before the node ops: the model re-reads the position
}

pub fn full_snapshot(b: &Board) -> String {
    format!("{} | {} | {}", snap(b), stacks(b), bbs(b))
}

fn position_id(b: &Board) -> String {
    // what the key may depend on: placement, castling rights, en-passant target
    let p = Pos::of_board(b);
    let cells: String = p
        .cells
        .iter()
        .map(|c| match c {
            Some((p, c)) => pchar(*p, *c),
            None => '.',
        })
        .collect();
    format!("{} {} {}", cells, p.rights, p.ep.map(sqname).unwrap_or_else(|| "-".into()))
}

impl Exec {
    pub fn new(node_ops: Vec<String>) -> Exec {
        Exec {
            ctx: Ctx::new(),
            node_ops,
            saved: vec![],
            out: std::io::BufWriter::new(std::io::stdout()),
            nodes: 0,
            ops: 0,
            kinds: HashMap::new(),
            dist: HashMap::new(),
            keymap: HashMap::new(),
            posmap: HashMap::new(),
            extra: crate::special::Extra::new(),
            hist: vec![],
            sync: false,
        }
    }
    fn line(&mut self, s: &str) {
        writeln!(self.out, "{}", s).unwrap();
    }
    fn tally(&mut self, k: &str) {
        *self.dist.entry(k.to_string()).or_insert(0) += 1;
    }

    /// perform one operation line on the implementation and print it with its observation
    pub fn exec(&mut self, op: &str) -> String {
        self.ops += 1;
        self.line(op);
        let toks: Vec<&str> = op.split_whitespace().collect();
        let ctx = &mut self.ctx;
        let r: String = match toks[0] {
            "new" => {
                ctx.board = Board::new();
                ctx.stack.clear();
                self.saved.clear();
                "ok".into()
            }
            "pos" => {
                let p = Pos::parse_line(&op[4..]);
                match catch_unwind(AssertUnwindSafe(|| p.setup())) {
                    Ok(b) => {
                        ctx.board = b;
                        ctx.stack.clear();
                        self.saved.clear();
                        "ok".into()
                    }
                    Err(_) => "PANIC".into(),
                }
            }
            "put" => {
                let (p, c) = parse_pchar(toks[2].chars().next().unwrap());
                let sq = parse_sq(toks[1]);
                guard(|| match ctx.board.put(bb(sq), p, c) {
                    Ok(()) => "ok".into(),
                    Err(_) => "ERR".into(),
                })
            }
            "remove" => {
                let sq = parse_sq(toks[1]);
                guard(|| match ctx.board.remove(bb(sq)) {
                    Some((p, c)) => format!("removed {}", pchar(p, c)),
                    None => "none".into(),
                })
            }
            "lose" => {
                let m: u8 = toks[1].parse().unwrap();
                guard(|| format!("rights {}", ctx.board.lose_castle_rights(m)))
            }
            "poprights" => guard(|| format!("rights {}", ctx.board.pop_castle_rights())),
            "pushep" => {
                let t = if toks[1] == "-" { common::bitboard::bitboard::Bitboard::EMPTY } else { bb(parse_sq(toks[1])) };
                guard(|| {
                    ctx.board.push_en_passant_target(t);
                    "ok".into()
                })
            }
            "popep" => guard(|| {
                let v = ctx.board.pop_en_passant_target();
                format!("ep {}", if v.is_empty() { "-".to_string() } else { sqname(idx(v)) })
            }),
            "toggle" => {
                ctx.board.toggle_turn();
                "ok".into()
            }
            "sync" | "gsync" => "ok".into(),
            "inv" => {
                // C12 decision predicate on the implementation's own observables
                match invariants(&ctx.board) {
                    Ok(()) => "inv ok".into(),
                    Err(e) => {
                        let msg = format!("! C12 {} in [{}] [{}]", e, snap(&ctx.board), bbs(&ctx.board));
                        self.line(&msg);
                        "inv ok".into()
                    }
                }
            }
            "flipmat" => {
                // C18 decision predicate: static score of the colour-swapped, 180-degree
                // rotated position is the exact negative
                let p = Pos::of_board(&ctx.board);
                let mut q = Pos::empty();
                for i in 0..64 {
                    q.cells[63 - i] = p.cells[i].map(|(pc, c)| (pc, c.opposite()));
                }
                q.turn = p.turn.opposite();
                let fb = q.setup();
                let a = chess::evaluate::board_material_score(&ctx.board) as i32;
                let f = chess::evaluate::board_material_score(&fb) as i32;
                if a != -f {
                    let msg = format!("! C18 static score {} but flipped position scores {} (not the negative) in [{}]", a, f, p.line());
                    self.line(&msg);
                }
                format!("flipmat {} {}", a, f)
            }
            "apply" => {
                let m = parse_mv(toks[1]);
                self.saved.push(full_snapshot(&ctx.board));
                let mover = ctx.board.get(m.from_square());
                let mut pending_msg: Option<String> = None;
                let r = guard(|| match m.apply(&mut ctx.board) {
                    Ok(()) => "ok".into(),
                    Err(e) => format!("ERR {:?}", e).split_whitespace().take(2).collect::<Vec<_>>().join(" "),
                });
                // C12 decision predicate, temporal clause: after a move the en-passant target is set
                // exactly when that move was a double pawn step, and then it is the skipped square
                if r == "ok" {
                    let (f, t) = (idx(m.from_square()), idx(m.to_square()));
                    let double = matches!(m, ChessMove::Standard(_)) && mover.map(|(pc, _)| pc == Piece::Pawn).unwrap_or(false) && (f as i32 - t as i32).abs() == 16;
                    let ept = ctx.board.peek_en_passant_target();
                    let want: Option<usize> = if double { Some((f + t) / 2) } else { None };
                    let got: Option<usize> = if ept.is_empty() { None } else { Some(idx(ept)) };
                    if got != want {
                        let msg = format!(
                            "! C12 after {} the en-passant target is {} but {} [{}]",
                            mv_text(&m),
                            got.map(sqname).unwrap_or_else(|| "empty".to_string()),
                            if double { format!("the pawn has just advanced two squares over {}", sqname((f + t) / 2)) } else { "no pawn has just advanced two squares".to_string() },
                            snap(&ctx.board)
                        );
                        pending_msg = Some(msg);
                    }
                }
                ctx.stack.push(m);
                if let Some(msg) = pending_msg {
                    self.line(&msg);
                }
                r
            }
            "undo" => match ctx.stack.pop() {
                None => "nothing".into(),
                Some(m) => {
                    let r = guard(|| match m.undo(&mut ctx.board) {
                        Ok(()) => "ok".into(),
                        Err(_) => "ERR".into(),
                    });
                    let before = self.saved.pop().unwrap();
                    let after = full_snapshot(&ctx.board);
                    if r == "ok" && before != after {
                        let msg = format!("! C04 undo of {} did not restore the state: before [{}] after [{}]", mv_text(&m), before, after);
                        self.line(&msg);
                    }
                    r
                }
            },
            "count" => guard(|| format!("count {}", ctx.board.count_current_position())),
            "uncount" => guard(|| format!("count {}", ctx.board.uncount_current_position())),
            "snap" => guard(|| snap(&ctx.board)),
            "stacks" => stacks(&ctx.board),
            "bbs" => guard(|| bbs(&ctx.board)),
            "gen" => guard(|| gen(ctx)),
            "genl" => guard(|| genl(ctx)),
            "attl" => {
                // attl <w|b>: the long-lived generator's attacked-squares map for one colour, compared on the
                // spot with a cache-cleared generator's (C02, decided by the harness)
                let c = if toks[1] == "w" { Color::White } else { Color::Black };
                guard(|| {
                    let a = ctx.long.get_attack_targets(&ctx.board, c).0;
                    ctx.fresh.clear_caches_for_verif();
                    let f = ctx.fresh.get_attack_targets(&ctx.board, c).0;
                    if a == f {
                        format!("attl {} {:x}", toks[1], a)
                    } else {
                        format!("attl {} {:x}\n! C02 the long-lived generator reports the squares attacked by {} as {:x}, a new generator as {:x} in [{}]", toks[1], a, if c == Color::White { "white" } else { "black" }, a, f, snap(&ctx.board))
                    }
                })
            }
            "genlx" => {
                // a panic in the middle of a make/unmake pair must not leave the harness's board changed
                let saved = ctx.board.clone();
                let r = guard(|| genlx(ctx));
                if r == "PANIC" {
                    ctx.board = saved;
                }
                r
            }
            "att" => guard(|| att(ctx)),
            "verdict" => {
                let r = guard(|| verdict(ctx, false));
                // C16 decision predicate: the move-count draw is reported exactly when the
                // half-move clock has reached 100 (no repetition involved here)
                let hm = ctx.board.halfmove_clock();
                let seen = ctx.board.max_seen_position_count();
                let mut msgs: Vec<String> = vec![];
                if seen != 3 && r != "PANIC" {
                    let drawn = r.ends_with(" D");
                    if drawn && hm < 100 {
                        msgs.push(format!("! C16 game reported drawn on move count with half-move clock {} (< 100) in [{}]", hm, snap(&ctx.board)));
                    }
                    if !drawn && hm >= 100 {
                        msgs.push(format!("! C16 game not reported drawn with half-move clock {} (>= 100) in [{}]", hm, snap(&ctx.board)));
                    }
                }
                for m in msgs {
                    self.line(&m);
                }
                r
            }
            "verdictl" => guard(|| verdict(ctx, true)),
            "effects" => guard(|| effects(ctx, false)),
            "effectsl" => guard(|| effects(ctx, true)),
            "san" => guard(|| san(ctx)),
            "uci" => guard(|| uci(ctx)),
            "mat" => guard(|| mat(ctx)),
            "score" => {
                let d: u8 = toks[1].parse().unwrap();
                guard(|| score(ctx, d))
            }
            "clearlong" => {
                ctx.long.clear_caches_for_verif();
                "ok".into()
            }
            "key" => {
                // C05 decision predicate, implementation only: equal (placement, rights, ep)
                // must give equal keys; one key must not serve two different positions
                let id = position_id(&ctx.board);
                let k = ctx.board.current_position_hash();
                let mut msgs = vec![];
                if let Some(k0) = self.posmap.get(&id) {
                    if *k0 != k {
                        msgs.push(format!("! C05 same position [{}] has keys {:016x} and {:016x} (history-dependent key)", id, k0, k));
                    }
                } else {
                    self.posmap.insert(id.clone(), k);
                }
                if let Some(id0) = self.keymap.get(&k) {
                    if *id0 != id {
                        msgs.push(format!("! C05 key {:016x} serves two positions [{}] and [{}]", k, id0, id));
                    }
                } else {
                    self.keymap.insert(k, id);
                }
                for m in msgs {
                    self.line(&m);
                }
                format!("key {:016x}", k)
            }
            _ => match crate::special::exec_special(ctx, &mut self.extra, &mut self.hist, &toks) {
                Some(r) => r,
                None => panic!("unknown op {}", op),
            },
        };
        let l = format!("< {}", r);
        self.line(&l);
        r
    }

    pub fn node(&mut self) {
        self.nodes += 1;
        if self.sync {
            let l = format!("sync {}", Pos::of_board(&self.ctx.board).line());
            self.exec(&l);
        }
        let ops = self.node_ops.clone();
        for o in ops.iter() {
            self.exec(o);
        }
        // input distribution
        let b = &self.ctx.board;
        let n = piece_counts(b);
        let phase = if n > 24 { "pieces>24" } else if n > 12 { "pieces13-24" } else { "pieces<=12" };
        let turn = if b.turn() == Color::White { "wtm" } else { "btm" };
        let ep = !b.peek_en_passant_target().is_empty();
        let r = b.peek_castle_rights();
        self.tally(phase);
        self.tally(turn);
        if ep {
            self.tally("ep-target-set");
        }
        if r != 0 {
            self.tally("some-castling-right");
        }
    }

    pub fn legal(&mut self) -> Vec<ChessMove> {
        // generation itself can abort (e.g. an overflowing counter): end the walk there
        match catch_unwind(AssertUnwindSafe(|| gen_fresh(&mut self.ctx))) {
            Ok(v) => v,
            Err(_) => {
                self.line("# move generation panicked while choosing the next move");
                vec![]
            }
        }
    }

    fn kind(&mut self, m: &ChessMove) {
        let k = match m {
            ChessMove::Standard(_) => {
                if m.captures().is_some() {
                    "capture"
                } else {
                    "quiet"
                }
            }
            ChessMove::PawnPromotion(_) => "promotion",
            ChessMove::EnPassant(_) => "en-passant",
            ChessMove::Castle(_) => "castle",
        };
        *self.kinds.entry(k).or_insert(0) += 1;
    }

    pub fn play(&mut self, m: &ChessMove) {
        self.kind(m);
        self.exec(&format!("apply {}", mv_text(m)));
        self.exec("toggle");
    }
    pub fn unplay(&mut self) {
        self.exec("toggle");
        self.exec("undo");
    }

    pub fn tree(&mut self, depth: u32, budget: &mut i64) {
        self.node();
        *budget -= 1;
        if depth == 0 || *budget <= 0 {
            return;
        }
        let ms = self.legal();
        for m in ms.iter() {
            if *budget <= 0 {
                break;
            }
            self.play(m);
            self.tree(depth - 1, budget);
            self.unplay();
        }
    }

    pub fn walk(&mut self, rng: &mut Rng, len: usize, undo_pct: u64) {
        self.node();
        let mut plies = 0;
        while plies < len {
            if !self.ctx.stack.is_empty() && rng.chance(undo_pct, 100) {
                let k = 1 + rng.below(self.ctx.stack.len().min(6));
                for _ in 0..k {
                    self.unplay();
                }
                self.node();
                continue;
            }
            // the domain of the properties and theorems ends where the u8 half-move clock would
            // overflow (155 plies after the engine has declared the game drawn); stop before it
            if self.ctx.board.halfmove_clock() >= 250 {
                self.tally("walks-stopped-at-clock-domain");
                break;
            }
            let ms = self.legal();
            if ms.is_empty() {
                break;
            }
            // bias towards the rarer kinds so that walks exercise them
            let special: Vec<&ChessMove> = ms
                .iter()
                .filter(|m| !matches!(m, ChessMove::Standard(_)) || m.captures().is_some())
                .collect();
            let m = if !special.is_empty() && rng.chance(35, 100) {
                special[rng.below(special.len())].clone()
            } else {
                ms[rng.below(ms.len())].clone()
            };
            self.play(&m);
            self.node();
            plies += 1;
        }
    }

    pub fn finish(&mut self, family: &str) {
        let mut kinds: Vec<_> = self.kinds.iter().map(|(k, v)| format!("{}={}", k, v)).collect();
        kinds.sort();
        let mut dist: Vec<_> = self.dist.iter().map(|(k, v)| format!("{}={}", k, v)).collect();
        dist.sort();
        let l = format!(
            "# stats family={} nodes={} ops={} {} {}",
            family,
            self.nodes,
            self.ops,
            kinds.join(" "),
            dist.join(" ")
        );
        self.line(&l);
        self.out.flush().unwrap();
    }
}

/// every clause of C12's statement, evaluated on the implementation's observables
pub fn invariants(b: &Board) -> Result<(), String> {
    let mut m = [None; 64];
    for i in 0..64 {
        m[i] = b.get(bb(i));
    }
    let mut union = 0u64;
    for c in [Color::White, Color::Black] {
        let ps = b.pieces(c);
        let mut occ = 0u64;
        for p in PIECES {
            let l = ps.locate(p).0;
            if occ & l != 0 {
                return Err(format!("two {} pieces share a square", cchar(c)));
            }
            occ |= l;
            for i in 0..64 {
                if (l >> i) & 1 == 1 && m[i] != Some((p, c)) {
                    return Err(format!("per-piece summary disagrees with square contents on {}", sqname(i)));
                }
            }
        }
        if occ != ps.occupied().0 {
            return Err(format!("per-colour occupancy summary of {} disagrees with its pieces", cchar(c)));
        }
        if union & occ != 0 {
            return Err("a square holds a white and a black piece".into());
        }
        union |= occ;
        if ps.locate(Piece::King).0.count_ones() != 1 {
            return Err(format!("{} has {} kings", cchar(c), ps.locate(Piece::King).0.count_ones()));
        }
        if ps.locate(Piece::Pawn).0 & 0xFF000000000000FF != 0 {
            return Err("pawn on the first or eighth rank".into());
        }
    }
    if union != b.occupied().0 {
        return Err("whole-board occupancy disagrees with contents".into());
    }
    for i in 0..64 {
        if (union >> i) & 1 == 0 && m[i].is_some() {
            return Err("get() sees a piece the summaries do not".into());
        }
    }
    let r = b.peek_castle_rights();
    let chk = |bit: u8, k: usize, rk: usize, c: Color| -> bool { r & bit == 0 || (m[k] == Some((Piece::King, c)) && m[rk] == Some((Piece::Rook, c))) };
    if !(chk(8, 4, 7, Color::White) && chk(2, 4, 0, Color::White) && chk(4, 60, 63, Color::Black) && chk(1, 60, 56, Color::Black)) {
        return Err(format!("castling right held without king and rook at home (rights {})", r));
    }
    let ep = b.peek_en_passant_target().0;
    if ep != 0 {
        if ep.count_ones() != 1 {
            return Err("en-passant target is not a single square".into());
        }
        let i = ep.trailing_zeros() as usize;
        let ok = if i / 8 == 2 {
            m[i + 8] == Some((Piece::Pawn, Color::White)) && m[i].is_none() && m[i - 8].is_none()
        } else if i / 8 == 5 {
            m[i - 8] == Some((Piece::Pawn, Color::Black)) && m[i].is_none() && m[i + 8].is_none()
        } else {
            false
        };
        if !ok {
            return Err(format!("en-passant target {} without a just-advanced pawn in front and empty squares behind", sqname(i)));
        }
    }
    Ok(())
}

// ---- mailbox reference used only to build consistent random set-ups ----
fn attacked(m: &[Option<(Piece, Color)>; 64], sq: usize, c: Color) -> bool {
    let (r, f) = ((sq / 8) as i32, (sq % 8) as i32);
    let at = |r: i32, f: i32| -> Option<(Piece, Color)> {
        if (0..8).contains(&r) && (0..8).contains(&f) {
            m[(r * 8 + f) as usize]
        } else {
            None
        }
    };
    let pr = if c == Color::White { r - 1 } else { r + 1 };
    for df in [-1, 1] {
        if at(pr, f + df) == Some((Piece::Pawn, c)) {
            return true;
        }
    }
    for (dr, df) in [(1, 2), (2, 1), (-1, 2), (-2, 1), (1, -2), (2, -1), (-1, -2), (-2, -1)] {
        if at(r + dr, f + df) == Some((Piece::Knight, c)) {
            return true;
        }
    }
    for (dr, df) in [(1, 0), (-1, 0), (0, 1), (0, -1), (1, 1), (1, -1), (-1, 1), (-1, -1)] {
        if at(r + dr, f + df) == Some((Piece::King, c)) {
            return true;
        }
        let (mut rr, mut ff) = (r + dr, f + df);
        while (0..8).contains(&rr) && (0..8).contains(&ff) {
            if let Some((p, pc)) = at(rr, ff) {
                let diag = dr != 0 && df != 0;
                if pc == c && (p == Piece::Queen || (diag && p == Piece::Bishop) || (!diag && p == Piece::Rook)) {
                    return true;
                }
                break;
            }
            rr += dr;
            ff += df;
        }
    }
    false
}

// ---------------------------------------------------------------- themed set-ups
// Uniformly random set-ups almost never contain the arrangements that the rules make delicate
// (a pin, two pieces lifted off one line by an en-passant capture, an attacked castling square,
// a promotion on a corner).  `themed_setup` builds such an arrangement on purpose, adds random
// filler and then passes through the same consistency filter as `random_setup`.

fn ray_from(sq: usize, dr: i32, df: i32) -> Vec<usize> {
    let (mut r, mut f) = ((sq / 8) as i32 + dr, (sq % 8) as i32 + df);
    let mut v = vec![];
    while (0..8).contains(&r) && (0..8).contains(&f) {
        v.push((r * 8 + f) as usize);
        r += dr;
        f += df;
    }
    v
}

const DIRS8: [(i32, i32); 8] = [(0, 1), (0, -1), (1, 0), (-1, 0), (1, 1), (1, -1), (-1, 1), (-1, -1)];
const KNIGHT_D: [(i32, i32); 8] = [(1, 2), (2, 1), (-1, 2), (-2, 1), (1, -2), (2, -1), (-1, -2), (-2, -1)];

fn put_if_empty(p: &mut Pos, sq: usize, pc: Piece, c: Color) -> bool {
    if p.cells[sq].is_some() || (pc == Piece::Pawn && (sq < 8 || sq >= 56)) {
        return false;
    }
    p.cells[sq] = Some((pc, c));
    true
}

fn slider_for(rng: &mut Rng, dr: i32, df: i32) -> Piece {
    let diag = dr != 0 && df != 0;
    if rng.chance(1, 3) {
        Piece::Queen
    } else if diag {
        Piece::Bishop
    } else {
        Piece::Rook
    }
}

fn random_king_sq(rng: &mut Rng, p: &Pos) -> usize {
    loop {
        let s = rng.below(64);
        if p.cells[s].is_none() {
            return s;
        }
    }
}

/// the common tail of both generators: consistency filter, rights, en-passant target, clocks
fn finish_setup(mut p: Pos, want_ep: Option<usize>, rng: &mut Rng) -> Option<Pos> {
    let kings = |c: Color| (0..64).filter(|&i| p.cells[i] == Some((Piece::King, c))).collect::<Vec<_>>();
    let (wks, bks) = (kings(Color::White), kings(Color::Black));
    if wks.len() != 1 || bks.len() != 1 {
        return None;
    }
    let (wk, bk) = (wks[0], bks[0]);
    let (dr, df) = (((wk / 8) as i32 - (bk / 8) as i32).abs(), ((wk % 8) as i32 - (bk % 8) as i32).abs());
    if dr <= 1 && df <= 1 {
        return None;
    }
    for sq in (0..8).chain(56..64) {
        if let Some((Piece::Pawn, _)) = p.cells[sq] {
            return None;
        }
    }
    for c in [Color::White, Color::Black] {
        let count = |pc: Piece| p.cells.iter().filter(|x| **x == Some((pc, c))).count() as i32;
        let surplus = (count(Piece::Knight) - 2).max(0) + (count(Piece::Bishop) - 2).max(0) + (count(Piece::Rook) - 2).max(0) + (count(Piece::Queen) - 1).max(0);
        if count(Piece::Pawn) + surplus > 8 {
            return None;
        }
    }
    let other = p.turn.opposite();
    let ok = if other == Color::White { wk } else { bk };
    if attacked(&p.cells, ok, p.turn) {
        return None;
    }
    let mut rights = 0u8;
    for (bit, k, r, c) in [(8u8, 4usize, 7usize, Color::White), (2, 4, 0, Color::White), (4, 60, 63, Color::Black), (1, 60, 56, Color::Black)] {
        if p.cells[k] == Some((Piece::King, c)) && p.cells[r] == Some((Piece::Rook, c)) && rng.chance(75, 100) {
            rights |= bit;
        }
    }
    p.rights = rights;
    let mut cands = vec![];
    for f in 0..8 {
        if other == Color::Black {
            let (pawn, mid, orig) = (32 + f, 40 + f, 48 + f);
            if p.cells[pawn] == Some((Piece::Pawn, Color::Black)) && p.cells[mid].is_none() && p.cells[orig].is_none() {
                cands.push(mid);
            }
        } else {
            let (pawn, mid, orig) = (24 + f, 16 + f, 8 + f);
            if p.cells[pawn] == Some((Piece::Pawn, Color::White)) && p.cells[mid].is_none() && p.cells[orig].is_none() {
                cands.push(mid);
            }
        }
    }
    p.ep = None;
    if let Some(t) = want_ep {
        if !cands.contains(&t) {
            return None;
        }
        // the double step must not have been made with the mover's king already attacked through
        // the origin square etc.: any such arrangement is still a consistent set-up (the statement
        // quantifies over set-ups made through the editing API), so nothing more is required
        p.ep = Some(t);
    } else if !cands.is_empty() && rng.chance(60, 100) {
        p.ep = Some(cands[rng.below(cands.len())]);
    }
    p.half = rng.below(40) as u8;
    p.full = 1 + rng.below(80) as u16;
    Some(p)
}

pub fn themed_setup(rng: &mut Rng) -> Pos {
    loop {
        let mut p = Pos::empty();
        let t = if rng.chance(1, 2) { Color::White } else { Color::Black };
        let o = t.opposite();
        p.turn = t;
        let mut want_ep = None;
        let theme = rng.below(10);
        match theme {
            0..=3 => {
                // en passant with a line through the pawns
                let r = if t == Color::White { 4usize } else { 3usize };
                let fc = rng.below(8);
                let fe = if fc == 0 { 1 } else if fc == 7 { 6 } else if rng.chance(1, 2) { fc - 1 } else { fc + 1 };
                let (cap, vic) = (r * 8 + fc, r * 8 + fe);
                let tgt = if t == Color::White { vic + 8 } else { vic - 8 };
                p.cells[cap] = Some((Piece::Pawn, t));
                p.cells[vic] = Some((Piece::Pawn, o));
                want_ep = Some(tgt);
                if rng.chance(1, 3) {
                    // a second capturer on the other side of the victim
                    let f2 = 2 * fe as i32 - fc as i32;
                    if (0..8).contains(&f2) {
                        p.cells[r * 8 + f2 as usize] = Some((Piece::Pawn, t));
                    }
                }
                let sub = rng.below(6);
                // which of the mover's king / an enemy slider stand on a line through `through`
                let through = match sub {
                    0 | 1 => None, // the rank through both pawns
                    2 => Some(vic),
                    3 => Some(cap),
                    4 => Some(tgt),
                    _ => None,
                };
                if sub <= 1 {
                    let (lo, hi) = (fc.min(fe), fc.max(fe));
                    let left: Vec<usize> = (0..lo).collect();
                    let right: Vec<usize> = (hi + 1..8).collect();
                    if !left.is_empty() && !right.is_empty() {
                        let (kf, sf) = (left[rng.below(left.len())], right[rng.below(right.len())]);
                        let (kf, sf) = if rng.chance(1, 2) { (kf, sf) } else { (sf, kf) };
                        p.cells[r * 8 + kf] = Some((Piece::King, t));
                        let pc = if rng.chance(1, 3) { Piece::Queen } else { Piece::Rook };
                        p.cells[r * 8 + sf] = Some((pc, o));
                        if rng.chance(1, 5) {
                            // an extra blocker somewhere on the rank: then the capture is fine
                            let f = rng.below(8);
                            put_if_empty(&mut p, r * 8 + f, Piece::Knight, if rng.chance(1, 2) { t } else { o });
                        }
                    }
                } else if let Some(c) = through {
                    let d = rng.below(8);
                    let (dr, df) = DIRS8[d];
                    if !(sub == 3 && dr == 0) {
                        let a = ray_from(c, dr, df);
                        let b = ray_from(c, -dr, -df);
                        if !a.is_empty() && !b.is_empty() {
                            let (ks, ss) = (a[rng.below(a.len())], b[rng.below(b.len())]);
                            if p.cells[ks].is_none() && p.cells[ss].is_none() {
                                p.cells[ks] = Some((Piece::King, t));
                                p.cells[ss] = Some((slider_for(rng, dr, df), o));
                            }
                        }
                    }
                }
            }
            4 | 5 => {
                // pins and discovered attacks: king, one or two blockers, a slider on one line
                let kc = if rng.chance(3, 4) { t } else { o };
                let k = rng.below(64);
                p.cells[k] = Some((Piece::King, kc));
                let lines = 1 + rng.below(3);
                for _ in 0..lines {
                    let (dr, df) = DIRS8[rng.below(8)];
                    let ray = ray_from(k, dr, df);
                    if ray.len() < 2 {
                        continue;
                    }
                    let si = 1 + rng.below(ray.len() - 1);
                    let nb = if rng.chance(1, 4) { 2 } else { 1 };
                    put_if_empty(&mut p, ray[si], slider_for(rng, dr, df), kc.opposite());
                    for _ in 0..nb {
                        let bi = rng.below(si);
                        let pc = [Piece::Pawn, Piece::Knight, Piece::Bishop, Piece::Rook, Piece::Queen, Piece::Pawn][rng.below(6)];
                        put_if_empty(&mut p, ray[bi], pc, if rng.chance(2, 3) { kc } else { kc.opposite() });
                    }
                }
            }
            6 => {
                // the mover is in check, by one or two pieces
                let k = rng.below(64);
                p.cells[k] = Some((Piece::King, t));
                for _ in 0..(1 + rng.below(2)) {
                    if rng.chance(1, 3) {
                        let (dr, df) = KNIGHT_D[rng.below(8)];
                        let (r, f) = ((k / 8) as i32 + dr, (k % 8) as i32 + df);
                        if (0..8).contains(&r) && (0..8).contains(&f) {
                            put_if_empty(&mut p, (r * 8 + f) as usize, Piece::Knight, o);
                        }
                    } else {
                        let (dr, df) = DIRS8[rng.below(8)];
                        let ray = ray_from(k, dr, df);
                        if !ray.is_empty() {
                            let sq = ray[rng.below(ray.len())];
                            put_if_empty(&mut p, sq, slider_for(rng, dr, df), o);
                        }
                    }
                }
            }
            7 | 8 => {
                // castling: kings and rooks at home, enemy pieces bearing on the back rank
                p.cells[4] = Some((Piece::King, Color::White));
                p.cells[60] = Some((Piece::King, Color::Black));
                for (sq, c) in [(0, Color::White), (7, Color::White), (56, Color::Black), (63, Color::Black)] {
                    if rng.chance(85, 100) {
                        p.cells[sq] = Some((Piece::Rook, c));
                    } else if rng.chance(1, 2) {
                        p.cells[sq] = Some((Piece::Rook, c.opposite())); // a captured-and-replaced corner
                    }
                }
                let base = if t == Color::White { 0usize } else { 56usize };
                for _ in 0..(1 + rng.below(3)) {
                    let target = base + 1 + rng.below(6);
                    if rng.chance(1, 4) {
                        let (dr, df) = KNIGHT_D[rng.below(8)];
                        let (r, f) = ((target / 8) as i32 + dr, (target % 8) as i32 + df);
                        if (0..8).contains(&r) && (0..8).contains(&f) {
                            put_if_empty(&mut p, (r * 8 + f) as usize, Piece::Knight, o);
                        }
                    } else if rng.chance(1, 5) {
                        // a pawn attacking the square
                        let r = if t == Color::White { 1i32 } else { 6i32 };
                        let f = (target % 8) as i32 + if rng.chance(1, 2) { 1 } else { -1 };
                        if (0..8).contains(&f) {
                            put_if_empty(&mut p, (r * 8 + f) as usize, Piece::Pawn, o);
                        }
                    } else {
                        let (dr, df) = DIRS8[2 + rng.below(6)];
                        let ray = ray_from(target, dr, df);
                        if !ray.is_empty() {
                            let sq = ray[rng.below(ray.len())];
                            put_if_empty(&mut p, sq, slider_for(rng, dr, df), o);
                        }
                    }
                }
                if rng.chance(1, 3) {
                    let sq = base + 1 + rng.below(6);
                    let pc = [Piece::Knight, Piece::Bishop, Piece::Queen][rng.below(3)];
                    put_if_empty(&mut p, sq, pc, if rng.chance(1, 2) { t } else { o });
                }
                if rng.chance(1, 2) {
                    // the opponent has just made a double pawn step: castling must clear that target
                    let f = rng.below(8);
                    let (pawn, mid) = if o == Color::Black { (32 + f, 40 + f) } else { (24 + f, 16 + f) };
                    let orig = if o == Color::Black { 48 + f } else { 8 + f };
                    if p.cells[pawn].is_none() && p.cells[mid].is_none() && p.cells[orig].is_none() {
                        p.cells[pawn] = Some((Piece::Pawn, o));
                        want_ep = Some(mid);
                    }
                }
            }
            _ => {
                // promotions: the mover's pawns one step from the last rank, enemy pieces on it
                let (r7, r8) = if t == Color::White { (6usize, 7usize) } else { (1usize, 0usize) };
                if rng.chance(1, 2) {
                    p.cells[if o == Color::White { 4 } else { 60 }] = Some((Piece::King, o));
                    for sq in if o == Color::White { [0usize, 7] } else { [56usize, 63] } {
                        if rng.chance(3, 4) {
                            p.cells[sq] = Some((Piece::Rook, o));
                        }
                    }
                }
                for _ in 0..(1 + rng.below(3)) {
                    let f = [0usize, 1, 6, 7, rng.below(8), rng.below(8)][rng.below(6)];
                    put_if_empty(&mut p, r7 * 8 + f, Piece::Pawn, t);
                    for g in [f as i32 - 1, f as i32, f as i32 + 1] {
                        if (0..8).contains(&g) && rng.chance(1, 2) {
                            let pc = [Piece::Rook, Piece::Knight, Piece::Bishop, Piece::Queen][rng.below(4)];
                            put_if_empty(&mut p, r8 * 8 + g as usize, pc, o);
                        }
                    }
                }
            }
        }
        // kings that the theme did not place
        for c in [Color::White, Color::Black] {
            if !p.cells.iter().any(|x| *x == Some((Piece::King, c))) {
                let s = random_king_sq(rng, &p);
                p.cells[s] = Some((Piece::King, c));
            }
        }
        // filler
        let n = rng.below(9);
        for _ in 0..n {
            let sq = rng.below(64);
            let c = if rng.chance(1, 2) { Color::White } else { Color::Black };
            let pc = [Piece::Pawn, Piece::Pawn, Piece::Knight, Piece::Bishop, Piece::Rook, Piece::Queen][rng.below(6)];
            put_if_empty(&mut p, sq, pc, c);
        }
        if let Some(q) = finish_setup(p, want_ep, rng) {
            return q;
        }
    }
}

/// a random consistent set-up: one king each, no pawn on ranks 1/8, side not to move not
/// in check, rights only with king and rook at home, ep target only behind a pawn that
/// may just have made a double step
pub fn random_setup(rng: &mut Rng) -> Pos {
    loop {
        let mut p = Pos::empty();
        let wk = rng.below(64);
        let mut bk = rng.below(64);
        // favour home squares so that castling rights occur
        let (wk, bkh) = if rng.chance(40, 100) { (4, 60) } else { (wk, bk) };
        bk = bkh;
        if wk == bk {
            continue;
        }
        let (dr, df) = (((wk / 8) as i32 - (bk / 8) as i32).abs(), ((wk % 8) as i32 - (bk % 8) as i32).abs());
        if dr <= 1 && df <= 1 {
            continue;
        }
        p.cells[wk] = Some((Piece::King, Color::White));
        p.cells[bk] = Some((Piece::King, Color::Black));
        let n = rng.below(26);
        let heavy = rng.chance(15, 100); // material-extreme set-ups (many queens)
        for _ in 0..n {
            let sq = rng.below(64);
            if p.cells[sq].is_some() {
                continue;
            }
            let c = if rng.chance(1, 2) { Color::White } else { Color::Black };
            let piece = if heavy {
                [Piece::Queen, Piece::Queen, Piece::Rook, Piece::Knight, Piece::Pawn][rng.below(5)]
            } else {
                [Piece::Pawn, Piece::Pawn, Piece::Pawn, Piece::Knight, Piece::Bishop, Piece::Rook, Piece::Queen, Piece::Rook, Piece::Knight][rng.below(9)]
            };
            if piece == Piece::Pawn && (sq < 8 || sq >= 56) {
                continue;
            }
            p.cells[sq] = Some((piece, c));
        }
        // rooks at home more often when the king is
        for (k, r1, r2, c) in [(4usize, 0usize, 7usize, Color::White), (60, 56, 63, Color::Black)] {
            if p.cells[k] == Some((Piece::King, c)) {
                for r in [r1, r2] {
                    if rng.chance(60, 100) && !matches!(p.cells[r], Some((Piece::King, _))) {
                        p.cells[r] = Some((Piece::Rook, c));
                    }
                }
            }
        }
        // legal material only (what a game can produce: promoted surplus + pawns <= 8 per side,
        // which admits nine queens) - the domain of the properties and of the theorems
        let mut legal = true;
        for c in [Color::White, Color::Black] {
            let count = |pc: Piece| p.cells.iter().filter(|x| **x == Some((pc, c))).count() as i32;
            let surplus = (count(Piece::Knight) - 2).max(0) + (count(Piece::Bishop) - 2).max(0) + (count(Piece::Rook) - 2).max(0) + (count(Piece::Queen) - 1).max(0);
            if count(Piece::Pawn) + surplus > 8 {
                legal = false;
            }
        }
        if !legal {
            continue;
        }
        p.turn = if rng.chance(1, 2) { Color::White } else { Color::Black };
        let other = p.turn.opposite();
        let ok = if other == Color::White { wk } else { bk };
        if attacked(&p.cells, ok, p.turn) {
            continue;
        }
        let mut rights = 0u8;
        for (bit, k, r, c) in [(8u8, 4usize, 7usize, Color::White), (2, 4, 0, Color::White), (4, 60, 63, Color::Black), (1, 60, 56, Color::Black)] {
            if p.cells[k] == Some((Piece::King, c)) && p.cells[r] == Some((Piece::Rook, c)) && rng.chance(70, 100) {
                rights |= bit;
            }
        }
        p.rights = rights;
        // en-passant target: the side that just moved is `other`
        let mut cands = vec![];
        for f in 0..8 {
            if other == Color::Black {
                let (pawn, mid, orig) = (32 + f, 40 + f, 48 + f);
                if p.cells[pawn] == Some((Piece::Pawn, Color::Black)) && p.cells[mid].is_none() && p.cells[orig].is_none() {
                    cands.push(mid);
                }
            } else {
                let (pawn, mid, orig) = (24 + f, 16 + f, 8 + f);
                if p.cells[pawn] == Some((Piece::Pawn, Color::White)) && p.cells[mid].is_none() && p.cells[orig].is_none() {
                    cands.push(mid);
                }
            }
        }
        if !cands.is_empty() && rng.chance(60, 100) {
            p.ep = Some(cands[rng.below(cands.len())]);
        }
        p.half = rng.below(40) as u8;
        p.full = 1 + rng.below(80) as u16;
        return p;
    }
}

fn corpus_subset(kv: &Args) -> Vec<(String, Pos)> {
    let all = load_corpus(&kv.get("corpus", "/verif/corpus/positions.txt"));
    // every corpus position must be a consistent set-up (the domain of the properties)
    for (name, p) in all.iter() {
        let b = p.setup();
        if let Err(e) = invariants(&b) {
            eprintln!("corpus position {} is not consistent: {}", name, e);
            std::process::exit(3);
        }
        let other = p.turn.opposite();
        let k = (0..64).find(|&i| p.cells[i] == Some((Piece::King, other))).unwrap();
        if attacked(&p.cells, k, p.turn) {
            eprintln!("corpus position {}: the side not to move is in check", name);
            std::process::exit(3);
        }
    }
    let names = kv.get("names", "");
    if names.is_empty() {
        return all;
    }
    let want: Vec<&str> = names.split(',').collect();
    all.into_iter().filter(|(n, _)| want.iter().any(|w| n.starts_with(w))).collect()
}

/// random board-editing histories (C05): put/remove/rights/ep pushes and pops, moves, undos
fn history(e: &mut Exec, rng: &mut Rng, len: usize) {
    e.exec("new");
    e.exec("key");
    let mut ep_depth = 0usize;
    let mut cr_depth = 0usize;
    for _ in 0..len {
        let pick = rng.below(100);
        if pick < 35 {
            let sq = rng.below(64);
            let (p, c) = (PIECES[rng.below(6)], if rng.chance(1, 2) { Color::White } else { Color::Black });
            e.exec(&format!("put {} {}", sqname(sq), pchar(p, c)));
        } else if pick < 55 {
            let occ: Vec<usize> = (0..64).filter(|&i| e.ctx.board.get(bb(i)).is_some()).collect();
            let sq = if !occ.is_empty() && rng.chance(4, 5) { occ[rng.below(occ.len())] } else { rng.below(64) };
            e.exec(&format!("remove {}", sqname(sq)));
        } else if pick < 65 {
            e.exec(&format!("lose {}", rng.below(16)));
            cr_depth += 1;
        } else if pick < 72 {
            if cr_depth > 0 {
                e.exec("poprights");
                cr_depth -= 1;
            }
        } else if pick < 84 {
            let t = if rng.chance(1, 4) { "-".to_string() } else { sqname(rng.below(64)) };
            e.exec(&format!("pushep {}", t));
            ep_depth += 1;
        } else if pick < 92 {
            if ep_depth > 0 {
                e.exec("popep");
                ep_depth -= 1;
            }
        } else {
            e.exec("toggle");
        }
        e.exec("snap");
        e.exec("key");
    }
}

/// transposition families that reach one position through different histories (C05/C02)
fn transpositions(e: &mut Exec, rng: &mut Rng, rounds: usize) {
    let start = Pos::from_fen("rnbqkbnr/pppppppp/8/8/8/8/PPPPPPPP/RNBQKBNR w KQkq - 0 1");
    for _ in 0..rounds {
        // play a random legal line, then replay a random permutation-compatible reordering:
        // white's and black's moves of the line shuffled independently, kept if legal
        e.exec(&format!("pos {}", start.line()));
        let mut line: Vec<ChessMove> = vec![];
        let n = 4 + 2 * rng.below(3);
        for _ in 0..n {
            let ms = e.legal();
            let quiet: Vec<&ChessMove> = ms.iter().filter(|m| m.captures().is_none()).collect();
            if quiet.is_empty() {
                break;
            }
            let m = quiet[rng.below(quiet.len())].clone();
            e.play(&m);
            line.push(m);
            e.node();
        }
        if line.len() < 4 {
            continue;
        }
        for _ in 0..3 {
            let mut w: Vec<ChessMove> = line.iter().step_by(2).cloned().collect();
            let mut b: Vec<ChessMove> = line.iter().skip(1).step_by(2).cloned().collect();
            for v in [&mut w, &mut b] {
                for i in (1..v.len()).rev() {
                    let j = rng.below(i + 1);
                    v.swap(i, j);
                }
            }
            e.exec(&format!("pos {}", start.line()));
            let mut ok = true;
            for i in 0..line.len() {
                let m = if i % 2 == 0 { w[i / 2].clone() } else { b[i / 2].clone() };
                let ms = e.legal();
                if !ms.iter().any(|x| mv_text(x) == mv_text(&m)) {
                    ok = false;
                    break;
                }
                e.play(&m);
                e.node();
            }
            if ok {
                e.tally("transposition-pairs");
            }
        }
    }
}

/// move-order families reaching one placement with and without an en-passant possibility
/// (the double step made last vs. earlier), for white and for black capturers
fn epfamilies(e: &mut Exec) {
    let start = Pos::from_fen("rnbqkbnr/pppppppp/8/8/8/8/PPPPPPPP/RNBQKBNR w KQkq - 0 1");
    let f = |c: u8| (b'a' + c) as char;
    let mut fams: Vec<(Vec<String>, Vec<String>)> = vec![];
    for file in 0..8u8 {
        for adj in [file.wrapping_sub(1), file + 1] {
            if adj > 7 {
                continue;
            }
            let spare = (0..8u8).find(|s| *s != file && *s != adj && (*s as i32 - file as i32).abs() > 1 && (*s as i32 - adj as i32).abs() > 1).unwrap();
            let spare2 = (0..8u8).rev().find(|s| *s != file && *s != adj && *s != spare && (*s as i32 - file as i32).abs() > 1 && (*s as i32 - adj as i32).abs() > 1).unwrap();
            // white capturer on `file`, black double step on `adj`
            let with_ep = vec![format!("{}2{}4", f(file), f(file)), format!("{}7{}6", f(spare), f(spare)), format!("{}4{}5", f(file), f(file)), format!("{}7{}5", f(adj), f(adj))];
            let without = vec![format!("{}2{}4", f(file), f(file)), format!("{}7{}5", f(adj), f(adj)), format!("{}4{}5", f(file), f(file)), format!("{}7{}6", f(spare), f(spare))];
            fams.push((with_ep, without));
            // black capturer on `file`, white double step on `adj`
            let with_ep = vec![format!("{}2{}3", f(spare), f(spare)), format!("{}7{}5", f(file), f(file)), format!("{}2{}3", f(spare2), f(spare2)), format!("{}5{}4", f(file), f(file)), format!("{}2{}4", f(adj), f(adj))];
            let without = vec![format!("{}2{}4", f(adj), f(adj)), format!("{}7{}5", f(file), f(file)), format!("{}2{}3", f(spare), f(spare)), format!("{}5{}4", f(file), f(file)), format!("{}2{}3", f(spare2), f(spare2))];
            fams.push((with_ep, without));
        }
    }
    // a capturer between two pawns that double-step in either order: the two final positions differ
    // ONLY in the file of the en-passant target (and in which capture is legal)
    for file in 1..7u8 {
        let (l, r) = (file - 1, file + 1);
        let spare = (0..8u8).find(|s| (*s as i32 - file as i32).abs() > 2).unwrap();
        // black capturer walks to rank 4 while white waits; then white double-steps l then r / r then l
        let pre = vec![format!("{}2{}3", f(spare), f(spare)), format!("{}7{}5", f(file), f(file)), format!("{}3{}4", f(spare), f(spare)), format!("{}5{}4", f(file), f(file))];
        let wait_b = format!("{}7{}6", f(spare), f(spare));
        let mut a = pre.clone();
        a.extend(vec![format!("{}2{}4", f(l), f(l)), wait_b.clone(), format!("{}2{}4", f(r), f(r))]);
        let mut b = pre.clone();
        b.extend(vec![format!("{}2{}4", f(r), f(r)), wait_b.clone(), format!("{}2{}4", f(l), f(l))]);
        fams.push((a, b));
        // white capturer on rank 5, black double-steps on both sides
        let pre = vec![format!("{}2{}4", f(file), f(file)), format!("{}7{}6", f(spare), f(spare)), format!("{}4{}5", f(file), f(file))];
        let wait_w = format!("{}2{}3", f(spare), f(spare));
        let mut a = pre.clone();
        a.extend(vec![format!("{}7{}5", f(l), f(l)), wait_w.clone(), format!("{}7{}5", f(r), f(r))]);
        let mut b = pre.clone();
        b.extend(vec![format!("{}7{}5", f(r), f(r)), wait_w.clone(), format!("{}7{}5", f(l), f(l))]);
        fams.push((a, b));
    }
    for (k, (a, b)) in fams.iter().enumerate() {
        let order: [&Vec<String>; 2] = if k % 2 == 0 { [a, b] } else { [b, a] };
        for line in order {
            e.exec(&format!("pos {}", start.line()));
            e.node();
            let mut ok = true;
            for mv in line.iter() {
                let ms = e.legal();
                let (from, to) = (parse_sq(&mv[0..2]), parse_sq(&mv[2..4]));
                match ms.iter().find(|m| idx(m.from_square()) == from && idx(m.to_square()) == to) {
                    Some(m) => {
                        let m = m.clone();
                        e.play(&m);
                        e.node();
                    }
                    None => {
                        ok = false;
                        break;
                    }
                }
            }
            if ok {
                e.tally("ep-order-family-lines");
            }
        }
    }
}

type FullPos = (String, char, u8, String);
fn full_pos(b: &Board) -> FullPos {
    let p = Pos::of_board(b);
    let cells: String = p.cells.iter().map(|c| match c { Some((p, c)) => pchar(*p, *c), None => '.' }).collect();
    (cells, cchar(p.turn), p.rights, p.ep.map(sqname).unwrap_or_else(|| "-".into()))
}

/// C17: shuffling games in which every position is registered as it arises; the count
/// returned is compared with a reference multiset of (placement, side, rights, ep)
fn repetition(e: &mut Exec, rng: &mut Rng, len: usize, undo_pct: u64) {
    let mut reference: HashMap<FullPos, u32> = HashMap::new();
    let mut trail: Vec<FullPos> = vec![];
    // the counts reported at each registration still on the trail: the top is what the board must
    // report as the current occurrence count (max_seen_position_count), also after take-backs
    let mut reported: Vec<u32> = vec![];
    let reg = |e: &mut Exec, reference: &mut HashMap<FullPos, u32>, trail: &mut Vec<FullPos>, reported: &mut Vec<u32>| {
        let fp = full_pos(&e.ctx.board);
        let want = {
            let c = reference.entry(fp.clone()).or_insert(0);
            *c += 1;
            *c
        };
        trail.push(fp.clone());
        reported.push(want);
        let r = e.exec("count");
        if r != format!("count {}", want) {
            let msg = format!("! C17 registering [{} {} {} {}] returned [{}] but it has now been registered {} time(s)", fp.0, fp.1, fp.2, fp.3, r, want);
            e.line(&msg);
        }
        if want == 3 {
            e.tally("third-occurrence");
            let v = e.exec("verdict");
            if !v.ends_with(" D") && v != "PANIC" {
                let msg = format!("! C17 third occurrence of [{} {} {} {}] not reported as drawn: [{}]", fp.0, fp.1, fp.2, fp.3, v);
                e.line(&msg);
            }
        } else if want >= 2 {
            e.tally("second-occurrence");
        }
    };
    reg(e, &mut reference, &mut trail, &mut reported);
    let mut last_own: [Option<(usize, usize)>; 2] = [None, None];
    let mut plies = 0;
    while plies < len {
        if e.ctx.stack.len() > 0 && rng.chance(undo_pct, 100) {
            // unregister, then take the move back
            let fp = trail.pop().unwrap();
            let want = {
                let c = reference.get_mut(&fp).unwrap();
                *c -= 1;
                *c
            };
            let r = e.exec("uncount");
            if r != format!("count {}", want) {
                let msg = format!("! C17 unregistering [{} {} {} {}] returned [{}], expected {}", fp.0, fp.1, fp.2, fp.3, r, want);
                e.line(&msg);
            }
            e.unplay();
            // unregistering is the exact inverse: the board reports again the count it reported when
            // the position now current was registered
            reported.pop();
            let sn = e.exec("snap");
            if let (Some(top), Some(seen)) = (reported.last(), sn.split_whitespace().last()) {
                if sn != "PANIC" && seen != top.to_string() {
                    let msg = format!("! C17 after unregistering and taking back, the board reports occurrence count {} where it reported {} when this position was registered [{}]", seen, top, sn);
                    e.line(&msg);
                }
            }
            e.tally("take-backs");
            continue;
        }
        let ms = e.legal();
        if ms.is_empty() {
            break;
        }
        let side = if e.ctx.board.turn() == Color::White { 0 } else { 1 };
        // prefer reversible shuffles; often take the previous own move back
        let quiet: Vec<&ChessMove> = ms.iter().filter(|m| matches!(m, ChessMove::Standard(_)) && m.captures().is_none() && e.ctx.board.get(m.from_square()).map(|(p, _)| p != Piece::Pawn).unwrap_or(false)).collect();
        let back: Option<&ChessMove> = last_own[side].and_then(|(f, t)| quiet.iter().find(|m| idx(m.from_square()) == t && idx(m.to_square()) == f).copied());
        let m = if back.is_some() && rng.chance(60, 100) {
            back.unwrap().clone()
        } else if !quiet.is_empty() && rng.chance(85, 100) {
            quiet[rng.below(quiet.len())].clone()
        } else {
            ms[rng.below(ms.len())].clone()
        };
        last_own[side] = Some((idx(m.from_square()), idx(m.to_square())));
        e.play(&m);
        reg(e, &mut reference, &mut trail, &mut reported);
        plies += 1;
    }
}

/// C17, second sentence: a game played through the Game API in which a position occurs for
/// the third time must be reported as drawn by Game::check_game_over_for_current_turn
fn api_repetition(e: &mut Exec, rng: &mut Rng, games: usize) {
    let dances: [[&str; 4]; 3] = [["g1f3", "g8f6", "f3g1", "f6g8"], ["b1c3", "b8c6", "c3b1", "c6b8"], ["g1h3", "b8a6", "h3g1", "a6b8"]];
    for gi in 0..games {
        e.exec("gnew 1");
        // a few developing plies first (not for game 0: the plain knight dance)
        if gi > 0 {
            for mv in [["e2e4", "e7e5"], ["d2d4", "d7d5"], ["a2a3", "h7h6"]][gi % 3] {
                e.exec(&format!("gcoord {} {}", &mv[0..2], &mv[2..4]));
                e.exec("gtoggle");
            }
        }
        let mut seen: HashMap<FullPos, u32> = HashMap::new();
        let fp0 = full_pos(e.extra.game.as_ref().unwrap().board());
        seen.insert(fp0, 1);
        let dance = dances[rng.below(dances.len())];
        'game: for _round in 0..3 {
            for mv in dance.iter() {
                let r = e.exec(&format!("gcoord {} {}", &mv[0..2], &mv[2..4]));
                if !r.contains(" Ok") {
                    break 'game;
                }
                e.exec("gtoggle");
                let fp = full_pos(e.extra.game.as_ref().unwrap().board());
                let n = {
                    let c = seen.entry(fp.clone()).or_insert(0);
                    *c += 1;
                    *c
                };
                let over = e.exec("gover");
                if n >= 3 {
                    e.tally("api-third-occurrence");
                    if !over.ends_with(" D") {
                        let msg = format!("! C17 game API: the position [{} {} {} {}] has occurred {} times in a game played through Game::apply_chess_move_by_from_to_coordinates but check_game_over_for_current_turn answers [{}] (Game never registers positions)", fp.0, fp.1, fp.2, fp.3, n, over);
                        e.line(&msg);
                    }
                    break 'game;
                }
            }
        }
    }
}

fn parse_search_move(r: &str) -> Option<ChessMove> {
    // "search Ok <score> <move>"
    let t: Vec<&str> = r.split_whitespace().collect();
    if t.len() >= 4 && t[1] == "Ok" {
        Some(parse_mv(t[3]))
    } else {
        None
    }
}

/// C07 / C08: searches at several depths and pool sizes, fresh contexts and a context
/// reused along a game
fn searches(e: &mut Exec, rng: &mut Rng, kv: &Args, positions: &[(String, Pos)]) {
    let depths: Vec<u8> = kv.get("depths", "0,1,2").split(',').map(|d| d.parse().unwrap()).collect();
    let pools: Vec<usize> = kv.get("pools", "1,4").split(',').map(|d| d.parse().unwrap()).collect();
    let game_plies = kv.num("game", 0) as usize;
    for (name, p) in positions {
        e.line(&format!("# search position {}", name));
        e.exec(&format!("pos {}", p.line()));
        let sop = if kv.num("selfmm", 0) == 1 { "searchx" } else { "search" };
        for d in depths.iter() {
            let n = pools[rng.below(pools.len())];
            e.exec(&format!("sctx {}", d));
            e.exec(&format!("{} {}", sop, n));
            e.exec("snap");
        }
        if kv.num("sides", 0) == 1 {
            // one context asked about the same placement with either side to move (a game that loses a tempo)
            let d = *depths.iter().max().unwrap();
            let mut q = p.clone();
            q.ep = None;
            q.turn = p.turn.opposite();
            // only when the flipped position is consistent: the side that would not be to move is not in check
            let kq = (0..64).find(|&i| q.cells[i] == Some((Piece::King, q.turn.opposite())));
            if kq.map(|k| !attacked(&q.cells, k, q.turn)).unwrap_or(false) {
                e.exec(&format!("sctx {}", d));
                let mut first = p.clone();
                first.ep = None;
                for pos in [&first, &q, &first] {
                    e.exec(&format!("pos {}", pos.line()));
                    let n = pools[rng.below(pools.len())];
                    e.exec(&format!("search {}", n));
                    e.exec("snap");
                    e.tally("searches-same-context-other-side");
                }
                e.exec(&format!("pos {}", p.line()));
            }
        }
        if kv.num("clocks", 0) == 1 {
            // one context reused for the same placement at different half-move clocks (a game that
            // shuffles back into a position it has searched before, closer to the move-count draw)
            let d = *depths.iter().max().unwrap();
            e.exec(&format!("sctx {}", d));
            let mut q = p.clone();
            let mut hs: Vec<u8> = vec![rng.below(60) as u8, (100 - d as usize + rng.below(d as usize + 1)).min(99) as u8, 99, (96 + rng.below(4)) as u8, rng.below(90) as u8, 100, (101 + rng.below(60)) as u8];
            if rng.chance(1, 2) {
                hs.reverse();
            }
            for h in hs {
                q.half = h;
                e.exec(&format!("pos {}", q.line()));
                let n = pools[rng.below(pools.len())];
                e.exec(&format!("search {}", n));
                e.tally("searches-same-context-other-clock");
            }
            e.exec(&format!("pos {}", p.line()));
            // a position the caller has registered three times still has its legal moves
            for _ in 0..3 {
                e.exec("count");
            }
            let n = pools[rng.below(pools.len())];
            e.exec(&format!("sctx {}", d));
            e.exec(&format!("search {}", n));
            e.exec("snap");
            for _ in 0..3 {
                e.exec("uncount");
            }
            e.tally("searches-after-third-registration");
        }
        if game_plies > 0 {
            // one context reused across the successive searches of a game
            let d = *depths.iter().max().unwrap();
            e.exec(&format!("sctx {}", d));
            for _ in 0..game_plies {
                let n = pools[rng.below(pools.len())];
                let r = e.exec(&format!("{} {}", sop, n));
                match parse_search_move(&r) {
                    Some(m) => e.play(&m),
                    None => break,
                }
            }
        }
    }
}

/// C09: the same search under many pool sizes and perturbed schedules, fresh cache and a cache
/// pre-filled by an earlier search; all answers must coincide, and no cache key may ever
/// receive two different values
fn schedules(e: &mut Exec, rng: &mut Rng, kv: &Args, positions: &[(String, Pos)]) {
    let depths: Vec<u8> = kv.get("depths", "2,3").split(',').map(|d| d.parse().unwrap()).collect();
    let pools: Vec<usize> = kv.get("pools", "1,2,3,4,8,16,64").split(',').map(|d| d.parse().unwrap()).collect();
    let per = kv.num("per", 6) as usize;
    for (name, p) in positions {
        e.line(&format!("# schedules for {}", name));
        e.exec(&format!("pos {}", p.line()));
        for d in depths.iter() {
            let mut answers: Vec<(String, String)> = vec![];
            for k in 0..per {
                // the two extremes always (one worker; many more workers than root moves), the rest at random
                let n = if k == 0 { 1 } else if k == 1 { *pools.iter().max().unwrap() } else { pools[rng.below(pools.len())] };
                let mode = if k <= 1 { 0 } else { 1 + rng.below(3) };
                let seed = rng.next() % 1_000_000;
                // fresh context each time, except every third run which reuses the previous one
                if k % 3 != 2 {
                    e.exec(&format!("sctx {}", d));
                }
                let op = format!("sched {} {} {}", n, seed, mode);
                let r = e.exec(&op);
                let (ev, wr) = e.extra.last_sched_stats;
                *e.dist.entry("cache-events".into()).or_insert(0) += ev;
                *e.dist.entry("cache-writes".into()).or_insert(0) += wr;
                e.tally(&format!("pool-{}", n));
                e.tally(&format!("mode-{}", mode));
                if r.contains("CONFLICT[") {
                    let msg = format!("! {} a shared-cache key received two different values under `{}` at depth {} in [{}]: {}", kv.get("pid", "C09"), op, d, p.line(), r);
                    e.line(&msg);
                }
                if r.contains("PANIC") {
                    let msg = format!("! C09 the search panicked under `{}` at depth {} in [{}]", op, d, p.line());
                    e.line(&msg);
                }
                answers.push((op, r.split(" CONFLICT[").next().unwrap().to_string()));
            }
            for (op, a) in answers.iter().skip(1) {
                if *a != answers[0].1 {
                    let msg = format!("! {} schedules disagree at depth {} in [{}]: `{}` gives [{}] but `{}` gives [{}]", kv.get("pid", "C09"), d, p.line(), answers[0].0, answers[0].1, op, a);
                    e.line(&msg);
                    break;
                }
            }
        }
    }
}

/// positions that are revisited after an en-passant (or castling) opportunity has expired:
/// from a position with an en-passant target, both sides shuffle a piece out and back, which
/// restores the placement without the target.  With a long-lived generator / search context the
/// second visit must not be served the first visit's answers (C02, C07, C06 cached variants).
fn revisits(e: &mut Exec, rng: &mut Rng, kv: &Args, positions: &[(String, Pos)]) {
    let node_ops = e.node_ops.clone();
    let searching = kv.num("search", 0) == 1;
    let mut done = 0;
    for (name, p) in positions {
        e.line(&format!("# revisit {}", name));
        e.exec(&format!("pos {}", p.line()));
        if p.ep.is_none() {
            // create an en-passant opportunity: a double step after which the opponent may capture en passant
            let ms = e.legal();
            let mut found = false;
            for m in ms.iter() {
                let (f, t) = (idx(m.from_square()), idx(m.to_square()));
                let is_pawn = e.ctx.board.get(m.from_square()).map(|(pc, _)| pc == Piece::Pawn).unwrap_or(false);
                if !is_pawn || (f as i32 - t as i32).abs() != 16 {
                    continue;
                }
                e.play(m);
                let replies = e.legal();
                if replies.iter().any(|r| matches!(r, ChessMove::EnPassant(_))) {
                    found = true;
                    break;
                }
                e.unplay();
            }
            if !found {
                continue;
            }
            e.tally("ep-opportunity-created");
        }
        if searching {
            e.exec("sctx 1");
            e.exec("search 1 long");
        }
        for o in node_ops.iter() {
            e.exec(o);
        }
        // a reversible non-pawn quiet move for each side, out and back
        let mut played = 0;
        let mut outs: Vec<ChessMove> = vec![];
        for ply in 0..4 {
            let ms = e.legal();
            let pick = if ply < 2 {
                let quiet: Vec<&ChessMove> = ms.iter().filter(|m| matches!(m, ChessMove::Standard(_)) && m.captures().is_none()
                    && e.ctx.board.get(m.from_square()).map(|(pc, _)| pc != Piece::Pawn && pc != Piece::King && pc != Piece::Rook).unwrap_or(false)).collect();
                let kings: Vec<&ChessMove> = ms.iter().filter(|m| matches!(m, ChessMove::Standard(_)) && m.captures().is_none()
                    && e.ctx.board.get(m.from_square()).map(|(pc, _)| pc == Piece::King).unwrap_or(false)).collect();
                // prefer pieces that keep castling rights; fall back to the king when the position holds none
                if !quiet.is_empty() { Some(quiet[rng.below(quiet.len())].clone()) }
                else if !kings.is_empty() && p.rights == 0 { Some(kings[rng.below(kings.len())].clone()) }
                else { None }
            } else {
                let out = &outs[ply - 2];
                ms.iter().find(|m| m.from_square() == out.to_square() && m.to_square() == out.from_square() && m.captures().is_none()).cloned()
            };
            match pick {
                Some(m) => {
                    if ply < 2 {
                        outs.push(m.clone());
                    }
                    e.play(&m);
                    played += 1;
                }
                None => break,
            }
        }
        if played == 4 {
            e.tally("revisited-after-expiry");
            if searching {
                e.exec("search 1 long");
            }
            for o in node_ops.iter() {
                e.exec(o);
            }
            done += 1;
        }
    }
    let _ = done;
}

/// positions met along random walks (reachable, varied)
/// C02/C05: the same placement met again with fewer castling rights.  Kings and home rooks step
/// out and back, repeatedly (a king that has returned leaves again, a right already gone is
/// "lost" once more), with the node operations (long-lived generator, key, snapshots) at every ply.
fn rights_revisits(e: &mut Exec, rng: &mut Rng, kv: &Args, positions: &[(String, Pos)]) {
    let node_ops = e.node_ops.clone();
    let rounds = kv.num("rounds", 3) as usize;
    let setups = kv.num("setups", 0) as usize;
    let mut all: Vec<(String, Pos)> = positions.iter().filter(|(_, p)| p.rights != 0).cloned().collect();
    let mut tries = 0;
    while all.len() < positions.iter().filter(|(_, p)| p.rights != 0).count() + setups && tries < 100 * (setups + 1) {
        tries += 1;
        let p = themed_setup(rng);
        if p.rights != 0 {
            all.push((format!("themed-{}", tries), p));
        }
    }
    for (name, p) in all.iter() {
        e.line(&format!("# rights revisit {}", name));
        e.exec(&format!("pos {}", p.line()));
        for o in node_ops.iter() {
            e.exec(o);
        }
        'rounds: for _ in 0..rounds {
            let mut outs: Vec<ChessMove> = vec![];
            for ply in 0..4 {
                let ms = e.legal();
                let pick = if ply < 2 {
                    let quiet = |want_home: bool| -> Vec<ChessMove> {
                        ms.iter().filter(|m| matches!(m, ChessMove::Standard(_)) && m.captures().is_none()
                            && e.ctx.board.get(m.from_square()).map(|(pc, _)| {
                                let home = pc == Piece::King || (pc == Piece::Rook && [0usize, 7, 56, 63].contains(&idx(m.from_square())));
                                pc != Piece::Pawn && home == want_home
                            }).unwrap_or(false)).cloned().collect()
                    };
                    let (home, other) = (quiet(true), quiet(false));
                    if !home.is_empty() && (other.is_empty() || rng.chance(4, 5)) { Some(home[rng.below(home.len())].clone()) }
                    else if !other.is_empty() { Some(other[rng.below(other.len())].clone()) }
                    else { None }
                } else {
                    let out = &outs[ply - 2];
                    ms.iter().find(|m| matches!(m, ChessMove::Standard(_)) && m.from_square() == out.to_square() && m.to_square() == out.from_square() && m.captures().is_none()).cloned()
                };
                match pick {
                    Some(m) => {
                        if ply < 2 {
                            outs.push(m.clone());
                        }
                        e.play(&m);
                        for o in node_ops.iter() {
                            e.exec(o);
                        }
                    }
                    None => break 'rounds,
                }
            }
            e.tally("rights-revisit-rounds");
        }
    }
}

/// C14 (thorough observation of the statement): the real player-vs-player loop, fed miniature games
/// that end in mate, every move typed as coordinates or as its printed notation, with rejected
/// inputs (mutated labels, illegal pairs, junk) in between; the boards it prints are compared.
fn pvp_games(e: &mut Exec, rng: &mut Rng, count: usize, shard: usize, shards: usize) {
    const MINIATURES: [&str; 6] = [
        "f2f3 e7e5 g2g4 d8h4",
        "e2e4 e7e5 f1c4 b8c6 d1h5 g8f6 h5f7",
        "e2e4 e7e5 g1f3 d7d6 f1c4 c8g4 b1c3 g7g6 f3e5 g4d1 c4f7 e8e7 c3d5",
        "e2e4 c7c6 d2d4 d7d5 b1c3 d5e4 c3e4 b8d7 d1e2 g8f6 e4d6",
        "e2e4 a7a6 e4e5 f7f5 e5f6 g7g5 d1h5",
        "e2e4 e7e5 g1f3 d7d6 d2d4 c8g4 d4e5 g4f3 d1f3 d6e5 f1c4 g8f6 f3b3 d8e7 b1c3 c7c6 c1g5 b7b5 c3b5 c6b5 c4b5 b8d7 e1c1 a8d8 d1d7 d8d7 h1d1 e7e6 b5d7 f6d7 b3b8 d7b8 d1d8",
    ];
    for i in 0..count {
        if i % shards != shard {
            continue;
        }
        let line = MINIATURES[i % MINIATURES.len()];
        let mut own = Rng(rng.0 ^ (i as u64 + 1).wrapping_mul(0x9E3779B97F4A7C15));
        let rng = &mut own;
        let mut g = Game::new(0);
        let mut inputs: Vec<String> = vec![];
        for mv in line.split_whitespace() {
            let (f, t) = (parse_sq(&mv[0..2]), parse_sq(&mv[2..4]));
            let labelled = g.enumerated_candidate_moves();
            let label = labelled.iter().find(|(m, _)| idx(m.from_square()) == f && idx(m.to_square()) == t).map(|(_, l)| l.clone());
            // rejected inputs first
            for _ in 0..rng.below(3) {
                let junk = match rng.below(4) {
                    0 => label.as_ref().map(|l| mutate_label(rng, l)).unwrap_or_else(|| "zz".to_string()),
                    1 => format!("{}{}", sqname(rng.below(64)), sqname(rng.below(64))),
                    2 => ["", "e9", "O-O-O-O", "resign", "Ke1e2e3", "a1a1"][rng.below(6)].to_string(),
                    _ => labelled.get(rng.below(labelled.len().max(1))).map(|(_, l)| mutate_label(rng, l)).unwrap_or_else(|| "x".to_string()),
                };
                // only inputs the model can classify without spaces; an accidentally legal one is fine:
                // the model plays it too and the script simply diverges from the miniature
                let junk: String = junk.chars().filter(|c| !c.is_whitespace() && *c != '|').collect();
                if junk.is_empty() {
                    inputs.push("-".to_string());
                } else {
                    inputs.push(junk);
                }
            }
            let text = match (&label, rng.chance(1, 2)) {
                (Some(l), true) => l.clone(),
                _ => mv.to_string(),
            };
            inputs.push(text);
            if g.apply_chess_move_by_from_to_coordinates(bb(f), bb(t)).is_ok() {
                g.board_mut().toggle_turn();
            }
        }
        e.exec(&format!("pvp {}", inputs.join("|")));
        e.tally("pvp-scripts");
    }
}

/// positions in which forced mates of different lengths lie inside a 6-ply horizon: a lone king
/// against two heavy pieces (either colour attacking), mostly with the defender to move
fn mating_net_positions(rng: &mut Rng, count: usize) -> Vec<(String, Pos)> {
    let mut v = vec![];
    let mut tries = 0;
    while v.len() < count && tries < 10000 {
        tries += 1;
        let mut p = Pos::empty();
        let att = if rng.chance(1, 2) { Color::White } else { Color::Black };
        let def = att.opposite();
        let (ak, dk) = (rng.below(64), rng.below(64));
        if ak == dk {
            continue;
        }
        p.cells[ak] = Some((Piece::King, att));
        p.cells[dk] = Some((Piece::King, def));
        for _ in 0..2 {
            let sq = rng.below(64);
            let pc = if rng.chance(1, 3) { Piece::Queen } else { Piece::Rook };
            put_if_empty(&mut p, sq, pc, att);
        }
        p.turn = if rng.chance(7, 10) { def } else { att };
        if let Some(q) = finish_setup(p, None, rng) {
            let mut q = q;
            q.ep = None;
            q.half = 0;
            v.push((format!("net-{}", v.len()), q));
        }
    }
    v
}

/// C02: sibling positions with the SAME occupancy and a different piece kind on one square (the four
/// promotions of one pawn; a capture by one of several pieces), visited one after the other with
/// single-colour attack-map queries and full queries on the long-lived generator
fn siblings(e: &mut Exec, rng: &mut Rng, kv: &Args, positions: &[(String, Pos)]) {
    let node_ops = e.node_ops.clone();
    let setups = kv.num("setups", 0) as usize;
    let mut all: Vec<(String, Pos)> = positions.to_vec();
    for i in 0..setups {
        all.push((format!("themed-{}", i), themed_setup(rng)));
    }
    for (name, p) in all.iter() {
        e.exec(&format!("pos {}", p.line()));
        let ms = e.legal();
        // groups of moves with the same from/to (promotions) or the same destination (captures by different pieces)
        let mut groups: HashMap<(usize, usize), Vec<ChessMove>> = HashMap::new();
        for m in ms.iter() {
            if matches!(m, ChessMove::PawnPromotion(_)) {
                groups.entry((idx(m.from_square()), idx(m.to_square()))).or_default().push(m.clone());
            }
        }
        if groups.is_empty() {
            continue;
        }
        e.line(&format!("# siblings {}", name));
        for (_, g) in groups.iter() {
            for c in ["w", "b"] {
                for m in g.iter() {
                    e.play(m);
                    e.exec(&format!("attl {}", c));
                    e.unplay();
                }
            }
            for m in g.iter() {
                e.play(m);
                for o in node_ops.iter() {
                    e.exec(o);
                }
                e.unplay();
            }
            e.tally("sibling-groups");
        }
    }
}

fn walk_positions(rng: &mut Rng, corpus: &[(String, Pos)], count: usize, max_pieces: usize) -> Vec<(String, Pos)> {
    let mut out = vec![];
    let mut mg = chess::move_generator::MoveGenerator::with_cache_capacity(64);
    let mut guard_n = 0;
    while out.len() < count && guard_n < count * 50 {
        guard_n += 1;
        let (name, p) = &corpus[rng.below(corpus.len())];
        let mut b = p.setup();
        let plies = rng.below(30);
        for _ in 0..plies {
            mg.clear_caches_for_verif();
            let t = b.turn();
            let ms = mg.generate_moves(&mut b, t);
            if ms.is_empty() {
                break;
            }
            let m = ms[rng.below(ms.len())].clone();
            m.apply(&mut b).unwrap();
            b.toggle_turn();
        }
        if piece_counts(&b) <= max_pieces {
            let mut q = Pos::of_board(&b);
            q.half = q.half.min(20);
            out.push((format!("{}+{}", name, plies), q));
        }
    }
    out
}

/// C10: count_positions at several depths, pool sizes, fresh and used generators
fn perfts(e: &mut Exec, rng: &mut Rng, kv: &Args, positions: &[(String, Pos)]) {
    let maxd = kv.num("depth", 2) as u8;
    let pools = [1usize, 2, 3, 4, 5, 6, 7, 8, 16];
    for (name, p) in positions {
        e.line(&format!("# perft position {}", name));
        e.exec(&format!("pos {}", p.line()));
        for d in 0..=maxd {
            let n = pools[rng.below(pools.len())];
            e.exec(&format!("perft {} {}", d, n));
        }
        // two independent counts overlapping in time in one process (own boards, own generators)
        e.exec(&format!("perft2 {} {}", 2.min(maxd), pools[rng.below(pools.len())]));
        // the split of the root moves over the workers: every small pool size at depth 1 (each call
        // constructs one generator per root move, ~0.1 s apiece: on every third position)
        if rng.chance(1, 3) {
            for n in 1..=8usize {
                e.exec(&format!("perft {} {}", 1.min(maxd), n));
            }
        }
        // a generator that has been used before (other positions, this position)
        let n = pools[rng.below(pools.len())];
        e.exec(&format!("perft {} {} long", maxd.min(2), n));
        e.exec("snap");
    }
}

fn mutate_label(rng: &mut Rng, s: &str) -> String {
    let mut c: Vec<char> = s.chars().collect();
    match rng.below(9) {
        7 => {
            // letter case: a piece letter written small (bxc3 for Bxc3), a file written large, o-o
            let flips: Vec<usize> = (0..c.len()).filter(|&i| c[i].is_ascii_alphabetic() && c[i] != 'x').collect();
            if !flips.is_empty() {
                let i = if rng.chance(2, 3) { flips[0] } else { flips[rng.below(flips.len())] };
                c[i] = if c[i].is_ascii_uppercase() { c[i].to_ascii_lowercase() } else { c[i].to_ascii_uppercase() };
            }
        }
        8 => {
            for x in c.iter_mut() {
                *x = if rng.chance(1, 2) { x.to_ascii_lowercase() } else { x.to_ascii_uppercase() };
            }
        }
        0 => {
            // drop or add the capture mark
            if let Some(i) = c.iter().position(|&x| x == 'x') {
                c.remove(i);
            } else if c.len() >= 2 {
                let i = c.len() - 2 - if c.last() == Some(&'+') || c.last() == Some(&'#') { 1 } else { 0 };
                if i <= c.len() {
                    c.insert(i.min(c.len()), 'x');
                }
            }
        }
        1 => {
            // toggle the check mark
            if c.last() == Some(&'+') || c.last() == Some(&'#') {
                c.pop();
            } else {
                c.push('+');
            }
        }
        2 => {
            // superfluous or wrong disambiguation
            if !c.is_empty() && c[0].is_ascii_uppercase() && c[0] != 'O' {
                c.insert(1, (b'a' + rng.below(8) as u8) as char);
            }
        }
        3 => {
            // shift the destination
            if let Some(i) = c.iter().rposition(|x| x.is_ascii_digit()) {
                c[i] = (b'1' + rng.below(8) as u8) as char;
            }
        }
        4 => {
            if !c.is_empty() && c[0].is_ascii_uppercase() && c[0] != 'O' {
                c[0] = ['N', 'B', 'R', 'Q', 'K'][rng.below(5)];
            }
        }
        5 => {
            c.push('#');
        }
        _ => {
            if c.len() > 1 {
                c.remove(0);
            }
        }
    }
    let r: String = c.into_iter().collect();
    if r.is_empty() {
        "x".to_string()
    } else {
        r
    }
}

/// C14: games played through the Game API with accepted and rejected inputs
fn games(e: &mut Exec, rng: &mut Rng, kv: &Args, positions: &[(String, Pos)]) {
    let plies = kv.num("len", 30) as usize;
    let all_pairs_every = kv.num("allpairs", 0) as usize; // every k-th node: all 4096 coordinate pairs
    let mut node_no = 0usize;
    for (name, p) in positions {
        e.line(&format!("# game from {}", name));
        e.exec(&format!("pos {}", p.line()));
        e.exec("game 1");
        let mut prev_labels: Vec<String> = vec![];
        // tempo=1: steer the first five plies into a triangulation (the side to move spends three king
        // moves on a round trip, the other side two on an out-and-back move): the SAME placement comes
        // back with the OTHER side to move; the labels of the first position are then typed again
        let tempo = kv.num("tempo", 0) == 1;
        let mut tri_stage = if tempo { 0usize } else { 99 };
        let mut tri_k: [usize; 3] = [64; 3];
        let mut tri_other: (usize, usize) = (64, 64);
        let mut start_labels: Vec<String> = vec![];
        for _ply in 0..plies {
            node_no += 1;
            let before = e.exec("gsnap");
            let labels_line = e.exec("glabels");
            let labelled: Vec<(String, String)> = labels_line.split_whitespace().skip(1).filter_map(|t| t.split_once(':').map(|(a, b)| (a.to_string(), b.to_string()))).collect();
            if labelled.is_empty() {
                break;
            }
            let legal_texts: Vec<String> = labelled.iter().map(|(m, _)| m.clone()).collect();
            let label_set: Vec<String> = labelled.iter().map(|(_, l)| l.clone()).collect();
            // ---- rejected inputs leave everything as it was
            let mut rejects: Vec<String> = vec![];
            for _ in 0..6 {
                let (_, l) = &labelled[rng.below(labelled.len())];
                let mu = mutate_label(rng, l);
                if !label_set.contains(&mu) {
                    rejects.push(format!("galg {}", mu));
                }
            }
            for l in prev_labels.iter().take(40) {
                if !label_set.contains(l) && rng.chance(1, 4) {
                    rejects.push(format!("galg {}", l)); // legal in the previous position / for the other side
                }
            }
            if tri_stage == 0 {
                start_labels = label_set.clone();
            }
            if tri_stage == 5 {
                // the triangulation is complete: every label of the first position that is not a label now
                for l in start_labels.iter() {
                    if !label_set.contains(l) {
                        rejects.push(format!("galg {}", l));
                    }
                }
                e.tally("tempo-loss-revisits");
                // the engine asked for its move here (C15): same placement, other side to move, same Game
                if kv.num("engine", 0) == 1 {
                    e.exec("gselect");
                }
                tri_stage = 99;
            }
            let pairs: Vec<(usize, usize)> = if all_pairs_every > 0 && node_no % all_pairs_every == 0 {
                (0..4096).map(|k| (k / 64, k % 64)).collect()
            } else {
                (0..24).map(|_| (rng.below(64), rng.below(64))).collect()
            };
            for (f, t) in pairs {
                let is_legal = legal_texts.iter().any(|m| parse_sq(&m[1..3]) == f && parse_sq(&m[3..5]) == t);
                if !is_legal {
                    rejects.push(format!("gcoord {} {}", sqname(f), sqname(t)));
                }
            }
            for r in rejects {
                let res = e.exec(&r);
                if res.contains(" Ok") {
                    let msg = format!("! C14 input `{}` does not name a legal move of [{}] but was accepted: {}", r, before, res);
                    e.line(&msg);
                    // the game has moved on; resynchronise by ending this game
                    break;
                }
                e.tally("rejected-inputs");
            }
            let after_rejects = e.exec("gsnap");
            if after_rejects != before {
                let msg = format!("! C14 rejected inputs changed the game: before [{}] after [{}]", before, after_rejects);
                e.line(&msg);
                break;
            }
            // ---- one accepted input: plays exactly the named move
            let k = rng.below(labelled.len());
            // favour special moves
            let specials: Vec<usize> = (0..labelled.len()).filter(|&i| !labelled[i].0.starts_with('S') || labelled[i].0.contains('x')).collect();
            let mut k = if !specials.is_empty() && rng.chance(40, 100) { specials[rng.below(specials.len())] } else { k };
            if tri_stage < 5 {
                // quiet standard king moves of the side to move: text "S<from><to>"
                let gb = e.extra.game.as_ref().unwrap().board().clone();
                let is_king = |sq: usize| gb.get(bb(sq)).map(|(pc, _)| pc == Piece::King).unwrap_or(false);
                let quiet = |i: usize| labelled[i].0.starts_with('S') && !labelled[i].0.contains('x') && labelled[i].0.len() == 5;
                let ft = |i: usize| (parse_sq(&labelled[i].0[1..3]), parse_sq(&labelled[i].0[3..5]));
                let adj = |a: usize, b: usize| ((a / 8) as i32 - (b / 8) as i32).abs() <= 1 && ((a % 8) as i32 - (b % 8) as i32).abs() <= 1 && a != b;
                let pick: Option<usize> = match tri_stage {
                    0 => {
                        // k1 -> k2 such that some k3 is adjacent to both
                        let c: Vec<usize> = (0..labelled.len()).filter(|&i| quiet(i) && is_king(ft(i).0)).collect();
                        let c: Vec<usize> = c.into_iter().filter(|&i| { let (k1, k2) = ft(i); (0..64).any(|k3| adj(k3, k1) && adj(k3, k2) && gb.get(bb(k3)).is_none()) }).collect();
                        if c.is_empty() { None } else { let i = c[rng.below(c.len())]; tri_k[0] = ft(i).0; tri_k[1] = ft(i).1; Some(i) }
                    }
                    1 => {
                        // the other side: any quiet non-pawn move (out)
                        let c: Vec<usize> = (0..labelled.len()).filter(|&i| quiet(i) && gb.get(bb(ft(i).0)).map(|(pc, _)| pc != Piece::Pawn).unwrap_or(false)).collect();
                        if c.is_empty() { None } else { let i = c[rng.below(c.len())]; tri_other = ft(i); Some(i) }
                    }
                    2 => {
                        let c: Vec<usize> = (0..labelled.len()).filter(|&i| quiet(i) && ft(i).0 == tri_k[1] && adj(ft(i).1, tri_k[0])).collect();
                        if c.is_empty() { None } else { let i = c[rng.below(c.len())]; tri_k[2] = ft(i).1; Some(i) }
                    }
                    3 => (0..labelled.len()).find(|&i| quiet(i) && ft(i) == (tri_other.1, tri_other.0)),
                    _ => (0..labelled.len()).find(|&i| quiet(i) && ft(i) == (tri_k[2], tri_k[0])),
                };
                match pick {
                    Some(i) => {
                        k = i;
                        tri_stage += 1;
                    }
                    None => tri_stage = 99,
                }
            }
            let (mtext, label) = labelled[k].clone();
            let by_label = rng.chance(1, 2);
            let g_board_before = e.extra.game.as_ref().unwrap().board().clone();
            let (res, expect_move) = if by_label {
                (e.exec(&format!("galg {}", label)), mtext.clone())
            } else {
                // coordinates name the first legal move with these squares (the queen promotion)
                let (f, t) = (&mtext[1..3], &mtext[3..5]);
                let first = legal_texts.iter().find(|m| &m[1..3] == f && &m[3..5] == t).unwrap().clone();
                if first.starts_with('P') && !first.ends_with("=Q") {
                    let msg = format!("! C14 coordinate pair {}{} names a promotion but the first candidate is {} (not the queen)", f, t, first);
                    e.line(&msg);
                }
                (e.exec(&format!("gcoord {} {}", f, t)), first)
            };
            e.tally(if by_label { "accepted-by-label" } else { "accepted-by-coordinates" });
            let want_ok = format!("{} Ok {}", if by_label { "galg" } else { "gcoord" }, expect_move);
            if res != want_ok {
                let msg = format!("! C14 legal input for {} answered [{}] in [{}]", expect_move, res, before);
                e.line(&msg);
                break;
            }
            // the board is exactly apply(move) of the previous board, the history grew by it
            let mut expect_board = g_board_before.clone();
            parse_mv(&expect_move).apply(&mut expect_board).unwrap();
            let got = full_snapshot(e.extra.game.as_ref().unwrap().board());
            if got != full_snapshot(&expect_board) {
                let msg = format!("! C14 accepted input {} did not play exactly that move: board [{}] expected [{}]", expect_move, got, full_snapshot(&expect_board));
                e.line(&msg);
            }
            let last = e.extra.game.as_ref().unwrap().last_move().map(|m| mv_text(&m));
            if last.as_deref() != Some(expect_move.as_str()) {
                let msg = format!("! C14 accepted input {} not recorded as the last move of the history ({:?})", expect_move, last);
                e.line(&msg);
            }
            e.exec("gsnap");
            e.exec("gtoggle");
            prev_labels = label_set;
        }
    }
}

/// C15: the compiled book against the translated lines, and the engine's move at book
/// nodes, off-book histories and supplied positions
fn book_and_engine(e: &mut Exec, rng: &mut Rng, kv: &Args, positions: &[(String, Pos)]) {
    let lines = std::fs::read_to_string("/repo/opening_lines.txt").unwrap_or_default();
    let mut all: Vec<Vec<String>> = vec![];
    for l in lines.lines() {
        let parts: Vec<&str> = l.split(": ").collect();
        if parts.len() == 2 {
            all.push(parts[1].split(' ').map(|t| t.chars().take(4).collect::<String>().to_lowercase()).collect());
        }
    }
    // (a) every prefix of every line: the trie offers exactly the lines' continuations
    let mut seen = std::collections::HashSet::new();
    for line in all.iter() {
        for k in 0..=line.len() {
            let pre = line[..k].join(" ");
            if seen.insert(pre.clone()) {
                e.exec(format!("book {}", pre).trim_end());
                e.tally("book-nodes");
            }
        }
    }
    for _ in 0..20 {
        // off-book probes
        let n = 1 + rng.below(3);
        let pre: Vec<String> = (0..n).map(|_| format!("{}{}", sqname(rng.below(64)), sqname(rng.below(64)))).collect();
        e.exec(&format!("book {}", pre.join(" ")));
    }
    // (b) the engine follows every book line move by move (repeated to hit continuations)
    let depth = kv.num("sdepth", 1);
    let reps = kv.num("reps", 1) as usize;
    let shard = kv.num("shard", 0) as usize;
    let shards = kv.num("shards", 1) as usize;
    for (li, line) in all.iter().enumerate() {
        if li % shards != shard {
            continue;
        }
        for _ in 0..reps {
            e.exec(&format!("gnew {}", depth));
            // force the game down this line, asking the engine at every node
            for mv in line.iter() {
                let snap_before = e.exec("gsnap");
                // ask the engine (selection only: nothing is played), then play the line's move
                let r = e.exec("gselect");
                if !r.starts_with("gselect Ok") {
                    let msg = format!("! C15 engine asked for a move in a position with legal moves answered [{}] after book prefix, in [{}]", r, snap_before);
                    e.line(&msg);
                    break;
                }
                let res = e.exec(&format!("gcoord {} {}", &mv[0..2], &mv[2..4]));
                if !res.contains(" Ok") {
                    let msg = format!("! C15 book move {} is not a legal move in [{}]", mv, snap_before);
                    e.line(&msg);
                    break;
                }
                e.exec("gtoggle");
                e.tally("engine-at-book-node");
            }
            // and a few plies past the end of the line
            for _ in 0..2 {
                let r = e.exec("gengine");
                if r.starts_with("gengine Ok") {
                    let chosen = r.split_whitespace().nth(2).unwrap().to_string();
                    e.exec(&format!("gsync {}", chosen));
                    e.exec("gtoggle");
                } else {
                    let over = e.exec("gover");
                    if over.ends_with(" -") {
                        let msg = format!("! C15 engine answered [{}] although the game is not over", r);
                        e.line(&msg);
                    }
                    break;
                }
            }
        }
    }
    // (c) supplied starting positions (empty history matches the book root)
    for (pi, (name, p)) in positions.iter().enumerate() {
        if pi % shards != shard {
            continue;
        }
        e.line(&format!("# engine from supplied position {}", name));
        e.exec(&format!("pos {}", p.line()));
        e.exec(&format!("game {}", depth));
        for _ in 0..3 {
            let n_legal = {
                let g = e.extra.game.as_mut().unwrap();
                g.enumerated_candidate_moves().len()
            };
            let r = e.exec("gengine");
            if r.starts_with("gengine Ok") {
                let chosen = r.split_whitespace().nth(2).unwrap().to_string();
                e.exec(&format!("gsync {}", chosen));
                e.exec("gtoggle");
                e.tally("engine-from-supplied-position");
            } else {
                if n_legal > 0 {
                    let msg = format!("! C15 engine answered [{}] in supplied position {} which has {} legal moves", r, name, n_legal);
                    e.line(&msg);
                }
                break;
            }
        }
    }
}

/// C14 at the command-line level: every label the engine itself prints for a legal move is
/// typed into the real input layer and must be accepted as exactly that move; coordinate
/// pairs likewise; a few malformed lines must be refused without effect
fn cli(e: &mut Exec, rng: &mut Rng, kv: &Args, positions: &[(String, Pos)]) {
    let per = kv.num("per", 12) as usize;
    for (name, p) in positions {
        e.line(&format!("# command-line inputs in {}", name));
        e.exec(&format!("pos {}", p.line()));
        e.exec("game 1");
        let before = e.exec("gbsnap");
        let labels_line = e.exec("glabels");
        let labelled: Vec<(String, String)> = labels_line.split_whitespace().skip(1).filter_map(|t| t.split_once(':').map(|(a, b)| (a.to_string(), b.to_string()))).collect();
        if labelled.is_empty() {
            continue;
        }
        // all castles, promotions, checks and mates; a sample of the rest
        let mut picks: Vec<usize> = (0..labelled.len()).filter(|&i| {
            let (m, l) = &labelled[i];
            m.starts_with('C') || m.starts_with('P') || m.starts_with('E') || l.ends_with('+') || l.ends_with('#')
        }).collect();
        for _ in 0..per {
            picks.push(rng.below(labelled.len()));
        }
        picks.sort();
        picks.dedup();
        let mut inputs: Vec<(usize, bool)> = vec![];
        for i in picks {
            let (m, l) = &labelled[i];
            let special = m.starts_with('C') || m.starts_with('P') || m.starts_with('E') || l.ends_with('+') || l.ends_with('#');
            if special {
                inputs.push((i, false));
                inputs.push((i, true));
            } else {
                inputs.push((i, rng.chance(1, 3)));
            }
        }
        for (i, by_coord) in inputs {
            let (mtext, label) = labelled[i].clone();
            let typed = if by_coord { format!("{}{}", &mtext[1..3], &mtext[3..5]) } else { label.clone() };
            let r = e.exec(&format!("cliin {}", typed));
            let want_move = if by_coord {
                labelled.iter().map(|(m, _)| m).find(|m| m[1..5] == mtext[1..5]).unwrap().clone()
            } else {
                mtext.clone()
            };
            if r != format!("cliin accepted {}", want_move) {
                let msg = format!("! C14 the engine prints `{}` for the legal move {} but typing `{}` at the prompt answers [{}] in [{}]", label, mtext, typed, r, before);
                e.line(&msg);
            }
            e.tally(if by_coord { "cli-coordinates" } else { "cli-label" });
            if r.starts_with("cliin accepted") {
                e.exec("gunplay");
            }
        }
        for bad in ["e9", "Ke1e2e3", "O-O-O-O", "xx", "e2-e4", "0-0"] {
            let r = e.exec(&format!("cliin {}", bad));
            if r.starts_with("cliin accepted") {
                let msg = format!("! C14 malformed input `{}` was accepted: [{}]", bad, r);
                e.line(&msg);
                e.exec("gunplay");
            }
            e.tally("cli-malformed");
        }
        let after = e.exec("gbsnap");
        if after != before {
            let msg = format!("! C14 the game changed across accepted-and-taken-back / refused command-line inputs: before [{}] after [{}]", before, after);
            e.line(&msg);
        }
    }
}

pub fn run(kv: &Args) {
    let family = kv.get("family", "walk");
    let seed = kv.num("seed", 1);
    let mut rng = Rng(seed ^ 0xC0FFEE);
    let ops: Vec<String> = kv.get("ops", "snap").split(',').filter(|s| !s.is_empty()).map(|s| s.replace(':', " ")).collect();
    let mut e = Exec::new(ops);
    e.sync = kv.num("sync", 0) == 1;
    let shard = kv.num("shard", 0) as usize;
    let shards = kv.num("shards", 1) as usize;
    match family.as_str() {
        "tree" => {
            let depth = kv.num("depth", 2) as u32;
            let per = kv.num("budget", 2000) as i64;
            for (i, (name, p)) in corpus_subset(kv).iter().enumerate() {
                if i % shards != shard {
                    continue;
                }
                e.line(&format!("# corpus {}", name));
                e.exec(&format!("pos {}", p.line()));
                let mut b = per;
                e.tree(depth, &mut b);
            }
        }
        "walk" => {
            let count = kv.num("count", 10) as usize;
            let len = kv.num("len", 60) as usize;
            let undo = kv.num("undo", 0);
            let corpus = corpus_subset(kv);
            for i in 0..count {
                let mut r = Rng(seed.wrapping_mul(1000003).wrapping_add(i as u64));
                if i % shards != shard {
                    continue;
                }
                let (name, p) = &corpus[r.below(corpus.len())];
                e.line(&format!("# walk {} from {}", i, name));
                e.exec(&format!("pos {}", p.line()));
                e.walk(&mut r, len, undo);
            }
        }
        "setups" => {
            let count = kv.num("count", 100) as usize;
            let depth = kv.num("depth", 0) as u32;
            for i in 0..count {
                let mut r = Rng(seed.wrapping_mul(7919).wrapping_add(i as u64));
                if i % shards != shard {
                    continue;
                }
                // two in five are built around a delicate arrangement (pins, en-passant lines, attacked
                // castling squares, corner promotions); the rest are uniformly random
                let p = if r.chance(2, 5) { e.tally("themed-setups"); themed_setup(&mut r) } else { random_setup(&mut r) };
                e.exec(&format!("pos {}", p.line()));
                let mut b = kv.num("budget", 50) as i64;
                e.tree(depth, &mut b);
            }
        }
        "history" => {
            let count = kv.num("count", 20) as usize;
            let len = kv.num("len", 80) as usize;
            for i in 0..count {
                let mut r = Rng(seed.wrapping_mul(104729).wrapping_add(i as u64));
                if i % shards != shard {
                    continue;
                }
                history(&mut e, &mut r, len);
            }
        }
        "repetition" => {
            let count = kv.num("count", 20) as usize;
            let len = kv.num("len", 80) as usize;
            let undo = kv.num("undo", 10);
            let corpus = corpus_subset(kv);
            for i in 0..count {
                let mut r = Rng(seed.wrapping_mul(15485863).wrapping_add(i as u64));
                if i % shards != shard {
                    continue;
                }
                let (name, p) = &corpus[r.below(corpus.len())];
                e.line(&format!("# repetition game {} from {}", i, name));
                e.exec(&format!("pos {}", p.line()));
                repetition(&mut e, &mut r, len, undo);
            }
        }
        "searches" | "perfts" | "games" | "engine" | "cli" | "schedules" | "revisits" | "rightsrevisits" | "siblings" => {
            let mut positions: Vec<(String, Pos)> = corpus_subset(kv);
            let extra = kv.num("walkpos", 0) as usize;
            let maxp = kv.num("maxpieces", 32) as usize;
            if maxp < 32 {
                positions.retain(|(_, p)| p.cells.iter().filter(|c| c.is_some()).count() <= maxp);
            }
            let corpus = corpus_subset(kv);
            positions.extend(walk_positions(&mut rng, &corpus, extra, maxp));
            // themed set-ups (pins, en-passant lines, attacked castling squares, corner promotions) as search positions
            let nsetups = kv.num("themed", 0) as usize;
            let mut tries = 0;
            let mut added = 0;
            while added < nsetups && tries < 50 * (nsetups + 1) {
                tries += 1;
                let p = themed_setup(&mut rng);
                if p.cells.iter().filter(|c| c.is_some()).count() <= maxp {
                    positions.push((format!("themed-{}", added), p));
                    added += 1;
                }
            }
            let nets = kv.num("nets", 0) as usize;
            if nets > 0 {
                positions = mating_net_positions(&mut rng, nets);
            }
            if family != "engine" {
                positions = positions.into_iter().enumerate().filter(|(i, _)| i % shards == shard).map(|(_, p)| p).collect();
            }
            let mut r = Rng(seed.wrapping_mul(32452843).wrapping_add(shard as u64));
            match family.as_str() {
                "searches" => searches(&mut e, &mut r, kv, &positions),
                "perfts" => perfts(&mut e, &mut r, kv, &positions),
                "games" => games(&mut e, &mut r, kv, &positions),
                "cli" => cli(&mut e, &mut r, kv, &positions),
                "schedules" => schedules(&mut e, &mut r, kv, &positions),
                "revisits" => revisits(&mut e, &mut r, kv, &positions),
                "rightsrevisits" => rights_revisits(&mut e, &mut r, kv, &positions),
                "siblings" => siblings(&mut e, &mut r, kv, &positions),
                _ => book_and_engine(&mut e, &mut r, kv, &positions),
            }
        }
        "clicount" => {
            if shard == 0 {
                e.exec(&format!("clicount {}", kv.num("depth", 2)));
            }
        }
        "watch" => {
            // the real engine-vs-engine loop, several games (the book choice is random), depths 1 and 2
            let games = kv.num("games", 4) as usize;
            let limit = kv.num("limit", 40);
            for i in 0..games {
                if i % shards != shard {
                    continue;
                }
                let d = 1 + (i % 2);
                e.exec(&format!("watch {} {}", limit, d));
                e.tally("watch-games");
            }
        }
        "pvp" => {
            pvp_games(&mut e, &mut rng, kv.num("count", 6) as usize, shard, shards);
        }
        "play" => {
            // the real human-vs-computer loop: the human types a stream of plausible and implausible lines
            // (common opening moves in both notations, stale and mutated labels, junk); the engine answers
            let games = kv.num("games", 4) as usize;
            const POOL: [&str; 40] = [
                "e4", "d4", "Nf3", "Nc3", "c4", "g3", "Bc4", "Bb5", "O-O", "d3", "e5", "d5", "Nf6", "Nc6", "c5", "g6", "Bc5", "Be7", "O-O-O", "d6",
                "e2e4", "d2d4", "g1f3", "b1c3", "e7e5", "d7d5", "g8f6", "b8c6", "f1c4", "f8c5", "e1g1", "e8g8", "exd5", "exd4", "Nxe4", "Nxe5", "Qe2", "Qe7", "h3", "h6",
            ];
            for i in 0..games {
                if i % shards != shard {
                    continue;
                }
                let mut rng = Rng(seed.wrapping_mul(7907).wrapping_add(i as u64));
                let mut inputs: Vec<String> = vec![];
                for _ in 0..(24 + rng.below(16)) {
                    let base = POOL[rng.below(POOL.len())].to_string();
                    inputs.push(match rng.below(6) {
                        0 => mutate_label(&mut rng, &base),
                        1 => ["zz", "-", "e9", "O-O-O-O", "a1a1"][rng.below(5)].to_string(),
                        _ => base,
                    });
                }
                let inputs: Vec<String> = inputs.into_iter().map(|x| { let y: String = x.chars().filter(|c| !c.is_whitespace() && *c != '|').collect(); if y.is_empty() { "-".to_string() } else { y } }).collect();
                let color = if i % 2 == 0 { "w" } else { "b" };
                e.exec(&format!("play 1 {} {}", color, inputs.join("|")));
                e.tally("play-games");
            }
        }
        "apirepetition" => {
            if shard == 0 {
                api_repetition(&mut e, &mut rng, kv.num("count", 3) as usize);
            }
        }
        "epfamilies" => {
            if shard == 0 {
                epfamilies(&mut e);
            }
        }
        "transpositions" => {
            let count = kv.num("count", 20) as usize;
            if shard == 0 {
                transpositions(&mut e, &mut rng, count);
            }
        }
        other => panic!("unknown family {}", other),
    }
    e.finish(&family);
}

/// re-run the operation lines of a scenario file on the implementation
pub fn replay(kv: &Args) {
    let path = kv.get("file", "");
    let txt = std::fs::read_to_string(&path).expect("scenario file");
    let mut e = Exec::new(vec![]);
    for line in txt.lines() {
        let l = line.trim();
        if l.is_empty() || l.starts_with('<') || l.starts_with('#') || l.starts_with('!') || l.starts_with('=') {
            continue;
        }
        e.exec(l);
    }
    e.finish("replay");
}
