// obs.rs — the observations: each returns the text after "< ".
use crate::util::*;
use chess::board::color::Color;
use chess::board::piece::Piece;
use chess::board::Board;
use chess::chess_move::algebraic_notation::enumerate_candidate_moves_with_algebraic_notation;
use chess::chess_move::chess_move::ChessMove;
use chess::chess_move::chess_move_effect::ChessMoveEffect;
use chess::evaluate;
use chess::game::stockfish_elo::create_chess_move_from_uci_for_verif;
use chess::move_generator::MoveGenerator;
use std::panic::{catch_unwind, AssertUnwindSafe};

pub struct Ctx {
    pub board: Board,
    pub stack: Vec<ChessMove>,
    pub fresh: MoveGenerator, // caches cleared before every use (= newly created generator)
    pub long: MoveGenerator,  // never cleared: has served every earlier query of this run
}

impl Ctx {
    pub fn new() -> Ctx {
        Ctx {
            board: Board::new(),
            stack: vec![],
            fresh: MoveGenerator::with_cache_capacity(4096),
            long: MoveGenerator::with_cache_capacity(2_000_000),
        }
    }
}

pub fn guard<F: FnOnce() -> String>(f: F) -> String {
    match catch_unwind(AssertUnwindSafe(f)) {
        Ok(s) => s,
        Err(_) => "PANIC".to_string(),
    }
}

pub fn snap(b: &Board) -> String {
    let p = Pos::of_board(b);
    format!("snap {} {:016x} {}", p.line(), b.current_position_hash(), b.max_seen_position_count())
}

/// contents of the three stacks as far as the public API can pop them (on a clone)
pub fn stacks(b: &Board) -> String {
    let mut out = String::from("stacks");
    // a stack deeper than any history the harness builds means a pop that does not pop:
    // reported as such instead of looping for ever
    const MAX_DEPTH: usize = 5000;
    let mut c = b.clone();
    out.push_str(" ep");
    let mut n = 0;
    loop {
        match catch_unwind(AssertUnwindSafe(|| c.pop_en_passant_target())) {
            Ok(v) => out.push_str(&format!(" {}", if v.is_empty() { "-".to_string() } else { sqname(idx(v)) })),
            Err(_) => break,
        }
        n += 1;
        if n > MAX_DEPTH {
            return "stacks UNBOUNDED-ep-stack".to_string();
        }
    }
    let mut c = b.clone();
    out.push_str(" cr");
    n = 0;
    loop {
        match catch_unwind(AssertUnwindSafe(|| c.pop_castle_rights())) {
            Ok(v) => out.push_str(&format!(" {}", v)),
            Err(_) => break,
        }
        n += 1;
        if n > MAX_DEPTH {
            return "stacks UNBOUNDED-castle-rights-stack".to_string();
        }
    }
    let mut c = b.clone();
    out.push_str(" hm");
    n = 0;
    loop {
        match catch_unwind(AssertUnwindSafe(|| c.pop_halfmove_clock())) {
            Ok(v) => out.push_str(&format!(" {}", v)),
            Err(_) => break,
        }
        n += 1;
        if n > MAX_DEPTH {
            return "stacks UNBOUNDED-halfmove-stack".to_string();
        }
    }
    out
}

/// the 12 piece bitboards, the two per-colour summaries and the whole-board summary
pub fn bbs(b: &Board) -> String {
    let mut out = String::from("bbs");
    for c in [Color::White, Color::Black] {
        for p in PIECES {
            out.push_str(&format!(" {:x}", b.pieces(c).locate(p).0));
        }
        out.push_str(&format!(" {:x}", b.pieces(c).occupied().0));
    }
    out.push_str(&format!(" {:x}", b.occupied().0));
    out
}

pub fn moves_text(ms: &[ChessMove]) -> String {
    ms.iter().map(mv_text).collect::<Vec<_>>().join(" ")
}

pub fn gen_fresh(ctx: &mut Ctx) -> Vec<ChessMove> {
    ctx.fresh.clear_caches_for_verif();
    let t = ctx.board.turn();
    ctx.fresh.generate_moves(&mut ctx.board, t).into_iter().collect()
}

pub fn gen(ctx: &mut Ctx) -> String {
    format!("gen {}", moves_text(&gen_fresh(ctx)))
}

/// long-lived generator: legal moves and both attack maps
pub fn genl(ctx: &mut Ctx) -> String {
    let t = ctx.board.turn();
    let ms: Vec<ChessMove> = ctx.long.generate_moves(&mut ctx.board, t).into_iter().collect();
    let aw = ctx.long.get_attack_targets(&ctx.board, Color::White);
    let ab = ctx.long.get_attack_targets(&ctx.board, Color::Black);
    format!("genl {:x} {:x} {}", aw.0, ab.0, moves_text(&ms))
}

/// C02: every kind of query a caller can make of the long-lived generator — plain and annotated
/// lists, for the side to move and (when the side to move is not in check, so that no "move"
/// captures a king) for the other colour, whatever board.turn() says — each compared on the spot
/// with the answer of a cache-cleared generator to the very same query.  Decided by the harness.
pub fn genlx(ctx: &mut Ctx) -> String {
    let t = ctx.board.turn();
    let o = t.opposite();
    ctx.fresh.clear_caches_for_verif();
    // the other colour is asked about only when the question has a well-defined answer: the side to move
    // is not in check (no "move" captures a king) and no en-passant target is set (the target belongs to
    // the side to move; the generator offers it to whichever colour is asked and then fails in apply)
    let in_check = evaluate::player_is_in_check(&ctx.board, &mut ctx.fresh, t) || !ctx.board.peek_en_passant_target().is_empty();
    let mut plan: Vec<(bool, Color)> = vec![];
    if !in_check {
        plan.push((true, o));
    }
    plan.push((false, t));
    plan.push((true, t));
    if !in_check {
        plan.push((false, o));
    }
    plan.push((false, t));
    let mut bad = String::new();
    let mut n = 0;
    for (annotated, c) in plan {
        let text = |ms: &[ChessMove], annotated: bool| -> String {
            ms.iter().map(|m| if annotated { format!("{}:{}", mv_text(m), effect_char(m.effect())) } else { mv_text(m) }).collect::<Vec<_>>().join(" ")
        };
        let l: Vec<ChessMove> = if annotated {
            ctx.long.generate_moves_and_lazily_update_chess_move_effects(&mut ctx.board, c).into_iter().collect()
        } else {
            ctx.long.generate_moves(&mut ctx.board, c).into_iter().collect()
        };
        ctx.fresh.clear_caches_for_verif();
        let f: Vec<ChessMove> = if annotated {
            ctx.fresh.generate_moves_and_lazily_update_chess_move_effects(&mut ctx.board, c).into_iter().collect()
        } else {
            ctx.fresh.generate_moves(&mut ctx.board, c).into_iter().collect()
        };
        n += 1;
        let (lt, ft) = (text(&l, annotated), text(&f, annotated));
        if lt != ft && bad.is_empty() {
            bad = format!(
                "\n! C02 the long-lived generator answers the {} query for {} with [{}], a new generator with [{}] in [{}]",
                if annotated { "annotated" } else { "plain" },
                if c == Color::White { "white" } else { "black" },
                lt, ft, snap(&ctx.board)
            );
        }
    }
    format!("genlx {}{}", n, bad)
}

pub fn att(ctx: &mut Ctx) -> String {
    ctx.fresh.clear_caches_for_verif();
    let aw = ctx.fresh.get_attack_targets(&ctx.board, Color::White);
    let ab = ctx.fresh.get_attack_targets(&ctx.board, Color::Black);
    format!("att {:x} {:x}", aw.0, ab.0)
}

fn ending_char(e: Option<evaluate::GameEnding>) -> char {
    match e {
        Some(evaluate::GameEnding::Checkmate) => 'C',
        Some(evaluate::GameEnding::Stalemate) => 'S',
        Some(evaluate::GameEnding::Draw) => 'D',
        None => '-',
    }
}

/// verdicts for the side to move with a fresh (f) or the long-lived (l) generator
pub fn verdict(ctx: &mut Ctx, long: bool) -> String {
    let t = ctx.board.turn();
    let mg = if long {
        &mut ctx.long
    } else {
        ctx.fresh.clear_caches_for_verif();
        &mut ctx.fresh
    };
    let chk = evaluate::player_is_in_check(&ctx.board, mg, t);
    let mate = evaluate::player_is_in_checkmate(&mut ctx.board, mg, t);
    let end = evaluate::game_ending(&mut ctx.board, mg, t);
    format!(
        "{} {} {} {}",
        if long { "verdictl" } else { "verdict" },
        chk as u8,
        mate as u8,
        ending_char(end)
    )
}

fn effect_char(e: ChessMoveEffect) -> char {
    match e {
        ChessMoveEffect::None => '-',
        ChessMoveEffect::Check => '+',
        ChessMoveEffect::Checkmate => '#',
        ChessMoveEffect::NotYetCalculated => '?',
    }
}

pub fn effects(ctx: &mut Ctx, long: bool) -> String {
    let t = ctx.board.turn();
    let mg = if long {
        &mut ctx.long
    } else {
        ctx.fresh.clear_caches_for_verif();
        &mut ctx.fresh
    };
    let ms = mg.generate_moves_and_lazily_update_chess_move_effects(&mut ctx.board, t);
    let mut out = String::from(if long { "effectsl" } else { "effects" });
    for m in ms.iter() {
        out.push_str(&format!(" {}:{}", mv_text(m), effect_char(m.effect())));
    }
    out
}

pub fn san(ctx: &mut Ctx) -> String {
    ctx.fresh.clear_caches_for_verif();
    let t = ctx.board.turn();
    let l = enumerate_candidate_moves_with_algebraic_notation(&mut ctx.board, t, &mut ctx.fresh);
    let mut out = String::from("san");
    for (m, s) in l.iter() {
        out.push_str(&format!(" {}:{}", mv_text(m), s));
    }
    out
}

/// coordinate text of every legal move, and whether reading it back in this position
/// reconstructs the same move (same kind, squares, capture, promotion)
pub fn uci(ctx: &mut Ctx) -> String {
    let ms = gen_fresh(ctx);
    let mut out = String::from("uci");
    for m in ms.iter() {
        let u = m.to_uci();
        let back = catch_unwind(AssertUnwindSafe(|| create_chess_move_from_uci_for_verif(&u, &ctx.board)));
        let r = match back {
            Ok(p) => mv_text(&p),
            Err(_) => "PANIC".to_string(),
        };
        out.push_str(&format!(" {}:{}:{}", mv_text(m), u, r));
    }
    out
}

/// the two mate scores at remaining depth 0, read from the engine itself on two fixed mated positions
pub fn mate_scores() -> (i16, i16) {
    use std::sync::OnceLock;
    static M: OnceLock<(i16, i16)> = OnceLock::new();
    *M.get_or_init(|| {
        let mut g = MoveGenerator::with_cache_capacity(64);
        // black is mated: R5k1/5ppp/8/8/8/8/8/4K3 b ; white is mated: the mirror
        let mut b1 = crate::util::Pos::from_fen("R5k1/5ppp/8/8/8/8/8/4K3 b - - 0 1").setup();
        let mut b2 = crate::util::Pos::from_fen("4k3/8/8/8/8/8/5PPP/r5K1 w - - 0 1").setup();
        let w = evaluate::score(&mut b1, &mut g, Color::Black, 0);
        let b = evaluate::score(&mut b2, &mut g, Color::White, 0);
        (w, b)
    })
}

pub fn mat(ctx: &mut Ctx) -> String {
    let v = evaluate::board_material_score(&ctx.board);
    let mut out = format!("mat {}", v);
    // C18 decision predicate: the static score stays strictly inside the two mate scores (read from
    // the engine itself at remaining depth 0, where a mate scores least), for legal material
    let (w, b) = mate_scores();
    if !(b < v && v < w) {
        out.push_str(&format!("\n! C18 static score {} is not strictly between the mate scores {} and {} in [{}]", v, b, w, snap(&ctx.board)));
    }
    out
}

pub fn score(ctx: &mut Ctx, depth: u8) -> String {
    ctx.fresh.clear_caches_for_verif();
    let t = ctx.board.turn();
    let v = evaluate::score(&mut ctx.board, &mut ctx.fresh, t, depth);
    let mut out = format!("score {} {}", depth, v);
    // C18 decision predicate on terminal positions (no count-based draw in force): stalemate scores zero
    // (mate scores are compared with the model, whose constants are translated from the source)
    if ctx.board.halfmove_clock() < 100 && ctx.board.max_seen_position_count() != 3 {
        ctx.fresh.clear_caches_for_verif();
        let none = ctx.fresh.generate_moves(&mut ctx.board, t).is_empty();
        if none {
            ctx.fresh.clear_caches_for_verif();
            let in_check = evaluate::player_is_in_check(&ctx.board, &mut ctx.fresh, t);
            if !in_check && v != 0 {
                out.push_str(&format!("\n! C18 stalemate (no legal move, not in check) scored {} at remaining depth {} in [{}]", v, depth, snap(&ctx.board)));
            }
        }
    }
    out
}

pub fn piece_counts(b: &Board) -> usize {
    b.occupied().0.count_ones() as usize
}

#[allow(dead_code)]
pub fn has_piece(b: &Board, p: Piece, c: Color) -> bool {
    !b.pieces(c).locate(p).is_empty()
}
