// special.rs — table dumps, exhaustive sweeps, search / perft / book / game operations.
use crate::obs::*;
use crate::util::*;
use chess::alpha_beta_searcher::{alpha_beta_search, SearchContext};
use chess::board::color::Color;
use chess::board::piece::Piece;
use chess::board::Board;
use chess::book::{Book, BookMove};
use chess::game::game::Game;
use chess::move_generator::{magic_entries_for_verif, MoveGenerator};
use common::bitboard::bitboard::Bitboard;
use std::panic::{catch_unwind, AssertUnwindSafe};

/// Zobrist constants read black-box through the public API (one-feature boards).
/// The rights constants are relative: key(lose(15 & !r)) = T[15] ^ T[r].
pub fn dump_zobrist() {
    for (pi, p) in PIECES.iter().enumerate() {
        for sq in 0..64 {
            for (ci, c) in [Color::Black, Color::White].iter().enumerate() {
                let mut b = Board::new();
                b.put(bb(sq), *p, *c).unwrap();
                println!("zp {} {} {} {}", pi, sq, ci, b.current_position_hash());
            }
        }
    }
    for r in 0..16u8 {
        let mut b = Board::new();
        b.lose_castle_rights(15 & !r);
        println!("zc {} {}", r, b.current_position_hash());
    }
    for sq in 0..64 {
        let mut b = Board::new();
        b.push_en_passant_target(bb(sq));
        println!("ze {} {}", sq, b.current_position_hash());
    }
}

pub fn dump_magics() {
    let (r, b, rs, bs) = magic_entries_for_verif();
    for (i, e) in r.iter().enumerate() {
        println!("rook {} {} {} {} {}", i, e.0, e.1, e.2, e.3);
    }
    for (i, e) in b.iter().enumerate() {
        println!("bishop {} {} {} {} {}", i, e.0, e.1, e.2, e.3);
    }
    println!("sizes {} {}", rs, bs);
}

fn ray_ref(sq: usize, occ: u64, dirs: &[(i32, i32)]) -> u64 {
    let mut out = 0u64;
    for (dr, df) in dirs {
        let (mut r, mut f) = ((sq / 8) as i32 + dr, (sq % 8) as i32 + df);
        while (0..8).contains(&r) && (0..8).contains(&f) {
            let i = (r * 8 + f) as usize;
            out |= 1u64 << i;
            if occ & (1u64 << i) != 0 {
                break;
            }
            r += dr;
            f += df;
        }
    }
    out
}
const ROOK_DIRS: [(i32, i32); 4] = [(1, 0), (-1, 0), (0, 1), (0, -1)];
const BISHOP_DIRS: [(i32, i32); 4] = [(1, 1), (1, -1), (-1, 1), (-1, -1)];

fn relevant_mask(sq: usize, dirs: &[(i32, i32)]) -> u64 {
    // ray squares whose occupancy can matter: all but the last square of each ray
    let mut m = 0u64;
    for (dr, df) in dirs {
        let (mut r, mut f) = ((sq / 8) as i32 + dr, (sq % 8) as i32 + df);
        while (0..8).contains(&(r + dr)) && (0..8).contains(&(f + df)) {
            m |= 1u64 << (r * 8 + f);
            r += dr;
            f += df;
        }
    }
    m
}

fn mix(h: u64, v: u64) -> u64 {
    (h ^ v).wrapping_mul(0x100000001B3).rotate_left(17)
}

/// C11 exhaustive sweep: every square x every subset of the relevant blocker squares
/// (102,400 rook + 5,248 bishop cases), optionally with random extra pieces elsewhere,
/// through the public attack-map API on one-slider boards; compared with ray walking.
pub fn magic_sweep(kv: &Args) {
    let extra_rounds = kv.num("extra", 0);
    let seed = kv.num("seed", 1);
    let mut rng = Rng(seed ^ 0xA11CE);
    let mut mg = MoveGenerator::with_cache_capacity(16);
    let mut cases = 0u64;
    let mut fails = 0u64;
    for (name, piece, dirs) in [("rook", Piece::Rook, ROOK_DIRS), ("bishop", Piece::Bishop, BISHOP_DIRS), ("queen", Piece::Queen, ROOK_DIRS)] {
        for sq in 0..64usize {
            let mask = if name == "queen" { relevant_mask(sq, &ROOK_DIRS) | relevant_mask(sq, &BISHOP_DIRS) } else { relevant_mask(sq, &dirs) };
            let mut digest = 0xcbf29ce484222325u64;
            let mut n = 0u64;
            let mut sub = 0u64;
            // queens: sample subsets (the rook and bishop components are swept completely)
            let queen_samples = 2000u64;
            loop {
                let blockers = if name == "queen" {
                    rng.next() & rng.next() & mask
                } else {
                    sub
                };
                for round in 0..=extra_rounds {
                    let mut occ = blockers;
                    if round > 0 {
                        // arbitrary extra pieces anywhere else
                        occ |= rng.next() & rng.next() & !(1u64 << sq);
                    }
                    let mut b = Board::new();
                    b.put(bb(sq), piece, Color::White).unwrap();
                    for i in 0..64 {
                        if occ & (1u64 << i) != 0 {
                            b.put(bb(i), Piece::Rook, Color::Black).unwrap();
                        }
                    }
                    mg.clear_caches_for_verif();
                    let got = mg.get_attack_targets(&b, Color::White).0;
                    let full_occ = occ | (1u64 << sq);
                    let want = match name {
                        "rook" => ray_ref(sq, full_occ, &ROOK_DIRS),
                        "bishop" => ray_ref(sq, full_occ, &BISHOP_DIRS),
                        _ => ray_ref(sq, full_occ, &ROOK_DIRS) | ray_ref(sq, full_occ, &BISHOP_DIRS),
                    };
                    cases += 1;
                    if got != want {
                        fails += 1;
                        if fails <= 5 {
                            println!("! C11 {} on {} with occupancy {:x}: engine {:x}, ray walk {:x}", name, sqname(sq), full_occ, got, want);
                        }
                    }
                    if round == 0 {
                        digest = mix(digest, got);
                    }
                }
                n += 1;
                if name == "queen" {
                    if n >= queen_samples / 64 {
                        break;
                    }
                } else {
                    sub = sub.wrapping_sub(mask) & mask;
                    if sub == 0 {
                        break;
                    }
                }
            }
            if name != "queen" {
                println!("sweep {} {} {}", name, sq, n);
                println!("< digest {:016x}", digest);
            }
        }
    }
    // generators constructed inside rayon pools of several sizes (the tables are filled at construction):
    // a lone slider on every square, on the empty board and with every relevant blocker square occupied
    for threads in [1usize, 2, 3, 5, 6, 7, 9, 12] {
        let pool = rayon::ThreadPoolBuilder::new().num_threads(threads).build().unwrap();
        let mut g = pool.install(|| MoveGenerator::with_cache_capacity(16));
        for (name, piece, dirs) in [("rook", Piece::Rook, ROOK_DIRS), ("bishop", Piece::Bishop, BISHOP_DIRS)] {
            for sq in 0..64usize {
                for occ in [0u64, relevant_mask(sq, &dirs)] {
                    let mut b = Board::new();
                    b.put(bb(sq), piece, Color::White).unwrap();
                    for i in 0..64 {
                        if occ & (1u64 << i) != 0 {
                            b.put(bb(i), Piece::Rook, Color::Black).unwrap();
                        }
                    }
                    g.clear_caches_for_verif();
                    let got = g.get_attack_targets(&b, Color::White).0;
                    let want = ray_ref(sq, occ | (1u64 << sq), &dirs);
                    cases += 1;
                    if got != want {
                        fails += 1;
                        if fails <= 8 {
                            println!("! C11 generator built in a pool of {} threads: {} on {} with occupancy {:x}: engine {:x}, ray walk {:x}", threads, name, sqname(sq), occ | (1u64 << sq), got, want);
                        }
                    }
                }
            }
        }
    }
    // knights and kings: all 64 squares, alone and with random other pieces around
    for (name, piece) in [("knight", Piece::Knight), ("king", Piece::King)] {
        for sq in 0..64usize {
            let mut b = Board::new();
            b.put(bb(sq), piece, Color::White).unwrap();
            mg.clear_caches_for_verif();
            let got = mg.get_attack_targets(&b, Color::White).0;
            let offs: &[(i32, i32)] = if name == "knight" {
                &[(1, 2), (2, 1), (2, -1), (1, -2), (-1, -2), (-2, -1), (-2, 1), (-1, 2)]
            } else {
                &[(1, 0), (1, 1), (0, 1), (-1, 1), (-1, 0), (-1, -1), (0, -1), (1, -1)]
            };
            let mut want = 0u64;
            for (dr, df) in offs {
                let (r, f) = ((sq / 8) as i32 + dr, (sq % 8) as i32 + df);
                if (0..8).contains(&r) && (0..8).contains(&f) {
                    want |= 1u64 << (r * 8 + f);
                }
            }
            cases += 1;
            if got != want {
                fails += 1;
                println!("! C11 {} on {}: engine {:x}, expected {:x}", name, sqname(sq), got, want);
            }
            println!("table {} {}", name, sq);
            println!("< targets {:x}", got);
            // with black pieces elsewhere the map must not change (no own-square stripping)
            for _ in 0..extra_rounds {
                let occ = rng.next() & rng.next() & !(1u64 << sq);
                let mut b = Board::new();
                b.put(bb(sq), piece, Color::White).unwrap();
                for i in 0..64 {
                    if occ & (1u64 << i) != 0 {
                        b.put(bb(i), Piece::Rook, Color::Black).unwrap();
                    }
                }
                mg.clear_caches_for_verif();
                let got2 = mg.get_attack_targets(&b, Color::White).0;
                cases += 1;
                if got2 != want {
                    fails += 1;
                    println!("! C11 {} on {} with other pieces {:x}: engine {:x}, expected {:x}", name, sqname(sq), occ, got2, want);
                }
            }
        }
    }
    println!("# stats family=magic-sweep cases={} fails={}", cases, fails);
}

pub fn dump_tables() {}

pub struct Extra {
    pub last_sched_stats: (u64, u64),
    pub sctx: Option<SearchContext>,
    pub game: Option<Game>,
    pub book: Option<Book>,
}
impl Extra {
    pub fn new() -> Extra {
        Extra { last_sched_stats: (0, 0), sctx: None, game: None, book: None }
    }
}

fn game_snap(g: &Game, hist: &[String]) -> String {
    format!("{} | hist {}", snap(g.board()), hist.join(" "))
}

/// operations that need the search context, a Game, or the book
pub fn exec_special(ctx: &mut Ctx, ex: &mut Extra, hist: &mut Vec<String>, toks: &[&str]) -> Option<String> {
    let r = match toks[0] {
        "sctx" => {
            let d: u8 = toks[1].parse().unwrap();
            ex.sctx = Some(SearchContext::new(d));
            "ok".to_string()
        }
        "search" => {
            // search <threads> [long]: alpha_beta_search in a rayon pool of the given size
            let threads: usize = toks[1].parse().unwrap();
            let sc = ex.sctx.as_mut().expect("sctx first");
            let before = crate::scen::full_snapshot(&ctx.board);
            let pool = rayon::ThreadPoolBuilder::new().num_threads(threads).build().unwrap();
            // `search <n> long`: with the long-lived generator (as a Game keeps one across its searches)
            let long = toks.len() > 2 && toks[2] == "long";
            if !long {
                ctx.fresh.clear_caches_for_verif();
            }
            let board = &mut ctx.board;
            let mg = if long { &mut ctx.long } else { &mut ctx.fresh };
            let res = catch_unwind(AssertUnwindSafe(|| pool.install(|| alpha_beta_search(sc, board, mg))));
            let after = crate::scen::full_snapshot(&ctx.board);
            let mut s = match res {
                Ok(Ok(m)) => format!("search Ok {} {}", sc.last_score().unwrap(), mv_text(&m)),
                Ok(Err(e)) => format!("search Err {:?}", e),
                Err(_) => "search PANIC".to_string(),
            };
            if before != after {
                s.push_str(" BOARD-CHANGED");
            }
            s
        }
        "searchx" => {
            // searchx <threads>: alpha_beta_search as in `search`, decided by the harness itself against a
            // plain (pruning-free, cache-free) minimax over the engine's own legal-move generator and
            // evaluate::score.  Used where the extracted model is too slow to be the oracle (depth >= 4);
            // generator and leaf score are tied to the model by the C01 / C06 / C18 correspondences.
            let threads: usize = toks[1].parse().unwrap();
            let sc = ex.sctx.as_mut().expect("sctx first");
            let depth = sc.search_depth();
            let before = crate::scen::full_snapshot(&ctx.board);
            let pool = rayon::ThreadPoolBuilder::new().num_threads(threads).build().unwrap();
            ctx.fresh.clear_caches_for_verif();
            let res = {
                let board = &mut ctx.board;
                let mg = &mut ctx.fresh;
                catch_unwind(AssertUnwindSafe(|| pool.install(|| alpha_beta_search(sc, board, mg))))
            };
            let after = crate::scen::full_snapshot(&ctx.board);
            let mut s = match &res {
                Ok(Ok(m)) => format!("searchx Ok {} {}", sc.last_score().unwrap(), mv_text(m)),
                Ok(Err(e)) => format!("searchx Err {:?}", e),
                Err(_) => "searchx PANIC".to_string(),
            };
            if before != after {
                s.push_str(" BOARD-CHANGED");
            }
            if depth >= 1 {
                fn plain_mm(b: &mut Board, g: &mut MoveGenerator, d: u8, maximizing: bool) -> i16 {
                    let turn = b.turn();
                    if d == 0 {
                        return chess::evaluate::score(b, g, turn, 0);
                    }
                    let ms = g.generate_moves(b, turn);
                    if ms.is_empty() {
                        return chess::evaluate::score(b, g, turn, d);
                    }
                    let mut v = if maximizing { i16::MIN } else { i16::MAX };
                    for m in ms.iter() {
                        m.apply(b).unwrap();
                        b.toggle_turn();
                        let x = plain_mm(b, g, d - 1, !maximizing);
                        m.undo(b).unwrap();
                        b.toggle_turn();
                        v = if maximizing { v.max(x) } else { v.min(x) };
                    }
                    v
                }
                let mut b = ctx.board.clone();
                let mut g = MoveGenerator::with_cache_capacity(1 << 20);
                let maximizing = b.turn() == Color::White;
                let turn = b.turn();
                let roots = g.generate_moves(&mut b, turn);
                let mut vals: Vec<(String, i16)> = vec![];
                for m in roots.iter() {
                    m.apply(&mut b).unwrap();
                    b.toggle_turn();
                    let x = plain_mm(&mut b, &mut g, depth - 1, !maximizing);
                    m.undo(&mut b).unwrap();
                    b.toggle_turn();
                    vals.push((mv_text(m), x));
                }
                let pos = crate::util::Pos::of_board(&ctx.board).line();
                if vals.is_empty() {
                    if !matches!(res, Ok(Err(_))) {
                        s.push_str(&format!("\n! C08 search answered [{}] in [{}] which has no legal move", s, pos));
                    }
                } else {
                    let best = if maximizing { vals.iter().map(|x| x.1).max().unwrap() } else { vals.iter().map(|x| x.1).min().unwrap() };
                    match &res {
                        Ok(Ok(m)) => {
                            let sc_v = sc.last_score().unwrap();
                            let mv = mv_text(m);
                            let own = vals.iter().find(|x| x.0 == mv).map(|x| x.1);
                            if sc_v != best || own != Some(best) {
                                s.push_str(&format!(
                                    "\n! C08 depth-{} search in [{}] reported {} with move {} (whose own minimax value is {:?}) but the exact minimax value is {}",
                                    depth, pos, sc_v, mv, own, best
                                ));
                            }
                        }
                        _ => s.push_str(&format!("\n! C08 depth-{} search in [{}] answered without a move although {} legal moves exist", depth, pos, vals.len())),
                    }
                }
            }
            s
        }
        "sched" => {
            // sched <threads> <seed> <mode>: alpha_beta_search in a rayon pool of the given size with the
            // cfg(chess_verif) hook installed: every shared-cache write is observed (a key that ever
            // receives two different values is the root of schedule dependence) and every yield point
            // (task begin/end, cache read/write) perturbs the schedule by a seeded strategy:
            //   mode 0 = free running; 1 = random yields/sleeps; 2 = per-task priorities (low-priority
            //   tasks are delayed at every event); 3 = bounded preemption (a few long stalls)
            use chess::alpha_beta_searcher::verif_hooks::{set_hook, Event};
            use std::collections::HashMap;
            use std::sync::atomic::{AtomicU64, Ordering};
            use std::sync::{Arc, Mutex};
            let threads: usize = toks[1].parse().unwrap();
            let seed: u64 = toks[2].parse().unwrap();
            let mode: u64 = toks[3].parse().unwrap();
            let sc = ex.sctx.as_mut().expect("sctx first");
            let writes: Arc<Mutex<HashMap<String, i16>>> = Arc::new(Mutex::new(HashMap::new()));
            let conflicts: Arc<Mutex<Vec<String>>> = Arc::new(Mutex::new(vec![]));
            let events = Arc::new(AtomicU64::new(0));
            let prio: Arc<Mutex<HashMap<String, u64>>> = Arc::new(Mutex::new(HashMap::new()));
            thread_local! { static CUR_TASK: std::cell::RefCell<String> = std::cell::RefCell::new(String::new()); }
            let (w2, c2, e2, p2) = (writes.clone(), conflicts.clone(), events.clone(), prio.clone());
            set_hook(Some(Arc::new(move |ev: &Event| {
                let n = e2.fetch_add(1, Ordering::SeqCst);
                match ev {
                    Event::TaskBegin(name) => {
                        CUR_TASK.with(|t| *t.borrow_mut() = name.clone());
                        let mut h = seed ^ 0x9E3779B97F4A7C15;
                        for b in name.bytes() {
                            h = (h ^ b as u64).wrapping_mul(0x100000001B3);
                        }
                        p2.lock().unwrap().insert(name.clone(), h % 8);
                    }
                    Event::CacheWrite(k, v) => {
                        let mut w = w2.lock().unwrap();
                        if let Some(old) = w.get(k) {
                            if *old != *v {
                                c2.lock().unwrap().push(format!("{} written with {} and {}", k, old, v));
                            }
                        } else {
                            w.insert(k.clone(), *v);
                        }
                    }
                    _ => {}
                }
                // perturbation
                let mut z = seed.wrapping_add(n.wrapping_mul(0x9E3779B97F4A7C15));
                z = (z ^ (z >> 30)).wrapping_mul(0xBF58476D1CE4E5B9);
                z = (z ^ (z >> 27)).wrapping_mul(0x94D049BB133111EB);
                z ^= z >> 31;
                match mode {
                    1 => {
                        if z % 4 == 0 {
                            std::thread::yield_now();
                        } else if z % 16 == 1 {
                            std::thread::sleep(std::time::Duration::from_micros(z % 200));
                        }
                    }
                    2 => {
                        let name = CUR_TASK.with(|t| t.borrow().clone());
                        let p = *p2.lock().unwrap().get(&name).unwrap_or(&0);
                        if p > 0 && z % 8 < p {
                            std::thread::sleep(std::time::Duration::from_micros(20 * p));
                        }
                    }
                    3 => {
                        if z % 97 == 0 {
                            std::thread::sleep(std::time::Duration::from_millis(2));
                        }
                    }
                    _ => {}
                }
            })));
            let before = crate::scen::full_snapshot(&ctx.board);
            let pool = rayon::ThreadPoolBuilder::new().num_threads(threads).build().unwrap();
            ctx.fresh.clear_caches_for_verif();
            let board = &mut ctx.board;
            let mg = &mut ctx.fresh;
            let res = catch_unwind(AssertUnwindSafe(|| pool.install(|| alpha_beta_search(sc, board, mg))));
            set_hook(None);
            let after = crate::scen::full_snapshot(&ctx.board);
            let mut s = match res {
                Ok(Ok(m)) => format!("sched Ok {} {}", sc.last_score().unwrap(), mv_text(&m)),
                Ok(Err(e)) => format!("sched Err {:?}", e),
                Err(_) => "sched PANIC".to_string(),
            };
            if before != after {
                s.push_str(" BOARD-CHANGED");
            }
            let cf = conflicts.lock().unwrap();
            if !cf.is_empty() {
                s.push_str(&format!(" CONFLICT[{}]", cf[0]));
            }
            ex.last_sched_stats = (events.load(Ordering::SeqCst), writes.lock().unwrap().len() as u64);
            s
        }
        "perft" => {
            // perft <depth> <threads>: MoveGenerator::count_positions on the current board
            let d: u8 = toks[1].parse().unwrap();
            let threads: usize = toks[2].parse().unwrap();
            let long = toks.len() > 3 && toks[3] == "long";
            let pool = rayon::ThreadPoolBuilder::new().num_threads(threads).build().unwrap();
            let t = ctx.board.turn();
            if !long {
                ctx.fresh.clear_caches_for_verif();
            }
            let mg = if long { &mut ctx.long } else { &mut ctx.fresh };
            let board = &mut ctx.board;
            guard(|| format!("perft {} {}", d, pool.install(|| mg.count_positions(d, board, t))))
        }
        "perft2" => {
            // perft2 <depth> <threads>: the same count started twice at the same moment on two threads, each
            // with its own clone of the board, its own generator and its own rayon pool
            let d: u8 = toks[1].parse().unwrap();
            let threads: usize = toks[2].parse().unwrap();
            let t = ctx.board.turn();
            let barrier = std::sync::Arc::new(std::sync::Barrier::new(2));
            let mut handles = vec![];
            for _ in 0..2 {
                let mut b = ctx.board.clone();
                let bar = barrier.clone();
                handles.push(std::thread::spawn(move || {
                    let pool = rayon::ThreadPoolBuilder::new().num_threads(threads).build().unwrap();
                    let mut mg = MoveGenerator::with_cache_capacity(4096);
                    bar.wait();
                    catch_unwind(AssertUnwindSafe(|| pool.install(|| mg.count_positions(d, &mut b, t))))
                }));
            }
            let rs: Vec<String> = handles.into_iter().map(|h| match h.join() { Ok(Ok(n)) => n.to_string(), _ => "PANIC".to_string() }).collect();
            format!("perft2 {} {} {}", d, rs[0], rs[1])
        }
        "clicount" => {
            // clicount <depth>: the `chess count-positions --depth <depth>` driver itself
            // (game::position_counter::run_count_positions: one generator reused across the depths,
            // standard starting position), its stdout captured and parsed
            let d: u8 = toks[1].parse().unwrap();
            let (res, out) = capture_stdout(|| {
                catch_unwind(AssertUnwindSafe(|| {
                    chess::game::position_counter::run_count_positions(d, chess::game::position_counter::CountPositionsStrategy::All)
                }))
            });
            if res.is_err() {
                "clicount PANIC".to_string()
            } else {
                let mut counts: Vec<String> = vec![];
                let mut total = String::from("?");
                for l in out.lines() {
                    if let Some(rest) = l.strip_prefix("depth: ") {
                        // depth: k, positions: n, positions per second: x
                        let f: Vec<&str> = rest.split(", ").collect();
                        if f.len() >= 2 {
                            counts.push(format!("{}:{}", f[0], f[1].trim_start_matches("positions: ")));
                        }
                    } else if let Some(rest) = l.strip_prefix("total positions: ") {
                        total = rest.split(',').next().unwrap_or("?").to_string();
                    }
                }
                format!("clicount {} {} total:{}", d, counts.join(" "), total)
            }
        }
        "watch" => {
            // watch <move_limit> <depth>: the real `chess watch` loop (game::computer_vs_computer), no sleep,
            // stdout captured: the notation of every move made, the half-move clock shown after it, and
            // how the loop ended
            let limit: u8 = toks[1].parse().unwrap();
            let d: u8 = toks[2].parse().unwrap();
            let (res, out) = capture_stdout(|| {
                catch_unwind(AssertUnwindSafe(|| chess::game::computer_vs_computer::computer_vs_computer(limit, 0, d)))
            });
            let mut moves: Vec<String> = vec![];
            let mut clocks: Vec<String> = vec![];
            let mut scores: Vec<String> = vec![];
            let mut end = "limit".to_string();
            for l in out.lines() {
                if let Some(rest) = l.strip_prefix("Last move: ") {
                    moves.push(rest.trim().to_string());
                } else if let Some(rest) = l.strip_prefix("* Halfmove clock: ") {
                    clocks.push(rest.trim().to_string());
                } else if let Some(rest) = l.strip_prefix("* Score: ") {
                    scores.push(rest.trim().to_string());
                } else if let Some(rest) = l.strip_prefix("* Positions searched: ") {
                    // "0 (book move: ..)" = the move came from the book: the score shown is not this move's
                    if rest.trim_start().starts_with("0 ") {
                        if let Some(last) = scores.last_mut() {
                            *last = "-".to_string();
                        }
                    }
                } else if l == "checkmate!" || l == "stalemate!" || l == "draw!" {
                    end = l.trim_end_matches('!').to_string();
                } else if let Some(rest) = l.strip_prefix("error: ") {
                    end = format!("error[{}]", rest.replace(' ', "_"));
                }
            }
            if res.is_err() {
                end = "PANIC".to_string();
            }
            while scores.len() < moves.len() {
                scores.push("-".to_string());
            }
            let mv: Vec<String> = moves.iter().zip(clocks.iter()).zip(scores.iter()).map(|((m, c), sc)| format!("{}/{}/{}", m, c, sc)).collect();
            // a changed output format is not a property failure: nothing recognisable -> not compared
            if moves.is_empty() && !end.starts_with("error") && end != "PANIC" && !out.contains("Last move") {
                return Some("watch unparsed".to_string());
            }
            let mut s = format!("watch {} {}", end, mv.join(" "));
            if end.starts_with("error") || end == "PANIC" {
                s.push_str(&format!("\n! C15 the watch loop (depth {}) ended with {} after {} moves", d, end, moves.len()));
            }
            s
        }
        "play" => {
            // play <depth> <w|b> <in1>|<in2>|... : the real `chess play` loop (game::human_vs_computer) in a child
            // process; the human's lines on its stdin, the engine answering by itself.  The loop never ends on
            // end-of-input, so the child is killed once its output exceeds a cap.  Parsed: the notation of every
            // move made (human and engine), and the verdict if the game ended.
            use std::io::{Read, Write};
            use std::process::{Command, Stdio};
            let depth = toks[1];
            let color = toks[2];
            let script = if toks.len() > 3 { toks[3] } else { "" };
            let mut child = Command::new(std::env::current_exe().unwrap())
                .arg("playchild")
                .arg(format!("depth={}", depth))
                .arg(format!("color={}", color))
                .stdin(Stdio::piped())
                .stdout(Stdio::piped())
                .stderr(Stdio::null())
                .spawn()
                .expect("spawn play child");
            {
                let mut si = child.stdin.take().unwrap();
                for l in script.split('|') {
                    let _ = writeln!(si, "{}", l);
                }
            }
            let mut so = child.stdout.take().unwrap();
            let mut out: Vec<u8> = vec![];
            let mut buf = [0u8; 65536];
            let mut runaway = false;
            loop {
                match so.read(&mut buf) {
                    Ok(0) | Err(_) => break,
                    Ok(n) => {
                        out.extend_from_slice(&buf[..n]);
                        if out.len() > (1 << 19) {
                            runaway = true;
                            let _ = child.kill();
                            break;
                        }
                    }
                }
            }
            let status = child.wait().ok();
            let text = String::from_utf8_lossy(&out).to_string();
            let mut moves: Vec<String> = vec![];
            let mut end = if runaway { "runaway".to_string() } else { "eof".to_string() };
            for l in text.lines() {
                if let Some(pos) = l.find("Last move: ") {
                    moves.push(l[pos + 11..].trim().to_string());
                } else if l.ends_with("checkmate!") || l.ends_with("stalemate!") {
                    end = if l.ends_with("checkmate!") { "checkmate".to_string() } else { "stalemate".to_string() };
                }
            }
            if let Some(st) = status {
                if !st.success() && !runaway {
                    end = "crashed".to_string();
                }
            }
            if moves.is_empty() && !text.contains("Last move") && end != "crashed" {
                "play unparsed".to_string()
            } else {
                format!("play {} {}", end, moves.join(" "))
            }
        }
        "pvp" => {
            // pvp <in1>|<in2>|... : the real `chess pvp` loop (game::player_vs_player) in a child process, the
            // inputs on its stdin; its stdout (the board printed before every prompt, the final verdict) parsed.
            // The loop never ends on end-of-input, so the child is killed once its output exceeds a cap
            // ("runaway"): scripts are built to end in a mate.
            use std::io::{Read, Write};
            use std::process::{Command, Stdio};
            let script = if toks.len() > 1 { toks[1] } else { "" };
            let mut child = Command::new(std::env::current_exe().unwrap())
                .arg("pvpchild")
                .stdin(Stdio::piped())
                .stdout(Stdio::piped())
                .stderr(Stdio::null())
                .spawn()
                .expect("spawn pvp child");
            {
                let mut si = child.stdin.take().unwrap();
                for l in script.split('|') {
                    let _ = writeln!(si, "{}", l);
                }
            }
            let mut so = child.stdout.take().unwrap();
            let mut out: Vec<u8> = vec![];
            let mut buf = [0u8; 65536];
            let mut runaway = false;
            loop {
                match so.read(&mut buf) {
                    Ok(0) | Err(_) => break,
                    Ok(n) => {
                        out.extend_from_slice(&buf[..n]);
                        if out.len() > (1 << 20) {
                            runaway = true;
                            let _ = child.kill();
                            break;
                        }
                    }
                }
            }
            let status = child.wait().ok();
            let text = String::from_utf8_lossy(&out).to_string();
            let glyph = |ch: char| -> Option<char> {
                Some(match ch {
                    '♝' => 'B', '♚' => 'K', '♞' => 'N', '♟' => 'P', '♛' => 'Q', '♜' => 'R',
                    '♗' => 'b', '♔' => 'k', '♘' => 'n', '♙' => 'p', '♕' => 'q', '♖' => 'r',
                    '.' => '.',
                    _ => return None,
                })
            };
            let lines: Vec<&str> = text.lines().collect();
            let mut boards: Vec<String> = vec![];
            let mut end = if runaway { "runaway".to_string() } else { "eof".to_string() };
            let mut i = 0;
            let max_boards = script.split('|').count() + 1;
            while i < lines.len() {
                let l = lines[i];
                if let Some(t) = l.strip_prefix("turn: ") {
                    if i + 8 < lines.len() && boards.len() < max_boards {
                        let mut rows: Vec<Vec<char>> = vec![];
                        let mut ok = true;
                        for r in 0..8 {
                            let row: Vec<char> = lines[i + 1 + r].chars().filter_map(glyph).collect();
                            if row.len() != 8 {
                                ok = false;
                            }
                            rows.push(row);
                        }
                        if ok {
                            let mut cells = String::new();
                            for r in (0..8).rev() {
                                for f in 0..8 {
                                    cells.push(rows[r][f]);
                                }
                            }
                            boards.push(format!("{}:{}", cells, if t.trim().to_lowercase().starts_with('w') { 'w' } else { 'b' }));
                        } else {
                            boards.push("unparsed".to_string());
                        }
                    }
                    i += 9;
                    continue;
                }
                if l == "checkmate!" || l == "stalemate!" || l == "draw!" {
                    end = l.trim_end_matches('!').to_string();
                }
                i += 1;
            }
            if let Some(st) = status {
                if !st.success() && !runaway {
                    end = "crashed".to_string();
                }
            }
            if boards.is_empty() || boards.iter().all(|b| b == "unparsed") {
                // a changed output format is not a property failure: nothing recognisable -> not compared
                "pvp unparsed".to_string()
            } else {
                format!("pvp {} {}", end, boards.join(" "))
            }
        }
        "book" => {
            // book <from><to> ... : continuations offered after this line, sorted
            if ex.book.is_none() {
                ex.book = Some(Book::default());
            }
            let line: Vec<BookMove> = toks[1..].iter().map(|t| BookMove::new(bb(parse_sq(&t[0..2])), bb(parse_sq(&t[2..4])))).collect();
            let mut next: Vec<String> = ex.book.as_ref().unwrap().get_next_moves(line).iter().map(|(m, _)| format!("{}{}", sqname(idx(m.from_square())), sqname(idx(m.to_square())))).collect();
            next.sort();
            format!("book {}", next.join(" "))
        }
        "game" => {
            // game <depth>: Game::from_board(current board)
            let d: u8 = toks[1].parse().unwrap();
            ex.game = Some(Game::from_board(ctx.board.clone(), d));
            hist.clear();
            "ok".to_string()
        }
        "gnew" => {
            let d: u8 = toks[1].parse().unwrap();
            ex.game = Some(Game::new(d));
            hist.clear();
            "ok".to_string()
        }
        "gcoord" => {
            let g = ex.game.as_mut().unwrap();
            let (f, t) = (bb(parse_sq(toks[1])), bb(parse_sq(toks[2])));
            let r = catch_unwind(AssertUnwindSafe(|| g.apply_chess_move_by_from_to_coordinates(f, t)));
            match r {
                Ok(Ok(m)) => {
                    hist.push(mv_text(&m));
                    format!("gcoord Ok {}", mv_text(&m))
                }
                Ok(Err(_)) => "gcoord Err".to_string(),
                Err(_) => "gcoord PANIC".to_string(),
            }
        }
        "galg" => {
            let g = ex.game.as_mut().unwrap();
            let s = toks[1].to_string();
            let r = catch_unwind(AssertUnwindSafe(|| g.apply_chess_move_from_raw_algebraic_notation(s)));
            match r {
                Ok(Ok(m)) => {
                    hist.push(mv_text(&m));
                    format!("galg Ok {}", mv_text(&m))
                }
                Ok(Err(_)) => "galg Err".to_string(),
                Err(_) => "galg PANIC".to_string(),
            }
        }
        "gengine" => {
            // the engine's move (book first, search otherwise), selected and made
            let g = ex.game.as_mut().unwrap();
            let r = catch_unwind(AssertUnwindSafe(|| g.make_waterfall_book_then_alpha_beta_move()));
            match r {
                Ok(Ok(m)) => {
                    hist.push(mv_text(&m));
                    format!("gengine Ok {}", mv_text(&m))
                }
                Ok(Err(e)) => format!("gengine Err {}", format!("{:?}", e).split(|c: char| !c.is_alphanumeric()).next().unwrap_or("")),
                Err(_) => "gengine PANIC".to_string(),
            }
        }
        "gselect" => {
            // the engine's choice (book first, search otherwise) without playing it
            let g = ex.game.as_mut().unwrap();
            let r = catch_unwind(AssertUnwindSafe(|| g.select_waterfall_book_then_alpha_beta_best_move()));
            match r {
                Ok(Ok(m)) => format!("gselect Ok {}", mv_text(&m)),
                Ok(Err(e)) => format!("gselect Err {}", format!("{:?}", e).split(|c: char| !c.is_alphanumeric()).next().unwrap_or("")),
                Err(_) => "gselect PANIC".to_string(),
            }
        }
        "gunplay" => {
            // take back the last move made through the Game (test scaffolding for C15)
            let g = ex.game.as_mut().unwrap();
            match g.last_move() {
                Some(m) => {
                    m.undo(g.board_mut()).unwrap();
                    hist.pop();
                    "ok".to_string()
                }
                None => "nothing".to_string(),
            }
        }
        "gtoggle" => {
            ex.game.as_mut().unwrap().board_mut().toggle_turn();
            "ok".to_string()
        }
        "gsnap" => {
            let g = ex.game.as_ref().unwrap();
            // history as the Game itself reports it (last move) plus the harness's record
            let last = g.last_move().map(|m| mv_text(&m)).unwrap_or_else(|| "-".into());
            format!("gsnap {} | last {}", game_snap(g, hist), last)
        }
        "gbsnap" => snap(ex.game.as_ref().unwrap().board()),
        "gover" => {
            let g = ex.game.as_mut().unwrap();
            let e = g.check_game_over_for_current_turn();
            format!(
                "gover {}",
                match e {
                    Some(chess::evaluate::GameEnding::Checkmate) => 'C',
                    Some(chess::evaluate::GameEnding::Stalemate) => 'S',
                    Some(chess::evaluate::GameEnding::Draw) => 'D',
                    None => '-',
                }
            )
        }
        "glabels" => {
            let g = ex.game.as_mut().unwrap();
            let l = g.enumerated_candidate_moves();
            let mut out = String::from("glabels");
            for (m, s) in l.iter() {
                out.push_str(&format!(" {}:{}", mv_text(m), s));
            }
            out
        }
        "cliin" => {
            // cliin <text>: the text goes through the REAL command-line input layer
            // (input_handler::parse_player_move_input reads it from this process's stdin, which
            // is a pipe we feed) and the resulting command is executed on the game, exactly as
            // the pvp / play loops do.
            let g = ex.game.as_mut().unwrap();
            let text = if toks.len() > 1 { toks[1] } else { "" };
            feed_stdin(text);
            let parsed = catch_unwind(AssertUnwindSafe(|| chess::input_handler::parse_player_move_input()));
            match parsed {
                Err(_) => "cliin PANIC".to_string(),
                Ok(Err(_)) => "cliin refused-parser".to_string(),
                Ok(Ok(cmd)) => match catch_unwind(AssertUnwindSafe(|| cmd.execute(g))) {
                    Err(_) => "cliin PANIC".to_string(),
                    Ok(Err(_)) => "cliin refused-game".to_string(),
                    Ok(Ok(m)) => {
                        hist.push(mv_text(&m));
                        format!("cliin accepted {}", mv_text(&m))
                    }
                },
            }
        }
        _ => return None,
    };
    Some(r)
}

extern "C" {
    fn pipe(fds: *mut i32) -> i32;
    fn dup2(a: i32, b: i32) -> i32;
    fn write(fd: i32, buf: *const u8, n: usize) -> isize;
}
static STDIN_WRITE_FD: std::sync::atomic::AtomicI32 = std::sync::atomic::AtomicI32::new(-1);

extern "C" {
    fn dup(fd: i32) -> i32;
    fn close(fd: i32) -> i32;
    fn read(fd: i32, buf: *mut u8, n: usize) -> isize;
}

/// run `f` with this process's stdout redirected into a pipe that a helper thread drains
pub fn capture_stdout<R, F: FnOnce() -> R>(f: F) -> (R, String) {
    use std::io::Write;
    std::io::stdout().flush().unwrap();
    let mut fds = [0i32; 2];
    let saved;
    unsafe {
        assert!(pipe(fds.as_mut_ptr()) == 0);
        saved = dup(1);
        assert!(saved >= 0);
        assert!(dup2(fds[1], 1) == 1);
        close(fds[1]);
    }
    let rfd = fds[0];
    let reader = std::thread::spawn(move || {
        let mut out: Vec<u8> = vec![];
        let mut buf = [0u8; 65536];
        loop {
            let n = unsafe { read(rfd, buf.as_mut_ptr(), buf.len()) };
            if n <= 0 {
                break;
            }
            out.extend_from_slice(&buf[..n as usize]);
        }
        unsafe { close(rfd) };
        out
    });
    let r = f();
    std::io::stdout().flush().unwrap();
    unsafe {
        assert!(dup2(saved, 1) == 1);
        close(saved);
    }
    let out = reader.join().unwrap();
    (r, String::from_utf8_lossy(&out).to_string())
}

/// make this process's stdin a pipe (once) and write one line into it
fn feed_stdin(line: &str) {
    use std::sync::atomic::Ordering;
    let mut w = STDIN_WRITE_FD.load(Ordering::SeqCst);
    if w < 0 {
        let mut fds = [0i32; 2];
        unsafe {
            assert!(pipe(fds.as_mut_ptr()) == 0);
            assert!(dup2(fds[0], 0) == 0);
        }
        w = fds[1];
        STDIN_WRITE_FD.store(w, Ordering::SeqCst);
    }
    let data = format!("{}\n", line);
    let n = unsafe { write(w, data.as_ptr(), data.len()) };
    assert!(n == data.len() as isize);
}

pub fn search_cmd(_kv: &Args) {}
pub fn sched_cmd(_kv: &Args) {}
pub fn perft_cmd(_kv: &Args) {}
pub fn book_cmd(_kv: &Args) {}
pub fn evaltab_cmd() {}

#[allow(dead_code)]
fn unused(_b: Bitboard) {}
