// util.rs — PRNG, text formats (Appendix B of DESIGN.md), position set-up.
use chess::board::color::Color;
use chess::board::piece::Piece;
use chess::board::Board;
use chess::chess_move::capture::Capture;
use chess::chess_move::castle::CastleChessMove;
use chess::chess_move::chess_move::ChessMove;
use chess::chess_move::en_passant::EnPassantChessMove;
use chess::chess_move::pawn_promotion::PawnPromotionChessMove;
use chess::chess_move::standard::StandardChessMove;
use common::bitboard::bitboard::Bitboard;
use std::collections::HashMap;

pub struct Args(pub HashMap<String, String>);
impl Args {
    pub fn parse(a: &[String]) -> Self {
        let mut m = HashMap::new();
        for s in a {
            if let Some((k, v)) = s.split_once('=') {
                m.insert(k.to_string(), v.to_string());
            } else {
                m.insert(s.to_string(), "1".to_string());
            }
        }
        Args(m)
    }
    pub fn get(&self, k: &str, d: &str) -> String {
        self.0.get(k).cloned().unwrap_or_else(|| d.to_string())
    }
    pub fn num(&self, k: &str, d: u64) -> u64 {
        self.0.get(k).map(|v| v.parse().unwrap()).unwrap_or(d)
    }
}

/// splitmix64: every random choice of a run derives from one state (VERIF_SEED)
pub struct Rng(pub u64);
impl Rng {
    pub fn next(&mut self) -> u64 {
        self.0 = self.0.wrapping_add(0x9E3779B97F4A7C15);
        let mut z = self.0;
        z = (z ^ (z >> 30)).wrapping_mul(0xBF58476D1CE4E5B9);
        z = (z ^ (z >> 27)).wrapping_mul(0x94D049BB133111EB);
        z ^ (z >> 31)
    }
    pub fn below(&mut self, n: usize) -> usize {
        if n == 0 {
            0
        } else {
            (self.next() % n as u64) as usize
        }
    }
    pub fn chance(&mut self, num: u64, den: u64) -> bool {
        self.next() % den < num
    }
}

pub const PIECES: [Piece; 6] = [
    Piece::Pawn,
    Piece::Knight,
    Piece::Bishop,
    Piece::Rook,
    Piece::Queen,
    Piece::King,
];

pub fn bb(i: usize) -> Bitboard {
    Bitboard(1u64 << i)
}
pub fn idx(b: Bitboard) -> usize {
    b.0.trailing_zeros() as usize
}
pub fn sqname(i: usize) -> String {
    format!("{}{}", (b'a' + (i % 8) as u8) as char, (b'1' + (i / 8) as u8) as char)
}
pub fn parse_sq(s: &str) -> usize {
    let b = s.as_bytes();
    (b[0] - b'a') as usize + 8 * (b[1] - b'1') as usize
}
pub fn pletter(p: Piece) -> char {
    match p {
        Piece::Pawn => 'P',
        Piece::Knight => 'N',
        Piece::Bishop => 'B',
        Piece::Rook => 'R',
        Piece::Queen => 'Q',
        Piece::King => 'K',
    }
}
pub fn parse_pletter(c: char) -> Piece {
    match c.to_ascii_uppercase() {
        'P' => Piece::Pawn,
        'N' => Piece::Knight,
        'B' => Piece::Bishop,
        'R' => Piece::Rook,
        'Q' => Piece::Queen,
        'K' => Piece::King,
        _ => panic!("bad piece letter"),
    }
}
pub fn pchar(p: Piece, c: Color) -> char {
    let l = pletter(p);
    if c == Color::White {
        l
    } else {
        l.to_ascii_lowercase()
    }
}
pub fn parse_pchar(ch: char) -> (Piece, Color) {
    (
        parse_pletter(ch),
        if ch.is_ascii_uppercase() { Color::White } else { Color::Black },
    )
}
pub fn cchar(c: Color) -> char {
    if c == Color::White {
        'w'
    } else {
        'b'
    }
}

/// move text: S<from><to>[x<P>] | P<from><to>[x<P>]=<Q> | E<from><to> | C<from><to>
pub fn mv_text(m: &ChessMove) -> String {
    let f = sqname(idx(m.from_square()));
    let t = sqname(idx(m.to_square()));
    match m {
        ChessMove::Standard(_) => match m.captures() {
            Some(c) => format!("S{}{}x{}", f, t, pletter(c.0)),
            None => format!("S{}{}", f, t),
        },
        ChessMove::PawnPromotion(p) => match m.captures() {
            Some(c) => format!("P{}{}x{}={}", f, t, pletter(c.0), pletter(p.promote_to_piece())),
            None => format!("P{}{}={}", f, t, pletter(p.promote_to_piece())),
        },
        ChessMove::EnPassant(_) => format!("E{}{}", f, t),
        ChessMove::Castle(_) => format!("C{}{}", f, t),
    }
}
pub fn parse_mv(s: &str) -> ChessMove {
    let kind = s.as_bytes()[0] as char;
    let from = bb(parse_sq(&s[1..3]));
    let to = bb(parse_sq(&s[3..5]));
    let rest = &s[5..];
    let (cap, rest) = if let Some(r) = rest.strip_prefix('x') {
        (Some(Capture(parse_pletter(r.chars().next().unwrap()))), &r[1..])
    } else {
        (None, rest)
    };
    match kind {
        'S' => ChessMove::Standard(StandardChessMove::new(from, to, cap)),
        'P' => {
            let pp = parse_pletter(rest.chars().nth(1).unwrap());
            ChessMove::PawnPromotion(PawnPromotionChessMove::new(from, to, cap, pp))
        }
        'E' => ChessMove::EnPassant(EnPassantChessMove::new(from, to)),
        'C' => {
            let color = if parse_sq(&s[1..3]) < 8 { Color::White } else { Color::Black };
            if parse_sq(&s[3..5]) % 8 == 6 {
                ChessMove::Castle(CastleChessMove::castle_kingside(color))
            } else {
                ChessMove::Castle(CastleChessMove::castle_queenside(color))
            }
        }
        _ => panic!("bad move text {}", s),
    }
}

#[derive(Clone, PartialEq, Debug)]
pub struct Pos {
    pub cells: [Option<(Piece, Color)>; 64],
    pub turn: Color,
    pub rights: u8,
    pub ep: Option<usize>,
    pub half: u8,
    pub full: u16,
}

impl Pos {
    pub fn empty() -> Pos {
        Pos { cells: [None; 64], turn: Color::White, rights: 0, ep: None, half: 0, full: 1 }
    }
    pub fn from_fen(fen: &str) -> Pos {
        let parts: Vec<&str> = fen.split_whitespace().collect();
        let mut p = Pos::empty();
        let (mut rank, mut file) = (7i32, 0i32);
        for ch in parts[0].chars() {
            if ch == '/' {
                rank -= 1;
                file = 0;
            } else if let Some(d) = ch.to_digit(10) {
                file += d as i32;
            } else {
                p.cells[(rank * 8 + file) as usize] = Some(parse_pchar(ch));
                file += 1;
            }
        }
        p.turn = if parts[1] == "w" { Color::White } else { Color::Black };
        for ch in parts[2].chars() {
            match ch {
                'K' => p.rights |= 8,
                'k' => p.rights |= 4,
                'Q' => p.rights |= 2,
                'q' => p.rights |= 1,
                _ => {}
            }
        }
        if parts[3] != "-" {
            p.ep = Some(parse_sq(parts[3]));
        }
        if parts.len() > 4 {
            p.half = parts[4].parse().unwrap();
        }
        if parts.len() > 5 {
            p.full = parts[5].parse().unwrap();
        }
        p
    }
    /// `<64 chars a1..h8> <w|b> <rights 0-15> <ep|-> <half> <full>`
    pub fn line(&self) -> String {
        let cells: String = self
            .cells
            .iter()
            .map(|c| match c {
                Some((p, c)) => pchar(*p, *c),
                None => '.',
            })
            .collect();
        format!(
            "{} {} {} {} {} {}",
            cells,
            cchar(self.turn),
            self.rights,
            self.ep.map(sqname).unwrap_or_else(|| "-".to_string()),
            self.half,
            self.full
        )
    }
    pub fn parse_line(s: &str) -> Pos {
        let parts: Vec<&str> = s.split_whitespace().collect();
        let mut p = Pos::empty();
        for (i, ch) in parts[0].chars().enumerate() {
            if ch != '.' {
                p.cells[i] = Some(parse_pchar(ch));
            }
        }
        p.turn = if parts[1] == "w" { Color::White } else { Color::Black };
        p.rights = parts[2].parse().unwrap();
        p.ep = if parts[3] == "-" { None } else { Some(parse_sq(parts[3])) };
        p.half = parts[4].parse().unwrap();
        p.full = parts[5].parse().unwrap();
        p
    }
    /// the fixed set-up recipe (the model runner performs the same operations):
    /// new; put a1..h8; set_turn; lose_castle_rights(15 & !rights); push ep if any;
    /// push_halfmove_clock(half); set_fullmove_clock(full)
    pub fn setup(&self) -> Board {
        let mut b = Board::new();
        for i in 0..64 {
            if let Some((p, c)) = self.cells[i] {
                b.put(bb(i), p, c).unwrap();
            }
        }
        b.set_turn(self.turn);
        b.lose_castle_rights(15 & !self.rights);
        if let Some(e) = self.ep {
            b.push_en_passant_target(bb(e));
        }
        b.push_halfmove_clock(self.half);
        b.set_fullmove_clock(self.full as _);
        b
    }
    pub fn of_board(b: &Board) -> Pos {
        let mut p = Pos::empty();
        for i in 0..64 {
            p.cells[i] = b.get(bb(i));
        }
        p.turn = b.turn();
        p.rights = b.peek_castle_rights();
        let e = b.peek_en_passant_target();
        p.ep = if e.is_empty() { None } else { Some(idx(e)) };
        p.half = b.halfmove_clock();
        p.full = b.fullmove_clock() as u16;
        p
    }
}

pub fn load_corpus(path: &str) -> Vec<(String, Pos)> {
    let txt = std::fs::read_to_string(path).expect("corpus file");
    let mut v = vec![];
    for line in txt.lines() {
        let line = line.trim();
        if line.is_empty() || line.starts_with('#') {
            continue;
        }
        let (name, fen) = line.split_once('|').expect("name|fen");
        v.push((name.trim().to_string(), Pos::from_fen(fen.trim())));
    }
    v
}
