(* Cache.v — property C02: the move generator's two caches never change an answer.

   Executable model of
     MoveGenerator::generate_moves      (LRU cache keyed (position key, player), mod.rs)
     MoveGenerator::get_attack_targets  (hash map keyed (player, position key), mod.rs/targets.rs)
   on top of the uncached [gen_moves] / [attack_targets] of MoveGen.v, and the proof, by
   instantiating the generic memo-table theory of Memo.v, that a long-lived generator which has
   served ANY sequence of earlier requests (with any hits, misses and evictions in between)
   answers a request exactly like a brand-new generator.

   The one assumption that cannot be proved, stated as the Section hypothesis [collision_free]:
   on the set [S_board] of boards that are ever asked about, equal 64-bit position keys imply
   equal placement, castling rights and en-passant target (a 64-bit key cannot be injective on
   all of chess).  The other Section hypotheses, [gen_congr] and [S_board_turn], are theorems
   about the model (Congr.v, [gen_moves_congr], with S_board := WF /\ fine 0) and are discharged
   at integration.  That the generator never reads the side-to-move field of the board (the
   colour is an explicit argument) is proved here ([gen_moves_set_turn], from TurnFrame.v).

   Modelling notes
   * both caches are association lists, most recent first, first match wins;
   * LRU eviction / recency reordering is modelled by the relation [Memo.evict]: after every
     request the table may forget or reorder anything, as long as every binding still visible
     was visible before.  [trim] is one executable instance (keep the n most recent);
   * on a hit the board is not touched; on a miss it is threaded through [gen_moves];
   * a generator failure (a Rust panic) stores nothing.                                          *)
From Coq Require Import Lia List.
From ChessV Require Import MoveGen Memo BoardLemmas TurnFrame.
Import ListNotations.

#[local] Arguments N.add : simpl never.
#[local] Arguments N.eqb : simpl never.

(* ------------------------------------------------------------------ *)
(** * the executable model *)

Definition mkey := (N * color)%type.       (* (board.current_position_hash(), player as u8) *)
Definition akey := (color * N)%type.       (* (color as u8, board_hash) *)

Definition mkey_eqb (a b : mkey) : bool := (fst a =? fst b) && color_eqb (snd a) (snd b).
Definition akey_eqb (a b : akey) : bool := color_eqb (fst a) (fst b) && (snd a =? snd b).

Record gen_state := {
  mv_cache : list (mkey * list cmove);     (* MoveGenerator.cache *)
  att_cache : list (akey * N)              (* Targets.attacks_cache *)
}.
Definition gen_state_new : gen_state := {| mv_cache := []; att_cache := [] |}.

Definition mv_lookup (st : gen_state) (k : mkey) : option (list cmove) :=
  assoc mkey (list cmove) mkey_eqb (mv_cache st) k.
Definition att_lookup (st : gen_state) (k : akey) : option N :=
  assoc akey N akey_eqb (att_cache st) k.

Section Model.
Variable T : ztable.
Variables rook_t bishop_t : N -> N -> N.

(* MoveGenerator::generate_moves *)
Definition generate_moves_cached (st : gen_state) (b : board) (c : color)
  : res (list cmove * board * gen_state) :=
  let key := (hash b, c) in
  match mv_lookup st key with
  | Some ms => Ok (ms, b, st)
  | None =>
      let* (ms, b') := gen_moves T rook_t bishop_t b c in
      Ok (ms, b', {| mv_cache := (key, ms) :: mv_cache st; att_cache := att_cache st |})
  end.

(* MoveGenerator::get_attack_targets *)
Definition get_attack_targets_cached (st : gen_state) (b : board) (c : color) : N * gen_state :=
  let key := (c, hash b) in
  match att_lookup st key with
  | Some a => (a, st)
  | None =>
      let a := attack_targets rook_t bishop_t b c in
      (a, {| mv_cache := mv_cache st; att_cache := (key, a) :: att_cache st |})
  end.

(* a bounded generator: keep the n most recent entries of each table *)
Definition trim (n : nat) (st : gen_state) : gen_state :=
  {| mv_cache := firstn n (mv_cache st); att_cache := firstn n (att_cache st) |}.

(* what a brand-new generator answers: the list component of the uncached generator *)
Definition gen_list (b : board) (c : color) : res (list cmove) :=
  match gen_moves T rook_t bishop_t b c with
  | Ok (ms, _) => Ok ms
  | Err e => Err e
  | Panic => Panic
  end.

Definition answer_of (r : res (list cmove * board * gen_state)) : res (list cmove) :=
  match r with Ok (ms, _, _) => Ok ms | Err e => Err e | Panic => Panic end.

Lemma fresh_generator_moves b c : answer_of (generate_moves_cached gen_state_new b c) = gen_list b c.
Proof.
  unfold generate_moves_cached, gen_list, mv_lookup. cbn [gen_state_new mv_cache assoc].
  destruct (gen_moves T rook_t bishop_t b c) as [[ms b']| |]; reflexivity.
Qed.

Lemma fresh_generator_attacks b c :
  fst (get_attack_targets_cached gen_state_new b c) = attack_targets rook_t bishop_t b c.
Proof. reflexivity. Qed.

(* ------------------------------------------------------------------ *)
(** * requests, answers, runs with arbitrary eviction *)

Inductive request := QMoves (b : board) (c : color) | QAttacks (b : board) (c : color).
Inductive answer := AMoves (ms : list cmove) | AAttacks (a : N).

Definition req_board (q : request) : board := match q with QMoves b _ | QAttacks b _ => b end.

Definition serve (st : gen_state) (q : request) : res (answer * gen_state) :=
  match q with
  | QMoves b c => let* (ms, _, st') := generate_moves_cached st b c in Ok (AMoves ms, st')
  | QAttacks b c => let '(a, st') := get_attack_targets_cached st b c in Ok (AAttacks a, st')
  end.

(* the answer of a brand-new generator *)
Definition fresh (q : request) : res answer :=
  match q with
  | QMoves b c => match gen_list b c with Ok ms => Ok (AMoves ms) | Err e => Err e | Panic => Panic end
  | QAttacks b c => Ok (AAttacks (attack_targets rook_t bishop_t b c))
  end.

Lemma fresh_is_new_generator q :
  match serve gen_state_new q with Ok (a, _) => Ok a | Err e => Err e | Panic => Panic end = fresh q.
Proof.
  destruct q as [b c|b c]; cbn [serve fresh]; [|reflexivity].
  rewrite <- fresh_generator_moves.
  destruct (generate_moves_cached gen_state_new b c) as [[[ms b'] st']| |]; reflexivity.
Qed.

Definition evict_state (st st' : gen_state) : Prop :=
  evict mkey (list cmove) mkey_eqb (mv_cache st) (mv_cache st')
  /\ evict akey N akey_eqb (att_cache st) (att_cache st').

Lemma evict_state_refl st : evict_state st st.
Proof. split; apply evict_refl. Qed.

Lemma trim_evict n st : evict_state st (trim n st).
Proof. split; apply firstn_evict. Qed.

Lemma evict_state_new st : evict_state st gen_state_new.
Proof. split; apply evict_nil. Qed.

(* serving a list of requests; after each one the tables may evict anything *)
Inductive grun : gen_state -> list request -> list answer -> gen_state -> Prop :=
| grun_nil : forall st, grun st [] [] st
| grun_cons : forall st q a st1 st2 qs ans st3,
    serve st q = Ok (a, st1) -> evict_state st1 st2 -> grun st2 qs ans st3 ->
    grun st (q :: qs) (a :: ans) st3.

(* ------------------------------------------------------------------ *)
(** * key equality tests are sound *)

Lemma color_eqb_true a b : color_eqb a b = true -> a = b.
Proof. destruct a, b; cbn; intro H; try discriminate H; reflexivity. Qed.

Lemma mkey_eqb_true a b : mkey_eqb a b = true -> a = b.
Proof.
  destruct a as [h c], b as [h' c']. unfold mkey_eqb. cbn [fst snd]. intro H.
  apply andb_true_iff in H. destruct H as [Hh Hc]. apply N.eqb_eq in Hh. apply color_eqb_true in Hc.
  congruence.
Qed.

Lemma akey_eqb_true a b : akey_eqb a b = true -> a = b.
Proof.
  destruct a as [c h], b as [c' h']. unfold akey_eqb. cbn [fst snd]. intro H.
  apply andb_true_iff in H. destruct H as [Hc Hh]. apply N.eqb_eq in Hh. apply color_eqb_true in Hc.
  congruence.
Qed.

(* ------------------------------------------------------------------ *)
(** * lifting a table of move lists to a table of optional move lists (None = the generator failed) *)

Definition lift {K A} (c : list (K * A)) : list (K * option A) := map (fun kv => (fst kv, Some (snd kv))) c.

Lemma assoc_lift {K A} (e : K -> K -> bool) (c : list (K * A)) k :
  assoc K (option A) e (lift c) k = option_map Some (assoc K A e c k).
Proof.
  induction c as [|[k' v] c IH]; cbn [lift map assoc fst snd]; [reflexivity|].
  destruct (e k k'); [reflexivity|exact IH].
Qed.

Lemma evict_lift {K A} (e : K -> K -> bool) (c c' : list (K * A)) :
  evict K A e c c' -> evict K (option A) e (lift c) (lift c').
Proof.
  intros H k v. rewrite !assoc_lift. destruct (assoc K A e c' k) as [w|] eqn:E; cbn [option_map]; [|discriminate].
  intro Hv. rewrite (H k w E). exact Hv.
Qed.

(* ------------------------------------------------------------------ *)
(** * the two instances of the memo-table theory *)

Definition mreq := (board * color)%type.
Definition mv_key (x : mreq) : mkey := (hash (fst x), snd x).
Definition gen_opt (b : board) (c : color) : option (list cmove) :=
  match gen_list b c with Ok ms => Some ms | _ => None end.
Definition mv_f (x : mreq) : option (list cmove) := gen_opt (fst x) (snd x).
Definition att_key (x : mreq) : akey := (snd x, hash (fst x)).
Definition att_f (x : mreq) : N := attack_targets rook_t bishop_t (fst x) (snd x).

(* one executable step is a step of the abstract memo table *)
Lemma generate_moves_cached_qstep st b c ms b' st1 st2 :
  generate_moves_cached st b c = Ok (ms, b', st1) -> evict_state st1 st2 ->
  qstep mreq mkey (option (list cmove)) mv_key mv_f mkey_eqb (lift (mv_cache st)) (b, c) (Some ms) (lift (mv_cache st2))
  /\ evict akey N akey_eqb (att_cache st) (att_cache st2).
Proof.
  unfold generate_moves_cached, mv_lookup. intros E [Em Ea].
  destruct (assoc mkey (list cmove) mkey_eqb (mv_cache st) (hash b, c)) as [l|] eqn:EL.
  - inversion E. subst. split; [|exact Ea].
    apply q_hit; [|apply evict_lift; exact Em].
    unfold mv_key. cbn [fst snd]. rewrite assoc_lift, EL. reflexivity.
  - destruct (gen_moves T rook_t bishop_t b c) as [[l b0]| |] eqn:EG; cbn [bind] in E; try discriminate E.
    inversion E. subst. cbn [att_cache mv_cache] in *. split; [|exact Ea].
    assert (F : mv_f (b, c) = Some ms) by (unfold mv_f, gen_opt, gen_list; cbn [fst snd]; rewrite EG; reflexivity).
    rewrite <- F. apply q_miss. rewrite F.
    apply (evict_lift mkey_eqb (((hash b, c), ms) :: mv_cache st) (mv_cache st2)). exact Em.
Qed.

Lemma get_attack_targets_cached_qstep st b c a st1 st2 :
  get_attack_targets_cached st b c = (a, st1) -> evict_state st1 st2 ->
  qstep mreq akey N att_key att_f akey_eqb (att_cache st) (b, c) a (att_cache st2)
  /\ evict mkey (list cmove) mkey_eqb (mv_cache st) (mv_cache st2).
Proof.
  unfold get_attack_targets_cached, att_lookup. intros E [Em Ea].
  destruct (assoc akey N akey_eqb (att_cache st) (c, hash b)) as [x|] eqn:EL.
  - inversion E. subst. split; [|exact Em]. apply q_hit; [exact EL|exact Ea].
  - inversion E. subst. cbn [att_cache mv_cache] in *. split; [|exact Em].
    apply (q_miss mreq akey N att_key att_f akey_eqb (att_cache st) (b, c)). exact Ea.
Qed.

(* ------------------------------------------------------------------ *)
(** * what determines the answers *)

(* the attack map reads the two piece sets only *)
Lemma attack_targets_congr b1 b2 c :
  white b1 = white b2 -> black b1 = black b2 ->
  attack_targets rook_t bishop_t b1 c = attack_targets rook_t bishop_t b2 c.
Proof.
  intros Hw Hb.
  assert (P : forall c0, pieces b1 c0 = pieces b2 c0) by (intros [|]; cbn [pieces]; assumption).
  assert (O : occupied b1 = occupied b2) by (unfold occupied; rewrite Hw, Hb; reflexivity).
  unfold attack_targets, pawn_attack_targets, sliding_targets, table_targets.
  rewrite !P, O. reflexivity.
Qed.

Definition same_pos (b1 b2 : board) : Prop :=
  white b1 = white b2 /\ black b1 = black b2 /\ turn b1 = turn b2
  /\ hd_error (ep_stack b1) = hd_error (ep_stack b2)
  /\ hd_error (cr_stack b1) = hd_error (cr_stack b2).

Definition same_pos_noturn (b1 b2 : board) : Prop :=
  white b1 = white b2 /\ black b1 = black b2
  /\ hd_error (ep_stack b1) = hd_error (ep_stack b2)
  /\ hd_error (cr_stack b1) = hd_error (cr_stack b2).

(* the generator never reads (or writes) the side-to-move field *)
Lemma attack_targets_set_turn b t c :
  attack_targets rook_t bishop_t (set_turn b t) c = attack_targets rook_t bishop_t b c.
Proof. reflexivity. Qed.

Lemma pseudo_moves_set_turn b t c :
  pseudo_moves rook_t bishop_t (set_turn b t) c = pseudo_moves rook_t bishop_t b c.
Proof. destruct c; reflexivity. Qed.

Lemma remove_invalid_set_turn t c cands : forall b,
  remove_invalid T rook_t bishop_t (set_turn b t) c cands
  = rmap (st2 t) (remove_invalid T rook_t bishop_t b c cands).
Proof.
  induction cands as [|m rest IH]; intro b; cbn [remove_invalid]; [reflexivity|].
  rewrite apply_move_turn.
  destruct (apply_move T m b) as [b1| |]; cbn [rmap unwrap bind]; try reflexivity.
  unfold TurnFrame.st. rewrite undo_move_turn.
  destruct (undo_move T m b1) as [b2| |]; cbn [rmap unwrap bind]; try reflexivity.
  unfold TurnFrame.st. rewrite IH.
  destruct (remove_invalid T rook_t bishop_t b2 c rest) as [[rest' b3]| |]; cbn [rmap bind]; reflexivity.
Qed.

Theorem gen_moves_set_turn b t c :
  gen_moves T rook_t bishop_t (set_turn b t) c = rmap (st2 t) (gen_moves T rook_t bishop_t b c).
Proof.
  unfold gen_moves. rewrite pseudo_moves_set_turn.
  destruct (pseudo_moves rook_t bishop_t b c) as [cands| |]; cbn [bind rmap]; try reflexivity.
  apply remove_invalid_set_turn.
Qed.

Corollary gen_list_set_turn b t c : gen_list (set_turn b t) c = gen_list b c.
Proof.
  unfold gen_list. rewrite gen_moves_set_turn.
  destruct (gen_moves T rook_t bishop_t b c) as [[ms b']| |]; reflexivity.
Qed.

(* ------------------------------------------------------------------ *)
(** * C02 *)

Section C02.
(* the boards that are ever asked about *)
Variable S_board : board -> Prop.

(* theorem about the model (Congr.v, [gen_moves_congr]): boards that agree on the observable
   position get the same list *)
Hypothesis gen_congr : forall b1 b2 c ms, S_board b1 -> S_board b2 ->
  same_pos b1 b2 -> gen_list b1 c = Ok ms -> gen_list b2 c = Ok ms.
(* the set of requested boards does not depend on the side-to-move field (the generator is
   given the colour explicitly); true of any invariant that does not mention [turn] *)
Hypothesis S_board_turn : forall b t, S_board b -> S_board (set_turn b t).

(* THE assumption: no two requested boards that differ in placement, rights or en-passant
   target share a 64-bit key *)
Hypothesis collision_free : forall b1 b2, S_board b1 -> S_board b2 ->
  hash b1 = hash b2 -> same_pos_noturn b1 b2.

Lemma gen_congr_nt : forall b1 b2 c ms, S_board b1 -> S_board b2 ->
  same_pos_noturn b1 b2 -> gen_list b1 c = Ok ms -> gen_list b2 c = Ok ms.
Proof.
  intros b1 b2 c ms H1 H2 (Hw & Hb & He & Hc) E.
  apply (gen_congr (set_turn b1 (turn b2)) b2 c ms (S_board_turn b1 (turn b2) H1) H2).
  - repeat split; assumption.
  - rewrite gen_list_set_turn. exact E.
Qed.

Lemma same_pos_noturn_sym b1 b2 : same_pos_noturn b1 b2 -> same_pos_noturn b2 b1.
Proof. intros (Hw & Hb & He & Hc). repeat split; symmetry; assumption. Qed.

Definition S_req (x : mreq) : Prop := S_board (fst x).
Definition S_request (q : request) : Prop := S_board (req_board q).

Lemma mv_key_det : forall x y, S_req x -> S_req y -> mv_key x = mv_key y -> mv_f x = mv_f y.
Proof.
  intros [b1 c1] [b2 c2] H1 H2 E. unfold mv_key, mv_f, S_req in *. cbn [fst snd] in *.
  inversion E as [[Eh Ec]]. subst c2.
  pose proof (collision_free b1 b2 H1 H2 Eh) as P. unfold gen_opt.
  destruct (gen_list b1 c1) as [ms1| |] eqn:E1.
  - rewrite (gen_congr_nt b1 b2 c1 ms1 H1 H2 P E1). reflexivity.
  - destruct (gen_list b2 c1) as [ms2| |] eqn:E2; try reflexivity.
    rewrite (gen_congr_nt b2 b1 c1 ms2 H2 H1 (same_pos_noturn_sym _ _ P) E2) in E1. discriminate E1.
  - destruct (gen_list b2 c1) as [ms2| |] eqn:E2; try reflexivity.
    rewrite (gen_congr_nt b2 b1 c1 ms2 H2 H1 (same_pos_noturn_sym _ _ P) E2) in E1. discriminate E1.
Qed.

Lemma att_key_det : forall x y, S_req x -> S_req y -> att_key x = att_key y -> att_f x = att_f y.
Proof.
  intros [b1 c1] [b2 c2] H1 H2 E. unfold att_key, att_f, S_req in *. cbn [fst snd] in *.
  inversion E as [[Ec Eh]]. destruct (collision_free b1 b2 H1 H2 Eh) as (Hw & Hb & _).
  apply attack_targets_congr; assumption.
Qed.

(* direct instances of Memo.queries_sound / Memo.long_lived_eq_fresh *)
Definition mv_queries_sound :=
  queries_sound mreq mkey (option (list cmove)) mv_key mv_f mkey_eqb mkey_eqb_true S_req mv_key_det.
Definition mv_long_lived_eq_fresh :=
  long_lived_eq_fresh mreq mkey (option (list cmove)) mv_key mv_f mkey_eqb mkey_eqb_true S_req mv_key_det.
Definition att_queries_sound :=
  queries_sound mreq akey N att_key att_f akey_eqb akey_eqb_true S_req att_key_det.
Definition att_long_lived_eq_fresh :=
  long_lived_eq_fresh mreq akey N att_key att_f akey_eqb akey_eqb_true S_req att_key_det.

(* the invariant of a generator state: every visible entry is the fresh answer of every
   requested board that maps to its key *)
Definition sound_state (st : gen_state) : Prop :=
  sound mreq mkey (option (list cmove)) mv_key mv_f mkey_eqb S_req (lift (mv_cache st))
  /\ sound mreq akey N att_key att_f akey_eqb S_req (att_cache st).

Lemma sound_state_new : sound_state gen_state_new.
Proof. split; apply sound_nil. Qed.

Lemma serve_sound st q a st1 st2 :
  sound_state st -> S_request q -> serve st q = Ok (a, st1) -> evict_state st1 st2 ->
  fresh q = Ok a /\ sound_state st2.
Proof.
  intros [Sm Sa] Hq E Ev. destruct q as [b c|b c]; cbn [serve fresh] in *.
  - destruct (generate_moves_cached st b c) as [[[ms b'] st']| |] eqn:EG; cbn [bind] in E; try discriminate E.
    inversion E. subst.
    destruct (generate_moves_cached_qstep st b c ms b' st1 st2 EG Ev) as [Q EA].
    destruct (qstep_sound mreq mkey (option (list cmove)) mv_key mv_f mkey_eqb mkey_eqb_true S_req mv_key_det
                _ (b, c) _ _ Sm Hq Q) as [F Sm'].
    unfold mv_f, gen_opt in F. cbn [fst snd] in F.
    destruct (gen_list b c) as [l| |]; try discriminate F. inversion F. subst l.
    split; [reflexivity|].
    split; [exact Sm'|]. apply (sound_evict _ _ _ _ _ _ _ _ _ Sa EA).
  - destruct (get_attack_targets_cached st b c) as [x st'] eqn:EG. inversion E. subst.
    destruct (get_attack_targets_cached_qstep st b c x st1 st2 EG Ev) as [Q EM].
    destruct (qstep_sound mreq akey N att_key att_f akey_eqb akey_eqb_true S_req att_key_det
                _ (b, c) _ _ Sa Hq Q) as [F Sa'].
    unfold att_f in F. cbn [fst snd] in F. rewrite <- F. split; [reflexivity|].
    split; [|exact Sa']. apply (sound_evict _ _ _ _ _ _ _ _ _ Sm). apply evict_lift. exact EM.
Qed.

(* any run of any requests, moves and attack maps interleaved, with any evictions: every
   answer is the fresh one, and the final state is sound *)
Theorem grun_sound : forall st qs ans st',
  sound_state st -> Forall S_request qs -> grun st qs ans st' ->
  Forall2 (fun q a => fresh q = Ok a) qs ans /\ sound_state st'.
Proof.
  intros st qs ans st' Hs Hqs R. induction R as [st|st q a st1 st2 qs ans st3 E Ev R IH].
  - split; [constructor|exact Hs].
  - inversion Hqs as [|q' qs' Hq Hqs']; subst.
    destruct (serve_sound st q a st1 st2 Hs Hq E Ev) as [F Hs2].
    destruct (IH Hs2 Hqs') as [Fs Hs3]. split; [constructor; assumption|exact Hs3].
Qed.

(* a sound state answers a move request EXACTLY like the uncached generator, failures included *)
Lemma generate_moves_cached_sound st b c :
  sound_state st -> S_board b -> answer_of (generate_moves_cached st b c) = gen_list b c.
Proof.
  intros [Sm _] Hb. unfold generate_moves_cached, mv_lookup.
  destruct (assoc mkey (list cmove) mkey_eqb (mv_cache st) (hash b, c)) as [l|] eqn:EL.
  - cbn [answer_of].
    assert (F : Some l = mv_f (b, c)).
    { refine (Sm (hash b, c) (Some l) _ (b, c) Hb eq_refl). rewrite assoc_lift, EL. reflexivity. }
    unfold mv_f, gen_opt in F. cbn [fst snd] in F.
    destruct (gen_list b c) as [l'| |]; try discriminate F. inversion F. reflexivity.
  - unfold gen_list. destruct (gen_moves T rook_t bishop_t b c) as [[l b0]| |]; reflexivity.
Qed.

Lemma get_attack_targets_cached_sound st b c :
  sound_state st -> S_board b ->
  fst (get_attack_targets_cached st b c) = attack_targets rook_t bishop_t b c.
Proof.
  intros [_ Sa] Hb. unfold get_attack_targets_cached, att_lookup.
  destruct (assoc akey N akey_eqb (att_cache st) (c, hash b)) as [x|] eqn:EL; [|reflexivity].
  cbn [fst]. apply (Sa (c, hash b) x EL (b, c)); [exact Hb|reflexivity].
Qed.

(* C02, legal moves: whatever the generator has been asked before (requests qs, answers ans,
   evictions in between), its answer for (b, c) is the answer of a brand-new generator *)
Theorem cached_gen_eq_fresh : forall qs ans st b c,
  Forall S_request qs -> S_board b -> grun gen_state_new qs ans st ->
  answer_of (generate_moves_cached st b c) = answer_of (generate_moves_cached gen_state_new b c).
Proof.
  intros qs ans st b c Hqs Hb R.
  destruct (grun_sound gen_state_new qs ans st sound_state_new Hqs R) as [_ Hs].
  rewrite (generate_moves_cached_sound st b c Hs Hb), fresh_generator_moves. reflexivity.
Qed.

(* C02, attacked squares *)
Theorem cached_attacks_eq_fresh : forall qs ans st b c,
  Forall S_request qs -> S_board b -> grun gen_state_new qs ans st ->
  fst (get_attack_targets_cached st b c) = fst (get_attack_targets_cached gen_state_new b c).
Proof.
  intros qs ans st b c Hqs Hb R.
  destruct (grun_sound gen_state_new qs ans st sound_state_new Hqs R) as [_ Hs].
  rewrite (get_attack_targets_cached_sound st b c Hs Hb). reflexivity.
Qed.

(* C02, second sentence: two requested boards that differ in placement, castling rights or
   en-passant target have different keys, so an entry stored for one is never looked up for
   the other *)
Theorem no_cross_service : forall b1 b2 c1 c2,
  S_board b1 -> S_board b2 -> ~ same_pos_noturn b1 b2 ->
  mv_key (b1, c1) <> mv_key (b2, c2) /\ att_key (b1, c1) <> att_key (b2, c2).
Proof.
  intros b1 b2 c1 c2 H1 H2 Hd. unfold mv_key, att_key. cbn [fst snd].
  split; intro E; inversion E as [[Eh Ec]]; apply Hd; apply collision_free; assumption.
Qed.

(* ... and a lookup under the key of b2 cannot see an entry stored under the key of b1 *)
Corollary no_cross_hit : forall st b1 b2 c1 c2 ms,
  S_board b1 -> S_board b2 -> ~ same_pos_noturn b1 b2 ->
  mv_lookup {| mv_cache := (mv_key (b1, c1), ms) :: mv_cache st; att_cache := att_cache st |} (mv_key (b2, c2))
  = mv_lookup st (mv_key (b2, c2)).
Proof.
  intros st b1 b2 c1 c2 ms H1 H2 Hd. unfold mv_lookup. cbn [mv_cache assoc].
  destruct (mkey_eqb (mv_key (b2, c2)) (mv_key (b1, c1))) eqn:E; [|reflexivity].
  apply mkey_eqb_true in E. exfalso.
  apply (proj1 (no_cross_service b1 b2 c1 c2 H1 H2 Hd)). symmetry. exact E.
Qed.

End C02.
End Model.

(* ------------------------------------------------------------------ *)
(** * non-vacuity: a concrete run (ray-walk sliders, the toy key table of BoardLemmas.v) *)

Definition ex_pos (extra : list (N * piece * color)) : res board :=
  fold_left (fun r x => let* b0 := r in put example_table b0 (fst (fst x)) (snd (fst x)) (snd x))
            ([(4, King, White); (60, King, Black); (12, Pawn, White);
              (0, Rook, White); (7, Rook, White); (56, Rook, Black); (63, Rook, Black)] ++ extra) (Ok board_new).

(* position 1: Ke1, Ra1, Rh1, Pe2 v Ke8, Ra8, Rh8; position 2: the same plus a white knight on b1.
   Request 1, then 2, then 1 again: the third request is a hit (the state does not change),
   and each answer is the uncached generator's list; the two positions have different keys *)
Example cached_run :
  match ex_pos [], ex_pos [(1, Knight, White)] with
  | Ok b1, Ok b2 =>
      let G := generate_moves_cached example_table rook_ref bishop_ref in
      match G gen_state_new b1 White with
      | Ok (ms1, _, st1) =>
          match G st1 b2 White with
          | Ok (ms2, _, st2) =>
              match G st2 b1 White with
              | Ok (ms3, b1', st3) =>
                  st3 = st2 /\ b1' = b1 /\ length (mv_cache st2) = 2%nat
                  /\ Ok ms3 = gen_list example_table rook_ref bishop_ref b1 White
                  /\ Ok ms2 = gen_list example_table rook_ref bishop_ref b2 White
                  /\ length ms1 = 27%nat /\ length ms2 = 26%nat /\ hash b1 <> hash b2
              | _ => False
              end
          | _ => False
          end
      | _ => False
      end
  | _, _ => False
  end.
Proof. vm_compute. repeat split; try reflexivity. discriminate. Qed.

(* the attack-map cache, and a bounded generator that forgets everything (capacity 0) *)
Example cached_attacks_run :
  match ex_pos [] with
  | Ok b1 =>
      let '(a1, st1) := get_attack_targets_cached rook_ref bishop_ref gen_state_new b1 White in
      let '(a2, st2) := get_attack_targets_cached rook_ref bishop_ref st1 b1 White in
      let '(a3, _) := get_attack_targets_cached rook_ref bishop_ref (trim 0 st2) b1 White in
      a1 = a2 /\ a2 = a3 /\ st2 = st1 /\ a1 = attack_targets rook_ref bishop_ref b1 White /\ a1 <> 0
  | _ => False
  end.
Proof. vm_compute. repeat split; try reflexivity. discriminate. Qed.

(* the hypotheses of Section C02 are satisfiable non-trivially: take for S_board the set of all
   turn-variants of the two boards of the run above; boards of the set with equal keys have
   the same placement, rights and en-passant target *)
Example hypotheses_satisfiable :
  match ex_pos [], ex_pos [(1, Knight, White)] with
  | Ok b1, Ok b2 =>
      let S := fun b => exists t, b = set_turn b1 t \/ b = set_turn b2 t in
      (forall x y c ms, S x -> S y -> same_pos x y ->
         gen_list example_table rook_ref bishop_ref x c = Ok ms ->
         gen_list example_table rook_ref bishop_ref y c = Ok ms)
      /\ (forall b t, S b -> S (set_turn b t))
      /\ (forall x y, S x -> S y -> hash x = hash y -> same_pos_noturn x y)
      /\ S b1 /\ S b2
  | _, _ => False
  end.
Proof.
  destruct (ex_pos []) as [b1| |] eqn:E1; try (vm_compute in E1; discriminate E1).
  destruct (ex_pos [(1, Knight, White)]) as [b2| |] eqn:E2; try (vm_compute in E2; discriminate E2).
  vm_compute in E1. vm_compute in E2. injection E1 as B1. injection E2 as B2.
  assert (Hne : white b1 <> white b2) by (rewrite <- B1, <- B2; cbn [white]; discriminate).
  assert (Hh : hash b1 <> hash b2) by (rewrite <- B1, <- B2; cbn [hash]; discriminate).
  clear B1 B2.
  assert (Hnp : forall x y, (exists t, x = set_turn b1 t) -> (exists t, y = set_turn b2 t) ->
                white x <> white y /\ hash x <> hash y).
  { intros x y [t ->] [u ->]. split; [exact Hne|exact Hh]. }
  assert (Hsame : forall b x y, (exists t, x = set_turn b t) -> (exists t, y = set_turn b t) ->
                  same_pos_noturn x y /\ (turn x = turn y -> x = y)).
  { intros b x y [t ->] [u ->]. split; [repeat split|]. cbn [turn set_turn]. intros ->. reflexivity. }
  split; [|split; [|split; [|split]]].
  - intros x y c ms [t [Hx|Hx]] [u [Hy|Hy]] P E.
    + destruct (Hsame b1 x y (ex_intro _ t Hx) (ex_intro _ u Hy)) as [_ Q].
      rewrite <- (Q (proj1 (proj2 (proj2 P)))). exact E.
    + exfalso. apply (proj1 (Hnp x y (ex_intro _ t Hx) (ex_intro _ u Hy))). exact (proj1 P).
    + exfalso. apply (proj1 (Hnp y x (ex_intro _ u Hy) (ex_intro _ t Hx))). symmetry. exact (proj1 P).
    + destruct (Hsame b2 x y (ex_intro _ t Hx) (ex_intro _ u Hy)) as [_ Q].
      rewrite <- (Q (proj1 (proj2 (proj2 P)))). exact E.
  - intros b t [u [Hb|Hb]]; subst b; exists t; [left|right]; reflexivity.
  - intros x y [t [Hx|Hx]] [u [Hy|Hy]] Eh.
    + apply (Hsame b1 x y (ex_intro _ t Hx) (ex_intro _ u Hy)).
    + exfalso. apply (proj2 (Hnp x y (ex_intro _ t Hx) (ex_intro _ u Hy))). exact Eh.
    + exfalso. apply (proj2 (Hnp y x (ex_intro _ u Hy) (ex_intro _ t Hx))). symmetry. exact Eh.
    + apply (Hsame b2 x y (ex_intro _ t Hx) (ex_intro _ u Hy)).
  - exists (turn b1). left. symmetry. apply set_turn_same.
  - exists (turn b2). right. symmetry. apply set_turn_same.
Qed.

Print Assumptions cached_gen_eq_fresh.
Print Assumptions cached_attacks_eq_fresh.
Print Assumptions grun_sound.
Print Assumptions no_cross_service.
Print Assumptions gen_moves_set_turn.
