(* GenTotal.v — the move generator, the legality filter, the annotated generator, game_ending
   and score of the model never fail (no Panic, no Err) on a position that satisfies the
   reachable-state invariant [InvC] and whose clocks are away from their limits ([Congr.fine]).

   The heart is [cand_shape_ok]: every pseudo-legal candidate the generator proposes has the
   shape [SuccProofs.shape_ok] under which [SuccProofs.apply_total_shape] shows that
   apply_move cannot fail.  [InvProofs2.pseudo_moves_have_shape] already gives the weaker
   [gen_shape] (real squares, no king capture, pawn ranks); what is added here is what
   [shape_ok] needs beyond that:
     - the capture field of a Std / Promo candidate is exactly the content of the target
       square, which is empty or holds an ENEMY piece (generated targets exclude own pieces);
     - a pawn that changes rank by two does so from its start rank (the RANK_4/RANK_5 mask
       of pawn_move_targets, plus "the square in between is free");
     - an en-passant candidate is played by a pawn one rank behind and one file beside the
       target, the target is empty and the victim square is not;
     - a castle candidate has king and rook at home (a held right, [right_home] in [Repr])
       and both the king's target and the rook's target empty.
   No hypothesis is made on the slider tables [rook_t] / [bishop_t].
   Proofs only. *)
From Coq Require Import Lia ZArith NArith List Bool.
From ChessV Require Import Eval Rules Abs WfReflect GeomProofs EpFrame GenFrame InvProofs2.
From ChessV Require SuccProofs1 SuccProofs Congr EvalProofs2 UndoProofs Search.
Import ListNotations.
Open Scope N_scope.
Open Scope list_scope.

#[local] Arguments N.add : simpl never.
#[local] Arguments N.sub : simpl never.
#[local] Arguments N.mul : simpl never.
#[local] Arguments N.div : simpl never.
#[local] Arguments N.modulo : simpl never.
#[local] Arguments N.eqb : simpl never.
#[local] Arguments N.ltb : simpl never.
#[local] Arguments N.leb : simpl never.
#[local] Arguments N.shiftl : simpl never.
#[local] Arguments N.shiftr : simpl never.
#[local] Arguments N.land : simpl never.
#[local] Arguments N.lor : simpl never.
#[local] Arguments N.lxor : simpl never.
#[local] Arguments N.ldiff : simpl never.
#[local] Arguments N.testbit : simpl never.

(* ------------------------------------------------------------------ *)
(** * reading a square that holds no piece of the mover *)

Lemma GT_bget_not_own b c t : WF b -> mem t (occ (pieces b c)) = false ->
  bget b t = option_map (fun cp => (cp, opp_c c)) (pget (pieces b (opp_c c)) t).
Proof.
  intros W H. unfold bget. destruct c; cbn [pieces opp_c] in *.
  - rewrite H. destruct (mem t (occ (white b))) eqn:E; [reflexivity|].
    rewrite (proj2 (pget_none (white b) t (WF_pieces b White W)) E). reflexivity.
  - rewrite H. destruct (mem t (occ (black b))) eqn:E; [reflexivity|].
    rewrite (proj2 (pget_none (black b) t (WF_pieces b Black W)) E). reflexivity.
Qed.

Lemma GT_std_shape_ok b c f t p :
  WF b -> f < 64 -> t < 64 -> bget b f = Some (p, c) ->
  mem t (occ (pieces b c)) = false ->
  pget (pieces b (opp_c c)) t <> Some King ->
  (p = Pawn -> SuccProofs.pawn_step_ok c f t = true) ->
  SuccProofs.shape_ok b (Std f t (pget (pieces b (opp_c c)) t)).
Proof.
  intros W Lf Lt G0 No Nk Ps. unfold SuccProofs.shape_ok. cbn [mv_from mv_to].
  split; [exact Lf|]. split; [exact Lt|]. exists p, c. split; [exact G0|].
  split; [apply (GT_bget_not_own b c t W No)|]. split; [exact Nk|exact Ps].
Qed.

Lemma GT_promo_shape_ok b c f t pp :
  WF b -> f < 64 -> t < 64 -> bget b f = Some (Pawn, c) ->
  mem t (occ (pieces b c)) = false ->
  pget (pieces b (opp_c c)) t <> Some King ->
  SuccProofs.pawn_step_ok c f t = true ->
  SuccProofs.shape_ok b (Promo f t (pget (pieces b (opp_c c)) t) pp).
Proof.
  intros W Lf Lt G0 No Nk Ps. unfold SuccProofs.shape_ok. cbn [mv_from mv_to].
  split; [exact Lf|]. split; [exact Lt|]. exists Pawn, c. split; [exact G0|].
  split; [reflexivity|].
  split; [apply (GT_bget_not_own b c t W No)|]. split; [exact Nk|exact Ps].
Qed.

(* ------------------------------------------------------------------ *)
(** * pawn geometry: two finite sweeps (colour x 64 x 64) *)

Definition dbl_rank (c : color) : N := match c with White => RANK_4 | Black => RANK_5 end.

(* every square the generator sends a pawn to is a legal pawn step: a change of two ranks
   only happens onto the double-step rank, hence from the start rank *)
Definition sweepP (c : color) (f t : N) : bool :=
  implb (mem t (pawn_step c (bit f))
         || (mem t (pawn_step c (pawn_step c (bit f))) && mem t (dbl_rank c))
         || mem t (pawn_attack_east c (bit f)) || mem t (pawn_attack_west c (bit f)))
        (SuccProofs.pawn_step_ok c f t).

(* a pawn capture goes one rank forward and changes file *)
Definition sweepE (c : color) (f t : N) : bool :=
  implb (mem t (pawn_attack_east c (bit f)) || mem t (pawn_attack_west c (bit f)))
        ((rankZ t =? rankZ f + forward c)%Z && negb (fileZ t =? fileZ f)%Z).

Lemma sweepP_ok c f t : f < 64 -> t < 64 -> sweepP c f t = true.
Proof. apply (sweep_c64x64 sweepP). vm_compute. reflexivity. Qed.
Lemma sweepE_ok c f t : f < 64 -> t < 64 -> sweepE c f t = true.
Proof. apply (sweep_c64x64 sweepE). vm_compute. reflexivity. Qed.

(* a square reached by one pawn step from X and from Y comes from a common square *)
Lemma GT_step_src c t X Y : mem t (pawn_step c X) = true -> mem t (pawn_step c Y) = true ->
  exists u, mem u X = true /\ mem u Y = true.
Proof.
  destruct c; unfold pawn_step; intros HX HY.
  - rewrite mem_shr in HX, HY. exists (t + 8). split; [exact HX|exact HY].
  - rewrite mem_shl in HX, HY. apply andb_true_iff in HX, HY.
    destruct HX as [_ HX]. destruct HY as [_ HY]. exists (t - 8). split; [exact HX|exact HY].
Qed.

(* the attack mask of the set of pawns, read for the one pawn that produced the bit *)
Lemma GT_src_shr_bit pawns e k msk :
  mem e (andn (shr pawns k) msk) = true -> mem e (andn (shr (bit (e + k)) k) msk) = true.
Proof.
  rewrite !mem_andn, !mem_shr. intro H. apply andb_true_iff in H. destruct H as [_ H].
  rewrite H, mem_bit_same. reflexivity.
Qed.

Lemma GT_src_shl_bit pawns e k msk :
  mem e (andn (shl pawns k) msk) = true -> mem e (andn (shl (bit (e - k)) k) msk) = true.
Proof.
  rewrite !mem_andn, !mem_shl. intro H. apply andb_true_iff in H. destruct H as [H1 H2].
  apply andb_true_iff in H1. destruct H1 as [H1 _].
  rewrite H1, H2, mem_bit_same. reflexivity.
Qed.

Lemma GT_held_bit i r : 0 < N.land (bit i) r -> mem i r = true.
Proof.
  intro H. destruct (mem i r) eqn:M; [reflexivity|]. exfalso.
  apply (proj2 (land_bit_0 r i)) in M. rewrite N.land_comm in M. lia.
Qed.

(* ------------------------------------------------------------------ *)
(** * targets never include the mover's own pieces *)

Lemma GT_table_targets_not_own tbl b c p pt t :
  In pt (table_targets tbl b c p) -> mem t (snd pt) = true -> mem t (occ (pieces b c)) = false.
Proof.
  intros H Mt. unfold table_targets in H. cbv zeta in H.
  apply in_flat_map in H. destruct H as [s0 [_ H]]. cbv beta in H.
  destruct (mem s0 _); [|destruct H].
  destruct (is_empty _); [destruct H|]. destruct H as [<-|[]]. cbn [snd] in Mt.
  rewrite mem_andn in Mt. apply andb_true_iff in Mt. destruct Mt as [_ Mt].
  apply negb_true_iff in Mt. exact Mt.
Qed.

(* every pawn entry: an own pawn, a target that holds no own piece, a legal pawn step *)
Lemma GT_pawn_all_inv b c m : WF b -> In m (pawn_all b c) ->
  exists f t, m = Std f t (pget (pieces b (opp_c c)) t) /\ f < 64 /\ t < 64
    /\ bget b f = Some (Pawn, c)
    /\ mem t (occ (pieces b c)) = false
    /\ SuccProofs.pawn_step_ok c f t = true.
Proof.
  intros W H. unfold pawn_all in H. apply in_expand in H.
  destruct H as (pt & t & Hpt & Lt & Mt & ->).
  exists (fst pt), t. split; [reflexivity|].
  apply in_app_or in Hpt. destruct Hpt as [Hpt|Hpt].
  - unfold pawn_move_targets in Hpt. apply in_flat_map in Hpt. destruct Hpt as [x [Hx Hpt]].
    apply BitsLemmas.in_squares in Hx. destruct (mem x _) eqn:Mx; [|destruct Hpt].
    destruct (overlaps _ _) eqn:Ov; [destruct Hpt|]. cbv zeta in Hpt.
    destruct (is_empty _); [destruct Hpt|]. destruct Hpt as [<-|[]]. cbn [fst snd] in *.
    split; [exact Hx|]. split; [exact Lt|]. split; [exact (own_pawn b c x W Mx)|].
    rewrite mem_lor, !mem_land, !mem_andn, !mem_lor in Mt.
    pose proof (sweepP_ok c x t Hx Lt) as S. unfold sweepP, dbl_rank in S.
    apply orb_true_iff in Mt.
    destruct Mt as [Mt|Mt]; apply andb_true_iff in Mt; destruct Mt as [Mt Mo];
      apply andb_true_iff in Mo; destruct Mo as [Md Mo]; apply negb_true_iff in Mo;
      rewrite (mem_occupied_c b t c) in Mo; apply orb_false_elim in Mo; destruct Mo as [Mo _];
      (split; [exact Mo|]).
    + rewrite Mt in S. cbn [orb implb] in S. exact S.
    + apply orb_true_iff in Md. destruct Md as [Md|Md].
      * exfalso. destruct (GT_step_src c t _ _ Md Mt) as (u & Up & Us).
        assert (Y : overlaps (pawn_step c (bit x)) (occupied b) = true).
        { apply overlaps_spec. exists u. split; [exact Us|].
          rewrite (mem_occupied_c b u c).
          rewrite (WFs_locate_occ (pieces b c) u Pawn (WF_pieces b c W) Up). reflexivity. }
        congruence.
      * rewrite Mt, Md in S. cbn [andb] in S. rewrite orb_true_r in S.
        cbn [orb implb] in S. exact S.
  - unfold pawn_caps in Hpt. apply in_flat_map in Hpt. destruct Hpt as [pt' [Hpt' Hpt]].
    destruct (overlaps _ _); [|destruct Hpt]. destruct Hpt as [<-|[]]. cbn [fst snd] in *.
    rewrite mem_land in Mt. apply andb_true_iff in Mt. destruct Mt as [Mt Mopp].
    unfold pawn_attack_targets in Hpt'. apply in_flat_map in Hpt'. destruct Hpt' as [x [Hx Hpt']].
    apply BitsLemmas.in_squares in Hx. destruct (mem x _) eqn:Mx; [|destruct Hpt'].
    destruct Hpt' as [<-|[]]. cbn [fst snd] in *.
    split; [exact Hx|]. split; [exact Lt|]. split; [exact (own_pawn b c x W Mx)|].
    split.
    + destruct (mem t (occ (pieces b c))) eqn:Mown; [|reflexivity].
      pose proof (WF_disjoint b t c W Mown) as D. congruence.
    + pose proof (sweepP_ok c x t Hx Lt) as S. unfold sweepP in S.
      rewrite mem_lor in Mt. apply orb_true_iff in Mt.
      destruct Mt as [Mt|Mt]; rewrite Mt, ?orb_true_r in S; cbn [orb implb] in S; exact S.
Qed.

(* ------------------------------------------------------------------ *)
(** * the generator *)

Section Gen.
Variable T : ztable.
Variables rook_t bishop_t : N -> N -> N.

Notation attack_targets := (attack_targets rook_t bishop_t).
Notation pseudo_moves := (pseudo_moves rook_t bishop_t).
Notation gen_moves := (gen_moves T rook_t bishop_t).
Notation in_check := (in_check rook_t bishop_t).
Notation InvC := (InvC rook_t bishop_t).
Notation ps_hyp := (ps_hyp rook_t bishop_t).
Notation shape_ok := SuccProofs.shape_ok.
Notation fine := Congr.fine.

(** ** 1. the pseudo-legal generator does not fail *)

Lemma ep_moves_total b c : ep_stack b <> [] -> exists l, ep_moves b c = Ok l.
Proof.
  intro H. unfold ep_moves, peek_ep. destruct (ep_stack b) as [|x r]; [congruence|].
  cbn [bind]. destruct (is_empty x); eexists; reflexivity.
Qed.

Lemma pawn_moves_total b c : ep_stack b <> [] -> exists l, pawn_moves b c = Ok l.
Proof.
  intro H. rewrite pawn_moves_unfold.
  destruct (partition _ (pawn_all b c)) as [std promotable]. cbv zeta.
  destruct (ep_moves_total b c H) as [eps E]. rewrite E. cbn [bind]. eexists. reflexivity.
Qed.

Lemma castle_moves_total b c : cr_stack b <> [] ->
  exists l, castle_moves rook_t bishop_t b c = Ok l.
Proof.
  intro H. unfold castle_moves. cbv zeta.
  destruct (overlaps _ _); [eexists; reflexivity|].
  unfold peek_rights. destruct (cr_stack b) as [|x r]; [congruence|].
  cbn [bind]. eexists. reflexivity.
Qed.

Theorem pseudo_moves_total b c : Repr b -> exists l, pseudo_moves b c = Ok l.
Proof.
  intros ((_ & He & Hc & _) & _). unfold MoveGen.pseudo_moves. cbv zeta.
  destruct (pawn_moves_total b c He) as [p Ep]. rewrite Ep. cbn [bind].
  destruct (castle_moves_total b c Hc) as [k Ek]. rewrite Ek. cbn [bind].
  eexists. reflexivity.
Qed.

(** ** 2. every candidate has the shape under which apply_move cannot fail *)

Lemma sliding_targets_not_own b c pt t :
  In pt (sliding_targets rook_t bishop_t b c) -> mem t (snd pt) = true ->
  mem t (occ (pieces b c)) = false.
Proof.
  intros H Mt. unfold sliding_targets in H. cbv zeta in H.
  apply in_flat_map in H. destruct H as [s0 [_ H]]. cbv beta in H.
  assert (S : forall x, mem t (N.lxor x (N.land (occ (pieces b c)) x)) = true ->
                        mem t (occ (pieces b c)) = false).
  { intros x Hx. rewrite mem_lxor, mem_land in Hx.
    destruct (mem t (occ (pieces b c))); [|reflexivity].
    destruct (mem t x); discriminate Hx. }
  destruct (pget (pieces b c) s0) as [p|]; [|destruct H].
  destruct p; cbn [In] in H; try (destruct H; fail); destruct H as [<-|[]];
    cbn [snd] in Mt; cbv beta in Mt; apply (S _ Mt).
Qed.

Lemma expand_nonpawn_ok b c (PS : ps_hyp b c) (pts : ptl) :
  (forall pt, In pt pts ->
     (exists p, p <> Pawn /\ bget b (fst pt) = Some (p, c))
     /\ (forall t, mem t (snd pt) = true ->
           mem t (attack_targets b c) = true /\ mem t (occ (pieces b c)) = false)) ->
  forall m, In m (expand b c pts) -> shape_ok b m.
Proof.
  pose proof PS as (R & NK & EW). pose proof (Repr_WF b R) as W.
  intros H m Hm. apply in_expand in Hm. destruct Hm as (pt & t & Hpt & Lt & Mt & ->).
  destruct (H pt Hpt) as [(p & Np & G0) Att]. destruct (Att t Mt) as [A O].
  apply (GT_std_shape_ok b c (fst pt) t p W (bget_lt64 b _ _ W G0) Lt G0 O (NK t A)).
  intro X. contradiction.
Qed.

Lemma pawn_moves_ok b c (PS : ps_hyp b c) l : pawn_moves b c = Ok l ->
  (forall eps, ep_moves b c = Ok eps -> forall m, In m eps -> shape_ok b m) ->
  forall m, In m l -> shape_ok b m.
Proof.
  pose proof PS as (R & NK & EW). pose proof (Repr_WF b R) as W.
  intros H Hep m Hm. rewrite pawn_moves_unfold in H.
  destruct (partition _ (pawn_all b c)) as [std promotable] eqn:Ep. cbv zeta in H.
  destruct (ep_moves b c) as [eps| |] eqn:Heps; try discriminate. cbn [bind] in H.
  apply EF_Ok_inj in H. subst l.
  pose proof (elements_in_partition _ _ Ep) as Hpart.
  apply in_app_or in Hm. destruct Hm as [Hm|Hm]; [|apply in_app_or in Hm; destruct Hm as [Hm|Hm]].
  - apply in_flat_map in Hm. destruct Hm as [m0 [Hm0 Hm]].
    assert (Hin : In m0 (pawn_all b c)) by (apply Hpart; right; exact Hm0).
    destruct (pawn_all_inv2 rook_t bishop_t b c PS m0 Hin) as (f & t & E0 & Lf & Lt & G0 & K).
    destruct (GT_pawn_all_inv b c m0 W Hin) as (f' & t' & E1' & _ & _ & _ & No & Ps).
    subst m0. injection E1' as Ef Et _. subst f' t'.
    cbn [mv_from mv_to mv_captures] in Hm.
    assert (Hpp : exists pp, m = Promo f t (pget (pieces b (opp_c c)) t) pp).
    { cbn [In map PAWN_PROMOTIONS] in Hm.
      destruct Hm as [<-|[<-|[<-|[<-|[]]]]]; eexists; reflexivity. }
    destruct Hpp as (pp & ->).
    apply (GT_promo_shape_ok b c f t pp W Lf Lt G0 No (pawn_cap_ok rook_t bishop_t b c PS f t K) Ps).
  - assert (Hin : In m (pawn_all b c)) by (apply Hpart; left; exact Hm).
    destruct (pawn_all_inv2 rook_t bishop_t b c PS m Hin) as (f & t & E0 & Lf & Lt & G0 & K).
    destruct (GT_pawn_all_inv b c m W Hin) as (f' & t' & E1' & _ & _ & _ & No & Ps).
    subst m. injection E1' as Ef Et _. subst f' t'.
    apply (GT_std_shape_ok b c f t Pawn W Lf Lt G0 No (pawn_cap_ok rook_t bishop_t b c PS f t K)).
    intros _. exact Ps.
  - apply (Hep eps eq_refl m Hm).
Qed.

Lemma ep_moves_ok b c (PS : ps_hyp b c) l : ep_moves b c = Ok l ->
  forall m, In m l -> shape_ok b m.
Proof.
  pose proof PS as (R & NK & EW). pose proof (Repr_WF b R) as W.
  intros H m Hm. unfold ep_moves in H.
  destruct (peek_ep b) as [t| |] eqn:Pk; try discriminate. cbn [bind] in H.
  destruct (is_empty t) eqn:Ee; [apply EF_Ok_inj in H; subst l; destruct Hm|]. cbv zeta in H.
  apply EF_Ok_inj in H. subst l.
  destruct (peek_ep_top _ _ Pk) as [Et _].
  destruct EW as [Z|(e & Le & Ee' & Rk)].
  { rewrite Et in Z. subst t. discriminate Ee. }
  rewrite Et in Ee'. subst t. rewrite (BoardLemmas.tz_bit e Le) in Hm.
  pose proof (WFs_fits_locate (pieces b c) Pawn (WF_pieces b c W)) as F. cbn [locate] in F.
  assert (ES : ep_shape b) by (destruct R as (_ & _ & _ & _ & _ & _ & _ & _ & E); exact E).
  destruct (ep_victim b c e ES Et Le Rk) as (V & Tn & _).
  assert (Shape : forall f, mem f (pw (pieces b c)) = true ->
            mem e (pawn_attack_east c (bit f)) || mem e (pawn_attack_west c (bit f)) = true ->
            shape_ok b (EnPassant f e)).
  { intros f Mf Ma. pose proof (own_pawn b c f W Mf) as G0.
    pose proof (bget_lt64 b f _ W G0) as Lf.
    pose proof (sweepE_ok c f e Lf Le) as S. unfold sweepE in S. rewrite Ma in S.
    cbn [implb] in S. apply andb_true_iff in S. destruct S as [S1 S2].
    apply Z.eqb_eq in S1. apply negb_true_iff in S2. apply Z.eqb_neq in S2.
    unfold SuccProofs.shape_ok. cbn [mv_from mv_to].
    split; [exact Lf|]. split; [exact Le|]. exists Pawn, c. split; [exact G0|].
    split; [reflexivity|]. split; [exact S1|]. split; [exact Tn|].
    split; [rewrite V; discriminate|exact S2]. }
  apply in_app_or in Hm. destruct Hm as [Hm|Hm].
  - destruct (overlaps (pawn_attack_west c _) (bit e)) eqn:O; [|destruct Hm].
    destruct Hm as [<-|[]]. apply EpFrame.overlaps_bit in O.
    destruct c; unfold pawn_attack_west in O; cbv beta iota.
    + destruct (EpFrame.ep_src_shr _ e 7 _ F O) as [-> Hm]. apply (Shape _ Hm).
      unfold pawn_attack_west. rewrite (GT_src_shr_bit _ e 7 _ O). apply orb_true_r.
    + destruct (EpFrame.ep_src_shl _ e 9 _ O) as [-> Hm]. apply (Shape _ Hm).
      unfold pawn_attack_west. rewrite (GT_src_shl_bit _ e 9 _ O). apply orb_true_r.
  - destruct (overlaps (pawn_attack_east c _) (bit e)) eqn:O; [|destruct Hm].
    destruct Hm as [<-|[]]. apply EpFrame.overlaps_bit in O.
    destruct c; unfold pawn_attack_east in O; cbv beta iota.
    + destruct (EpFrame.ep_src_shr _ e 9 _ F O) as [-> Hm]. apply (Shape _ Hm).
      unfold pawn_attack_east. rewrite (GT_src_shr_bit _ e 9 _ O). reflexivity.
    + destruct (EpFrame.ep_src_shl _ e 7 _ O) as [-> Hm]. apply (Shape _ Hm).
      unfold pawn_attack_east. rewrite (GT_src_shl_bit _ e 7 _ O). reflexivity.
Qed.

(* one castle: a held right puts king and rook at home; the two target squares are free *)
Lemma castle_one b c i ksq rsq tgt tr :
  WF b -> right_home b i ksq rsq c -> mem i (top (cr_stack b)) = true ->
  ksq < 64 -> tgt < 64 -> (ksq = 4 \/ ksq = 60) ->
  castle_shape ksq tgt = Ok (c, rsq, tr) ->
  mem tgt (occupied b) = false -> mem tr (occupied b) = false ->
  shape_ok b (Castle ksq tgt).
Proof.
  intros W RH Hi Lk Lt Hk Es Mt Mr. destruct (RH Hi) as [Gk Gr].
  unfold SuccProofs.shape_ok. cbn [mv_from mv_to].
  split; [exact Lk|]. split; [exact Lt|]. exists King, c. split; [exact Gk|].
  split; [reflexivity|]. split; [exact Hk|]. exists rsq, tr. split; [exact Es|].
  split; [apply (bget_none_iff b tgt W); exact Mt|].
  split; [exact Gr|apply (bget_none_iff b tr W); exact Mr].
Qed.

Lemma castle_moves_ok b c (PS : ps_hyp b c) l : castle_moves rook_t bishop_t b c = Ok l ->
  forall m, In m l -> shape_ok b m.
Proof.
  pose proof PS as (R & NK & EW). pose proof (Repr_WF b R) as W.
  intros H m Hm. unfold castle_moves in H. cbv zeta in H.
  destruct (overlaps _ _); [apply EF_Ok_inj in H; subst l; destruct Hm|].
  destruct (peek_rights b) as [r| |] eqn:Pr; try discriminate. cbn [bind] in H.
  apply EF_Ok_inj in H. subst l.
  assert (Er : top (cr_stack b) = r).
  { unfold peek_rights in Pr. unfold top. destruct (cr_stack b) as [|x rest]; [discriminate|].
    apply EF_Ok_inj in Pr. exact Pr. }
  destruct R as (_ & _ & _ & _ & R1 & R2 & R3 & R4 & _).
  apply in_app_or in Hm. destruct Hm as [Hm|Hm].
  - match type of Hm with In _ (if ?x then _ else _) => destruct x eqn:Cond end; [|destruct Hm].
    destruct Hm as [<-|[]]. rewrite !andb_true_iff in Cond.
    destruct Cond as [[[[Hr _] _] Ht] Hg]. apply N.ltb_lt in Hr. apply negb_true_iff in Ht, Hg.
    destruct c; cbv iota in Hr, Ht, Hg |- *.
    + apply (castle_one b Black 2 60 63 62 61 W R3).
      * rewrite Er. apply GT_held_bit. exact Hr.
      * lia.
      * lia.
      * right. reflexivity.
      * vm_compute. reflexivity.
      * exact Hg.
      * exact Ht.
    + apply (castle_one b White 3 4 7 6 5 W R1).
      * rewrite Er. apply GT_held_bit. exact Hr.
      * lia.
      * lia.
      * left. reflexivity.
      * vm_compute. reflexivity.
      * exact Hg.
      * exact Ht.
  - match type of Hm with In _ (if ?x then _ else _) => destruct x eqn:Cond end; [|destruct Hm].
    destruct Hm as [<-|[]]. rewrite !andb_true_iff in Cond.
    destruct Cond as [[[[[Hr _] _] Ht] _] Hg]. apply N.ltb_lt in Hr. apply negb_true_iff in Ht, Hg.
    destruct c; cbv iota in Hr, Ht, Hg |- *.
    + apply (castle_one b Black 0 60 56 58 59 W R4).
      * rewrite Er. apply GT_held_bit. exact Hr.
      * lia.
      * lia.
      * right. reflexivity.
      * vm_compute. reflexivity.
      * exact Hg.
      * exact Ht.
    + apply (castle_one b White 1 4 0 2 3 W R2).
      * rewrite Er. apply GT_held_bit. exact Hr.
      * lia.
      * lia.
      * left. reflexivity.
      * vm_compute. reflexivity.
      * exact Hg.
      * exact Ht.
Qed.

Theorem pseudo_moves_shape_ok b c (PS : ps_hyp b c) l : pseudo_moves b c = Ok l ->
  forall m, In m l -> shape_ok b m.
Proof.
  pose proof PS as (R & NK & EW). pose proof (Repr_WF b R) as W.
  intros H m Hm. unfold MoveGen.pseudo_moves in H. cbv zeta in H.
  destruct (pawn_moves b c) as [pawns| |] eqn:Hp; try discriminate. cbn [bind] in H.
  destruct (castle_moves rook_t bishop_t b c) as [castles| |] eqn:Hc; try discriminate. cbn [bind] in H.
  apply EF_Ok_inj in H. subst l.
  apply in_app_or in Hm. destruct Hm as [Hm|Hm].
  { apply (expand_nonpawn_ok b c PS (table_targets knight_targets b c Knight)); [|exact Hm].
    intros pt Hpt. split.
    - exists Knight. split; [discriminate|apply (table_targets_origin _ _ _ _ _ W Hpt)].
    - intros t Mt. split; [|apply (GT_table_targets_not_own _ _ _ _ _ _ Hpt Mt)].
      apply (in_attack_list rook_t bishop_t b c PS pt t (table_targets knight_targets b c Knight)); [|exact Hpt|exact Mt].
      exists (pawn_attack_targets b c ++ sliding_targets rook_t bishop_t b c),
             (table_targets king_targets b c King).
      rewrite <- !app_assoc. reflexivity. }
  apply in_app_or in Hm. destruct Hm as [Hm|Hm].
  { apply (expand_nonpawn_ok b c PS (sliding_targets rook_t bishop_t b c)); [|exact Hm].
    intros pt Hpt. split.
    - apply (sliding_targets_origin rook_t bishop_t b c pt W Hpt).
    - intros t Mt. split; [|apply (sliding_targets_not_own _ _ _ _ Hpt Mt)].
      apply (in_attack_list rook_t bishop_t b c PS pt t (sliding_targets rook_t bishop_t b c)); [|exact Hpt|exact Mt].
      exists (pawn_attack_targets b c),
             (table_targets knight_targets b c Knight ++ table_targets king_targets b c King).
      reflexivity. }
  apply in_app_or in Hm. destruct Hm as [Hm|Hm].
  { apply (expand_nonpawn_ok b c PS (table_targets king_targets b c King)); [|exact Hm].
    intros pt Hpt. split.
    - exists King. split; [discriminate|apply (table_targets_origin _ _ _ _ _ W Hpt)].
    - intros t Mt. split; [|apply (GT_table_targets_not_own _ _ _ _ _ _ Hpt Mt)].
      apply (in_attack_list rook_t bishop_t b c PS pt t (table_targets king_targets b c King)); [|exact Hpt|exact Mt].
      exists (pawn_attack_targets b c ++ sliding_targets rook_t bishop_t b c
              ++ table_targets knight_targets b c Knight), [].
      rewrite <- !app_assoc, app_nil_r. reflexivity. }
  apply in_app_or in Hm. destruct Hm as [Hm|Hm].
  - apply (pawn_moves_ok b c PS pawns Hp (ep_moves_ok b c PS) m Hm).
  - apply (castle_moves_ok b c PS castles Hc m Hm).
Qed.

(** THE MAIN ONE: every pseudo-legal candidate of a position satisfying the reachable-state
    invariant has the shape under which [SuccProofs.apply_total_shape] applies *)
Theorem cand_shape_ok b c l m :
  InvC b c -> pseudo_moves b c = Ok l -> In m l -> shape_ok b m.
Proof.
  intros I H Hm. apply (pseudo_moves_shape_ok b c (InvC_ps_hyp rook_t bishop_t b c I) l H m Hm).
Qed.

(** ** 3. every candidate can be made *)

Lemma fine_counters_ok b : Repr b -> fine 0 b -> SuccProofs1.counters_ok b.
Proof.
  intros ((_ & He & Hc & Hh & _) & _) (_ & F1 & F2).
  unfold SuccProofs1.counters_ok, top.
  split; [exact He|]. split; [exact Hc|]. split; [exact Hh|].
  unfold U8_MAX in *. unfold FULLMOVE_MAX in *. split; lia.
Qed.

Theorem cand_applies b c l m :
  InvC b c -> fine 0 b -> pseudo_moves b c = Ok l -> In m l ->
  exists b1, apply_move T m b = Ok b1.
Proof.
  intros I F H Hm. pose proof (InvC_Repr rook_t bishop_t b c I) as R.
  apply (SuccProofs.apply_total_shape T m b (Repr_WF b R) (cand_shape_ok b c l m I H Hm)
           (fine_counters_ok b R F)).
Qed.

(** ** 4. the legality filter does not fail, and hands the board back *)

Theorem gen_moves_total b c :
  InvC b c -> fine 0 b -> exists ms, gen_moves b c = Ok (ms, b).
Proof.
  intros I F. pose proof (InvC_Repr rook_t bishop_t b c I) as R. pose proof (Repr_WF b R) as W.
  destruct (pseudo_moves_total b c R) as [l H].
  pose proof (pseudo_cand_ok T rook_t bishop_t b c l W (InvC_ep_wf rook_t bishop_t b c I) H) as C.
  assert (S : Forall UndoProofs.sq_ok l)
    by (eapply Forall_impl; [|exact C]; intros m (X & _); exact X).
  assert (P : Forall (fun m => UndoProofs.ep_ok m b = true) l)
    by (eapply Forall_impl; [|exact C]; intros m (_ & X & _); exact X).
  assert (A : Forall (applicable T b) l).
  { apply Forall_forall. intros m Hm. apply (cand_applies b c l m I F H Hm). }
  unfold MoveGen.gen_moves. rewrite H. cbn [bind].
  rewrite (remove_invalid_total T rook_t bishop_t c l b W S P A). eexists. reflexivity.
Qed.

(** ** 5. the annotated generator does not fail *)

Lemma fine_1_0 b : fine 1 b -> fine 0 b.
Proof. intros (Hn & Hh & Hf). unfold Congr.fine. split; [exact Hn|]. split; lia. Qed.

(* make a legal move, generate the opponent's replies, take the move back *)
Lemma effect_of_total b c m :
  InvC b c -> fine 1 b -> gen_shape b m -> own_move b c m ->
  (exists b1, apply_move T m b = Ok b1 /\ in_check b1 c = false) ->
  exists e, effect_of T rook_t bishop_t b c m = Ok (e, b).
Proof.
  intros I F S O (b1 & A & Chk).
  pose proof (InvC_Repr rook_t bishop_t b c I) as R. pose proof (Repr_WF b R) as W.
  destruct (gen_shape_sq_ok_ep_ok b m R S) as [Sq Ep].
  pose proof (legal_move_InvC T rook_t bishop_t b c m b1 I S O A Chk) as I1.
  pose proof (Congr.apply_move_fine T m b b1 0 A F) as F1.
  destruct (gen_moves_total b1 (opp_c c) I1 F1) as [replies G].
  unfold MoveGen.effect_of. rewrite A. cbn [unwrap bind]. rewrite G. cbn [bind].
  cbv beta iota zeta. rewrite (UndoProofs.undo_apply T m b b1 W Sq Ep A). cbn [unwrap bind].
  eexists. reflexivity.
Qed.

Lemma annotate_total b c : InvC b c -> fine 1 b -> forall ms,
  (forall m, In m ms ->
     gen_shape b m /\ own_move b c m /\
     exists b1, apply_move T m b = Ok b1 /\ in_check b1 c = false) ->
  exists l, annotate T rook_t bishop_t b c ms = Ok (l, b).
Proof.
  intros I F. induction ms as [|m rest IH]; intro H.
  - eexists. reflexivity.
  - destruct (H m (or_introl eq_refl)) as (S & O & X).
    destruct (effect_of_total b c m I F S O X) as [e E].
    destruct (IH (fun m' Hm' => H m' (or_intror Hm'))) as [l' E'].
    cbn [MoveGen.annotate]. rewrite E. cbn [bind]. cbv beta iota. rewrite E'. cbn [bind].
    eexists. reflexivity.
Qed.

Theorem gen_annotated_total b c :
  InvC b c -> fine 1 b -> exists l, gen_annotated T rook_t bishop_t b c = Ok (l, b).
Proof.
  intros I F. destruct (gen_moves_total b c I (fine_1_0 b F)) as [ms G].
  destruct (gen_moves_InvC_spec T rook_t bishop_t b c ms b I G) as [_ X].
  unfold MoveGen.gen_annotated. rewrite G. cbn [bind]. cbv beta iota.
  apply (annotate_total b c I F ms X).
Qed.

(** ** 6. game_ending does not fail *)

(* [Repr] already says that the repetition stack is not empty *)
Lemma InvC_seen_nonempty b c : InvC b c -> seen_stack b <> [].
Proof. intros (((_ & _ & _ & _ & Hs) & _) & _). exact Hs. Qed.

Theorem game_ending_total b c :
  InvC b c -> fine 0 b -> seen_stack b <> [] ->
  exists e, game_ending T rook_t bishop_t b c = Ok (e, b).
Proof.
  intros I F Hs.
  assert (Hm : exists s, max_seen b = Ok s).
  { unfold max_seen. destruct (seen_stack b) as [|s r]; [congruence|]. eexists. reflexivity. }
  assert (Hh : exists h, halfmove b = Ok h).
  { unfold halfmove. destruct F as (Hn & _). destruct (hm_stack b) as [|h r]; [congruence|].
    eexists. reflexivity. }
  destruct Hm as [s Hm]. destruct Hh as [h Hh].
  unfold Eval.game_ending. rewrite Hm. cbn [bind].
  destruct (s =? REPETITION_DRAW_COUNT); [eexists; reflexivity|].
  rewrite Hh. cbn [bind].
  destruct (HALFMOVE_DRAW_THRESHOLD <=? h); [eexists; reflexivity|].
  destruct (gen_moves_total b c I F) as [ms G]. rewrite G. cbn [bind]. cbv beta iota zeta.
  destruct (is_nil ms); eexists; reflexivity.
Qed.

(** ** 7. score does not fail, and its value lies strictly inside the i16 range *)

Theorem score_total b c d :
  InvC b c -> fine 0 b -> seen_stack b <> [] ->
  EvalProofs2.legal_material (white b) -> EvalProofs2.legal_material (black b) -> d <= 255 ->
  exists v, score T rook_t bishop_t b c d = Ok (v, b)
            /\ (Search.I16_MIN < v < Search.I16_MAX)%Z.
Proof.
  intros I F Hs Lw Lb Hd.
  assert (Hm : exists s, max_seen b = Ok s).
  { unfold max_seen. destruct (seen_stack b) as [|s r]; [congruence|]. eexists. reflexivity. }
  destruct Hm as [s Hm].
  unfold Eval.score. rewrite Hm. cbn [bind].
  destruct (s =? SCORE_REPETITION_COUNT).
  - eexists. split; [reflexivity|].
    unfold Search.I16_MIN, Search.I16_MAX, BLACK_WINS, WHITE_WINS. destruct c; lia.
  - destruct (game_ending_total b c I F Hs) as [e G]. rewrite G. cbn [bind]. cbv beta iota.
    destruct e as [[| |]|].
    + destruct (EvalProofs2.mate_scores_no_overflow d Hd) as [M1 M2].
      destruct c.
      * rewrite M2. cbn [bind]. eexists. split; [reflexivity|].
        unfold Search.I16_MIN, Search.I16_MAX, WHITE_WINS. lia.
      * rewrite M1. cbn [bind]. eexists. split; [reflexivity|].
        unfold Search.I16_MIN, Search.I16_MAX, BLACK_WINS. lia.
    + eexists. split; [reflexivity|]. unfold Search.I16_MIN, Search.I16_MAX. lia.
    + eexists. split; [reflexivity|]. unfold Search.I16_MIN, Search.I16_MAX. lia.
    + destruct (EvalProofs2.eval_bounded b Lw Lb) as (s0 & Es & B1 & B2).
      rewrite Es. cbn [bind]. eexists. split; [reflexivity|].
      unfold WHITE_WINS in B1. unfold Search.I16_MIN, Search.I16_MAX. lia.
Qed.

End Gen.

(* ------------------------------------------------------------------ *)
(** * non-vacuity *)

(* the hypotheses of all seven theorems hold of the initial position ... *)
Example GT_start_hyps :
  InvC rook_ref bishop_ref UndoProofs.start_b White
  /\ Congr.fine 1 UndoProofs.start_b /\ Congr.fine 0 UndoProofs.start_b
  /\ seen_stack UndoProofs.start_b <> []
  /\ EvalProofs2.legal_material (white UndoProofs.start_b)
  /\ EvalProofs2.legal_material (black UndoProofs.start_b).
Proof.
  split; [exact Inv_start|].
  split; [vm_compute; split; [discriminate|split; reflexivity]|].
  split; [vm_compute; split; [discriminate|split; reflexivity]|].
  split; [vm_compute; discriminate|].
  split; apply EvalProofs2.legal_materialb_spec; vm_compute; reflexivity.
Qed.

(* ... and of a middle-game position with an en-passant target, castling rights and a pawn
   about to promote *)
Example GT_demo_hyps :
  InvC rook_ref bishop_ref inv_demo White
  /\ Congr.fine 1 inv_demo /\ seen_stack inv_demo <> []
  /\ EvalProofs2.legal_material (white inv_demo) /\ EvalProofs2.legal_material (black inv_demo).
Proof.
  split; [exact Inv_demo|].
  split; [vm_compute; split; [discriminate|split; reflexivity]|].
  split; [vm_compute; discriminate|].
  split; apply EvalProofs2.legal_materialb_spec; vm_compute; reflexivity.
Qed.

(* the theorems applied: 20 candidates at the start, all of the executable shape; the demo
   position's candidates include an en-passant capture, both castles and a capturing promotion,
   and every one of them passes the executable shape check *)
Example GT_start_shape :
  match pseudo_moves rook_ref bishop_ref UndoProofs.start_b White with
  | Ok l => length l = 20%nat /\ forallb (SuccProofs.shape_okb UndoProofs.start_b) l = true
  | _ => False
  end.
Proof. vm_compute. split; reflexivity. Qed.

Example GT_demo_shape :
  match pseudo_moves rook_ref bishop_ref inv_demo White with
  | Ok l =>
      forallb (SuccProofs.shape_okb inv_demo) l = true
      /\ existsb (cmove_eqb (EnPassant 36 43)) l = true /\ existsb (cmove_eqb (Castle 4 6)) l = true
      /\ existsb (cmove_eqb (Castle 4 2)) l = true
      /\ existsb (cmove_eqb (Promo 49 56 (Some Knight) Queen)) l = true
  | _ => False
  end.
Proof. vm_compute. split; [reflexivity|]. split; [reflexivity|]. split; [reflexivity|]. split; reflexivity. Qed.

Example GT_demo_score_total :
  exists v, score example_table rook_ref bishop_ref inv_demo White 3 = Ok (v, inv_demo)
            /\ (Search.I16_MIN < v < Search.I16_MAX)%Z.
Proof.
  destruct GT_demo_hyps as (I & F & Hs & Lw & Lb).
  apply (score_total example_table rook_ref bishop_ref inv_demo White 3 I (fine_1_0 inv_demo F) Hs Lw Lb).
  lia.
Qed.

Example GT_demo_annotated_total :
  exists l, gen_annotated example_table rook_ref bishop_ref inv_demo White = Ok (l, inv_demo).
Proof.
  destruct GT_demo_hyps as (I & F & _).
  apply (gen_annotated_total example_table rook_ref bishop_ref inv_demo White I F).
Qed.

Print Assumptions pseudo_moves_total.
Print Assumptions cand_shape_ok.
Print Assumptions cand_applies.
Print Assumptions gen_moves_total.
Print Assumptions gen_annotated_total.
Print Assumptions game_ending_total.
Print Assumptions score_total.
