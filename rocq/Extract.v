(* Extract.v — one extraction of every executable definition the runner uses.
   ExtrOcamlBasic: bool, option, unit, list, prod, sumbool -> OCaml's own;
   ExtrOcamlString: ascii -> char, string -> char list.  No Extract Constant. N, Z,
   positive, nat stay the extracted inductives. *)
From ChessV Require Import Bits Types Board Moves Rays MoveGen Eval Abs San Search Game Regex Pvp.
From ChessV Require Import Magic UciProofs UciGen InvProofs InvProofs2 SuccProofs SanProofs EvalProofs2 SoundB.
From ChessV.gen Require Import Magics.
From ChessV Require Rules.
From ChessV.gen Require Import InputRegex Consts.
From Coq Require Import ExtrOcamlBasic ExtrOcamlString.
Extraction Language OCaml.
Set Extraction KeepSingleton.

Extraction "model.ml"
  board_new put bremove toggle_turn set_turn push_ep pop_ep lose_rights pop_rights
  push_halfmove set_fullmove pop_halfmove count_position uncount_position max_seen
  halfmove peek_rights peek_ep bget pieces locate occupied
  apply_move undo_move
  gen_moves gen_annotated pseudo_moves attack_targets in_check knight_targets king_targets
  rook_ref bishop_ref slider_moves relevant_blockers rook_deltas bishop_deltas
  game_ending score material_score is_endgame
  Rules.legal_moves Rules.legal_moves_for Rules.successor Rules.succ_turn Rules.king_attacked
  Rules.is_checkmate Rules.is_stalemate Rules.move_effect Rules.perft Rules.attacked_by
  Rules.initial_position
  abstract key_of repr_ok inv_ok wf_b
  san_all san_label spec_label to_uci from_uci
  mm root_values root_values_ab search ab sort_moves
  apply_by_coords apply_by_notation engine_select book_next BOOK book_line_of
  parse_input exec_command pvp_step pvp_run
  full_match COORDINATE_RE ALGEBRAIC_RE
  cmove_eqb squares bits_of popcount
  (* decidable hypotheses of the property theorems, evaluated on every scenario node *)
  invb move_okb counters_okb gen_shapeb fitsb gen_wfb position_likeb legal_materialb soundb soundWb soundCb
  (* the magic-table model with the entries of the current build *)
  magic_rook magic_bishop entries_valid ROOK_ENTRIES BISHOP_ENTRIES.
