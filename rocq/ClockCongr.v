(* ClockCongr.v — position congruence with EQUAL half-move clocks.

   Congr.v shows that the alpha-beta value depends only on the observable position as long as
   the half-move clock stays below the move-count draw during the whole search ([far]: clock +
   depth < 100).  The engine's result cache (SearchLink.mkkey) additionally keys an entry by the
   clock itself when the draw IS within reach of the search ([clock_tag] <> 0).  This file
   proves the matching determinacy statement: two boards with the same observable position AND
   the same half-move clock have the same search value, whatever the clock is (below the u8
   limit of the counter), provided no repetition draw is in force at the root.

   Method.  The relation of Congr.v is kept as it is ([rel n]: piece sets, turn, n-entry
   prefixes of the en-passant and castling-rights stacks); the clock is carried NEXT to it:
   [eqclk b1 b2] = equal tops of the two clock stacks.  Every simulation lemma of Congr.v
   hands back boards that carry the COUNTERS ([ctr]: clock stack, move counter, repetition
   data) of the boards passed in, so [eqclk] survives every make/unmake bracket for free
   ([eqclk_of_ctr]); an apply pushes 0 or old+1 according to a test on the piece sets only
   ([apply_move_ctr]), so it survives the descent to a child too ([eqclk_child]).  Only the two
   readers of the clock, game_ending and score, are re-proved: the test [100 <=? h] sees the
   same h on both sides.  Proofs only. *)
From Coq Require Import Lia ZArith List.
From ChessV Require Import Search Abs.
From ChessV Require Import BoardLemmas WfReflect ZobristProofs CountFrame Congr.
From ChessV Require SearchLink.
Import ListNotations.

#[local] Arguments N.add : simpl never.
#[local] Arguments N.sub : simpl never.
#[local] Arguments N.mul : simpl never.
#[local] Arguments N.eqb : simpl never.
#[local] Arguments N.ltb : simpl never.
#[local] Arguments N.leb : simpl never.
#[local] Arguments N.of_nat : simpl never.
#[local] Arguments N.shiftl : simpl never.
#[local] Arguments N.shiftr : simpl never.
#[local] Arguments N.land : simpl never.
#[local] Arguments N.lor : simpl never.
#[local] Arguments N.lxor : simpl never.
#[local] Arguments N.testbit : simpl never.

(* ------------------------------------------------------------------ *)
(** * the side conditions *)

(* same half-move clock *)
Definition eqclk (b1 b2 : board) : Prop := hd 0 (hm_stack b1) = hd 0 (hm_stack b2).

(* no repetition draw in force *)
Definition nrep (b : board) : Prop := seen_stack b <> [] /\ hd 0 (seen_stack b) <> 3.

(* [Congr.far] with the draw threshold 100 replaced by the limit of the u8 counter *)
Definition wide' (d : nat) (b : board) : Prop :=
  hm_stack b <> [] /\ hd 0 (hm_stack b) + N.of_nat d < U8_MAX /\
  seen_stack b <> [] /\ hd 0 (seen_stack b) <> 3 /\
  fullmove b + N.of_nat d < FULLMOVE_MAX.

Lemma eqclk_refl b : eqclk b b.
Proof. reflexivity. Qed.
Lemma eqclk_sym b1 b2 : eqclk b1 b2 -> eqclk b2 b1.
Proof. unfold eqclk. intro HE. symmetry. exact HE. Qed.

Lemma eqclk_of_ctr b1 b2 x y : ctr x = ctr b1 -> ctr y = ctr b2 -> eqclk b1 b2 -> eqclk x y.
Proof.
  intros HC1 HC2. destruct (ctr_inj _ _ HC1) as (Hh1 & _). destruct (ctr_inj _ _ HC2) as (Hh2 & _).
  unfold eqclk. rewrite Hh1, Hh2. intro HE. exact HE.
Qed.

Lemma eqclk_toggle b1 b2 : eqclk b1 b2 -> eqclk (toggle_turn b1) (toggle_turn b2).
Proof. unfold eqclk, toggle_turn. bsimpl. intro HE. exact HE. Qed.

Lemma wide_of_ctr d b b' : ctr b' = ctr b -> wide' d b -> wide' d b'.
Proof.
  intros HC. destruct (ctr_inj _ _ HC) as (Hh & Hf & _ & Hs). unfold wide'. rewrite Hh, Hf, Hs. tauto.
Qed.

Lemma wide_fine0 d b : wide' d b -> fine 0 b.
Proof. unfold wide', fine. intros (Hn & Hh & _ & _ & Hf). repeat split; [exact Hn|lia|lia]. Qed.

Lemma wide_fine1 d b : wide' (S d) b -> fine 1 b.
Proof. unfold wide', fine. intros (Hn & Hh & _ & _ & Hf). repeat split; [exact Hn|lia|lia]. Qed.

Lemma wide_nrep d b : wide' d b -> nrep b.
Proof. unfold wide', nrep. intros (_ & _ & Hs & Hs3 & _). split; assumption. Qed.

Lemma wide_le d d' b : (d' <= d)%nat -> wide' d b -> wide' d' b.
Proof. unfold wide'. intros Hle (Hn & Hh & Hs & Hs3 & Hf). repeat split; try assumption; lia. Qed.

Lemma nrep_of_ctr b b' : ctr b' = ctr b -> nrep b -> nrep b'.
Proof. intros HC. destruct (ctr_inj _ _ HC) as (_ & _ & _ & Hs). unfold nrep. rewrite Hs. tauto. Qed.

(* [far] is [wide'] plus "the draw is out of reach" *)
Lemma far_wide d b : far d b -> wide' d b.
Proof.
  unfold far, wide', U8_MAX. intros (Hn & Hh & Hs & Hs3 & Hf). repeat split; try assumption; lia.
Qed.

Lemma wide_far d b : wide' d b -> hd 0 (hm_stack b) + N.of_nat d < 100 -> far d b.
Proof. unfold far, wide'. intros (Hn & Hh & Hs & Hs3 & Hf) Hlt. repeat split; assumption. Qed.

Section ClockStep.
Variable T : ztable.

Lemma wide_child d m b a : wide' (S d) b -> apply_move T m b = Ok a -> wide' d (toggle_turn a).
Proof.
  intros (Hn & Hh & Hs & Hs3 & Hf) HA.
  destruct (apply_move_clock T m b a HA) as (Hn' & Hh' & Hf' & Hs').
  unfold wide', toggle_turn. bsimpl. rewrite Hs', Hf'. repeat split; try assumption; lia.
Qed.

(* the clock pushed by an apply is a function of the old clock and of the piece sets *)
Lemma eqclk_apply m b1 b2 a1 a2 :
  same_sets b1 b2 -> eqclk b1 b2 ->
  apply_move T m b1 = Ok a1 -> apply_move T m b2 = Ok a2 -> eqclk a1 a2.
Proof.
  intros HS HE HA1 HA2.
  destruct (apply_move_ctr T m b1 a1 HA1) as (p1 & c1 & _ & HC1 & _).
  destruct (apply_move_ctr T m b2 a2 HA2) as (p2 & c2 & _ & HC2 & _).
  unfold ctr in HC1, HC2. injection HC1 as Hh1 _ _ _. injection HC2 as Hh2 _ _ _.
  unfold eqclk in HE |- *. rewrite Hh1, Hh2. cbn [hd].
  rewrite (bget_congr _ _ HS), HE. reflexivity.
Qed.

Lemma eqclk_child m b1 b2 a1 a2 :
  same_sets b1 b2 -> eqclk b1 b2 ->
  apply_move T m b1 = Ok a1 -> apply_move T m b2 = Ok a2 -> eqclk (toggle_turn a1) (toggle_turn a2).
Proof. intros HS HE HA1 HA2. apply eqclk_toggle. exact (eqclk_apply m b1 b2 a1 a2 HS HE HA1 HA2). Qed.

End ClockStep.

(* ------------------------------------------------------------------ *)
(** * the readers of the clock on related boards with equal clocks *)

Ltac out_done := apply out_rel_intro; first [reflexivity | assumption].

Section MainClk.
Variable T : ztable.
Variables rook_t bishop_t : N -> N -> N.

Notation gen_moves := (gen_moves T rook_t bishop_t).
Notation gen_annotated := (gen_annotated T rook_t bishop_t).
Notation game_ending := (game_ending T rook_t bishop_t).
Notation score := (score T rook_t bishop_t).
Notation ab := (Search.ab T rook_t bishop_t).

Lemma max_seen_nrep b : nrep b -> exists s, max_seen b = Ok s /\ (s =? 3) = false.
Proof.
  intros (Hn & Hs). unfold max_seen. destruct (seen_stack b) as [|s r]; [contradiction|].
  exists s. split; [reflexivity|]. apply N.eqb_neq. exact Hs.
Qed.

Lemma halfmove_ok b : hm_stack b <> [] -> halfmove b = Ok (hd 0 (hm_stack b)).
Proof. intro Hn. unfold halfmove. destruct (hm_stack b) as [|h r]; [contradiction|reflexivity]. Qed.

(** game ending: the move-count test reads the same clock on both sides *)
Lemma game_ending_clk n b1 b2 c :
  rel (S n) b1 b2 -> fine 0 b1 -> fine 0 b2 -> nrep b1 -> nrep b2 -> eqclk b1 b2 ->
  rres (out_rel (S n) b1 b2) (game_ending b1 c) (game_ending b2 c).
Proof.
  intros HP HF1 HF2 HQ1 HQ2 HE. unfold Eval.game_ending.
  destruct (max_seen_nrep b1 HQ1) as [s1 [Es1 Ns1]]. destruct (max_seen_nrep b2 HQ2) as [s2 [Es2 Ns2]].
  rewrite Es1, Es2. cbn [bind]. unfold REPETITION_DRAW_COUNT. rewrite Ns1, Ns2.
  rewrite (halfmove_ok b1 (proj1 HF1)), (halfmove_ok b2 (proj1 HF2)). cbn [bind].
  unfold eqclk in HE. rewrite HE.
  destruct (HALFMOVE_DRAW_THRESHOLD <=? hd 0 (hm_stack b2)).
  { cbn [rres]. out_done. }
  apply (rres_bind (out_rel (S n) b1 b2)); [apply gen_moves_rel; assumption|].
  intros [ms1 u1] [ms2 u2] _ _ (HEm & HRu & HC1 & HC2). cbn [fst snd] in HEm, HRu, HC1, HC2. subst ms2.
  cbv beta iota zeta.
  pose proof (rel_sets _ _ _ HRu) as HS. pose proof HRu as (_ & _ & Ht & _).
  rewrite Ht, (in_check_congr rook_t bishop_t u1 u2 (turn u2) HS).
  destruct (is_nil ms1); cbn [rres]; out_done.
Qed.

Lemma score_clk n b1 b2 c d :
  rel (S n) b1 b2 -> fine 0 b1 -> fine 0 b2 -> nrep b1 -> nrep b2 -> eqclk b1 b2 ->
  rres (out_rel (S n) b1 b2) (score b1 c d) (score b2 c d).
Proof.
  intros HP HF1 HF2 HQ1 HQ2 HE. unfold Eval.score.
  destruct (max_seen_nrep b1 HQ1) as [s1 [Es1 Ns1]]. destruct (max_seen_nrep b2 HQ2) as [s2 [Es2 Ns2]].
  rewrite Es1, Es2. cbn [bind]. unfold SCORE_REPETITION_COUNT. rewrite Ns1, Ns2.
  apply (rres_bind (out_rel (S n) b1 b2)); [apply game_ending_clk; assumption|].
  intros [e1 u1] [e2 u2] _ _ (HEe & HRu & HC1 & HC2). cbn [fst snd] in HEe, HRu, HC1, HC2. subst e2.
  cbv beta iota.
  destruct e1 as [[| |]|].
  - destruct c;
      match goal with |- rres _ (bind ?r _) _ => destruct r as [z|e|] end;
      cbn [bind rres]; try exact I; try reflexivity; out_done.
  - cbn [rres]. out_done.
  - cbn [rres]. out_done.
  - rewrite (material_score_congr u1 u2 (rel_sets _ _ _ HRu)).
    destruct (material_score u2) as [z|e|]; cbn [bind rres]; try exact I; try reflexivity; out_done.
Qed.

(* ---- the alpha-beta search ---- *)

Lemma lp_gen_clk d n rec upd stop :
  (forall k a1 a2 w, rel (S k) a1 a2 -> eqclk a1 a2 -> wide' d a1 -> wide' d a2 ->
     rres (out_rel (S k) a1 a2) (rec a1 w) (rec a2 w)) ->
  forall ms b1 b2 value w,
  rel (S n) b1 b2 -> eqclk b1 b2 -> wide' (S d) b1 -> wide' (S d) b2 ->
  rres (out_rel (S n) b1 b2) (lp_gen T rec upd stop ms b1 value w) (lp_gen T rec upd stop ms b2 value w).
Proof.
  intros Hrec. induction ms as [|me rest IH]; intros b1 b2 value w HP HE HF1 HF2.
  - cbn [lp_gen rres]. out_done.
  - cbn [lp_gen].
    apply (rres_bind (RS (S (S n)) (S (S n)) QT)).
    { apply apply_rel_fine; [exact HP | exact (wide_fine0 _ _ HF1) | exact (wide_fine0 _ _ HF2)]. }
    intros a1 a2 HA1 HA2 HRa. apply unwrap_ok_eq in HA1. apply unwrap_ok_eq in HA2.
    pose proof (RS_rel2 _ _ _ _ _ HRa) as HPa.
    apply (rres_bind (out_rel (S (S n)) (toggle_turn a1) (toggle_turn a2))).
    { apply Hrec; [apply rel_toggle, HPa
                  | exact (eqclk_child T _ _ _ _ _ (rel_sets _ _ _ HP) HE HA1 HA2)
                  | exact (wide_child T _ _ _ _ HF1 HA1) | exact (wide_child T _ _ _ _ HF2 HA2)]. }
    intros [v1 x1] [v2 x2] _ _ (HEv & HRx & HX & HY). cbn [fst snd] in HEv, HRx, HX, HY. subst v2.
    cbv beta iota zeta.
    apply (rres_bind (fun u1 u2 => rel (S n) u1 u2 /\ ctr u1 = ctr b1 /\ ctr u2 = ctr b2)).
    { apply (undo_rel_after T n (fst me) b1 b2 a1 a2 x1 x2); assumption. }
    intros u1 u2 _ _ (HRu & HC1 & HC2).
    destruct (stop (upd w (upd value v1))).
    + cbn [rres]. apply out_rel_intro; [reflexivity | apply rel_toggle, HRu | exact HC1 | exact HC2].
    + apply (rres_mono (out_rel (S n) (toggle_turn u1) (toggle_turn u2)));
        [intros x y; apply out_rel_trans; assumption|].
      apply IH; [apply rel_toggle, HRu
                | apply eqclk_toggle; exact (eqclk_of_ctr _ _ _ _ HC1 HC2 HE)
                | exact (wide_of_ctr _ b1 _ HC1 HF1) | exact (wide_of_ctr _ b2 _ HC2 HF2)].
Qed.

(** relational form: on boards with the same observable position and the same half-move clock
    the search has the same outcome kind and the same value, up to the u8 limit of the clock *)
Lemma ab_rel_clk d : forall n b1 b2 alpha beta mx,
  rel (S n) b1 b2 -> eqclk b1 b2 -> wide' d b1 -> wide' d b2 ->
  rres (out_rel (S n) b1 b2) (ab d b1 alpha beta mx) (ab d b2 alpha beta mx).
Proof.
  induction d as [|d IH]; intros n b1 b2 alpha beta mx HP HE HF1 HF2.
  - rewrite !ab_0. pose proof HP as (_ & _ & Ht & _). rewrite Ht.
    apply score_clk; try assumption;
      [exact (wide_fine0 _ _ HF1) | exact (wide_fine0 _ _ HF2) | exact (wide_nrep _ _ HF1) | exact (wide_nrep _ _ HF2)].
  - rewrite !ab_S. pose proof HP as (_ & _ & Ht & _). rewrite Ht.
    apply (rres_bind (out_rel (S n) b1 b2)).
    { apply gen_annotated_rel; try assumption; [exact (wide_fine1 _ _ HF1) | exact (wide_fine1 _ _ HF2)]. }
    intros [l1 u1] [l2 u2] _ _ (HEl & HRu & HC1 & HC2). cbn [fst snd] in HEl, HRu, HC1, HC2. subst l2.
    cbv beta iota zeta.
    pose proof (wide_of_ctr _ b1 _ HC1 HF1) as HFu1. pose proof (wide_of_ctr _ b2 _ HC2 HF2) as HFu2.
    pose proof (eqclk_of_ctr _ _ _ _ HC1 HC2 HE) as HEu.
    apply (rres_mono (out_rel (S n) u1 u2)); [intros x y; apply out_rel_trans; assumption|].
    rewrite (sort_moves_congr u1 u2 l1 (rel_sets _ _ _ HRu)).
    destruct (is_nil (sort_moves u2 l1)).
    + pose proof HRu as (_ & _ & Htu & _). rewrite Htu. apply score_clk; try assumption;
        [exact (wide_fine0 _ _ HFu1) | exact (wide_fine0 _ _ HFu2) | exact (wide_nrep _ _ HFu1) | exact (wide_nrep _ _ HFu2)].
    + destruct mx.
      * apply (lp_gen_clk d); try assumption.
        intros k a1 a2 w HPa HEa Fa1 Fa2. apply IH; assumption.
      * apply (lp_gen_clk d); try assumption.
        intros k a1 a2 w HPa HEa Fa1 Fa2. apply IH; assumption.
Qed.

(* ---- the statements in the [same_pos] vocabulary ---- *)

Theorem game_ending_congr_eqclock b1 b2 c e b1' :
  same_pos b1 b2 -> eqclk b1 b2 -> fine 0 b1 -> fine 0 b2 -> nrep b1 -> nrep b2 ->
  game_ending b1 c = Ok (e, b1') -> exists b2', game_ending b2 c = Ok (e, b2') /\ same_pos b1' b2' /\ eqclk b1' b2'.
Proof.
  intros HP HE HF1 HF2 HQ1 HQ2 HG. apply same_pos_rel in HP.
  destruct (rres_ok_l _ _ _ _ (game_ending_clk 0 b1 b2 c HP HF1 HF2 HQ1 HQ2 HE) HG) as [[y b2'] [HG2 HO]].
  destruct HO as (HEy & HR & HC1 & HC2). cbn [fst snd] in HEy, HR, HC1, HC2. subst y.
  exists b2'. split; [exact HG2|]. split; [exact (rel_same_pos _ _ _ HR) | exact (eqclk_of_ctr _ _ _ _ HC1 HC2 HE)].
Qed.

Theorem score_congr_eqclock b1 b2 c d v b1' :
  same_pos b1 b2 -> eqclk b1 b2 -> fine 0 b1 -> fine 0 b2 -> nrep b1 -> nrep b2 ->
  score b1 c d = Ok (v, b1') -> exists b2', score b2 c d = Ok (v, b2') /\ same_pos b1' b2' /\ eqclk b1' b2'.
Proof.
  intros HP HE HF1 HF2 HQ1 HQ2 HG. apply same_pos_rel in HP.
  destruct (rres_ok_l _ _ _ _ (score_clk 0 b1 b2 c d HP HF1 HF2 HQ1 HQ2 HE) HG) as [[y b2'] [HG2 HO]].
  destruct HO as (HEy & HR & HC1 & HC2). cbn [fst snd] in HEy, HR, HC1, HC2. subst y.
  exists b2'. split; [exact HG2|]. split; [exact (rel_same_pos _ _ _ HR) | exact (eqclk_of_ctr _ _ _ _ HC1 HC2 HE)].
Qed.

Theorem ab_congr_eqclock d b1 b2 alpha beta mx v b1' :
  same_pos b1 b2 -> eqclk b1 b2 -> wide' d b1 -> wide' d b2 ->
  ab d b1 alpha beta mx = Ok (v, b1') ->
  exists b2', ab d b2 alpha beta mx = Ok (v, b2') /\ same_pos b1' b2' /\ eqclk b1' b2'.
Proof.
  intros HP HE HF1 HF2 HG. apply same_pos_rel in HP.
  destruct (rres_ok_l _ _ _ _ (ab_rel_clk d 0 b1 b2 alpha beta mx HP HE HF1 HF2) HG) as [[y b2'] [HG2 HO]].
  destruct HO as (HEy & HR & HC1 & HC2). cbn [fst snd] in HEy, HR, HC1, HC2. subst y.
  exists b2'. split; [exact HG2|]. split; [exact (rel_same_pos _ _ _ HR) | exact (eqclk_of_ctr _ _ _ _ HC1 HC2 HE)].
Qed.

Theorem ab_kind_eqclock d b1 b2 alpha beta mx :
  same_pos b1 b2 -> hd 0 (hm_stack b1) = hd 0 (hm_stack b2) -> wide' d b1 -> wide' d b2 ->
  kind (ab d b1 alpha beta mx) = kind (ab d b2 alpha beta mx).
Proof.
  intros HP HE HF1 HF2. apply same_pos_rel in HP.
  exact (rres_kind _ _ _ (ab_rel_clk d 0 b1 b2 alpha beta mx HP HE HF1 HF2)).
Qed.

(** MAIN THEOREM: the search value is a function of the observable position and the half-move
    clock *)
Theorem ab_value_congr_eqclock d b1 b2 alpha beta mx :
  same_pos b1 b2 ->
  hd 0 (hm_stack b1) = hd 0 (hm_stack b2) ->
  wide' d b1 -> wide' d b2 ->
  ab_value T rook_t bishop_t d b1 alpha beta mx = ab_value T rook_t bishop_t d b2 alpha beta mx.
Proof.
  intros HP HE HF1 HF2. apply same_pos_rel in HP.
  pose proof (ab_rel_clk d 0 b1 b2 alpha beta mx HP HE HF1 HF2) as HR. unfold ab_value.
  destruct (ab d b1 alpha beta mx) as [[v1 x1]|e1|]; destruct (ab d b2 alpha beta mx) as [[v2 x2]|e2|];
    cbn [rres] in HR; try contradiction; try reflexivity.
  destruct HR as [HEv _]. cbn [fst] in HEv. rewrite HEv. reflexivity.
Qed.

(* ------------------------------------------------------------------ *)
(** * the key level: the cache key with the clock tag *)

Definition searchable' (d : nat) (b : board) : Prop :=
  WF b /\ wide' d b /\ ep_top_wf b /\ stacks_ne b.

Lemma searchable_searchable' d b : searchable d b -> searchable' d b.
Proof. intros (W & F & E & N). split; [exact W|]. split; [exact (far_wide _ _ F)|]. split; assumption. Qed.

(* what equality of the tags gives: both searches stay clear of the draw, or the clocks agree *)
Lemma clock_tag_cases b1 b2 d :
  SearchLink.clock_tag b1 d = SearchLink.clock_tag b2 d ->
  (hd 0 (hm_stack b1) + N.of_nat d < 100 /\ hd 0 (hm_stack b2) + N.of_nat d < 100)
  \/ hd 0 (hm_stack b1) = hd 0 (hm_stack b2).
Proof.
  unfold SearchLink.clock_tag. cbv zeta.
  destruct (N.leb_spec 100 (hd 0 (hm_stack b1) + N.of_nat d)) as [G1|L1];
    destruct (N.leb_spec 100 (hd 0 (hm_stack b2) + N.of_nat d)) as [G2|L2]; intro HT.
  - right. exact HT.
  - exfalso. lia.
  - exfalso. lia.
  - left. split; assumption.
Qed.

(** the [key_det] premise for the engine's search key WITH the clock tag
    (hash, alpha, beta, depth, maximizing, clock_tag): on a collision-free set of boards, two
    boards with the same key have the same search value — also when the move-count draw is
    within reach of the search *)
Theorem ab_key_det_clock_full (S : board -> Prop) d b1 b2 alpha beta mx :
  collision_free S -> S b1 -> S b2 -> searchable' d b1 -> searchable' d b2 ->
  hash b1 = hash b2 -> turn b1 = turn b2 ->
  SearchLink.clock_tag b1 d = SearchLink.clock_tag b2 d ->
  ab_value T rook_t bishop_t d b1 alpha beta mx = ab_value T rook_t bishop_t d b2 alpha beta mx
  /\ kind (ab d b1 alpha beta mx) = kind (ab d b2 alpha beta mx).
Proof.
  intros CF S1 S2 (W1 & F1 & E1 & N1) (W2 & F2 & E2 & N2) HH HT HK.
  pose proof (obs_same_pos b1 b2 W1 W2 (CF b1 b2 S1 S2 HH HT) HT N1 N2 E1 E2) as HP.
  destruct (clock_tag_cases b1 b2 d HK) as [[L1 L2]|HE].
  - pose proof (wide_far _ _ F1 L1) as FF1. pose proof (wide_far _ _ F2 L2) as FF2.
    split; [apply ab_value_congr; assumption | apply ab_kind; assumption].
  - split; [apply ab_value_congr_eqclock; assumption | apply ab_kind_eqclock; assumption].
Qed.

Corollary ab_key_det_clock (S : board -> Prop) d b1 b2 alpha beta :
  collision_free S -> S b1 -> S b2 -> searchable' d b1 -> searchable' d b2 ->
  hash b1 = hash b2 -> maximize (turn b1) = maximize (turn b2) ->
  SearchLink.clock_tag b1 d = SearchLink.clock_tag b2 d ->
  ab_value T rook_t bishop_t d b1 alpha beta (maximize (turn b1))
  = ab_value T rook_t bishop_t d b2 alpha beta (maximize (turn b2)).
Proof.
  intros CF S1 S2 HS1 HS2 HH HM HK.
  assert (HT : turn b1 = turn b2) by (destruct (turn b1), (turn b2); cbn [maximize] in HM; congruence).
  rewrite HT. apply (ab_key_det_clock_full S d b1 b2 alpha beta _ CF S1 S2 HS1 HS2 HH HT HK).
Qed.

(* the same, from equality of the two keys as the cache compares them *)
Corollary ab_mkkey_det (S : board -> Prop) d d' b1 b2 alpha beta alpha' beta' :
  collision_free S -> S b1 -> S b2 -> searchable' d b1 -> searchable' d' b2 ->
  SearchLink.mkkey b1 alpha beta d (maximize (turn b1)) = SearchLink.mkkey b2 alpha' beta' d' (maximize (turn b2)) ->
  ab_value T rook_t bishop_t d b1 alpha beta (maximize (turn b1))
  = ab_value T rook_t bishop_t d' b2 alpha' beta' (maximize (turn b2)).
Proof.
  intros CF S1 S2 HS1 HS2 HK. unfold SearchLink.mkkey in HK.
  injection HK as Hh Ha Hb Hd Hm Hc. subst alpha' beta' d'.
  apply (ab_key_det_clock S); assumption.
Qed.

End MainClk.

(* ------------------------------------------------------------------ *)
(** * non-vacuity: the two histories of Congr.v, both with the clock at 99 *)

Lemma late_hyps_gen (a b : board) :
  same_pos a b -> fullmove a = 5 -> fullmove b = 7 -> seen_stack a = [1] -> seen_stack b = [1] ->
  length (ep_stack a) = 5%nat -> length (ep_stack b) = 7%nat ->
  let la := set_hm a [99; 98; 97] in
  let lb := set_hm b [99] in
  same_pos la lb
  /\ hd 0 (hm_stack la) = hd 0 (hm_stack lb)
  /\ wide' 3 la /\ wide' 3 lb
  /\ ~ far 1 la /\ ~ far 1 lb
  /\ SearchLink.clock_tag la 1 = 99 /\ SearchLink.clock_tag lb 1 = 99
  /\ hm_stack la <> hm_stack lb /\ fullmove la <> fullmove lb
  /\ ep_stack la <> ep_stack lb.
Proof.
  intros HP Af Bf As Bs Ae Be. cbv zeta.
  split; [unfold same_pos in *; bsimpl; exact HP|].
  split; [bsimpl; reflexivity|].
  split.
  { unfold wide'. bsimpl. rewrite As, Af. unfold U8_MAX, FULLMOVE_MAX. cbn [hd].
    repeat split; try discriminate; lia. }
  split.
  { unfold wide'. bsimpl. rewrite Bs, Bf. unfold U8_MAX, FULLMOVE_MAX. cbn [hd].
    repeat split; try discriminate; lia. }
  split. { unfold far. bsimpl. cbn [hd]. intros (_ & Hh & _). lia. }
  split. { unfold far. bsimpl. cbn [hd]. intros (_ & Hh & _). lia. }
  split; [unfold SearchLink.clock_tag; bsimpl; reflexivity|].
  split; [unfold SearchLink.clock_tag; bsimpl; reflexivity|].
  split. { bsimpl. discriminate. }
  split. { bsimpl. rewrite Af, Bf. discriminate. }
  bsimpl. intro HE. rewrite HE in Ae. rewrite Ae in Be. discriminate Be.
Qed.

Definition late_a : board := set_hm board_a [99; 98; 97].
Definition late_b : board := set_hm board_b [99].

Example late_hyps :
  same_pos late_a late_b
  /\ hd 0 (hm_stack late_a) = hd 0 (hm_stack late_b)
  /\ wide' 3 late_a /\ wide' 3 late_b
  /\ ~ far 1 late_a /\ ~ far 1 late_b
  /\ SearchLink.clock_tag late_a 1 = 99 /\ SearchLink.clock_tag late_b 1 = 99
  /\ hm_stack late_a <> hm_stack late_b /\ fullmove late_a <> fullmove late_b
  /\ ep_stack late_a <> ep_stack late_b.
Proof.
  destruct two_histories as (_ & _ & HP & _ & _ & Af & Bf & Ae & Be & _).
  assert (As : seen_stack board_a = [1]) by (vm_compute; reflexivity).
  assert (Bs : seen_stack board_b = [1]) by (vm_compute; reflexivity).
  unfold late_a, late_b.
  apply (late_hyps_gen board_a board_b HP Af Bf As Bs); [rewrite Ae|rewrite Be]; reflexivity.
Qed.

(* the theorem fires on them, and the clock matters: a depth-1 search from either late board
   gives 40, from the same position with a fresh clock (board_a, clock 0) it gives 50 — every
   non-pawn reply runs into the move-count draw at clock 100 *)
Example late_search :
  ab_value example_table rook_ref bishop_ref 1 late_a I16_MIN I16_MAX true = Some 40%Z
  /\ ab_value example_table rook_ref bishop_ref 1 late_b I16_MIN I16_MAX true = Some 40%Z
  /\ ab_value example_table rook_ref bishop_ref 1 board_a I16_MIN I16_MAX true = Some 50%Z.
Proof. vm_compute. repeat split; reflexivity. Qed.

Print Assumptions ab_rel_clk.
Print Assumptions ab_congr_eqclock.
Print Assumptions ab_kind_eqclock.
Print Assumptions ab_value_congr_eqclock.
Print Assumptions ab_key_det_clock_full.
Print Assumptions ab_key_det_clock.
Print Assumptions ab_mkkey_det.
Print Assumptions late_hyps.
Print Assumptions late_search.
