(* Closed.v — the CLOSED chess-level theorems: the abstract invariant hypotheses (`Good`) of the
   second-wave proof files are discharged with the concrete reachable-state invariant
   [Reach.Sound].  What remains as hypotheses is only
     - [Sound (N.to_nat depth) b] for the position searched (an executable check: [soundb]),
     - [1 <= depth] (the depth bound depth < 100 <= 255 is part of [Sound]),
     - for the statements about the shared result cache / the generator cache: the cache key
       is collision-free on the boards that are searched / asked about.

   C07_closed        search never panics; it returns a generated legal move or NoAvailableMoves
   C08_closed        the reported score is the minimax value, the returned move attains it
   C09_closed        every schedule of the parallel root tasks through any sound cache ends
                     with the minimax value ([key_det_chess] discharged from Congr.ab_key_det_mx)
   C10_closed_model  the move-path counter returns the board and the exact count (relative to
                     the model's generator)
   C02_closed        the long-lived generator cache answers like a brand-new generator
   C12_closed        the representation invariant holds in every visited state

   NOTE on the shape of the invariant.  SearchFrame.Total / SearchLink.Link ask for an invariant
   [Good : board -> Prop] closed under playing a move.  No such invariant can imply that the
   generator does not fail (after 65534 moves the fullmove counter overflows, after 255 quiet
   moves the half-move clock does) nor that equal position keys give equal search values (the
   key ignores the clocks).  The real invariant is indexed by the number of plies still to be
   searched and is consumed by every move; SearchIx.v / SearchCacheIx.v / InterleaveIx.v are
   the same theorems for an indexed invariant, and those are instantiated here.  Proofs only. *)
From Coq Require Import Lia ZArith NArith List Bool Permutation.
From ChessV Require Import Abs WfReflect GeomProofs InvProofs InvProofs2 Congr ZobristProofs
  EvalProofs2 Search GenFrame EpFrame SearchFrame SearchLink SearchIx SearchCacheIx Reach.
From ChessV Require UndoProofs Perft Cache AlphaBeta Interleave InterleaveIx.
Import ListNotations.
Open Scope N_scope.

#[local] Arguments N.add : simpl never.
#[local] Arguments N.sub : simpl never.
#[local] Arguments N.mul : simpl never.
#[local] Arguments N.eqb : simpl never.
#[local] Arguments N.ltb : simpl never.
#[local] Arguments N.leb : simpl never.
#[local] Arguments N.of_nat : simpl never.
#[local] Arguments N.shiftl : simpl never.
#[local] Arguments N.shiftr : simpl never.
#[local] Arguments N.land : simpl never.
#[local] Arguments N.lor : simpl never.
#[local] Arguments N.lxor : simpl never.
#[local] Arguments N.testbit : simpl never.

Section Closed.
Variable T : ztable.
Variables rook_t bishop_t : N -> N -> N.

Notation Sound := (Sound T rook_t bishop_t).
Notation gen_moves := (gen_moves T rook_t bishop_t).
Notation gen_annotated := (gen_annotated T rook_t bishop_t).
Notation score := (score T rook_t bishop_t).
Notation search := (search T rook_t bishop_t).
Notation children := (children T rook_t bishop_t).
Notation leaf := (leaf T rook_t bishop_t).
Notation InvC := (InvC rook_t bishop_t).
Notation Inv := (Inv rook_t bishop_t).

(* ------------------------------------------------------------------ *)
(** * the hypotheses of SearchIx.v, for Good := Sound *)

Lemma G_inv : forall k b, Sound k b -> WF b /\ ep_wf b (turn b).
Proof. intros k b S. split; [exact (Sound_WF _ _ _ k b S)|exact (Sound_ep_wf _ _ _ k b S)]. Qed.

Lemma G_gen : forall k b, Sound (S k) b -> exists l b', gen_annotated b (turn b) = Ok (l, b').
Proof. intros k b S. destruct (Sound_gen_total _ _ _ k b S) as [l E]. exists l, b. exact E. Qed.

Lemma G_step : forall k b ms m b1,
  Sound (S k) b -> gen_moves b (turn b) = Ok (ms, b) -> In m ms -> apply_move T m b = Ok b1 ->
  Sound k (toggle_turn b1).
Proof. intros k b ms m b1 S G Hm A. exact (Sound_step _ _ _ k b ms b m b1 S G Hm A). Qed.

Lemma G_score : forall k b, Sound k b -> exists v b', score b (turn b) (N.of_nat k) = Ok (v, b').
Proof. intros k b S. exact (Sound_score_ix _ _ _ k b S). Qed.

Lemma G_range : forall k b v b',
  Sound k b -> score b (turn b) (N.of_nat k) = Ok (v, b') -> (I16_MIN < v < I16_MAX)%Z.
Proof. intros k b v b' S E. exact (Sound_score_range_ix _ _ _ k b v b' S E). Qed.

Ltac feed X :=
  repeat first [specialize (X G_inv) | specialize (X G_gen) | specialize (X G_step)
               | specialize (X G_score) | specialize (X G_range)].

(* ------------------------------------------------------------------ *)
(** * C07: the search never panics *)

(** at depth >= 1 the search of a Sound position answers SOk with a move of the generated legal
    list and hands the caller's board back, or NoAvailableMoves when that list is empty *)
Theorem C07_closed : forall depth b,
  1 <= depth -> Sound (N.to_nat depth) b ->
  (exists v m (cands : list (cmove * effect)), search depth b = SOk (v, m, b)
       /\ gen_moves b (turn b) = Ok (map fst cands, b) /\ In m (map fst cands))
  \/ (search depth b = SErr NoAvailableMoves /\ gen_moves b (turn b) = Ok ([], b)).
Proof.
  pose proof (search_total_ix T rook_t bishop_t (Reach.Sound T rook_t bishop_t)) as X. feed X. exact X.
Qed.

Corollary C07_never_panics : forall depth b, Sound (N.to_nat depth) b -> search depth b <> SPanic.
Proof.
  pose proof (search_never_panics_ix T rook_t bishop_t (Reach.Sound T rook_t bishop_t)) as X. feed X. exact X.
Qed.

(** the recursion itself: alpha_beta_minimax answers and hands the position back, for every
    window and either side *)
Theorem C07_ab_total : forall d b alpha beta mx, Sound d b ->
  exists v, Search.ab T rook_t bishop_t d b alpha beta mx = Ok (v, b).
Proof.
  pose proof (ab_total_ix T rook_t bishop_t (Reach.Sound T rook_t bishop_t)) as X. feed X. exact X.
Qed.

(* ------------------------------------------------------------------ *)
(** * C08: the score is the minimax value and the move attains it *)

Theorem C08_closed : forall depth b v m b1,
  1 <= depth -> Sound (N.to_nat depth) b -> search depth b = SOk (v, m, b1) ->
  Search.mm T rook_t bishop_t (N.to_nat depth) b (maximize (turn b)) = Ok v
  /\ (exists b2, apply_move T m b = Ok b2 /\
        Search.mm T rook_t bishop_t (Nat.pred (N.to_nat depth)) (toggle_turn b2)
                  (negb (maximize (turn b))) = Ok v)
  /\ (exists rv, Search.root_values T rook_t bishop_t (N.to_nat depth) b = Ok rv /\ In (m, v) rv /\
        forall m' v', In (m', v') rv -> if maximize (turn b) then (v' <= v)%Z else (v <= v')%Z).
Proof.
  intros depth b v m b1 L S E.
  pose proof (search_score_is_minimax_ix T rook_t bishop_t (Reach.Sound T rook_t bishop_t)) as X1. feed X1.
  pose proof (search_move_attains_ix T rook_t bishop_t (Reach.Sound T rook_t bishop_t)) as X2. feed X2.
  pose proof (search_in_root_values_ix T rook_t bishop_t (Reach.Sound T rook_t bishop_t)) as X3. feed X3.
  split; [exact (X1 depth b v m b1 L S E)|].
  split; [exact (X2 depth b v m b1 L S E)|exact (X3 depth b v m b1 L S E)].
Qed.

(** alpha_beta_minimax with ANY window is the generic fail-soft alpha-beta over the legal-move
    tree, and the oracle is the generic minimax *)
Theorem C08_ab_is_generic : forall d b alpha beta mx, Sound d b ->
  Search.ab T rook_t bishop_t d b alpha beta mx
  = Ok (AlphaBeta.ab board children leaf I16_MIN I16_MAX d mx b alpha beta, b)
  /\ Search.mm T rook_t bishop_t d b mx = Ok (AlphaBeta.mm board children leaf I16_MIN I16_MAX d mx b).
Proof.
  intros d b alpha beta mx S.
  pose proof (ab_link_ix T rook_t bishop_t (Reach.Sound T rook_t bishop_t)) as X1. feed X1.
  pose proof (mm_link_ix T rook_t bishop_t (Reach.Sound T rook_t bishop_t)) as X2. feed X2.
  split; [exact (X1 d b alpha beta mx S)|exact (X2 d b mx S)].
Qed.

(** the oracle the correspondence uses at larger depths (full-window alpha-beta of every child)
    is the plain-minimax list of root values *)
Theorem root_values_ab_eq : forall d b,
  Sound (S d) b ->
  Search.root_values_ab T rook_t bishop_t (S d) b = Search.root_values T rook_t bishop_t (S d) b.
Proof.
  intros d b S.
  destruct (Sound_gen_moves_total T rook_t bishop_t (Datatypes.S d) b S) as [ms G].
  unfold Search.root_values_ab, Search.root_values. rewrite G. cbn [bind Nat.pred].
  assert (Hall : forall m, In m ms -> In m ms) by (intros m Hm; exact Hm).
  revert Hall. generalize ms at 1 3 4. intros l. induction l as [|m l IH]; intros Hall; [reflexivity|].
  cbn [fold_right]. rewrite IH by (intros m' Hm'; apply Hall; right; exact Hm').
  match goal with |- bind ?X _ = _ => destruct X as [r| |] end; cbn [bind]; try reflexivity.
  destruct (apply_move T m b) as [b2| |] eqn:A; cbn [unwrap bind]; try reflexivity.
  pose proof (Sound_step T rook_t bishop_t d b ms b m b2 S G (Hall m (or_introl eq_refl)) A) as S2.
  pose proof (ab_full_window_chess_ix T rook_t bishop_t (Reach.Sound T rook_t bishop_t)) as X. feed X.
  destruct (X d (toggle_turn b2) (negb (maximize (turn b))) S2) as (v & Ea & Em).
  rewrite Ea, Em. reflexivity.
Qed.

(* ------------------------------------------------------------------ *)
(** * C09: the shared cache and the parallel root tasks *)

(* the boards the search of b0 visits: b0 and everything reached by legal moves, turn passed *)
Inductive searched (b0 : board) : board -> Prop :=
| searched_root : searched b0 b0
| searched_step b ms b' m b1 :
    searched b0 b -> gen_moves b (turn b) = Ok (ms, b') -> In m ms -> apply_move T m b = Ok b1 ->
    searched b0 (toggle_turn b1).

Section Cache.
(* a set of boards closed under playing a legal move, on which the 64-bit key is collision-free *)
Variable Sb : board -> Prop.
Hypothesis Sb_step : forall b ms b' m b1,
  Sb b -> gen_moves b (turn b) = Ok (ms, b') -> In m ms -> apply_move T m b = Ok b1 ->
  Sb (toggle_turn b1).
Hypothesis Sb_cf : collision_free Sb.

Definition GoodS (d : nat) (b : board) : Prop := Sound d b /\ Sb b.

Lemma GS_inv : forall k b, GoodS k b -> WF b /\ ep_wf b (turn b).
Proof. intros k b [S _]. exact (G_inv k b S). Qed.

Lemma GS_gen : forall k b, GoodS (S k) b -> exists l b', gen_annotated b (turn b) = Ok (l, b').
Proof. intros k b [S _]. exact (G_gen k b S). Qed.

Lemma GS_step : forall k b ms m b1,
  GoodS (S k) b -> gen_moves b (turn b) = Ok (ms, b) -> In m ms -> apply_move T m b = Ok b1 ->
  GoodS k (toggle_turn b1).
Proof.
  intros k b ms m b1 [S Hs] G Hm A.
  split; [exact (G_step k b ms m b1 S G Hm A)|exact (Sb_step b ms b m b1 Hs G Hm A)].
Qed.

Lemma GS_score : forall k b, GoodS k b -> exists v b', score b (turn b) (N.of_nat k) = Ok (v, b').
Proof. intros k b [S _]. exact (G_score k b S). Qed.

Lemma GS_range : forall k b v b',
  GoodS k b -> score b (turn b) (N.of_nat k) = Ok (v, b') -> (I16_MIN < v < I16_MAX)%Z.
Proof. intros k b v b' [S _] E. exact (G_range k b v b' S E). Qed.

(** [key_det_chess], DISCHARGED: on a collision-free set of Sound boards, equal position keys
    and equal side to move give equal alpha_beta_minimax values *)
Lemma GS_keydet : forall p q alpha beta d v w,
  GoodS d p -> GoodS d q -> hash p = hash q -> maximize (turn p) = maximize (turn q) ->
  clock_tag p d = clock_tag q d ->
  Search.ab T rook_t bishop_t d p alpha beta (maximize (turn p)) = Ok (v, p) ->
  Search.ab T rook_t bishop_t d q alpha beta (maximize (turn q)) = Ok (w, q) -> v = w.
Proof.
  intros p q alpha beta d v w [Sp Hp] [Sq Hq] HH HM _ Ep Eq.
  pose proof (ab_key_det_mx T rook_t bishop_t Sb d p q alpha beta Sb_cf Hp Hq
                (Sound_searchable _ _ _ d p Sp) (Sound_searchable _ _ _ d q Sq) HH HM) as E.
  unfold ab_value in E. rewrite Ep, Eq in E. inversion E. reflexivity.
Qed.

Ltac feedS X :=
  repeat first [specialize (X GS_inv) | specialize (X GS_gen) | specialize (X GS_step)
               | specialize (X GS_score) | specialize (X GS_range) | specialize (X GS_keydet)].

Notation cabp := (Interleave.abp board skey children leaf I16_MIN I16_MAX mkkey).
Notation crun := (Interleave.run skey skey_eqb).
Notation crun_sched := (Interleave.run_sched skey skey_eqb).
Notation croot_pool := (Interleave.root_pool board skey children leaf I16_MIN I16_MAX mkkey).

(* a cache is sound when every entry is the alpha_beta_minimax value of every board of the set,
   Sound for the entry's depth and with the entry's side to move, that maps to its key *)
Definition cache_ok (c : Interleave.cache skey) : Prop :=
  cache_sound T rook_t bishop_t GoodS c.

Lemma cache_ok_nil : cache_ok [].
Proof. apply cache_sound_nil_ix. Qed.

(** the memoised search through any sound cache returns the cache-free value and leaves a
    sound cache *)
Theorem C09_cached_search_same : forall c d b alpha beta,
  Sound d b -> Sb b -> cache_ok c ->
  Search.ab T rook_t bishop_t d b alpha beta (maximize (turn b))
    = Ok (fst (crun c (cabp d (maximize (turn b)) b alpha beta Interleave.Ret)), b)
  /\ cache_ok (snd (crun c (cabp d (maximize (turn b)) b alpha beta Interleave.Ret))).
Proof.
  intros c d b alpha beta S Hs Hc.
  pose proof (cached_search_same_ix T rook_t bishop_t GoodS) as X. feedS X.
  exact (X c d b alpha beta (conj S Hs) Hc).
Qed.

(** under ANY schedule, a finished root task holds the minimax value of its child *)
Theorem C09_any_schedule : forall c0 d b sch i c w,
  Sound (S d) b -> Sb b -> cache_ok c0 ->
  nth_error (children b) i = Some c ->
  nth_error (snd (crun_sched sch (croot_pool c0 d (negb (maximize (turn b))) I16_MIN I16_MAX (children b)))) i
    = Some (Interleave.Ret w) ->
  Search.ab T rook_t bishop_t d c I16_MIN I16_MAX (negb (maximize (turn b))) = Ok (w, c)
  /\ Search.mm T rook_t bishop_t d c (negb (maximize (turn b))) = Ok w.
Proof.
  intros c0 d b sch i c w S Hs Hc Hi Ht.
  pose proof (pool_any_schedule_ix T rook_t bishop_t GoodS) as X. feedS X.
  exact (X c0 d b sch i c w (conj S Hs) Hc Hi Ht).
Qed.

(** every schedule can be completed; the completed pool holds the minimax value of every child,
    the cache is still sound, and their max / min is the minimax value of the root *)
Theorem C09_root_minimax : forall c0 d b sch,
  Sound (S d) b -> Sb b -> cache_ok c0 -> children b <> [] ->
  let mx := maximize (turn b) in
  exists sch' ws,
    let pl := crun_sched (sch ++ sch') (croot_pool c0 d (negb mx) I16_MIN I16_MAX (children b)) in
    snd pl = map Interleave.Ret ws /\ cache_ok (fst pl) /\
    Forall2 (fun c w => Search.mm T rook_t bishop_t d c (negb mx) = Ok w) (children b) ws /\
    Search.mm T rook_t bishop_t (S d) b mx
      = Ok (if mx then fold_left Z.max ws I16_MIN else fold_left Z.min ws I16_MAX).
Proof.
  intros c0 d b sch S Hs Hc Hne.
  pose proof (pool_root_minimax_chess_ix T rook_t bishop_t GoodS) as X. feedS X.
  exact (X c0 d b sch (conj S Hs) Hc Hne).
Qed.

(** the score of the sequential cache-free search is the score of the parallel cached root
    tasks under any (completed) schedule, from any sound cache *)
Theorem C09_parallel_same : forall depth b v m b1 c0 sch,
  1 <= depth -> Sound (N.to_nat depth) b -> Sb b -> search depth b = SOk (v, m, b1) -> cache_ok c0 ->
  let mx := maximize (turn b) in
  exists sch' ws,
    snd (crun_sched (sch ++ sch')
           (croot_pool c0 (Nat.pred (N.to_nat depth)) (negb mx) I16_MIN I16_MAX (children b)))
      = map Interleave.Ret ws /\
    v = (if mx then fold_left Z.max ws I16_MIN else fold_left Z.min ws I16_MAX).
Proof.
  intros depth b v m b1 c0 sch L S Hs E Hc.
  pose proof (parallel_cached_search_same_ix T rook_t bishop_t GoodS) as X. feedS X.
  exact (X depth b v m b1 c0 sch L (conj S Hs) E Hc).
Qed.

End Cache.

Lemma searched_closed b0 : forall b ms b' m b1,
  searched b0 b -> gen_moves b (turn b) = Ok (ms, b') -> In m ms -> apply_move T m b = Ok b1 ->
  searched b0 (toggle_turn b1).
Proof. intros b ms b' m b1 H G Hm A. exact (searched_step b0 b ms b' m b1 H G Hm A). Qed.

(** C09 for the engine: the only hypothesis besides [Sound] is that the position key is
    collision-free on the boards that the search of b0 visits.  From the empty cache (or any
    sound one) and under every schedule of the root tasks — completed by some further steps —
    the pool ends with the values whose max (White) / min (Black) is the score that the
    sequential cache-free search reports, which is the minimax value (C08_closed). *)
Theorem C09_closed : forall depth b0 v m b1 c0 sch,
  collision_free (searched b0) ->
  1 <= depth -> Sound (N.to_nat depth) b0 -> search depth b0 = SOk (v, m, b1) ->
  cache_ok (searched b0) c0 ->
  let mx := maximize (turn b0) in
  Search.mm T rook_t bishop_t (N.to_nat depth) b0 mx = Ok v /\
  exists sch' ws,
    snd (Interleave.run_sched skey skey_eqb (sch ++ sch')
           (Interleave.root_pool board skey children leaf I16_MIN I16_MAX mkkey
              c0 (Nat.pred (N.to_nat depth)) (negb mx) I16_MIN I16_MAX (children b0)))
      = map Interleave.Ret ws /\
    v = (if mx then fold_left Z.max ws I16_MIN else fold_left Z.min ws I16_MAX).
Proof.
  intros depth b0 v m b1 c0 sch CF L S E Hc mx.
  split; [exact (proj1 (C08_closed depth b0 v m b1 L S E))|].
  exact (C09_parallel_same (searched b0) (searched_closed b0) CF depth b0 v m b1 c0 sch
           L S (searched_root b0) E Hc).
Qed.

(* ------------------------------------------------------------------ *)
(** * C10 (model level): the move-path counter *)

(** for every fair reduction of the per-move results (any schedule / any reduction tree), the
    counter hands the board back and returns the exact number of move paths of lengths 1..d+1,
    counted with the model's generator *)
Theorem C10_closed_model : forall reduce d b c n b',
  Perft.fair_reduce reduce -> InvC b c ->
  Perft.count_top_gen T rook_t bishop_t reduce d b c = Ok (n, b') ->
  b' = b /\ n = Perft.nsum T rook_t bishop_t d b c.
Proof.
  intros reduce d b c n b' F I E.
  refine (Perft.count_top_exact T rook_t bishop_t InvC _ _ _ reduce d b c n b' F I E).
  - intros b2 c2 I2. exact (Repr_WF b2 (InvC_Repr rook_t bishop_t b2 c2 I2)).
  - intros b2 c2 ms b2' I2 G.
    destruct (gen_moves_InvC_spec T rook_t bishop_t b2 c2 ms b2' I2 G) as [Eb _].
    split; [exact Eb|].
    pose proof (gen_moves_sq_ok_ep_ok T rook_t bishop_t b2 c2 ms b2' I2 G) as X.
    split; apply Forall_forall; intros m Hm; destruct (X m Hm) as [X1 X2]; assumption.
  - intros b2 c2 ms b2' m b3 I2 G Hm A.
    destruct (gen_moves_InvC_spec T rook_t bishop_t b2 c2 ms b2' I2 G) as [_ X].
    destruct (X m Hm) as (Sh & Own & b3' & A' & Chk).
    rewrite A in A'. apply Reach_Ok_inj in A'. subst b3'.
    exact (legal_move_InvC T rook_t bishop_t b2 c2 m b3 I2 Sh Own A Chk).
Qed.

Corollary C10_closed_model_inv : forall reduce d b n b',
  Perft.fair_reduce reduce -> invb rook_t bishop_t b = true ->
  Perft.count_top_gen T rook_t bishop_t reduce d b (turn b) = Ok (n, b') ->
  b' = b /\ n = Perft.nsum T rook_t bishop_t d b (turn b).
Proof.
  intros reduce d b n b' F I E. apply (C10_closed_model reduce d b (turn b) n b' F); [|exact E].
  apply (invb_spec rook_t bishop_t b). exact I.
Qed.

(* ------------------------------------------------------------------ *)
(** * C02: the long-lived generator cache *)

(* the boards that may be asked about: one more move can be applied without a counter overflow *)
Definition askable (b : board) : Prop := fine 0 b.

(** whatever it has been asked before (with evictions in between), the cached generator answers
    like a brand-new generator — [gen_congr] DISCHARGED from Congr.gen_moves_congr; what remains
    is that the 64-bit key is collision-free on the boards asked about *)
Theorem C02_closed : forall qs ans st b c,
  (forall b1 b2, askable b1 -> askable b2 -> hash b1 = hash b2 -> Cache.same_pos_noturn b1 b2) ->
  Forall (fun q => askable (Cache.req_board q)) qs -> askable b ->
  Cache.grun T rook_t bishop_t Cache.gen_state_new qs ans st ->
  Cache.answer_of (Cache.generate_moves_cached T rook_t bishop_t st b c)
  = Cache.answer_of (Cache.generate_moves_cached T rook_t bishop_t Cache.gen_state_new b c).
Proof.
  intros qs ans st b c CF Hqs Hb R.
  refine (Cache.cached_gen_eq_fresh T rook_t bishop_t askable _ _ CF qs ans st b c Hqs Hb R).
  - intros b1 b2 c0 ms F1 F2 HP HG. unfold Cache.gen_list in *.
    destruct (MoveGen.gen_moves T rook_t bishop_t b1 c0) as [[ms1 b1']| |] eqn:G1; try discriminate HG.
    apply Reach_Ok_inj in HG. subst ms1.
    destruct (gen_moves_congr T rook_t bishop_t b1 b2 c0 ms b1' HP F1 F2 G1) as [b2' [G2 _]].
    rewrite G2. reflexivity.
  - intros b0 t F. exact F.
Qed.

(* ------------------------------------------------------------------ *)
(** * C12: the representation invariant in every visited state *)

(** from a position that passes the executable invariant check, every state held on the way by
    legal moves, takebacks, turn flips and the transient make/unmake of legality filtering
    satisfies every clause of the representation invariant *)
Theorem C12_closed : forall b0 b,
  invb rook_t bishop_t b0 = true -> visited T rook_t bishop_t b0 (turn b0) b -> Repr b.
Proof.
  intros b0 b I V. apply (Repr_visited T rook_t bishop_t b0 (turn b0) b); [|exact V].
  apply (invb_spec rook_t bishop_t b0). exact I.
Qed.

Corollary C12_closed_bool : forall b0 b,
  invb rook_t bishop_t b0 = true -> visited T rook_t bishop_t b0 (turn b0) b -> repr_ok b = true.
Proof. intros b0 b I V. apply repr_ok_iff. exact (C12_closed b0 b I V). Qed.

End Closed.


Print Assumptions C07_closed.
Print Assumptions C08_closed.
Print Assumptions C09_closed.
Print Assumptions C10_closed_model.
Print Assumptions C02_closed.
Print Assumptions C12_closed.
