(* C15Closed.v — property C15, first sentence:

     "Whenever the side to move has a legal move, asking the engine for its move (opening book
      first, search otherwise) yields a legal move of the current position rather than an error."

   The model is Game.engine_select T rook_t bishop_t g choice.  On every game whose current board
   satisfies the wide search invariant ReachWide.SoundW at the game's search depth (>= 1):

     engine_select_dichotomy   the answer is either  GOk m  with m one of the RULES' legal moves
                               (Rules.legal_moves_for (abstract b) (turn b)), or
                               GSearchError NoAvailableMoves  and the rules give no legal move;
     engine_always_moves       a legal move exists  ->  GOk m, m legal;
     engine_no_moves           no legal move        ->  GSearchError NoAvailableMoves;
     engine_never_panics       never GPanic (nor GInvalidMove / GBoardError / DepthTooLow);
     engine_moves_iff          GOk is answered exactly when a legal move exists.

   Ingredients: ReachWide.C07_wide (search totality on the wide domain), ReachWide.SoundW_gen_total
   (the annotated generator answers), GenFrame.gen_annotated_board, GenExact.gen_exact
   (generated = rules' legal moves).  Proofs only; no axioms. *)
From Coq Require Import Lia ZArith NArith List Bool.
From ChessV Require Import Bits Types Board Moves MoveGen Rules Abs Search Game.
From ChessV Require Import BoardLemmas InvProofs InvProofs2 GenFrame EpFrame GenExact SearchFrame
  Reach ReachWide.
From ChessV Require UndoProofs SoundB.
Import ListNotations.
Open Scope N_scope.
Open Scope list_scope.

#[local] Arguments N.add : simpl never.
#[local] Arguments N.sub : simpl never.
#[local] Arguments N.mul : simpl never.
#[local] Arguments N.eqb : simpl never.
#[local] Arguments N.ltb : simpl never.
#[local] Arguments N.leb : simpl never.
#[local] Arguments N.of_nat : simpl never.
#[local] Arguments N.shiftl : simpl never.
#[local] Arguments N.shiftr : simpl never.
#[local] Arguments N.land : simpl never.
#[local] Arguments N.lor : simpl never.
#[local] Arguments N.lxor : simpl never.
#[local] Arguments N.testbit : simpl never.

Section C15.
Variable T : ztable.
Variables rook_t bishop_t : N -> N -> N.
Hypothesis rook_t_ref : forall x o, x < 64 -> rook_t x o = rook_ref x o.
Hypothesis bishop_t_ref : forall x o, x < 64 -> bishop_t x o = bishop_ref x o.

Notation SoundW := (SoundW T rook_t bishop_t).
Notation gen_moves := (gen_moves T rook_t bishop_t).
Notation gen_annotated := (gen_annotated T rook_t bishop_t).
Notation search := (search T rook_t bishop_t).
Notation engine_select := (engine_select T rook_t bishop_t).

(* the rules' legal moves of the side to move *)
Notation legal b := (Rules.legal_moves_for (abstract b) (turn b)).

Lemma SoundW_Inv d b : SoundW d b -> InvProofs2.Inv rook_t bishop_t b.
Proof. intros (I & _). exact I. Qed.

(* whatever the generator lists is exactly the rules' legal-move set *)
Lemma gen_legal d b ms b' :
  SoundW d b -> gen_moves b (turn b) = Ok (ms, b') ->
  forall m, In m ms <-> In m (legal b).
Proof.
  intros Hs G.
  destruct (gen_exact T rook_t bishop_t rook_t_ref bishop_t_ref b (turn b) ms b'
              (SoundW_Inv d b Hs) G) as (_ & _ & E).
  exact E.
Qed.

(* the search branch of engine_select *)
Definition run_search (g : game) : gres cmove :=
  match search (gdepth g) (gboard g) with
  | SOk (_, m, _) => GOk m
  | SErr e => GSearchError e
  | SPanic => GPanic
  end.

Lemma run_search_dichotomy g :
  1 <= gdepth g -> SoundW (N.to_nat (gdepth g)) (gboard g) ->
  (exists m, run_search g = GOk m /\ In m (legal (gboard g)))
  \/ (run_search g = GSearchError NoAvailableMoves /\ legal (gboard g) = []).
Proof.
  intros L Hs. unfold run_search.
  destruct (C07_wide T rook_t bishop_t (gdepth g) (gboard g) L Hs)
    as [(v & m & cands & Es & G & Hin)|[Es G]].
  - left. exists m. rewrite Es. split; [reflexivity|].
    apply (gen_legal _ _ _ _ Hs G). exact Hin.
  - right. rewrite Es. split; [reflexivity|].
    destruct (legal (gboard g)) as [|m0 rest] eqn:El; [reflexivity|].
    exfalso.
    assert (H : In m0 (@nil cmove)).
    { apply (gen_legal _ _ _ _ Hs G). rewrite El. left. reflexivity. }
    exact H.
Qed.

Lemma engine_select_unfold g choice :
  engine_select g choice =
  match book_next BOOK (book_line_of (ghist g)) with
  | [] => run_search g
  | next =>
      let bmv := nth (choice mod length next) next (0, 0) in
      match gen_annotated (gboard g) (turn (gboard g)) with
      | Ok (cands, _) =>
          match find (fun me => (mv_from (fst me) =? fst bmv) && (mv_to (fst me) =? snd bmv)) cands with
          | Some (m, _) => GOk m
          | None => run_search g
          end
      | _ => GPanic
      end
  end.
Proof. reflexivity. Qed.

(** the complete description of the engine's answer *)
Theorem engine_select_dichotomy : forall g choice,
  1 <= gdepth g -> SoundW (N.to_nat (gdepth g)) (gboard g) ->
  (exists m, engine_select g choice = GOk m /\ In m (legal (gboard g)))
  \/ (engine_select g choice = GSearchError NoAvailableMoves /\ legal (gboard g) = []).
Proof.
  intros g choice L Hs. rewrite engine_select_unfold.
  pose proof (run_search_dichotomy g L Hs) as RS.
  destruct (book_next BOOK (book_line_of (ghist g))) as [|bm next]; [exact RS|].
  cbv zeta.
  assert (Ek : exists k, N.to_nat (gdepth g) = S k).
  { exists (pred (N.to_nat (gdepth g))). lia. }
  destruct Ek as [k Ek].
  pose proof Hs as Hs'. rewrite Ek in Hs'.
  destruct (SoundW_gen_total T rook_t bishop_t k (gboard g) Hs') as [cands G].
  rewrite G.
  destruct (find _ cands) as [[m e]|] eqn:F; [|exact RS].
  left. exists m. split; [reflexivity|].
  destruct (W_inv T rook_t bishop_t _ _ Hs) as [W E].
  destruct (gen_annotated_board T rook_t bishop_t _ _ _ _ W E G) as [_ Gm].
  apply (gen_legal _ _ _ _ Hs Gm).
  apply find_some in F. destruct F as [Hin _].
  apply in_map_iff. exists (m, e). split; [reflexivity|exact Hin].
Qed.

(** C15, first sentence *)
Theorem engine_always_moves : forall g choice,
  1 <= gdepth g -> SoundW (N.to_nat (gdepth g)) (gboard g) ->
  Rules.legal_moves_for (abstract (gboard g)) (turn (gboard g)) <> [] ->
  exists m, engine_select g choice = GOk m
            /\ In m (Rules.legal_moves_for (abstract (gboard g)) (turn (gboard g))).
Proof.
  intros g choice L Hs Hne.
  destruct (engine_select_dichotomy g choice L Hs) as [H|[_ Hnil]]; [exact H|contradiction].
Qed.

(** the converse direction: no legal move (checkmate / stalemate) -> the search's
    NoAvailableMoves error, whatever the book says *)
Theorem engine_no_moves : forall g choice,
  1 <= gdepth g -> SoundW (N.to_nat (gdepth g)) (gboard g) ->
  Rules.legal_moves_for (abstract (gboard g)) (turn (gboard g)) = [] ->
  engine_select g choice = GSearchError NoAvailableMoves.
Proof.
  intros g choice L Hs Hnil.
  destruct (engine_select_dichotomy g choice L Hs) as [(m & _ & Hin)|[H _]]; [|exact H].
  rewrite Hnil in Hin. destruct Hin.
Qed.

Theorem engine_never_panics : forall g choice,
  1 <= gdepth g -> SoundW (N.to_nat (gdepth g)) (gboard g) ->
  engine_select g choice <> GPanic.
Proof.
  intros g choice L Hs.
  destruct (engine_select_dichotomy g choice L Hs) as [(m & H & _)|[H _]]; rewrite H; discriminate.
Qed.

(* ... nor any of the other error results *)
Theorem engine_no_other_error : forall g choice,
  1 <= gdepth g -> SoundW (N.to_nat (gdepth g)) (gboard g) ->
  engine_select g choice <> GInvalidMove /\ engine_select g choice <> GBoardError
  /\ engine_select g choice <> GSearchError DepthTooLow.
Proof.
  intros g choice L Hs.
  destruct (engine_select_dichotomy g choice L Hs) as [(m & H & _)|[H _]]; rewrite H;
    repeat split; discriminate.
Qed.

(** a move is answered exactly when the rules give one *)
Theorem engine_moves_iff : forall g choice,
  1 <= gdepth g -> SoundW (N.to_nat (gdepth g)) (gboard g) ->
  ((exists m, engine_select g choice = GOk m)
   <-> Rules.legal_moves_for (abstract (gboard g)) (turn (gboard g)) <> []).
Proof.
  intros g choice L Hs. split.
  - intros [m H] Hnil. rewrite (engine_no_moves g choice L Hs Hnil) in H. discriminate H.
  - intro Hne. destruct (engine_always_moves g choice L Hs Hne) as (m & H & _). exists m. exact H.
Qed.

End C15.

(* ------------------------------------------------------------------ *)
(** * non-vacuity: a new game from the standard position, depth 4 *)

Definition start_game : game :=
  {| gboard := UndoProofs.start_b; ghist := []; gdepth := 4 |}.

Lemma start_game_SoundW :
  SoundW example_table rook_ref bishop_ref (N.to_nat (gdepth start_game)) (gboard start_game).
Proof.
  change (N.to_nat (gdepth start_game)) with 4%nat.
  apply Sound_SoundW. exact Reach.Sound_initial.
Qed.

Lemma start_game_has_moves :
  Rules.legal_moves_for (abstract (gboard start_game)) (turn (gboard start_game)) <> [].
Proof.
  assert (H : length (Rules.legal_moves_for (abstract (gboard start_game)) (turn (gboard start_game)))
              = 20%nat) by (vm_compute; reflexivity).
  intro E. rewrite E in H. discriminate H.
Qed.

Example start_game_engine_moves : forall choice,
  exists m, engine_select example_table rook_ref bishop_ref start_game choice = GOk m
            /\ In m (Rules.legal_moves_for (abstract (gboard start_game)) (turn (gboard start_game))).
Proof.
  intro choice.
  apply (engine_always_moves example_table rook_ref bishop_ref
           (fun _ _ _ => eq_refl) (fun _ _ _ => eq_refl) start_game choice).
  - cbn [gdepth start_game]. lia.
  - exact start_game_SoundW.
  - exact start_game_has_moves.
Qed.

Print Assumptions engine_select_dichotomy.
Print Assumptions engine_always_moves.
Print Assumptions engine_no_moves.
Print Assumptions engine_never_panics.
Print Assumptions engine_no_other_error.
Print Assumptions engine_moves_iff.
Print Assumptions start_game_engine_moves.
