(* MoveCells.v — the effect of each of the four kinds of apply_move, square by square
   (bget of the result as a function of bget of the argument) and on the stacks.
   Proofs only; used by InvProofs.v (property C12). *)
From Coq Require Import Lia.
From ChessV Require Import Abs.
From ChessV Require Export BoardLemmas ZobristProofs.

#[local] Arguments N.add : simpl never.
#[local] Arguments N.sub : simpl never.
#[local] Arguments N.mul : simpl never.
#[local] Arguments N.eqb : simpl never.
#[local] Arguments N.ltb : simpl never.
#[local] Arguments N.leb : simpl never.
#[local] Arguments N.shiftl : simpl never.
#[local] Arguments N.shiftr : simpl never.
#[local] Arguments N.land : simpl never.
#[local] Arguments N.lor : simpl never.
#[local] Arguments N.lxor : simpl never.
#[local] Arguments N.ldiff : simpl never.
#[local] Arguments N.testbit : simpl never.

(* ------------------------------------------------------------------ *)
(** * frames *)

(* the fields other than the piece sets and the key *)
Definition same_state (b b' : board) : Prop :=
  turn b' = turn b /\ ep_stack b' = ep_stack b /\ cr_stack b' = cr_stack b /\ hm_stack b' = hm_stack b
  /\ fullmove b' = fullmove b /\ pos_count b' = pos_count b /\ seen_stack b' = seen_stack b.

(* what every apply_move does to those fields: one entry pushed on each of the three
   move stacks, the full-move counter bumped, nothing else *)
Definition pushed (b b' : board) (e r : N) : Prop :=
  ep_stack b' = e :: ep_stack b /\ cr_stack b' = r :: cr_stack b
  /\ (exists h, hm_stack b' = h :: hm_stack b) /\ seen_stack b' = seen_stack b
  /\ turn b' = turn b /\ pos_count b' = pos_count b /\ fullmove b' = fullmove b + 1.

Definition new_rights (old lost : N) : N := N.lxor old (N.land old lost).

Lemma same_state_refl b : same_state b b.
Proof. repeat split. Qed.

Lemma same_state_trans a b c : same_state a b -> same_state b c -> same_state a c.
Proof. unfold same_state. intros H K. intuition congruence. Qed.

Lemma pushed_pre a b c e r : same_state a b -> pushed b c e r -> pushed a c e r.
Proof.
  unfold same_state, pushed. intros H K.
  destruct H as (Q1 & Q2 & Q3 & Q4 & Q5 & Q6 & Q7).
  destruct K as (K1 & K2 & [h K3] & K4 & K5 & K6 & K7).
  repeat split; try congruence. exists h. congruence.
Qed.

Lemma pushed_post a b c e r : pushed a b e r -> same_state b c -> pushed a c e r.
Proof.
  unfold same_state, pushed. intros K H.
  destruct H as (Q1 & Q2 & Q3 & Q4 & Q5 & Q6 & Q7).
  destruct K as (K1 & K2 & [h K3] & K4 & K5 & K6 & K7).
  repeat split; try congruence. exists h. congruence.
Qed.

Lemma top_cons x l : top (x :: l) = x.
Proof. reflexivity. Qed.

Section Cells.
Variable T : ztable.

Tactic Notation "bind_step" hyp(H) ident(a) ident(E) :=
  match type of H with
  | bind ?r _ = Ok _ =>
      destruct r as [a| |] eqn:E; cbn [bind] in H; [|discriminate H|discriminate H]
  end.

Lemma put_same_state b i p c b' : put T b i p c = Ok b' -> same_state b b'.
Proof. intro H. pose proof (put_frame T _ _ _ _ _ H) as F. unfold same_state. tauto. Qed.

Lemma bremove_same_state b i p c b' : bremove T b i = Some ((p, c), b') -> same_state b b'.
Proof. intro H. pose proof (bremove_frame T _ _ _ _ _ H) as F. unfold same_state. tauto. Qed.

(* remove-if-present *)
Lemma bremove_opt b i : WF b ->
  exists captured b2,
    match bremove T b i with None => (None, b) | Some (pc, b2) => (Some pc, b2) end = (captured, b2)
    /\ captured = bget b i
    /\ (forall j, bget b2 j = if j =? i then None else bget b j)
    /\ same_state b b2 /\ WF b2.
Proof.
  intro W. destruct (bremove T b i) as [[[p c] b2]|] eqn:R.
  - destruct (bremove_bget T _ _ _ _ _ R W) as [G0 G1].
    exists (Some (p, c)), b2. split; [reflexivity|]. split; [symmetry; exact G0|].
    split; [exact G1|]. split; [apply (bremove_same_state _ _ _ _ _ R)|apply (bremove_WF T _ _ _ _ _ R W)].
  - apply bremove_none_iff in R. exists None, b. split; [reflexivity|]. split; [symmetry; exact R|].
    split; [|split; [apply same_state_refl|exact W]].
    intro j. destruct (N.eqb_spec j i) as [->|Hne]; [exact R|reflexivity].
Qed.

(* the state-only tail of Std / Castle *)
Lemma tail_lose b2 b3 b4 b5 b6 ept lost :
  (b3 = reset_halfmove b2 \/ inc_halfmove b2 = Ok b3) ->
  inc_fullmove b3 = Ok b4 -> push_ep T b4 ept = Ok b5 -> lose_rights T b5 lost = Ok b6 ->
  white b6 = white b2 /\ black b6 = black b2
  /\ pushed b2 b6 ept (new_rights (top (cr_stack b2)) lost).
Proof.
  intros S3 S4 S5 S6.
  assert (A3 : white b3 = white b2 /\ black b3 = black b2 /\ turn b3 = turn b2
               /\ ep_stack b3 = ep_stack b2 /\ cr_stack b3 = cr_stack b2
               /\ (exists h, hm_stack b3 = h :: hm_stack b2) /\ fullmove b3 = fullmove b2
               /\ pos_count b3 = pos_count b2 /\ seen_stack b3 = seen_stack b2).
  { destruct S3 as [->|S3].
    - repeat split. exists 0. reflexivity.
    - pose proof (inc_halfmove_spec _ _ S3) as Q. repeat split; try tauto.
      eexists. apply Q. }
  destruct A3 as (A31 & A32 & A33 & A34 & A35 & [h A36] & A37 & A38 & A39).
  pose proof (inc_fullmove_spec _ _ S4) as (_ & B2 & _ & B4 & B5 & B6 & B7 & B8 & B9 & B10 & B11).
  pose proof (push_ep_spec T _ _ _ S5) as (_ & C2 & _ & C4 & C5 & C6 & C7 & C8 & C9 & C10 & C11).
  pose proof (lose_rights_spec T _ _ _ S6) as (_ & D2 & _ & D4 & D5 & D6 & D7 & D8 & D9 & D10 & D11).
  split; [congruence|]. split; [congruence|].
  unfold pushed, new_rights, top. repeat split; try congruence.
  exists h. congruence.
Qed.

(* the state-only tail of EnPassant *)
Lemma tail_preserve b2 b4 b5 b6 ept :
  inc_fullmove (reset_halfmove b2) = Ok b4 -> push_ep T b4 ept = Ok b5 -> preserve_rights b5 = Ok b6 ->
  white b6 = white b2 /\ black b6 = black b2
  /\ pushed b2 b6 ept (top (cr_stack b2)).
Proof.
  intros S4 S5 S6.
  pose proof (inc_fullmove_spec _ _ S4) as (_ & B2 & _ & B4 & B5 & B6 & B7 & B8 & B9 & B10 & B11).
  pose proof (push_ep_spec T _ _ _ S5) as (_ & C2 & _ & C4 & C5 & C6 & C7 & C8 & C9 & C10 & C11).
  pose proof (preserve_rights_spec _ _ S6) as (_ & D2 & _ & D4 & D5 & D6 & D7 & D8 & D9 & D10 & D11).
  revert B2 B4 B5 B6 B7 B8 B9 B10 B11. bsimpl. intros.
  split; [congruence|]. split; [congruence|].
  unfold pushed, top. repeat split; try congruence.
  exists 0. congruence.
Qed.

Ltac eqb_cases :=
  repeat match goal with
         | |- context [N.eqb ?a ?b] => destruct (N.eqb_spec a b); try subst
         end; try reflexivity; try congruence; try lia.

(* ---- Std ---- *)
Theorem apply_std_cells b f t cap b' : WF b -> t < 64 -> apply_std T b f t cap = Ok b' ->
  exists p c,
    bget b f = Some (p, c)
    /\ (if t =? f then None else bget b t) = option_map (fun cp => (cp, opp_c c)) cap
    /\ (forall j, bget b' j = if j =? t then Some (p, c) else if j =? f then None else bget b j)
    /\ pushed b b' (ep_target_of p c f t)
         (new_rights (top (cr_stack b))
            (N.lor (lost_if_moved p c f)
                   (lost_if_taken (option_map (fun cp => (cp, opp_c c)) cap) t)))
    /\ WF b'.
Proof.
  unfold apply_std. intros W Lt H.
  destruct (bremove T b f) as [[[p c] b1]|] eqn:R1; [|discriminate].
  destruct (bremove_bget T _ _ _ _ _ R1 W) as [G0 G1].
  pose proof (bremove_WF T _ _ _ _ _ R1 W) as W1.
  pose proof (bremove_same_state _ _ _ _ _ R1) as F1.
  destruct (bremove_opt b1 t W1) as (captured & b2 & E & Ecap & G2 & F2 & W2).
  rewrite E in H. cbv beta iota zeta in H.
  destruct (negb _) eqn:Eq in H; [discriminate|].
  apply negb_false_iff, opt_pc_eqb_eq in Eq.
  bind_step H b3 S3. bind_step H b4 S4. bind_step H b5 S5. bind_step H b6 S6.
  apply unwrap_ok_inv in H.
  assert (S3' : b3 = reset_halfmove b2 \/ inc_halfmove b2 = Ok b3).
  { destruct captured; [left; congruence|].
    destruct (piece_eqb p Pawn); [left; congruence|right; exact S3]. }
  destruct (tail_lose _ _ _ _ _ _ _ S3' S4 S5 S6) as (Hw & Hb & P).
  pose proof (WF_same_sets _ _ Hw Hb W2) as W6.
  pose proof (put_bget T _ _ _ _ _ H W6 Lt) as G3.
  pose proof (put_same_state _ _ _ _ _ H) as F3.
  exists p, c. split; [exact G0|].
  assert (Ec : (if t =? f then None else bget b t) = captured).
  { rewrite Ecap, G1. reflexivity. }
  split; [rewrite Ec; exact Eq|].
  split.
  - intro j. rewrite G3, (bget_same_sets _ _ Hw Hb), G2, G1. eqb_cases.
  - split; [|apply (put_WF T _ _ _ _ _ H W6 Lt)].
    rewrite <- Eq.
    apply (pushed_post _ _ _ _ _ (pushed_pre _ _ _ _ _ (same_state_trans _ _ _ F1 F2) P)) in F3.
    destruct F1 as (_ & _ & F13 & _). destruct F2 as (_ & _ & F23 & _).
    rewrite F23, F13 in F3. exact F3.
Qed.

(* ---- Promo ---- *)
Theorem apply_promo_cells b f t cap pp b' : WF b -> t < 64 -> apply_promo T b f t cap pp = Ok b' ->
  exists c,
    bget b f = Some (Pawn, c)
    /\ (if t =? f then None else bget b t) = option_map (fun cp => (cp, opp_c c)) cap
    /\ (forall j, bget b' j = if j =? t then Some (pp, c) else if j =? f then None else bget b j)
    /\ pushed b b' (ep_target_of Pawn c f t)
         (new_rights (top (cr_stack b))
            (N.lor (lost_if_moved Pawn c f)
                   (lost_if_taken (option_map (fun cp => (cp, opp_c c)) cap) t)))
    /\ WF b'.
Proof.
  unfold apply_promo. intros W Lt H.
  bind_step H b1 S1.
  destruct (apply_std_cells _ _ _ _ _ W Lt S1) as (p & c & G0 & Ecap & G1 & P & W1).
  destruct (bremove T b1 t) as [[[p2 c2] b2]|] eqn:R2; [|discriminate].
  destruct (bremove_bget T _ _ _ _ _ R2 W1) as [G2 G3].
  rewrite G1, N.eqb_refl in G2. inversion G2. subst p2 c2.
  destruct p; try discriminate.
  pose proof (bremove_WF T _ _ _ _ _ R2 W1) as W2.
  pose proof (put_bget T _ _ _ _ _ H W2 Lt) as G4.
  exists c. split; [exact G0|]. split; [exact Ecap|]. split.
  - intro j. rewrite G4, G3, G1. eqb_cases.
  - split; [|apply (put_WF T _ _ _ _ _ H W2 Lt)].
    apply (pushed_post _ _ _ _ _ P).
    apply (same_state_trans _ _ _ (bremove_same_state _ _ _ _ _ R2) (put_same_state _ _ _ _ _ H)).
Qed.

(* ---- EnPassant ---- *)
Theorem apply_ep_cells b f t b' : WF b -> t < 64 -> apply_ep T b f t = Ok b' ->
  exists c pc2,
    let cs := ep_captured_square c t in
    bget b f = Some (Pawn, c)
    /\ cs <> f /\ cs < 64 /\ bget b cs = Some pc2
    /\ (forall j, bget b' j = if j =? t then Some (Pawn, c)
                              else if j =? cs then None else if j =? f then None else bget b j)
    /\ pushed b b' 0 (top (cr_stack b))
    /\ WF b'.
Proof.
  unfold apply_ep. intros W Lt H.
  destruct (bremove T b f) as [[[p c] b1]|] eqn:R1; [|discriminate].
  destruct (bremove_bget T _ _ _ _ _ R1 W) as [G0 G1].
  pose proof (bremove_WF T _ _ _ _ _ R1 W) as W1.
  pose proof (bremove_same_state _ _ _ _ _ R1) as F1.
  destruct (negb _) eqn:Eq in H; [discriminate|].
  apply negb_false_iff, piece_eqb_eq in Eq. subst p.
  destruct (bremove T b1 (ep_captured_square c t)) as [[[p2 c2] b2]|] eqn:R2; [|discriminate].
  destruct (bremove_bget T _ _ _ _ _ R2 W1) as [G2 G3].
  pose proof (bremove_WF T _ _ _ _ _ R2 W1) as W2.
  pose proof (bremove_same_state _ _ _ _ _ R2) as F2.
  pose proof (bremove_lt64 T _ _ _ _ R2 W1) as Lcs.
  cbv zeta in H.
  bind_step H b4 S4. bind_step H b5 S5. bind_step H b6 S6.
  destruct (tail_preserve _ _ _ _ _ S4 S5 S6) as (Hw & Hb & P).
  pose proof (WF_same_sets _ _ Hw Hb W2) as W6.
  pose proof (put_bget T _ _ _ _ _ H W6 Lt) as G4.
  pose proof (put_same_state _ _ _ _ _ H) as F4.
  exists c, (p2, c2). cbv zeta.
  rewrite G1 in G2.
  destruct (N.eqb_spec (ep_captured_square c t) f) as [Ef|Nf]; [discriminate|].
  split; [exact G0|]. split; [exact Nf|]. split; [exact Lcs|]. split; [exact G2|]. split.
  - intro j. rewrite G4, (bget_same_sets _ _ Hw Hb), G3, G1. eqb_cases.
  - split; [|apply (put_WF T _ _ _ _ _ H W6 Lt)].
    apply (pushed_post _ _ _ _ _ (pushed_pre _ _ _ _ _ (same_state_trans _ _ _ F1 F2) P)) in F4.
    destruct F1 as (_ & _ & F13 & _). destruct F2 as (_ & _ & F23 & _).
    rewrite F23, F13 in F4. exact F4.
Qed.

(* ---- Castle ---- *)
Lemma remove_unwrap_inv b i b' : remove_unwrap T b i = Ok b' ->
  exists p c, bremove T b i = Some ((p, c), b').
Proof.
  unfold remove_unwrap. destruct (bremove T b i) as [[[p c] b1]|]; [|discriminate].
  intro H. inversion H. subst. eauto.
Qed.

Definition castle_lost (c : color) : N := match c with White => N.lor WK WQ | Black => N.lor BK BQ end.

Theorem apply_castle_cells b f t b' : WF b -> t < 64 -> apply_castle T b f t = Ok b' ->
  exists c rf rt,
    castle_shape f t = Ok (c, rf, rt)
    /\ bget b f = Some (King, c) /\ bget b t = None
    /\ bget b rf = Some (Rook, c) /\ bget b rt = None /\ rt <> t
    /\ (forall j, bget b' j = if j =? rt then Some (Rook, c) else if j =? rf then None
                              else if j =? t then Some (King, c) else if j =? f then None else bget b j)
    /\ pushed b b' 0 (new_rights (top (cr_stack b)) (castle_lost c))
    /\ WF b'.
Proof.
  unfold apply_castle. intros W Lt H.
  bind_step H x E0. destruct x as [[c rf] rt].
  destruct (castle_shape_squares _ _ _ _ _ E0) as [Lrf Lrt].
  destruct (negb _) eqn:C1 in H; [discriminate|]. apply negb_false_iff, opt_pc_eqb_eq in C1.
  destruct (negb _) eqn:C2 in H; [discriminate|]. apply negb_false_iff in C2.
  destruct (negb _) eqn:C3 in H; [discriminate|]. apply negb_false_iff, opt_pc_eqb_eq in C3.
  destruct (negb _) eqn:C4 in H; [discriminate|]. apply negb_false_iff in C4.
  assert (C2' : bget b t = None) by (destruct (bget b t); [discriminate|reflexivity]).
  assert (C4' : bget b rt = None) by (destruct (bget b rt); [discriminate|reflexivity]).
  clear C2 C4.
  bind_step H b1 S1. destruct (remove_unwrap_inv _ _ _ S1) as (p1 & c1 & R1).
  destruct (bremove_bget T _ _ _ _ _ R1 W) as [_ G1].
  pose proof (bremove_WF T _ _ _ _ _ R1 W) as W1.
  pose proof (bremove_same_state _ _ _ _ _ R1) as F1.
  bind_step H b2 S2. apply unwrap_ok_inv in S2.
  pose proof (put_bget T _ _ _ _ _ S2 W1 Lt) as G2.
  pose proof (put_WF T _ _ _ _ _ S2 W1 Lt) as W2.
  pose proof (put_same_state _ _ _ _ _ S2) as F2.
  bind_step H b3 S3. destruct (remove_unwrap_inv _ _ _ S3) as (p3 & c3 & R3).
  destruct (bremove_bget T _ _ _ _ _ R3 W2) as [_ G3].
  pose proof (bremove_WF T _ _ _ _ _ R3 W2) as W3.
  pose proof (bremove_same_state _ _ _ _ _ R3) as F3.
  bind_step H b4 S4. apply unwrap_ok_inv in S4.
  pose proof (put_bget T _ _ _ _ _ S4 W3 Lrt) as G4.
  pose proof (put_WF T _ _ _ _ _ S4 W3 Lrt) as W4.
  pose proof (put_same_state _ _ _ _ _ S4) as F4.
  cbv zeta in H.
  bind_step H b5 S5. bind_step H b6 S6. bind_step H b7 S7.
  destruct (tail_lose _ _ _ _ _ _ _ (or_intror S5) S6 S7 H) as (Hw & Hb & P).
  pose proof (WF_same_sets _ _ Hw Hb W4) as W'.
  (* rt <> t: the rook's destination was free after the king had landed on t *)
  assert (Nrt : rt <> t).
  { intro Ert. subst rt.
    assert (X : bget b3 t = None).
    { apply (put_ok_iff T b3 t Rook c W3). eexists. exact S4. }
    rewrite G3, G2, N.eqb_refl in X.
    destruct (N.eqb_spec t rf) as [Etr|Ntr]; [|discriminate].
    subst rf. rewrite C2' in C3. discriminate. }
  exists c, rf, rt.
  split; [reflexivity|]. split; [exact C1|]. split; [exact C2'|]. split; [exact C3|].
  split; [exact C4'|]. split; [exact Nrt|]. split.
  - intro j. rewrite (bget_same_sets _ _ Hw Hb), G4, G3, G2, G1. reflexivity.
  - split; [|exact W'].
    pose proof (same_state_trans _ _ _ (same_state_trans _ _ _ F1 F2) (same_state_trans _ _ _ F3 F4)) as F.
    apply (pushed_pre _ _ _ _ _ F) in P.
    destruct F as (_ & _ & F03 & _). rewrite F03 in P. exact P.
Qed.

End Cells.

Print Assumptions apply_std_cells.
Print Assumptions apply_promo_cells.
Print Assumptions apply_ep_cells.
Print Assumptions apply_castle_cells.
