(* BridgeClosed.v — the conditional "bridge" statements of the earlier files, closed against
   the FIDE-rules spec under the reachable-state invariant [InvProofs2.InvC] / [Inv].

   1. C10 (perft).  Perft.v proved, for an abstract invariant [Good] and under two bridge
      hypotheses ([gen_is_legal]: the generator's list is a permutation of the rules' legal
      list; [apply_is_successor]: making a generated move is the rules' successor), that the
      position counter returns  sum_{k=1..d+1} Rules.perft k.  Here [Good := InvC] and both
      hypotheses are THEOREMS (GenExact.gen_perm, GenExact.gen_move_successor), so:
        count_positions_is_perft   for every fair reduction (thread count, schedule, order and
                                   bracketing of partial sums), whenever the counter returns,
                                   it hands the board back and its figure is
                                   sum_{k=1..d+1} Rules.perft k (abstract b);
        count_inner_total /        it does return when the clocks have room for d more plies
        count_top_total            ([Congr.fine d b]).
      (Perft's [gen_is_legal] also asks for totality in every Good position, which no
      depth-independent predicate can promise because the clocks advance; the proof below
      extracts "the generator returned" for the positions of the tree from the fact that the
      counter returned, so no clock hypothesis is needed for exactness.)

   3. C19 (UCI).  [gen_wf] — the hypothesis of UciGen.gen_moves_fit and of the round-trip /
      injectivity corollaries — follows from [InvC]:  every generated move [fits] the board,
      prints to a UCI string that parses back to it, and distinct moves print differently.

   2. C13 (SAN) is in SanClosed.v.
   Proofs only; no axioms. *)
From Coq Require Import Lia ZArith NArith List Bool Permutation.
From ChessV Require Import Bits Types Board Moves Rays MoveGen Rules Abs.
From ChessV Require Import BitsLemmas BoardLemmas WfReflect PseudoBase PseudoProofs PseudoLink.
From ChessV Require Import InvProofs InvProofs2 GenFrame GenExact Perft PerftSpec.
From ChessV Require UndoProofs EpFrame SuccProofs1 SuccProofs Congr GenTotal San UciProofs UciGen Magic MagicProofs.
Import ListNotations.
Open Scope N_scope.
Open Scope list_scope.

#[local] Arguments N.add : simpl never.
#[local] Arguments N.sub : simpl never.
#[local] Arguments N.mul : simpl never.
#[local] Arguments N.eqb : simpl never.
#[local] Arguments N.ltb : simpl never.
#[local] Arguments N.leb : simpl never.
#[local] Arguments N.shiftl : simpl never.
#[local] Arguments N.shiftr : simpl never.
#[local] Arguments N.land : simpl never.
#[local] Arguments N.lor : simpl never.
#[local] Arguments N.lxor : simpl never.
#[local] Arguments N.ldiff : simpl never.
#[local] Arguments N.testbit : simpl never.

Lemma map_ok_in {A} (f : A -> res N) l ws a :
  map f l = map Ok ws -> In a l -> exists w, f a = Ok w.
Proof.
  revert ws. induction l as [|x l IH]; intros ws E Hin; [destruct Hin|].
  destruct ws as [|w ws]; [discriminate E|]. cbn [map] in E. inversion E as [[Ex El]].
  destruct Hin as [->|Hin]; [exists w; exact Ex | apply (IH ws El Hin)].
Qed.

Section Closed.
Variable T : ztable.
Variables rook_t bishop_t : N -> N -> N.
Hypothesis rook_t_ref : forall x o, x < 64 -> rook_t x o = rook_ref x o.
Hypothesis bishop_t_ref : forall x o, x < 64 -> bishop_t x o = bishop_ref x o.

Notation InvC := (InvC rook_t bishop_t).
Notation Inv := (Inv rook_t bishop_t).
Notation gen_moves := (gen_moves T rook_t bishop_t).
Notation count_inner := (count_inner T rook_t bishop_t).
Notation count_top_gen := (count_top_gen T rook_t bishop_t).
Notation count_top := (count_top T rook_t bishop_t).
Notation nseq := (nseq T rook_t bishop_t).
Notation nsum := (nsum T rook_t bishop_t).

(* ------------------------------------------------------------------ *)
(** * 1. perft: the three structural hypotheses of Perft.v for Good := InvC *)

Lemma Good_WF_InvC b c : InvC b c -> WF b.
Proof. apply InvC_WF. Qed.

Lemma gen_moves_board_InvC b c ms b' : InvC b c -> gen_moves b c = Ok (ms, b') ->
  b' = b /\ Forall UndoProofs.sq_ok ms /\ Forall (fun m => UndoProofs.ep_ok m b = true) ms.
Proof.
  intros I G. destruct (gen_moves_InvC_spec T rook_t bishop_t b c ms b' I G) as [Eb _].
  split; [exact Eb|].
  split; apply Forall_forall; intros m Hm;
    apply (gen_moves_sq_ok_ep_ok T rook_t bishop_t b c ms b' I G m Hm).
Qed.

Lemma Good_step_InvC b c ms b' m b1 : InvC b c -> gen_moves b c = Ok (ms, b') -> In m ms ->
  apply_move T m b = Ok b1 -> InvC b1 (opp_c c).
Proof.
  intros I G Hm A.
  destruct (gen_move_successor T rook_t bishop_t b c ms b' m I G Hm) as (b1' & A' & _ & I1).
  rewrite A in A'. inversion A'. subst b1'. exact I1.
Qed.

(* the sequential routine relative to the model's own generator (Perft.count_inner_exact) *)
Theorem count_inner_exact_InvC d b c n b' :
  InvC b c -> count_inner d b c = Ok (n, b') -> b' = b /\ n = nsum d b c.
Proof.
  apply (count_inner_exact T rook_t bishop_t InvC Good_WF_InvC gen_moves_board_InvC Good_step_InvC).
Qed.

(* the two bridge hypotheses of Perft.v, now theorems *)
Theorem gen_is_legal_InvC b c ms b' : InvC b c -> gen_moves b c = Ok (ms, b') ->
  b' = b /\ Permutation ms (legal_moves_for (abstract b) c).
Proof.
  intros I G. split.
  - apply (gen_exact T rook_t bishop_t rook_t_ref bishop_t_ref b c ms b' I G).
  - apply (gen_perm T rook_t bishop_t rook_t_ref bishop_t_ref b c ms b' I G).
Qed.

Theorem apply_is_successor_InvC b c ms b' m : InvC b c -> gen_moves b c = Ok (ms, b') -> In m ms ->
  exists b1, apply_move T m b = Ok b1 /\ abstract b1 = successor (abstract b) m.
Proof.
  intros I G Hm.
  destruct (gen_move_successor T rook_t bishop_t b c ms b' m I G Hm) as (b1 & A & Es & _).
  exists b1. split; assumption.
Qed.

(* where the counter returned, the model-relative sequence counts of the depths it explored
   are the rules' perft figures *)
Lemma nseq_is_perft_of_ok : forall d b c x,
  InvC b c -> count_inner d b c = Ok x ->
  forall k, (k <= S d)%nat -> nseq k b c = perft_c k (abstract b) c.
Proof.
  induction d as [|d IH]; intros b c [n b'] I H k Hk.
  - destruct k as [|k]; [reflexivity|]. cbn [Perft.nseq perft_c].
    cbn [Perft.count_inner] in H.
    destruct (gen_moves b c) as [[ms b0]| |] eqn:Eg; cbn [bind] in H; try discriminate H.
    destruct (gen_is_legal_InvC b c ms b0 I Eg) as [-> P].
    rewrite fold_left_add_sumN, N.add_0_l.
    rewrite <- (sumN_perm _ _ (Permutation_map (fun m => perft_c k (successor (abstract b) m) (opp_c c)) P)).
    unfold moves_of. rewrite Eg. apply sumN_map_ext_in. intros m Hin.
    assert (k = 0%nat) as -> by lia. reflexivity.
  - destruct k as [|k]; [reflexivity|]. cbn [Perft.nseq perft_c].
    cbn [Perft.count_inner] in H.
    destruct (gen_moves b c) as [[ms b0]| |] eqn:Eg; cbn [bind] in H; try discriminate H.
    destruct (gen_is_legal_InvC b c ms b0 I Eg) as [-> P].
    rewrite fold_left_add_sumN, N.add_0_l.
    rewrite <- (sumN_perm _ _ (Permutation_map (fun m => perft_c k (successor (abstract b) m) (opp_c c)) P)).
    unfold moves_of. rewrite Eg. apply sumN_map_ext_in. intros m Hin.
    destruct (gen_moves_board_InvC b c ms b I Eg) as (_ & Hs & He).
    assert (Hok : Forall (mok b) ms).
    { rewrite Forall_forall in *. intros m0 Hm0. split; [apply Hs|apply He]; exact Hm0. }
    assert (Hrec : forall m0 b1 n1 b2, In m0 ms -> apply_move T m0 b = Ok b1 ->
              count_inner d b1 (opp_c c) = Ok (n1, b2) -> b2 = b1).
    { intros m0 b1 n1 b2 Hm0 A0 Er.
      apply (count_inner_exact_InvC d b1 (opp_c c) n1 b2 (Good_step_InvC b c ms b m0 b1 I Eg Hm0 A0) Er). }
    apply (count_loop_iff T (fun b1 => count_inner d b1 (opp_c c)) b (InvC_WF _ _ b c I) ms Hok Hrec) in H.
    destruct H as (ws & Ews & _ & _).
    destruct (map_ok_in _ ms ws m Ews Hin) as [w Ew].
    assert (Hmok : mok b m) by (rewrite Forall_forall in Hok; apply Hok; exact Hin).
    apply (root_result_ok T (fun b1 => count_inner d b1 (opp_c c)) b m w (InvC_WF _ _ b c I) Hmok) in Ew.
    2:{ intros b1 n1 b2. apply (Hrec m b1 n1 b2 Hin). }
    destruct Ew as (b1 & A & Er).
    destruct (gen_move_successor T rook_t bishop_t b c ms b m I Eg Hin) as (b1' & A' & Es & I1).
    rewrite A in A'. inversion A'. subst b1'.
    unfold after. rewrite A, <- Es.
    apply (IH b1 (opp_c c) (w, b1) I1 Er k). lia.
Qed.

(** C10, sequential routine, against the RULES *)
Theorem count_inner_is_perft_c d b c n b' :
  InvC b c -> count_inner d b c = Ok (n, b') ->
  b' = b /\ n = sumN (map (fun k => perft_c k (abstract b) c) (seq 1 (S d))).
Proof.
  intros I H. destruct (count_inner_exact_InvC d b c n b' I H) as [Eb En].
  split; [exact Eb|]. rewrite En. unfold Perft.nsum. apply sumN_map_ext_in. intros k Hk.
  apply in_seq in Hk. apply (nseq_is_perft_of_ok d b c (n, b') I H k). lia.
Qed.

(** C10, the parallel routine under ANY fair reduction, against the rules, for the side to
    move: count_positions depth = sum_{k=1..depth+1} perft k *)
Theorem count_positions_is_perft reduce d b n b' :
  fair_reduce reduce -> Inv b -> count_top_gen reduce d b (turn b) = Ok (n, b') ->
  b' = b /\ n = sumN (map (fun k => Rules.perft k (abstract b)) (seq 1 (S d))).
Proof.
  intros F I H.
  apply (count_top_eq_inner T rook_t bishop_t InvC Good_WF_InvC gen_moves_board_InvC Good_step_InvC
           reduce d b (turn b) (n, b') F I) in H.
  destruct (count_inner_is_perft_c d b (turn b) n b' I H) as [Eb En].
  split; [exact Eb|]. rewrite En. apply sumN_map_ext_in. intros k _.
  rewrite perft_is_perft_c. reflexivity.
Qed.

Corollary count_top_is_perft_closed d b n b' :
  Inv b -> count_top d b (turn b) = Ok (n, b') ->
  b' = b /\ n = sumN (map (fun k => Rules.perft k (abstract b)) (seq 1 (S d))).
Proof. apply count_positions_is_perft. apply sum_res_fair. Qed.

(* depth 0 and 1 spelled out *)
Corollary count_top_0_is_legal_count b n b' :
  Inv b -> count_top 0 b (turn b) = Ok (n, b') -> n = N.of_nat (length (legal_moves (abstract b))).
Proof.
  intros I H. destruct (count_top_is_perft_closed 0 b n b' I H) as [_ ->].
  cbn [seq map sumN fold_right Rules.perft]. rewrite fold_left_add_sumN, sumN_const. lia.
Qed.

(* ---- totality ---- *)

Lemma count_loop_total rec b : WF b -> forall ms,
  Forall (mok b) ms ->
  (forall m, In m ms -> exists b1 n1, apply_move T m b = Ok b1 /\ rec b1 = Ok (n1, b1)) ->
  forall acc, exists n, count_loop T rec ms b acc = Ok (n, b).
Proof.
  intros W. induction ms as [|m ms IH]; intros Hok Hall acc.
  - exists acc. reflexivity.
  - inversion Hok as [|m' ms' Hm Hms]; subst.
    destruct (Hall m (or_introl eq_refl)) as (b1 & n1 & A & Er).
    cbn [Perft.count_loop]. rewrite A. cbn [unwrap bind]. rewrite Er. cbn [bind].
    rewrite (undo_apply_mok T m b b1 W Hm A). cbn [unwrap bind].
    apply (IH Hms (fun m0 Hm0 => Hall m0 (or_intror Hm0))).
Qed.

Theorem count_inner_total : forall d b c,
  InvC b c -> Congr.fine (N.of_nat d) b -> exists n, count_inner d b c = Ok (n, b).
Proof.
  induction d as [|d IH]; intros b c I F.
  - destruct (GenTotal.gen_moves_total T rook_t bishop_t b c I F) as [ms G].
    cbn [Perft.count_inner]. rewrite G. cbn [bind]. eexists. reflexivity.
  - assert (F0 : Congr.fine 0 b) by (apply (Congr.fine_le (N.of_nat (S d)) 0 b); [lia|exact F]).
    destruct (GenTotal.gen_moves_total T rook_t bishop_t b c I F0) as [ms G].
    cbn [Perft.count_inner]. rewrite G. cbn [bind].
    destruct (gen_moves_board_InvC b c ms b I G) as (_ & Hs & He).
    apply count_loop_total.
    + apply (InvC_WF _ _ b c I).
    + rewrite Forall_forall in *. intros m0 Hm0. split; [apply Hs|apply He]; exact Hm0.
    + intros m Hm.
      destruct (gen_move_successor T rook_t bishop_t b c ms b m I G Hm) as (b1 & A & _ & I1).
      assert (F1 : Congr.fine (N.of_nat d) b1).
      { apply (Congr.apply_move_fine T m b b1 (N.of_nat d) A).
        replace (N.of_nat d + 1) with (N.of_nat (S d)) by lia. exact F. }
      destruct (IH b1 (opp_c c) I1 F1) as [n1 Er]. exists b1, n1. split; assumption.
Qed.

Theorem count_top_total reduce d b :
  fair_reduce reduce -> Inv b -> Congr.fine (N.of_nat d) b ->
  count_top_gen reduce d b (turn b)
  = Ok (sumN (map (fun k => Rules.perft k (abstract b)) (seq 1 (S d))), b).
Proof.
  intros Fr I F. destruct (count_inner_total d b (turn b) I F) as [n H].
  apply (count_top_eq_inner T rook_t bishop_t InvC Good_WF_InvC gen_moves_board_InvC Good_step_InvC
           reduce d b (turn b) (n, b) Fr I) in H.
  destruct (count_positions_is_perft reduce d b n b Fr I H) as [_ En]. rewrite <- En. exact H.
Qed.

(* ------------------------------------------------------------------ *)
(** * 3. UCI: UciGen's hypothesis from the invariant *)

Lemma WFs_pset_ok s : WFs s -> UciGen.pset_ok s.
Proof.
  intro Ws. split; [|split].
  - intros i p M. apply (pget_spec s i p Ws). exact M.
  - intros i p M. apply (WFs_locate_occ s i p Ws M).
  - apply fits64_le. apply (WFs_fits_locate s Pawn Ws).
Qed.

Theorem PInv_gen_wf b c : PInv b c -> UciGen.gen_wf b c.
Proof.
  intros (W & Se & Sc & EI & Rk & Rq & _). pose proof W as (Ww & Wb & D).
  split; [apply WFs_pset_ok; exact Ww|]. split; [apply WFs_pset_ok; exact Wb|].
  split; [|split].
  - intros i M. specialize (D i). rewrite M in D. exact D.
  - intros ept Pk. rewrite (PseudoBase.peek_ep_top b Se) in Pk. inversion Pk as [Et].
    destruct EI as [Z|(e & Le & Ee & Ge & Gv)]; [left; exact Z|right].
    exists e. split; [exact Le|]. split; [exact Ee|]. split.
    + unfold is_occupied. apply (bget_none_iff b e W). exact Ge.
    + apply (bget_own_iff b _ (opp_c c) W). exists Pawn. exact Gv.
  - intros r Pk Hr. rewrite (PseudoBase.peek_rights_top b Sc) in Pk. inversion Pk as [Er]. subst r.
    assert (K : bget b (home_sq c) = Some (King, c)).
    { apply orb_true_iff in Hr. destruct Hr as [Hr|Hr]; apply N.ltb_lt in Hr.
      - destruct Rk as [Z|[K _]]; [|exact K]. exfalso.
        replace (UciGen.ks_mask c) with (ks_bit c) in Hr by (destruct c; reflexivity).
        rewrite N.land_comm in Hr. lia.
      - destruct Rq as [Z|[K _]]; [|exact K]. exfalso.
        replace (UciGen.qs_mask c) with (qs_bit c) in Hr by (destruct c; reflexivity).
        rewrite N.land_comm in Hr. lia. }
    replace (UciGen.home c) with (home_sq c) by (destruct c; reflexivity).
    apply (bget_mem b (home_sq c) King c W). exact K.
Qed.

Corollary InvC_gen_wf b c : InvC b c -> UciGen.gen_wf b c.
Proof. intro I. apply PInv_gen_wf. apply (InvC_PInv _ _ b c I). Qed.

(** C19 closed: every move the generator lists for the side to move fits the board ... *)
Theorem generated_moves_fit b ms b' :
  Inv b -> gen_moves b (turn b) = Ok (ms, b') -> forall m, In m ms -> UciProofs.fits b m.
Proof.
  intros I G. apply (UciGen.gen_moves_fit T rook_t bishop_t b (turn b) ms b' (InvC_gen_wf b (turn b) I) eq_refl G).
Qed.

(** ... prints to a UCI string that parses back to the same move ... *)
Theorem generated_moves_uci_roundtrip b ms b' :
  Inv b -> gen_moves b (turn b) = Ok (ms, b') ->
  forall m, In m ms -> exists s, San.to_uci m = Ok s /\ San.from_uci b s = Ok m.
Proof.
  intros I G.
  apply (UciGen.gen_moves_uci_roundtrip T rook_t bishop_t b (turn b) ms b' (InvC_gen_wf b (turn b) I) eq_refl G).
Qed.

(** ... and two different legal moves never print the same *)
Theorem generated_moves_uci_injective b ms b' :
  Inv b -> gen_moves b (turn b) = Ok (ms, b') ->
  forall m1 m2, In m1 ms -> In m2 ms -> San.to_uci m1 = San.to_uci m2 -> m1 = m2.
Proof.
  intros I G.
  apply (UciGen.gen_moves_uci_injective T rook_t bishop_t b (turn b) ms b' (InvC_gen_wf b (turn b) I) eq_refl G).
Qed.

(* the pseudo-legal candidates too (for a colour that is the side to move) *)
Theorem pseudo_moves_fit_InvC b l :
  Inv b -> pseudo_moves rook_t bishop_t b (turn b) = Ok l -> forall m, In m l -> UciProofs.fits b m.
Proof.
  intros I H. apply (UciGen.pseudo_moves_fit rook_t bishop_t b (turn b) (InvC_gen_wf b (turn b) I) l eq_refl H).
Qed.

End Closed.

(* ------------------------------------------------------------------ *)
(** * instance: the magic tables *)

Theorem count_positions_is_perft_magic T res bes reduce d b n b' :
  Magic.entries_valid rook_deltas res = true -> Magic.entries_valid bishop_deltas bes = true ->
  fair_reduce reduce -> InvProofs2.Inv (Magic.magic_rook res) (Magic.magic_bishop bes) b ->
  Perft.count_top_gen T (Magic.magic_rook res) (Magic.magic_bishop bes) reduce d b (turn b) = Ok (n, b') ->
  b' = b /\ n = sumN (map (fun k => Rules.perft k (abstract b)) (seq 1 (S d))).
Proof.
  intros Vr Vb. apply count_positions_is_perft.
  - intros x o Lx. apply MagicProofs.rook_lookup_exact; assumption.
  - intros x o Lx. apply MagicProofs.bishop_lookup_exact; assumption.
Qed.

(* ------------------------------------------------------------------ *)
(** * non-vacuity *)

(* the initial position and kiwipete satisfy the hypotheses; the counter's figure at depth 1
   from the initial position is perft 1 + perft 2 = 20 + 400, computed by the MODEL's counter,
   and the theorem says this is the rules' figure *)
Example BC_initial_hyps :
  InvProofs2.Inv rook_ref bishop_ref PP_initial /\ Congr.fine 3 PP_initial.
Proof.
  split.
  - apply invb_spec. vm_compute. reflexivity.
  - vm_compute. split; [discriminate|]. split; reflexivity.
Qed.

Example BC_initial_depth1 :
  Perft.count_top example_table rook_ref bishop_ref 1 PP_initial (turn PP_initial) = Ok (420, PP_initial).
Proof. vm_compute. reflexivity. Qed.

Example BC_initial_depth1_rules :
  sumN (map (fun k => Rules.perft k (abstract PP_initial)) (seq 1 2)) = 420.
Proof.
  destruct BC_initial_hyps as [I _].
  destruct (count_top_is_perft_closed example_table rook_ref bishop_ref
              (fun _ _ _ => eq_refl) (fun _ _ _ => eq_refl) 1 PP_initial 420 PP_initial I BC_initial_depth1)
    as [_ E].
  symmetry. exact E.
Qed.

Example BC_kiwipete_depth0 :
  InvProofs2.invb rook_ref bishop_ref PP_kiwipete = true
  /\ Perft.count_top example_table rook_ref bishop_ref 0 PP_kiwipete (turn PP_kiwipete) = Ok (48, PP_kiwipete).
Proof. vm_compute. split; reflexivity. Qed.

Example BC_kiwipete_uci :
  match gen_moves example_table rook_ref bishop_ref PP_kiwipete White with
  | Ok (ms, _) => forallb (UciProofs.fitsb PP_kiwipete) ms = true /\ length ms = 48%nat
  | _ => False
  end.
Proof. vm_compute. split; reflexivity. Qed.

Print Assumptions count_positions_is_perft.
Print Assumptions count_top_total.
Print Assumptions generated_moves_fit.
Print Assumptions generated_moves_uci_injective.
Print Assumptions count_positions_is_perft_magic.
