(* SoundB.v — the executable form of the search invariant Reach.Sound (definitions only, so that
   the extracted runner can evaluate it on every position it searches; Reach.soundb_spec proves
   soundb d b = true <-> Sound d b). *)
From Coq Require Import NArith List Bool.
From ChessV Require Import Bits Types Board Abs InvProofs2 EvalProofs2.
Import ListNotations.
Open Scope N_scope.

Definition farb (d : nat) (b : board) : bool :=
  nonempty (hm_stack b) && (hd 0 (hm_stack b) + N.of_nat d <? 100)
  && nonempty (seen_stack b) && negb (hd 0 (seen_stack b) =? 3)
  && (fullmove b + N.of_nat d <? FULLMOVE_MAX).

Definition soundb (T : ztable) (rook_t bishop_t : N -> N -> N) (d : nat) (b : board) : bool :=
  invb rook_t bishop_t b && legal_materialb (white b) && legal_materialb (black b)
  && farb d b && (hash b =? key_of T (abstract b)).

(* the wide domain of the cache-free search theorems (ReachWide.SoundW): no counter overflows *)
Definition wideb (d : nat) (b : board) : bool :=
  nonempty (hm_stack b) && (hd 0 (hm_stack b) + N.of_nat d <? U8_MAX)
  && nonempty (seen_stack b) && (fullmove b + N.of_nat d <? FULLMOVE_MAX).

Definition soundWb (T : ztable) (rook_t bishop_t : N -> N -> N) (d : nat) (b : board) : bool :=
  invb rook_t bishop_t b && legal_materialb (white b) && legal_materialb (black b)
  && wideb d b && (hash b =? key_of T (abstract b)).

(* the domain of the cache / schedule theorems (ClosedWide.SoundC): the wide domain and no third
   repetition recorded (the repetition count is read by the leaf score and is not part of the key) *)
Definition soundCb (T : ztable) (rook_t bishop_t : N -> N -> N) (d : nat) (b : board) : bool :=
  soundWb T rook_t bishop_t d b && negb (hd 0 (seen_stack b) =? 3).
