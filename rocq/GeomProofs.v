(* GeomProofs.v — finite board geometry: the shift-and-mask target tables of MoveGen.v
   agree with (file, rank) coordinate arithmetic in the vocabulary of Rules.v.
   Part of C11 (knight/king attack squares are exactly the on-board L-shaped / adjacent
   squares, no wrap-around) and the geometric base of C01.
   All sweeps are complete (64 squares, or 64 x 64 pairs) and lifted with forallb_forall,
   so every theorem states its bound.  No axioms. *)
From Coq Require Import Lia ZArith NArith List Bool.
From ChessV Require Import Bits Types Board Moves Rays MoveGen Rules.
Import ListNotations.
Open Scope N_scope.

#[local] Arguments N.add : simpl never.
#[local] Arguments N.sub : simpl never.
#[local] Arguments N.mul : simpl never.
#[local] Arguments N.eqb : simpl never.
#[local] Arguments N.ltb : simpl never.
#[local] Arguments N.leb : simpl never.
#[local] Arguments N.shiftl : simpl never.
#[local] Arguments N.shiftr : simpl never.
#[local] Arguments N.land : simpl never.
#[local] Arguments N.lor : simpl never.
#[local] Arguments N.lxor : simpl never.
#[local] Arguments N.ldiff : simpl never.
#[local] Arguments N.testbit : simpl never.

(* ------------------------------------------------------------------ *)
(* sweeping machinery                                                  *)
(* ------------------------------------------------------------------ *)
Lemma GeomAux_squares_seq : squares = map N.of_nat (seq 0 64).
Proof. reflexivity. Qed.

Lemma in_squares : forall i, i < 64 -> In i squares.
Proof.
  intros i Hi. rewrite GeomAux_squares_seq.
  apply in_map_iff. exists (N.to_nat i). split.
  - apply N2Nat.id.
  - apply in_seq. lia.
Qed.

Lemma in_squares_lt : forall i, In i squares -> i < 64.
Proof.
  intros i Hi. rewrite GeomAux_squares_seq in Hi.
  apply in_map_iff in Hi. destruct Hi as [n [Hn Hin]]. apply in_seq in Hin. lia.
Qed.

Lemma sweep64 (P : N -> bool) :
  forallb P squares = true -> forall i, i < 64 -> P i = true.
Proof.
  intros H i Hi. rewrite forallb_forall in H. apply H. apply in_squares. exact Hi.
Qed.

Lemma sweep64x64 (P : N -> N -> bool) :
  forallb (fun i => forallb (P i) squares) squares = true ->
  forall i j, i < 64 -> j < 64 -> P i j = true.
Proof.
  intros H i j Hi Hj.
  pose proof (sweep64 _ H i Hi) as H1. cbv beta in H1.
  exact (sweep64 _ H1 j Hj).
Qed.

Definition colors : list color := [White; Black].
Lemma sweep_color (P : color -> bool) : forallb P colors = true -> forall c, P c = true.
Proof.
  intros H c. rewrite forallb_forall in H. apply H. destruct c; cbn; auto.
Qed.

(* ------------------------------------------------------------------ *)
(* coordinates                                                         *)
(* ------------------------------------------------------------------ *)
Lemma sq_file_rank : forall i, sq (fileZ i) (rankZ i) = i.
Proof.
  intros i. unfold sq, fileZ, rankZ.
  pose proof (N.div_mod i 8 ltac:(lia)) as H.
  lia.
Qed.

Lemma on_board_bounds : forall f r,
  on_board f r = true <-> (0 <= f < 8 /\ 0 <= r < 8)%Z.
Proof.
  intros f r. unfold on_board.
  rewrite !andb_true_iff, !Z.leb_le, !Z.ltb_lt. lia.
Qed.

Lemma sq_on_board : forall f r, on_board f r = true ->
  sq f r < 64 /\ fileZ (sq f r) = f /\ rankZ (sq f r) = r.
Proof.
  intros f r H. apply on_board_bounds in H. destruct H as [Hf Hr].
  unfold sq, fileZ, rankZ.
  assert (E : Z.to_N (r * 8 + f) = Z.to_N f + 8 * Z.to_N r) by lia.
  rewrite E.
  assert (Hm : (Z.to_N f + 8 * Z.to_N r) mod 8 = Z.to_N f).
  { rewrite N.mul_comm, N.mod_add by lia. apply N.mod_small. lia. }
  assert (Hd : (Z.to_N f + 8 * Z.to_N r) / 8 = Z.to_N r).
  { rewrite N.mul_comm, N.div_add by lia. rewrite N.div_small by lia. lia. }
  rewrite Hm, Hd. repeat split; lia.
Qed.

Lemma file_rank_bounds : forall i, i < 64 -> on_board (fileZ i) (rankZ i) = true.
Proof.
  intros i Hi. apply on_board_bounds. unfold fileZ, rankZ.
  pose proof (N.mod_lt i 8 ltac:(lia)).
  assert (i / 8 < 8) by (apply N.div_lt_upper_bound; lia).
  generalize dependent (i / 8). generalize dependent (i mod 8). intros; lia.
Qed.

Lemma sq_inj : forall f r f' r', on_board f r = true -> on_board f' r' = true ->
  sq f r = sq f' r' -> f = f' /\ r = r'.
Proof.
  intros f r f' r' H H' E.
  apply on_board_bounds in H. apply on_board_bounds in H'. unfold sq in E. lia.
Qed.

(* ------------------------------------------------------------------ *)
(* the coordinate specification of a set of step targets               *)
(* ------------------------------------------------------------------ *)
Definition offsets_bb (offs : list (Z * Z)) (i : N) : N :=
  fold_right (fun o acc =>
                let f := (fileZ i + fst o)%Z in
                let r := (rankZ i + snd o)%Z in
                if on_board f r then N.lor (bit (sq f r)) acc else acc) 0 offs.

Lemma mem_bit : forall i j, mem j (bit i) = (i =? j).
Proof.
  intros i j. unfold mem, bit. rewrite N.shiftl_1_l. apply N.pow2_bits_eqb.
Qed.

(* membership in offsets_bb, for ANY offset list: j is a target iff it is the square of
   an on-board offset *)
Lemma mem_offsets_bb : forall offs i j,
  mem j (offsets_bb offs i) =
  existsb (fun o => on_board (fileZ i + fst o) (rankZ i + snd o)
                    && (sq (fileZ i + fst o) (rankZ i + snd o) =? j)) offs.
Proof.
  induction offs as [|o offs IH]; intros i j.
  - cbn [offsets_bb fold_right existsb]. unfold mem. apply N.bits_0.
  - cbn [offsets_bb fold_right existsb]. fold (offsets_bb offs i).
    destruct (on_board (fileZ i + fst o) (rankZ i + snd o)).
    + unfold mem in *. rewrite N.lor_spec. fold (mem j (bit (sq (fileZ i + fst o) (rankZ i + snd o)))).
      rewrite mem_bit. rewrite IH. reflexivity.
    + rewrite IH. reflexivity.
Qed.

Lemma mem_offsets_bb_iff : forall offs i j,
  mem j (offsets_bb offs i) = true <->
  exists df dr, In (df, dr) offs /\ on_board (fileZ i + df) (rankZ i + dr) = true
                /\ j = sq (fileZ i + df) (rankZ i + dr).
Proof.
  intros offs i j. rewrite mem_offsets_bb, existsb_exists. split.
  - intros [[df dr] [Hin H]]. cbn [fst snd] in H. apply andb_true_iff in H. destruct H as [Hb He].
    apply N.eqb_eq in He. exists df, dr. auto.
  - intros [df [dr [Hin [Hb He]]]]. exists (df, dr). split; [exact Hin|].
    cbn [fst snd]. rewrite Hb, He, N.eqb_refl. reflexivity.
Qed.

(* ------------------------------------------------------------------ *)
(* knight and king tables (C11, first half)                            *)
(* ------------------------------------------------------------------ *)
Theorem knight_targets_exact : forall i, i < 64 ->
  knight_targets i = offsets_bb knight_offsets i.
Proof.
  intros i Hi. apply N.eqb_eq.
  apply (sweep64 (fun i => knight_targets i =? offsets_bb knight_offsets i)); [|exact Hi].
  vm_compute. reflexivity.
Qed.

Theorem king_targets_exact : forall i, i < 64 ->
  king_targets i = offsets_bb king_offsets i.
Proof.
  intros i Hi. apply N.eqb_eq.
  apply (sweep64 (fun i => king_targets i =? offsets_bb king_offsets i)); [|exact Hi].
  vm_compute. reflexivity.
Qed.

(* the membership reading: exactly the on-board L-shaped / adjacent squares, no wrap *)
Corollary knight_targets_mem : forall i j, i < 64 ->
  (mem j (knight_targets i) = true <->
   exists df dr, In (df, dr) knight_offsets /\ on_board (fileZ i + df) (rankZ i + dr) = true
                 /\ j = sq (fileZ i + df) (rankZ i + dr)).
Proof. intros i j Hi. rewrite knight_targets_exact by exact Hi. apply mem_offsets_bb_iff. Qed.

Corollary king_targets_mem : forall i j, i < 64 ->
  (mem j (king_targets i) = true <->
   exists df dr, In (df, dr) king_offsets /\ on_board (fileZ i + df) (rankZ i + dr) = true
                 /\ j = sq (fileZ i + df) (rankZ i + dr)).
Proof. intros i j Hi. rewrite king_targets_exact by exact Hi. apply mem_offsets_bb_iff. Qed.

(* non-vacuity: a corner and a centre square *)
Example knight_targets_a1 : knight_targets 0 = N.lor (bit 17) (bit 10).
Proof. vm_compute. reflexivity. Qed.
Example knight_targets_h1_no_wrap : mem 8 (knight_targets 7) = false /\ mem 9 (knight_targets 7) = false.
Proof. vm_compute. split; reflexivity. Qed.
Example king_targets_e4_count : popcount (king_targets 28) = 8.
Proof. vm_compute. reflexivity. Qed.
Example king_targets_h4_count : popcount (king_targets 31) = 5.
Proof. vm_compute. reflexivity. Qed.

(* ------------------------------------------------------------------ *)
(* pawn shifts                                                         *)
(* ------------------------------------------------------------------ *)
(* NB the Rust names are mirrored: "east" is towards the a-file (file - 1), "west" towards
   the h-file (file + 1).  Only the union is ever used by the generator. *)
Lemma GeomAux_sweep_c64 (P : color -> N -> bool) :
  forallb (fun c => forallb (P c) squares) colors = true ->
  forall c i, i < 64 -> P c i = true.
Proof.
  intros H c i Hi.
  pose proof (sweep_color _ H c) as H1. cbv beta in H1. exact (sweep64 _ H1 i Hi).
Qed.

Lemma GeomAux_sweep_c64x64 (P : color -> N -> N -> bool) :
  forallb (fun c => forallb (fun i => forallb (P c i) squares) squares) colors = true ->
  forall c i j, i < 64 -> j < 64 -> P c i j = true.
Proof.
  intros H c i j Hi Hj.
  pose proof (sweep_color _ H c) as H1. cbv beta in H1. exact (sweep64x64 _ H1 i j Hi Hj).
Qed.

Theorem pawn_attack_east_exact : forall c i, i < 64 ->
  pawn_attack_east c (bit i) = offsets_bb [((-1)%Z, forward c)] i.
Proof.
  intros c i Hi. apply N.eqb_eq.
  apply (GeomAux_sweep_c64 (fun c i => pawn_attack_east c (bit i) =? offsets_bb [((-1)%Z, forward c)] i)); [|exact Hi].
  vm_compute. reflexivity.
Qed.

Theorem pawn_attack_west_exact : forall c i, i < 64 ->
  pawn_attack_west c (bit i) = offsets_bb [(1%Z, forward c)] i.
Proof.
  intros c i Hi. apply N.eqb_eq.
  apply (GeomAux_sweep_c64 (fun c i => pawn_attack_west c (bit i) =? offsets_bb [(1%Z, forward c)] i)); [|exact Hi].
  vm_compute. reflexivity.
Qed.

Theorem pawn_attacks_exact : forall c i, i < 64 ->
  N.lor (pawn_attack_east c (bit i)) (pawn_attack_west c (bit i))
  = offsets_bb [(1%Z, forward c); ((-1)%Z, forward c)] i.
Proof.
  intros c i Hi. apply N.eqb_eq.
  apply (GeomAux_sweep_c64 (fun c i =>
           N.lor (pawn_attack_east c (bit i)) (pawn_attack_west c (bit i))
           =? offsets_bb [(1%Z, forward c); ((-1)%Z, forward c)] i)); [|exact Hi].
  vm_compute. reflexivity.
Qed.

Corollary pawn_attacks_mem : forall c i j, i < 64 ->
  (mem j (N.lor (pawn_attack_east c (bit i)) (pawn_attack_west c (bit i))) = true <->
   exists df, (df = 1 \/ df = -1)%Z /\ on_board (fileZ i + df) (rankZ i + forward c) = true
              /\ j = sq (fileZ i + df) (rankZ i + forward c)).
Proof.
  intros c i j Hi. rewrite pawn_attacks_exact by exact Hi. rewrite mem_offsets_bb_iff. split.
  - intros [df [dr [Hin [Hb He]]]]. cbn [In] in Hin.
    destruct Hin as [E|[E|[]]]; inversion E; subst.
    + exists 1%Z. auto.
    + exists (-1)%Z. auto.
  - intros [df [Hdf [Hb He]]]. exists df, (forward c). cbn [In].
    destruct Hdf; subst; auto.
Qed.

(* one rank forward, or nothing when the pawn is on the last rank *)
Theorem pawn_step_exact : forall c i, i < 64 ->
  pawn_step c (bit i) = offsets_bb [(0%Z, forward c)] i.
Proof.
  intros c i Hi. apply N.eqb_eq.
  apply (GeomAux_sweep_c64 (fun c i => pawn_step c (bit i) =? offsets_bb [(0%Z, forward c)] i)); [|exact Hi].
  vm_compute. reflexivity.
Qed.

Corollary pawn_step_cases : forall c i, i < 64 ->
  pawn_step c (bit i) =
  if on_board (fileZ i) (rankZ i + forward c) then bit (sq (fileZ i) (rankZ i + forward c)) else 0.
Proof.
  intros c i Hi. rewrite pawn_step_exact by exact Hi.
  cbn [offsets_bb fold_right fst snd]. rewrite Z.add_0_r.
  destruct (on_board (fileZ i) (rankZ i + forward c)); [apply N.lor_0_r|reflexivity].
Qed.

Example pawn_attacks_a2_white : N.lor (pawn_attack_east White (bit 8)) (pawn_attack_west White (bit 8)) = bit 17.
Proof. vm_compute. reflexivity. Qed.
Example pawn_step_last_rank : pawn_step White (bit 60) = 0 /\ pawn_step Black (bit 3) = 0.
Proof. vm_compute. split; reflexivity. Qed.

(* ------------------------------------------------------------------ *)
(* en-passant geometry                                                 *)
(* ------------------------------------------------------------------ *)
Theorem tz_bit : forall i, i < 64 -> tz (bit i) = i.
Proof.
  intros i Hi. apply N.eqb_eq.
  apply (sweep64 (fun i => tz (bit i) =? i)); [|exact Hi]. vm_compute. reflexivity.
Qed.

(* the source-square expressions of MoveGen.ep_moves, for a target bitboard t *)
Definition ep_from_w (c : color) (t : N) : N := match c with White => shr t 9 | Black => shl t 7 end.
Definition ep_from_e (c : color) (t : N) : N := match c with White => shr t 7 | Black => shl t 9 end.

Lemma ep_moves_unfold : forall b c, ep_moves b c =
  bind (peek_ep b) (fun t =>
    if is_empty t then Ok []
    else Ok ((if overlaps (pawn_attack_west c (pw (pieces b c))) t then [EnPassant (tz (ep_from_w c t)) (tz t)] else [])
          ++ (if overlaps (pawn_attack_east c (pw (pieces b c))) t then [EnPassant (tz (ep_from_e c t)) (tz t)] else []))).
Proof. intros b c. reflexivity. Qed.

(* whenever a pawn on i attacks the square t through the "west" shift, the expression
   ep_moves uses for the origin square recovers exactly i, and i is the square
   (file t - 1, rank t - forward c): one file towards a, on the capturing pawn's rank.
   Swept over all colour x 64 x 64. *)
Theorem ep_source_west : forall c i t, i < 64 -> t < 64 ->
  mem t (pawn_attack_west c (bit i)) = true ->
  ep_from_w c (bit t) = bit i /\ tz (ep_from_w c (bit t)) = i /\
  fileZ i = (fileZ t - 1)%Z /\ rankZ i = (rankZ t - forward c)%Z.
Proof.
  intros c i t Hi Ht Hm.
  pose proof (GeomAux_sweep_c64x64 (fun c i t =>
     implb (mem t (pawn_attack_west c (bit i)))
           ((ep_from_w c (bit t) =? bit i) && (tz (ep_from_w c (bit t)) =? i)
            && (fileZ i =? fileZ t - 1)%Z && (rankZ i =? rankZ t - forward c)%Z))
     ltac:(vm_compute; reflexivity) c i t Hi Ht) as H.
  cbv beta in H. rewrite Hm in H. cbn [implb] in H.
  rewrite !andb_true_iff in H. destruct H as [[[H1 H2] H3] H4].
  apply N.eqb_eq in H1, H2. apply Z.eqb_eq in H3, H4. auto.
Qed.

Theorem ep_source_east : forall c i t, i < 64 -> t < 64 ->
  mem t (pawn_attack_east c (bit i)) = true ->
  ep_from_e c (bit t) = bit i /\ tz (ep_from_e c (bit t)) = i /\
  fileZ i = (fileZ t + 1)%Z /\ rankZ i = (rankZ t - forward c)%Z.
Proof.
  intros c i t Hi Ht Hm.
  pose proof (GeomAux_sweep_c64x64 (fun c i t =>
     implb (mem t (pawn_attack_east c (bit i)))
           ((ep_from_e c (bit t) =? bit i) && (tz (ep_from_e c (bit t)) =? i)
            && (fileZ i =? fileZ t + 1)%Z && (rankZ i =? rankZ t - forward c)%Z))
     ltac:(vm_compute; reflexivity) c i t Hi Ht) as H.
  cbv beta in H. rewrite Hm in H. cbn [implb] in H.
  rewrite !andb_true_iff in H. destruct H as [[[H1 H2] H3] H4].
  apply N.eqb_eq in H1, H2. apply Z.eqb_eq in H3, H4. auto.
Qed.

(* the coordinate form asked for: for a target t on the third / sixth rank (the rank a
   double step skips, seen from the capturer c) the source expressions are the squares
   (file t -/+ 1, rank t - forward c) whenever those are on the board *)
Theorem ep_sources_coord : forall c t, t < 64 ->
  rankZ t = (match c with White => 5 | Black => 2 end)%Z ->
  (on_board (fileZ t - 1) (rankZ t - forward c) = true ->
     ep_from_w c (bit t) = bit (sq (fileZ t - 1) (rankZ t - forward c))) /\
  (on_board (fileZ t + 1) (rankZ t - forward c) = true ->
     ep_from_e c (bit t) = bit (sq (fileZ t + 1) (rankZ t - forward c))).
Proof.
  intros c t Ht Hr.
  pose proof (GeomAux_sweep_c64 (fun c t =>
     implb (rankZ t =? match c with White => 5 | Black => 2 end)%Z
       (implb (on_board (fileZ t - 1) (rankZ t - forward c))
              (ep_from_w c (bit t) =? bit (sq (fileZ t - 1) (rankZ t - forward c)))
        && implb (on_board (fileZ t + 1) (rankZ t - forward c))
              (ep_from_e c (bit t) =? bit (sq (fileZ t + 1) (rankZ t - forward c)))))
     ltac:(vm_compute; reflexivity) c t Ht) as H.
  cbv beta in H. apply Z.eqb_eq in Hr. rewrite Hr in H. cbn [implb] in H.
  apply andb_true_iff in H. destruct H as [H1 H2]. split; intros Hb.
  - rewrite Hb in H1. cbn [implb] in H1. apply N.eqb_eq. exact H1.
  - rewrite Hb in H2. cbn [implb] in H2. apply N.eqb_eq. exact H2.
Qed.

Example ep_source_west_nonvacuous : mem 44 (pawn_attack_west White (bit 35)) = true.
Proof. vm_compute. reflexivity. Qed.   (* white pawn d5 attacks e6 *)
Example ep_source_east_nonvacuous : mem 19 (pawn_attack_east Black (bit 28)) = true.
Proof. vm_compute. reflexivity. Qed.   (* black pawn e4 attacks d3 *)

(* the captured pawn stands on (file to, rank to - forward c); index 64 (no square) if that
   is off the board *)
Theorem ep_captured_square_coord : forall c to, to < 64 ->
  ep_captured_square c to =
  if on_board (fileZ to) (rankZ to - forward c) then sq (fileZ to) (rankZ to - forward c) else 64.
Proof.
  intros c to Ht. apply N.eqb_eq.
  apply (GeomAux_sweep_c64 (fun c to => ep_captured_square c to =?
     if on_board (fileZ to) (rankZ to - forward c) then sq (fileZ to) (rankZ to - forward c) else 64));
    [|exact Ht].
  vm_compute. reflexivity.
Qed.

(* the successor function of Rules.v removes the pawn on (file to, rank from): same square
   for every en-passant move with from one rank behind to *)
Corollary ep_captured_square_rules : forall c from to, from < 64 -> to < 64 ->
  rankZ to = (rankZ from + forward c)%Z ->
  ep_captured_square c to = sq (fileZ to) (rankZ from).
Proof.
  intros c from to Hf Ht Hr. rewrite ep_captured_square_coord by exact Ht.
  replace (rankZ to - forward c)%Z with (rankZ from) by lia.
  assert (Hb : on_board (fileZ to) (rankZ from) = true).
  { pose proof (file_rank_bounds _ Hf) as H1. pose proof (file_rank_bounds _ Ht) as H2.
    apply on_board_bounds in H1, H2. apply on_board_bounds. lia. }
  rewrite Hb. reflexivity.
Qed.

(* ep_target_of: exactly what the model (and the Rust code) tests — origin on the start
   rank and destination on the double-step rank; NB the FILE of `to` is not examined.
   The result is the skipped square (file from, rank from + forward c). *)
Theorem ep_target_of_coord : forall c from to, from < 64 -> to < 64 ->
  ep_target_of Pawn c from to =
  if ((rankZ from =? start_rank c) && (rankZ to =? rankZ from + 2 * forward c))%Z
  then bit (sq (fileZ from) (rankZ from + forward c)) else 0.
Proof.
  intros c from to Hf Ht. apply N.eqb_eq.
  apply (GeomAux_sweep_c64x64 (fun c from to => ep_target_of Pawn c from to =?
     if ((rankZ from =? start_rank c) && (rankZ to =? rankZ from + 2 * forward c))%Z
     then bit (sq (fileZ from) (rankZ from + forward c)) else 0)); [|exact Hf|exact Ht].
  vm_compute. reflexivity.
Qed.

Lemma ep_target_of_nonpawn : forall p c from to, p <> Pawn -> ep_target_of p c from to = 0.
Proof. intros p c from to Hp. destruct p; try reflexivity. contradiction. Qed.

(* on a same-file double step it is the square Rules.successor records *)
Corollary ep_target_of_rules : forall c from to, from < 64 -> to < 64 ->
  rankZ from = start_rank c -> rankZ to = (rankZ from + 2 * forward c)%Z ->
  ep_target_of Pawn c from to = bit (sq (fileZ from) ((rankZ from + rankZ to) / 2)).
Proof.
  intros c from to Hf Ht H1 H2. rewrite ep_target_of_coord by assumption.
  rewrite H1 at 1. rewrite Z.eqb_refl. rewrite H2 at 1. rewrite Z.eqb_refl. cbn [andb].
  f_equal. f_equal. rewrite H2. destruct c; cbn [forward]; 
  [replace (rankZ from + (rankZ from + 2 * -1))%Z with ((rankZ from + -1) * 2)%Z by lia
  |replace (rankZ from + (rankZ from + 2 * 1))%Z with ((rankZ from + 1) * 2)%Z by lia];
  rewrite Z.div_mul by lia; reflexivity.
Qed.

Example ep_target_e2e4 : ep_target_of Pawn White 12 28 = bit 20.
Proof. vm_compute. reflexivity. Qed.
Example ep_target_file_not_checked : ep_target_of Pawn White 12 31 = bit 20.
Proof. vm_compute. reflexivity. Qed.

(* ------------------------------------------------------------------ *)
(* castle_shape                                                        *)
(* ------------------------------------------------------------------ *)
(* what the shape test really accepts: ANY origin on rank 1 (resp. 8) with a destination
   two bit positions higher (king side) or lower (queen side) — not only e1/e8; for
   origins g1, h1 (a1, b1 on rank 8 going down) the destination is on the neighbouring
   rank.  The rook squares returned are always the corner / f / d squares of the origin's
   rank, so apply_castle's piece checks (king on `from`, rook on the corner) do the rest. *)
Definition castle_shape_spec (from to : N) : res (color * N * N) :=
  if to =? from + 2 then
    (if from <? 8 then Ok (White, 7, 5) else if 56 <=? from then Ok (Black, 63, 61) else Err InvalidCastleMove)
  else if from =? to + 2 then
    (if from <? 8 then Ok (White, 0, 3) else if 56 <=? from then Ok (Black, 56, 59) else Err InvalidCastleMove)
  else Err InvalidCastleMove.

Definition GeomAux_shape_eqb (a b : res (color * N * N)) : bool :=
  match a, b with
  | Ok (c, x, y), Ok (c', x', y') => color_eqb c c' && (x =? x') && (y =? y')
  | Err InvalidCastleMove, Err InvalidCastleMove => true
  | _, _ => false
  end.

Lemma GeomAux_shape_eqb_eq : forall a b, GeomAux_shape_eqb a b = true -> a = b.
Proof.
  intros a b H.
  destruct a as [[[c x] y]|e|], b as [[[c' x'] y']|e'|];
    try destruct e; try destruct e'; cbn in H; try discriminate; try reflexivity.
  rewrite !andb_true_iff in H. destruct H as [[H1 H2] H3].
  apply N.eqb_eq in H2, H3. subst. destruct c, c'; try discriminate; reflexivity.
Qed.

Theorem castle_shape_exact : forall from to, from < 64 -> to < 64 ->
  castle_shape from to = castle_shape_spec from to.
Proof.
  intros from to Hf Ht. apply GeomAux_shape_eqb_eq.
  apply (sweep64x64 (fun from to => GeomAux_shape_eqb (castle_shape from to) (castle_shape_spec from to)));
    [|exact Hf|exact Ht].
  vm_compute. reflexivity.
Qed.

(* the four real castling moves *)
Lemma castle_shape_four :
  castle_shape 4 6 = Ok (White, 7, 5) /\ castle_shape 4 2 = Ok (White, 0, 3) /\
  castle_shape 60 62 = Ok (Black, 63, 61) /\ castle_shape 60 58 = Ok (Black, 56, 59).
Proof. vm_compute. repeat split; reflexivity. Qed.

(* restricted to king origins e1 / e8 only the four real destinations pass *)
Corollary castle_shape_from_home : forall from to, (from = 4 \/ from = 60) -> to < 64 ->
  (exists r, castle_shape from to = Ok r) ->
  (from = 4 /\ (to = 6 \/ to = 2)) \/ (from = 60 /\ (to = 62 \/ to = 58)).
Proof.
  intros from to Hf Ht [r Hr].
  assert (Hf64 : from < 64) by lia.
  rewrite castle_shape_exact in Hr by assumption. unfold castle_shape_spec in Hr.
  destruct (to =? from + 2) eqn:E1.
  - apply N.eqb_eq in E1. lia.
  - destruct (from =? to + 2) eqn:E2; [|discriminate]. apply N.eqb_eq in E2. lia.
Qed.

(* the shape test alone is loose: *)
Example castle_shape_accepts_h1_b2 : castle_shape 7 9 = Ok (White, 7, 5).
Proof. vm_compute. reflexivity. Qed.
Example castle_shape_accepts_a1_c1 : castle_shape 0 2 = Ok (White, 7, 5).
Proof. vm_compute. reflexivity. Qed.

(* ------------------------------------------------------------------ *)
(* rays: try_offset is coordinate stepping, and fuel 8 is never used up *)
(* ------------------------------------------------------------------ *)
Theorem try_offset_coord : forall i dr df,
  try_offset i dr df =
  if on_board (fileZ i + df) (rankZ i + dr) then Some (sq (fileZ i + df) (rankZ i + dr)) else None.
Proof.
  intros i dr df. unfold try_offset, on_board, sq, fileZ, rankZ. cbv zeta.
  destruct (0 <=? Z.of_N (i / 8) + dr)%Z, (Z.of_N (i / 8) + dr <? 8)%Z,
           (0 <=? Z.of_N (i mod 8) + df)%Z, (Z.of_N (i mod 8) + df <? 8)%Z; reflexivity.
Qed.

Lemma try_offset_lt : forall i dr df j, try_offset i dr df = Some j -> j < 64.
Proof.
  intros i dr df j H. rewrite try_offset_coord in H.
  destruct (on_board (fileZ i + df) (rankZ i + dr)) eqn:E; [|discriminate].
  inversion H; subst. apply (sq_on_board _ _ E).
Qed.

(* n steps of try_offset *)
Fixpoint iter_off (n : nat) (i : N) (dr df : Z) : option N :=
  match n with
  | O => Some i
  | S k => match try_offset i dr df with None => None | Some j => iter_off k j dr df end
  end.

Definition dirs8 : list (Z * Z) := rook_deltas ++ bishop_deltas.

(* from every square, in each of the 8 unit directions, the 8th step leaves the board *)
Lemma iter_off_8_none : forall i, i < 64 -> forall d, In d dirs8 ->
  iter_off 8 i (fst d) (snd d) = None.
Proof.
  intros i Hi d Hd.
  pose proof (sweep64 (fun i => forallb (fun d =>
                 match iter_off 8 i (fst d) (snd d) with None => true | Some _ => false end) dirs8)
                ltac:(vm_compute; reflexivity) i Hi) as H.
  cbv beta in H. rewrite forallb_forall in H. specialize (H d Hd).
  destruct (iter_off 8 i (fst d) (snd d)); [discriminate|reflexivity].
Qed.

Lemma iter_off_none_S : forall n i dr df, iter_off n i dr df = None -> iter_off (S n) i dr df = None.
Proof.
  induction n as [|n IH]; intros i dr df H; [discriminate|].
  cbn [iter_off] in H. change (iter_off (S (S n)) i dr df) with
    (match try_offset i dr df with None => None | Some j => iter_off (S n) j dr df end).
  destruct (try_offset i dr df) as [j|]; [apply IH; exact H|reflexivity].
Qed.

Lemma walk_S : forall k i dr df bl acc,
  walk (S k) i dr df bl acc =
  if mem i bl then acc
  else match try_offset i dr df with
       | None => acc
       | Some j => walk k j dr df bl (N.lor acc (bit j))
       end.
Proof. reflexivity. Qed.

Lemma mask_walk_S : forall k i dr df acc,
  mask_walk (S k) i dr df acc =
  match try_offset i dr df with
  | None => acc
  | Some j => mask_walk k j dr df (N.lor acc (bit i))
  end.
Proof. reflexivity. Qed.

(* if the ray leaves the board within n steps, one more unit of fuel changes nothing —
   for ALL blockers and accumulators (induction, not a sweep) *)
Lemma walk_fuel_step : forall n i dr df, iter_off n i dr df = None ->
  forall bl acc, walk n i dr df bl acc = walk (S n) i dr df bl acc.
Proof.
  induction n as [|n IH]; intros i dr df H bl acc; [discriminate|].
  cbn [iter_off] in H.
  rewrite (walk_S (S n)), (walk_S n).
  destruct (mem i bl); [reflexivity|].
  destruct (try_offset i dr df) as [j|]; [|reflexivity].
  apply IH. exact H.
Qed.

Lemma mask_walk_fuel_step : forall n i dr df, iter_off n i dr df = None ->
  forall acc, mask_walk n i dr df acc = mask_walk (S n) i dr df acc.
Proof.
  induction n as [|n IH]; intros i dr df H acc; [discriminate|].
  cbn [iter_off] in H.
  rewrite (mask_walk_S (S n)), (mask_walk_S n).
  destruct (try_offset i dr df) as [j|]; [|reflexivity].
  apply IH. exact H.
Qed.

Lemma walk_fuel_more : forall k n i dr df, iter_off n i dr df = None ->
  forall bl acc, walk (k + n) i dr df bl acc = walk n i dr df bl acc.
Proof.
  induction k as [|k IH]; intros n i dr df H bl acc; [reflexivity|].
  change (S k + n)%nat with (S (k + n)).
  rewrite <- walk_fuel_step.
  - apply IH. exact H.
  - clear IH. induction k as [|k IHk]; [exact H|]. apply iter_off_none_S. exact IHk.
Qed.

Theorem walk_fuel : forall i, i < 64 -> forall dr df, In (dr, df) dirs8 ->
  forall blockers acc, walk 8 i dr df blockers acc = walk 9 i dr df blockers acc.
Proof.
  intros i Hi dr df Hd bl acc. apply walk_fuel_step.
  exact (iter_off_8_none i Hi (dr, df) Hd).
Qed.

(* any larger fuel gives the same ray: `walk 8` IS the unbounded while-loop *)
Theorem walk_fuel_any : forall i, i < 64 -> forall dr df, In (dr, df) dirs8 ->
  forall m, (8 <= m)%nat ->
  forall blockers acc, walk m i dr df blockers acc = walk 8 i dr df blockers acc.
Proof.
  intros i Hi dr df Hd m Hm bl acc.
  replace m with ((m - 8) + 8)%nat by lia.
  apply walk_fuel_more. exact (iter_off_8_none i Hi (dr, df) Hd).
Qed.

Theorem mask_walk_fuel : forall i, i < 64 -> forall dr df, In (dr, df) dirs8 ->
  forall acc, mask_walk 8 i dr df acc = mask_walk 9 i dr df acc.
Proof.
  intros i Hi dr df Hd acc. apply mask_walk_fuel_step.
  exact (iter_off_8_none i Hi (dr, df) Hd).
Qed.

(* the bound is tight enough to matter: 7 steps do succeed along a full file *)
Example iter_off_7_some : iter_off 7 0 1 0 = Some 56.
Proof. vm_compute. reflexivity. Qed.
Example walk_a1_north_empty : walk 8 0 1 0 0 0 = 0x0101010101010100.
Proof. vm_compute. reflexivity. Qed.

(* ------------------------------------------------------------------ *)
(* lifting per-square shifts to sets of squares                        *)
(* ------------------------------------------------------------------ *)
Definition big_or (f : N -> N) (l : list N) : N := fold_right (fun i acc => N.lor (f i) acc) 0 l.

Definition lor_hom (g : N -> N) : Prop :=
  g 0 = 0 /\ forall a b, g (N.lor a b) = N.lor (g a) (g b).

Lemma lor_hom_big_or : forall g f l, lor_hom g -> g (big_or f l) = big_or (fun i => g (f i)) l.
Proof.
  intros g f l [H0 Hor]. induction l as [|i l IH]; cbn [big_or fold_right].
  - exact H0.
  - fold (big_or f l). fold (big_or (fun i => g (f i)) l). rewrite Hor, IH. reflexivity.
Qed.

Lemma lor_hom_compose : forall g h, lor_hom g -> lor_hom h -> lor_hom (fun x => h (g x)).
Proof.
  intros g h [G0 Gor] [H0 Hor]. split.
  - rewrite G0. exact H0.
  - intros a b. rewrite Gor, Hor. reflexivity.
Qed.

Lemma shl_hom : forall k, lor_hom (fun x => shl x k).
Proof.
  intros k. unfold shl. split.
  - rewrite N.shiftl_0_l. apply N.land_0_l.
  - intros a b. rewrite N.shiftl_lor. apply N.land_lor_distr_l.
Qed.

Lemma shr_hom : forall k, lor_hom (fun x => shr x k).
Proof.
  intros k. unfold shr. split.
  - apply N.shiftr_0_l.
  - intros a b. apply N.shiftr_lor.
Qed.

Lemma andn_hom : forall m, lor_hom (fun x => andn x m).
Proof.
  intros m. unfold andn. split.
  - apply N.ldiff_0_l.
  - intros a b. apply N.bits_inj. intro n.
    rewrite N.lor_spec, !N.ldiff_spec, N.lor_spec.
    destruct (N.testbit a n), (N.testbit b n), (N.testbit m n); reflexivity.
Qed.

Lemma pawn_attack_east_hom : forall c, lor_hom (pawn_attack_east c).
Proof.
  intros c. destruct c; unfold pawn_attack_east.
  - exact (lor_hom_compose _ _ (shr_hom 9) (andn_hom H_FILE)).
  - exact (lor_hom_compose _ _ (shl_hom 7) (andn_hom H_FILE)).
Qed.

Lemma pawn_attack_west_hom : forall c, lor_hom (pawn_attack_west c).
Proof.
  intros c. destruct c; unfold pawn_attack_west.
  - exact (lor_hom_compose _ _ (shr_hom 7) (andn_hom A_FILE)).
  - exact (lor_hom_compose _ _ (shl_hom 9) (andn_hom A_FILE)).
Qed.

Lemma pawn_step_hom : forall c, lor_hom (pawn_step c).
Proof.
  intros c. destruct c; unfold pawn_step; [apply shr_hom|apply shl_hom].
Qed.

Lemma testbit_big_or : forall f l n,
  N.testbit (big_or f l) n = existsb (fun i => N.testbit (f i) n) l.
Proof.
  intros f l n. induction l as [|i l IH]; cbn [big_or fold_right existsb].
  - apply N.bits_0.
  - fold (big_or f l). rewrite N.lor_spec, IH. reflexivity.
Qed.

Lemma testbit_high : forall x n, x <= ALL64 -> 64 <= n -> N.testbit x n = false.
Proof.
  intros x n Hx Hn.
  assert (Hlt : x < 2 ^ 64) by (unfold ALL64 in Hx; change (2 ^ 64) with 18446744073709551616; lia).
  rewrite <- (N.mod_small x (2 ^ 64) Hlt). apply N.mod_pow2_bits_high. exact Hn.
Qed.

Lemma in_bits_of : forall x i, In i (bits_of x) <-> i < 64 /\ mem i x = true.
Proof.
  intros x i. unfold bits_of. rewrite filter_In. split.
  - intros [H1 H2]. split; [apply in_squares_lt; exact H1|exact H2].
  - intros [H1 H2]. split; [apply in_squares; exact H1|exact H2].
Qed.

(* a 64-bit board is the union of its member squares *)
Lemma bits_of_decompose : forall x, x <= ALL64 -> x = big_or bit (bits_of x).
Proof.
  intros x Hx. apply N.bits_inj. intro n. rewrite testbit_big_or.
  destruct (N.testbit x n) eqn:E; symmetry.
  - apply existsb_exists. exists n. split.
    + apply in_bits_of. split; [|exact E].
      destruct (N.lt_ge_cases n 64) as [Hlt|Hge]; [exact Hlt|].
      rewrite (testbit_high x n Hx Hge) in E. discriminate.
    + fold (mem n (bit n)). rewrite mem_bit. apply N.eqb_refl.
  - apply not_true_iff_false. intro H. apply existsb_exists in H.
    destruct H as [i [Hin Hb]]. apply in_bits_of in Hin. destruct Hin as [_ Hm].
    fold (mem n (bit i)) in Hb. rewrite mem_bit in Hb. apply N.eqb_eq in Hb. subst i.
    unfold mem in Hm. rewrite Hm in E. discriminate.
Qed.

(* the general lifting lemma: any lor-homomorphism (shift, mask, compositions) applied to
   a 64-bit set is the union of its values on the member squares *)
Theorem lor_hom_lift : forall g x, lor_hom g -> x <= ALL64 ->
  g x = big_or (fun i => g (bit i)) (bits_of x).
Proof.
  intros g x Hg Hx. rewrite (bits_of_decompose x Hx) at 1. apply lor_hom_big_or. exact Hg.
Qed.

Corollary lor_hom_lift_mem : forall g x j, lor_hom g -> x <= ALL64 ->
  (mem j (g x) = true <-> exists i, i < 64 /\ mem i x = true /\ mem j (g (bit i)) = true).
Proof.
  intros g x j Hg Hx. rewrite (lor_hom_lift g x Hg Hx). unfold mem at 1.
  rewrite testbit_big_or, existsb_exists. split.
  - intros [i [Hin Hb]]. apply in_bits_of in Hin. destruct Hin as [H1 H2]. exists i. auto.
  - intros [i [H1 [H2 H3]]]. exists i. split; [apply in_bits_of; auto|exact H3].
Qed.

Theorem pawn_attack_east_lift : forall c x, x <= ALL64 ->
  pawn_attack_east c x = big_or (fun i => pawn_attack_east c (bit i)) (bits_of x).
Proof. intros c x Hx. apply lor_hom_lift; [apply pawn_attack_east_hom|exact Hx]. Qed.

Theorem pawn_attack_west_lift : forall c x, x <= ALL64 ->
  pawn_attack_west c x = big_or (fun i => pawn_attack_west c (bit i)) (bits_of x).
Proof. intros c x Hx. apply lor_hom_lift; [apply pawn_attack_west_hom|exact Hx]. Qed.

Theorem pawn_step_lift : forall c x, x <= ALL64 ->
  pawn_step c x = big_or (fun i => pawn_step c (bit i)) (bits_of x).
Proof. intros c x Hx. apply lor_hom_lift; [apply pawn_step_hom|exact Hx]. Qed.

(* set-level coordinate reading of the pawn attack map: j is attacked by the pawn set x
   iff some member pawn i has j on (file i +/- 1, rank i + forward c) *)
Theorem pawn_attacks_set_mem : forall c x j, x <= ALL64 ->
  (mem j (N.lor (pawn_attack_east c x) (pawn_attack_west c x)) = true <->
   exists i df, i < 64 /\ mem i x = true /\ (df = 1 \/ df = -1)%Z
                /\ on_board (fileZ i + df) (rankZ i + forward c) = true
                /\ j = sq (fileZ i + df) (rankZ i + forward c)).
Proof.
  intros c x j Hx.
  assert (Hhom : lor_hom (fun y => N.lor (pawn_attack_east c y) (pawn_attack_west c y))).
  { destruct (pawn_attack_east_hom c) as [E0 Eor], (pawn_attack_west_hom c) as [W0 Wor]. split.
    - rewrite E0, W0. reflexivity.
    - intros a b. rewrite Eor, Wor. apply N.bits_inj. intro n. rewrite !N.lor_spec.
      destruct (N.testbit (pawn_attack_east c a) n), (N.testbit (pawn_attack_east c b) n),
               (N.testbit (pawn_attack_west c a) n), (N.testbit (pawn_attack_west c b) n); reflexivity. }
  rewrite (lor_hom_lift_mem _ x j Hhom Hx). split.
  - intros [i [Hi [Hm Hj]]]. apply (pawn_attacks_mem c i j Hi) in Hj.
    destruct Hj as [df [Hdf [Hb He]]]. exists i, df. auto.
  - intros [i [df [Hi [Hm [Hdf [Hb He]]]]]]. exists i. split; [exact Hi|]. split; [exact Hm|].
    apply (pawn_attacks_mem c i j Hi). exists df. auto.
Qed.

Example pawn_attacks_set_nonvacuous :
  RANK_2 <= ALL64 /\ N.lor (pawn_attack_east White RANK_2) (pawn_attack_west White RANK_2) = 0xFF0000.
Proof. vm_compute. split; [discriminate|reflexivity]. Qed.

Print Assumptions knight_targets_exact.
Print Assumptions king_targets_exact.
Print Assumptions pawn_attacks_set_mem.
Print Assumptions walk_fuel_any.
Print Assumptions castle_shape_exact.
Print Assumptions ep_source_west.
