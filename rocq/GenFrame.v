(* GenFrame.v — C04 (last clause): legality filtering, check annotation, game-ending detection,
   scoring and move-text enumeration hand the caller's board back exactly as they found it.

   The state-threading functions of MoveGen.v / Eval.v (remove_invalid, gen_moves, effect_of,
   annotate, gen_annotated, game_ending, score) return a board; we prove that this board is
   EQUAL to the one they were given (every field: piece sets, side to move, the three stacks,
   the full-move clock, the repetition table and its stack, the hash).

   Built on UndoProofs.v (apply_move_WF; undo_apply, which carries the en-passant side
   condition ep_ok) and EpFrame.v (every generated candidate satisfies ep_ok when the position
   satisfies ep_wf, and making a candidate re-establishes ep_wf for the opponent).  The
   hypotheses on the caller's board are therefore two properties of the POSITION:
     WF b        the representation invariant (BoardLemmas.v),
     ep_wf b c   the en-passant target, if any, has an enemy pawn right behind it (EpFrame.v).
   Proofs only. *)
From Coq Require Import Lia List.
From ChessV Require Import BoardLemmas Game UndoProofs EpFrame WfReflect.
Import ListNotations.
Open Scope N_scope.
Open Scope list_scope.

#[local] Arguments N.add : simpl never.
#[local] Arguments N.sub : simpl never.
#[local] Arguments N.mul : simpl never.
#[local] Arguments N.eqb : simpl never.
#[local] Arguments N.ltb : simpl never.
#[local] Arguments N.leb : simpl never.
#[local] Arguments N.shiftl : simpl never.
#[local] Arguments N.shiftr : simpl never.
#[local] Arguments N.land : simpl never.
#[local] Arguments N.lor : simpl never.
#[local] Arguments N.lxor : simpl never.
#[local] Arguments N.ldiff : simpl never.
#[local] Arguments N.testbit : simpl never.

(* ------------------------------------------------------------------ *)
(** * the res monad *)

Lemma GF_bind_ok {A B} (r : res A) (k : A -> res B) y :
  bind r k = Ok y -> exists x, r = Ok x /\ k x = Ok y.
Proof. destruct r as [a|e|]; cbn [bind]; intro H; try discriminate. exists a. split; [reflexivity|exact H]. Qed.

Lemma GF_unwrap_ok {A} (r : res A) a : unwrap r = Ok a -> r = Ok a.
Proof. destruct r; cbn [unwrap]; intro H; try discriminate. exact H. Qed.

Lemma GF_unwrap_of_ok {A} (r : res A) a : r = Ok a -> unwrap r = Ok a.
Proof. intros ->. reflexivity. Qed.

Ltac bind_inv H x Hx := apply GF_bind_ok in H; destruct H as [x [Hx H]]; cbv beta iota in H.

(* ------------------------------------------------------------------ *)
(** * every pseudo-legal candidate names two board squares *)

Lemma GF_ordered_lt i : In i ordered_squares -> i < 64.
Proof.
  assert (E : forallb (fun i => i <? 64) ordered_squares = true) by (vm_compute; reflexivity).
  intro H. rewrite forallb_forall in E. apply N.ltb_lt. exact (E i H).
Qed.

Section SqOk.
Variables rook_t bishop_t : N -> N -> N.

Lemma expand_sq_ok b c pts :
  (forall pt, In pt pts -> fst pt < 64) -> Forall sq_ok (expand b c pts).
Proof.
  intro H. apply Forall_forall. intros m Hin. unfold expand in Hin.
  apply in_flat_map in Hin. destruct Hin as [pt [Hpt Hm]].
  apply in_map_iff in Hm. destruct Hm as [t [E Ht]]. subst m.
  split; cbn [mv_from mv_to].
  - exact (H pt Hpt).
  - exact (bits_of_lt64 t _ Ht).
Qed.

Lemma table_targets_from tbl b c p pt : In pt (table_targets tbl b c p) -> fst pt < 64.
Proof.
  unfold table_targets. intro H. apply in_flat_map in H. destruct H as [sq [Hsq H]].
  destruct (mem sq _); [|destruct H].
  destruct (is_empty _); [destruct H|].
  destruct H as [E|[]]. subst pt. cbn [fst]. exact (GF_ordered_lt sq Hsq).
Qed.

Lemma sliding_targets_from b c pt : In pt (sliding_targets rook_t bishop_t b c) -> fst pt < 64.
Proof.
  unfold sliding_targets. intro H. apply in_flat_map in H. destruct H as [sq [Hsq H]].
  apply in_squares in Hsq.
  destruct (pget _ sq) as [[| | | | |]|]; cbn [In] in H; try (destruct H; fail);
    destruct H as [E|[]]; subst pt; exact Hsq.
Qed.

Lemma pawn_attack_targets_from b c pt : In pt (pawn_attack_targets b c) -> fst pt < 64.
Proof.
  unfold pawn_attack_targets. intro H. apply in_flat_map in H. destruct H as [sq [Hsq H]].
  apply in_squares in Hsq. destruct (mem sq _); [|destruct H].
  destruct H as [E|[]]. subst pt. exact Hsq.
Qed.

Lemma pawn_move_targets_from b c pt : In pt (pawn_move_targets b c) -> fst pt < 64.
Proof.
  unfold pawn_move_targets. intro H. apply in_flat_map in H. destruct H as [sq [Hsq H]].
  apply in_squares in Hsq. destruct (mem sq _); [|destruct H].
  destruct (overlaps _ _); [destruct H|].
  destruct (is_empty _); [destruct H|].
  destruct H as [E|[]]. subst pt. exact Hsq.
Qed.

(* trailing_zeros of an en-passant source / target is a square: the overlap test that guards
   the emission of the move exhibits a set bit below 64 *)
Lemma tz_lt_of_mem t i : i < 64 -> mem i t = true -> tz t < 64.
Proof. intros L M. apply (tz_spec t). exists i. split; assumption. Qed.

Lemma ep_squares_shl p t k msk :
  overlaps (andn (shl p k) msk) t = true ->
  tz (shr t k) < 64 /\ tz t < 64.
Proof.
  intro H. apply overlaps_spec in H. destruct H as [i [Hi Ht]].
  rewrite mem_andn in Hi. apply andb_true_iff in Hi. destruct Hi as [Hi _].
  rewrite mem_shl in Hi. apply andb_true_iff in Hi. destruct Hi as [Hi _].
  apply andb_true_iff in Hi. destruct Hi as [Hk Hl].
  apply N.leb_le in Hk. apply N.ltb_lt in Hl.
  split.
  - apply (tz_lt_of_mem _ (i - k)); [lia|]. rewrite mem_shr.
    replace (i - k + k) with i by lia. exact Ht.
  - exact (tz_lt_of_mem t i Hl Ht).
Qed.

Lemma ep_squares_shr p t k msk :
  fits64 p ->
  overlaps (andn (shr p k) msk) t = true ->
  tz (shl t k) < 64 /\ tz t < 64.
Proof.
  intros F H. apply overlaps_spec in H. destruct H as [i [Hi Ht]].
  rewrite mem_andn in Hi. apply andb_true_iff in Hi. destruct Hi as [Hi _].
  rewrite mem_shr in Hi. pose proof (mem_lt64 p (i + k) F Hi) as L.
  split.
  - apply (tz_lt_of_mem _ (i + k) L). rewrite mem_shl.
    replace (i + k - k) with i by lia. rewrite Ht.
    destruct (N.leb_spec k (i + k)); [|lia]. destruct (N.ltb_spec (i + k) 64); [|lia]. reflexivity.
  - apply (tz_lt_of_mem t i); [lia|exact Ht].
Qed.

Lemma ep_moves_sq_ok b c l :
  fits64 (pw (pieces b c)) -> ep_moves b c = Ok l -> Forall sq_ok l.
Proof.
  intros F H. unfold ep_moves in H. bind_inv H t Ht.
  destruct (is_empty t); [inversion H; constructor|]. cbv zeta in H.
  inversion H; subst l; clear H. apply Forall_app. split.
  - destruct (overlaps (pawn_attack_west c _) t) eqn:E; [|constructor].
    constructor; [|constructor]. unfold sq_ok. cbn [mv_from mv_to].
    destruct c; unfold pawn_attack_west in E.
    + exact (ep_squares_shr _ t 7 _ F E).
    + exact (ep_squares_shl _ t 9 _ E).
  - destruct (overlaps (pawn_attack_east c _) t) eqn:E; [|constructor].
    constructor; [|constructor]. unfold sq_ok. cbn [mv_from mv_to].
    destruct c; unfold pawn_attack_east in E.
    + exact (ep_squares_shr _ t 9 _ F E).
    + exact (ep_squares_shl _ t 7 _ E).
Qed.

Lemma pawn_moves_sq_ok b c l :
  fits64 (pw (pieces b c)) -> pawn_moves b c = Ok l -> Forall sq_ok l.
Proof.
  intros F H. unfold pawn_moves in H. cbv zeta in H.
  match type of H with context [partition ?f ?l] =>
    set (all := l) in *; destruct (partition f all) as [std promotable] eqn:Ep end.
  bind_inv H eps Heps. inversion H; subst l; clear H.
  assert (Hall : Forall sq_ok all).
  { subst all. apply expand_sq_ok. intros pt Hpt. apply in_app_or in Hpt. destruct Hpt as [Hpt|Hpt].
    - exact (pawn_move_targets_from b c pt Hpt).
    - apply in_flat_map in Hpt. destruct Hpt as [pt' [Hpt' Hin]].
      destruct (overlaps _ _); [|destruct Hin]. destruct Hin as [E|[]]. subst pt. cbn [fst].
      exact (pawn_attack_targets_from b c pt' Hpt'). }
  rewrite Forall_forall in Hall.
  pose proof (elements_in_partition _ _ Ep) as Hpart.
  apply Forall_app. split; [|apply Forall_app; split].
  - apply Forall_forall. intros m Hm. apply in_flat_map in Hm. destruct Hm as [m0 [Hm0 Hm]].
    assert (S0 : sq_ok m0) by (apply Hall, Hpart; right; exact Hm0).
    cbn [In map PAWN_PROMOTIONS] in Hm.
    destruct Hm as [E|[E|[E|[E|[]]]]]; subst m; exact S0.
  - apply Forall_forall. intros m Hm. apply Hall, Hpart. left. exact Hm.
  - exact (ep_moves_sq_ok b c eps F Heps).
Qed.

Lemma castle_moves_sq_ok b c l :
  castle_moves rook_t bishop_t b c = Ok l -> Forall sq_ok l.
Proof.
  intro H. unfold castle_moves in H. cbv zeta in H.
  destruct (overlaps _ _); [inversion H; constructor|].
  bind_inv H r Hr. inversion H; subst l; clear H.
  apply Forall_app. split.
  - match goal with |- Forall _ (if ?x then _ else _) => destruct x end; [|constructor].
    constructor; [|constructor]. destruct c; split; reflexivity.
  - match goal with |- Forall _ (if ?x then _ else _) => destruct x end; [|constructor].
    constructor; [|constructor]. destruct c; split; reflexivity.
Qed.

(* the whole pseudo-legal list; the only fact about the board that is used is that the
   mover's pawn bitboard has no bit above 63 (part of WF) *)
Theorem pseudo_moves_sq_ok b c l :
  fits64 (pw (pieces b c)) -> pseudo_moves rook_t bishop_t b c = Ok l -> Forall sq_ok l.
Proof.
  intros F H. unfold pseudo_moves in H. cbv zeta in H.
  bind_inv H pawns Hp. bind_inv H castles Hc. inversion H; subst l; clear H.
  repeat (apply Forall_app; split).
  - apply expand_sq_ok. intros pt. apply table_targets_from.
  - apply expand_sq_ok. intros pt. apply sliding_targets_from.
  - apply expand_sq_ok. intros pt. apply table_targets_from.
  - exact (pawn_moves_sq_ok b c pawns F Hp).
  - exact (castle_moves_sq_ok b c castles Hc).
Qed.

Corollary pseudo_moves_sq_ok_WF b c l :
  WF b -> pseudo_moves rook_t bishop_t b c = Ok l -> Forall sq_ok l.
Proof.
  intros W. apply pseudo_moves_sq_ok.
  exact (WFs_fits_locate (pieces b c) Pawn (WF_pieces b c W)).
Qed.

End SqOk.

(* ------------------------------------------------------------------ *)
(** * the frame theorems *)

Section Frame.
Variable T : ztable.
Variables rook_t bishop_t : N -> N -> N.

Notation remove_invalid := (remove_invalid T rook_t bishop_t).
Notation gen_moves := (gen_moves T rook_t bishop_t).
Notation effect_of := (effect_of T rook_t bishop_t).
Notation annotate := (annotate T rook_t bishop_t).
Notation gen_annotated := (gen_annotated T rook_t bishop_t).
Notation game_ending := (game_ending T rook_t bishop_t).
Notation score := (score T rook_t bishop_t).
Notation attack_targets := (attack_targets rook_t bishop_t).
Notation pseudo_moves := (pseudo_moves rook_t bishop_t).

(* "after m, c's king is not attacked": a function of the position and the move only *)
Definition leaves_king_safe (b : board) (c : color) (m : cmove) : bool :=
  match apply_move T m b with
  | Ok b1 => negb (overlaps (kg (pieces b1 c)) (attack_targets b1 (opp_c c)))
  | _ => false
  end.

Definition applicable (b : board) (m : cmove) : Prop := exists b1, apply_move T m b = Ok b1.

(* what the frame proofs need to know about a candidate m of side c in position b:
   real squares, the en-passant side condition of undo_apply, and that the position after m
   again satisfies the en-passant invariant, for the opponent *)
Definition cand_ok (b : board) (c : color) (m : cmove) : Prop :=
  sq_ok m /\ ep_ok m b = true /\
  forall b1, apply_move T m b = Ok b1 -> ep_wf b1 (opp_c c).

(* every generated candidate qualifies *)
Theorem pseudo_cand_ok b c cands :
  WF b -> ep_wf b c -> pseudo_moves b c = Ok cands -> Forall (cand_ok b c) cands.
Proof.
  intros W E H.
  pose proof (pseudo_moves_sq_ok_WF rook_t bishop_t b c cands W H) as S.
  pose proof (pseudo_moves_ep_ok rook_t bishop_t b c cands W E H) as P.
  rewrite Forall_forall in S, P. apply Forall_forall. intros m Hm.
  split; [exact (S m Hm)|]. split; [exact (P m Hm)|].
  intros b1 Ha. exact (apply_pseudo_ep_wf T rook_t bishop_t b c cands m b1 W H Hm Ha).
Qed.

Lemma undo_of_cand b c m b1 :
  WF b -> cand_ok b c m -> apply_move T m b = Ok b1 -> undo_move T m b1 = Ok b.
Proof. intros W (S & P & _) Ha. exact (undo_apply T m b b1 W S P Ha). Qed.

(* remove_invalid_moves: the board handed back is the board received; the list is the
   sub-list of candidates that leave the king safe, in the same order; it returned Ok only
   because every candidate could be made (and, by undo_apply, unmade) *)
Theorem remove_invalid_filter : forall c cands b ms b',
  WF b -> Forall sq_ok cands -> Forall (fun m => ep_ok m b = true) cands ->
  remove_invalid b c cands = Ok (ms, b') ->
  b' = b /\ ms = filter (leaves_king_safe b c) cands /\ Forall (applicable b) cands.
Proof.
  intros c. induction cands as [|m rest IH]; intros b ms b' W S P H.
  - cbn [MoveGen.remove_invalid] in H. inversion H. repeat split. constructor.
  - cbn [MoveGen.remove_invalid] in H.
    bind_inv H b1 Hy1. apply GF_unwrap_ok in Hy1. cbv zeta in H.
    bind_inv H b2 H2. apply GF_unwrap_ok in H2.
    bind_inv H rb H3. destruct rb as [rest' b3]. cbv beta iota in H.
    inversion S as [|? ? Sm Srest]; subst. inversion P as [|? ? Pm Prest]; subst.
    rewrite (undo_apply T m b b1 W Sm Pm Hy1) in H2. inversion H2; subst b2; clear H2.
    destruct (IH b rest' b3 W Srest Prest H3) as [Eb [Er Ha]]. subst b3.
    cbn [filter]. unfold leaves_king_safe at 1. rewrite Hy1.
    split; [|split].
    + destruct (overlaps _ _); inversion H; reflexivity.
    + destruct (overlaps _ _); cbn [negb]; inversion H; subst; reflexivity.
    + constructor; [exists b1; exact Hy1|exact Ha].
Qed.

Theorem remove_invalid_board : forall c cands b ms b',
  WF b -> Forall sq_ok cands -> Forall (fun m => ep_ok m b = true) cands ->
  remove_invalid b c cands = Ok (ms, b') -> b' = b /\ incl ms cands.
Proof.
  intros c cands b ms b' W S P H.
  destruct (remove_invalid_filter c cands b ms b' W S P H) as [Eb [Er _]].
  split; [exact Eb|]. subst ms. intros x Hx. apply filter_In in Hx. tauto.
Qed.

(* converse: when every candidate can be made, the filter does not fail *)
Theorem remove_invalid_total : forall c cands b,
  WF b -> Forall sq_ok cands -> Forall (fun m => ep_ok m b = true) cands ->
  Forall (applicable b) cands ->
  remove_invalid b c cands = Ok (filter (leaves_king_safe b c) cands, b).
Proof.
  intros c. induction cands as [|m rest IH]; intros b W S P A.
  - reflexivity.
  - inversion S as [|? ? Sm Srest]; subst. inversion P as [|? ? Pm Prest]; subst.
    inversion A as [|? ? Am Arest]; subst.
    destruct Am as [b1 Hy1].
    cbn [MoveGen.remove_invalid filter]. unfold leaves_king_safe at 1.
    rewrite Hy1. cbn [unwrap bind]. rewrite (undo_apply T m b b1 W Sm Pm Hy1). cbn [unwrap bind].
    rewrite (IH b W Srest Prest Arest). cbn [bind].
    destruct (overlaps _ _); reflexivity.
Qed.

Lemma Forall_filter {A} (P : A -> Prop) f (l : list A) : Forall P l -> Forall P (filter f l).
Proof.
  intro H. apply Forall_forall. intros x Hx. apply filter_In in Hx.
  rewrite Forall_forall in H. apply H. tauto.
Qed.

(* generate_valid_moves *)
Theorem gen_moves_spec : forall b c ms b',
  WF b -> ep_wf b c -> gen_moves b c = Ok (ms, b') ->
  b' = b /\
  exists cands, pseudo_moves b c = Ok cands /\ Forall (cand_ok b c) cands
                /\ Forall (applicable b) cands
                /\ ms = filter (leaves_king_safe b c) cands.
Proof.
  intros b c ms b' W E H. unfold MoveGen.gen_moves in H. bind_inv H cands Hc.
  pose proof (pseudo_cand_ok b c cands W E Hc) as C.
  assert (S : Forall sq_ok cands) by (eapply Forall_impl; [|exact C]; intros m (X & _); exact X).
  assert (P : Forall (fun m => ep_ok m b = true) cands)
    by (eapply Forall_impl; [|exact C]; intros m (_ & X & _); exact X).
  destruct (remove_invalid_filter c cands b ms b' W S P H) as [Eb [Er Ha]].
  split; [exact Eb|]. exists cands. repeat split; assumption.
Qed.

Theorem gen_moves_board : forall b c ms b',
  WF b -> ep_wf b c -> gen_moves b c = Ok (ms, b') -> b' = b.
Proof. intros b c ms b' W E H. exact (proj1 (gen_moves_spec b c ms b' W E H)). Qed.

Corollary gen_moves_cand_ok : forall b c ms b',
  WF b -> ep_wf b c -> gen_moves b c = Ok (ms, b') ->
  Forall (cand_ok b c) ms /\ Forall (applicable b) ms.
Proof.
  intros b c ms b' W E H. destruct (gen_moves_spec b c ms b' W E H) as [_ [cands [_ [S [A Eq]]]]].
  subst ms. split; apply Forall_filter; assumption.
Qed.

(* lazily_calculate_chess_move_effect: make, generate the replies, unmake *)
Theorem effect_of_board : forall b c m e b',
  WF b -> cand_ok b c m -> effect_of b c m = Ok (e, b') -> b' = b.
Proof.
  intros b c m e b' W C H. unfold MoveGen.effect_of in H.
  bind_inv H b1 Hy1. apply GF_unwrap_ok in Hy1.
  bind_inv H rb H2. destruct rb as [replies b1']. cbv beta iota zeta in H.
  bind_inv H b2 H3. apply GF_unwrap_ok in H3. inversion H; subst; clear H.
  pose proof C as (S & P & Hafter).
  pose proof (apply_move_WF T m b b1 W S Hy1) as Wq1.
  rewrite (gen_moves_board b1 (opp_c c) replies b1' Wq1 (Hafter b1 Hy1) H2) in H3.
  rewrite (undo_apply T m b b1 W S P Hy1) in H3. inversion H3. reflexivity.
Qed.

Theorem annotate_board : forall c ms b l b',
  WF b -> Forall (cand_ok b c) ms -> annotate b c ms = Ok (l, b') -> b' = b /\ map fst l = ms.
Proof.
  intros c. induction ms as [|m rest IH]; intros b l b' W S H.
  - cbn [MoveGen.annotate] in H. inversion H. split; reflexivity.
  - cbn [MoveGen.annotate] in H. inversion S as [|? ? Sm Srest]; subst.
    bind_inv H eb Hy1. destruct eb as [e b1]. cbv beta iota in H.
    bind_inv H rb H2. destruct rb as [rest' b2]. cbv beta iota in H.
    inversion H; subst; clear H.
    pose proof (effect_of_board b c m e b1 W Sm Hy1). subst b1.
    destruct (IH b rest' b' W Srest H2) as [Eb Er]. subst b'.
    split; [reflexivity|]. cbn [map fst]. rewrite Er. reflexivity.
Qed.

(* generate_moves_and_lazily_update_chess_move_effects: the annotated list is the legal
   list, same moves, same order, each with an effect attached *)
Theorem gen_annotated_board : forall b c l b',
  WF b -> ep_wf b c -> gen_annotated b c = Ok (l, b') ->
  b' = b /\ gen_moves b c = Ok (map fst l, b).
Proof.
  intros b c l b' W E H. unfold MoveGen.gen_annotated in H.
  bind_inv H mb Hy1. destruct mb as [ms b1]. cbv beta iota in H.
  pose proof (gen_moves_board b c ms b1 W E Hy1). subst b1.
  destruct (gen_moves_cand_ok b c ms b W E Hy1) as [S _].
  destruct (annotate_board c ms b l b' W S H) as [Eb El].
  split; [exact Eb|]. rewrite El. exact Hy1.
Qed.

Corollary gen_annotated_cand_ok : forall b c l b',
  WF b -> ep_wf b c -> gen_annotated b c = Ok (l, b') ->
  Forall (cand_ok b c) (map fst l) /\ Forall (applicable b) (map fst l).
Proof.
  intros b c l b' W E H. destruct (gen_annotated_board b c l b' W E H) as [_ G].
  exact (gen_moves_cand_ok b c _ b W E G).
Qed.

(* game_ending / score (Eval.v) *)
Theorem game_ending_board : forall b c r b',
  WF b -> ep_wf b c -> game_ending b c = Ok (r, b') -> b' = b.
Proof.
  intros b c r b' W E H. unfold Eval.game_ending in H.
  bind_inv H seen Hs. destruct (seen =? _); [inversion H; reflexivity|].
  bind_inv H hm Hh. destruct (_ <=? hm); [inversion H; reflexivity|].
  bind_inv H cb Hg. destruct cb as [cands b1]. cbv beta iota zeta in H.
  pose proof (gen_moves_board b c cands b1 W E Hg). subst b1.
  destruct (is_nil cands); inversion H; reflexivity.
Qed.

Theorem score_board : forall b c d v b',
  WF b -> ep_wf b c -> score b c d = Ok (v, b') -> b' = b.
Proof.
  intros b c d v b' W E H. unfold Eval.score in H.
  bind_inv H seen Hs. destruct (seen =? _); [inversion H; reflexivity|].
  bind_inv H eb He. destruct eb as [e b1]. cbv beta iota in H.
  pose proof (game_ending_board b c e b1 W E He). subst b1.
  destruct e as [[| |]|].
  - bind_inv H s Hs'. inversion H; reflexivity.
  - inversion H; reflexivity.
  - inversion H; reflexivity.
  - bind_inv H s Hs'. inversion H; reflexivity.
Qed.

(* san_all has no board output at all; it labels the moves it is given, in order *)
Lemma san_all_moves : forall b all l labelled,
  san_all b all l = Ok labelled -> map fst labelled = map fst l.
Proof.
  intros b all. induction l as [|[m e] rest IH]; intros labelled H.
  - cbn [san_all] in H. inversion H. reflexivity.
  - cbn [san_all] in H. bind_inv H s Hs. bind_inv H r Hr. inversion H; subst; clear H.
    cbn [map fst]. rewrite (IH r Hr). reflexivity.
Qed.

(* the enumeration used by Game.apply_by_notation (legal moves, effects, move text):
   the board that `game_apply` then moves on is the caller's board, and the labelled list is
   the legal list *)
Theorem enumerate_board : forall b cands b1,
  WF b -> ep_wf b (turn b) -> gen_annotated b (turn b) = Ok (cands, b1) ->
  b1 = b /\ gen_moves b (turn b) = Ok (map fst cands, b) /\
  forall labelled, san_all b1 (map fst cands) cands = Ok labelled ->
                   map fst labelled = map fst cands.
Proof.
  intros b cands b1 W E H. destruct (gen_annotated_board b (turn b) cands b1 W E H) as [Eb G].
  split; [exact Eb|]. split; [exact G|]. intros labelled Hl. exact (san_all_moves _ _ _ _ Hl).
Qed.

(* apply_by_coords moves on the caller's board: what it returns is
   `game_apply g (gboard g) m` for a legal m *)
Theorem apply_by_coords_board : forall g from to r,
  WF (gboard g) -> ep_wf (gboard g) (turn (gboard g)) ->
  apply_by_coords T rook_t bishop_t g from to = GOk r ->
  exists ms, gen_moves (gboard g) (turn (gboard g)) = Ok (ms, gboard g) /\
             In (fst r) ms /\ game_apply T g (gboard g) (fst r) = GOk r.
Proof.
  intros g from to r W E H. unfold apply_by_coords in H.
  destruct (MoveGen.gen_moves T rook_t bishop_t (gboard g) (turn (gboard g))) as [[cands b1]| |] eqn:G;
    try discriminate.
  pose proof (gen_moves_board _ _ _ _ W E G). subst b1.
  destruct (find _ cands) as [m|] eqn:F; try discriminate.
  exists cands. split; [reflexivity|].
  assert (Em : fst r = m).
  { unfold game_apply in H. destruct (apply_move T m (gboard g)); try discriminate.
    inversion H. reflexivity. }
  rewrite Em. split; [exact (proj1 (find_some _ _ F))|exact H].
Qed.

(* apply_by_notation likewise *)
Theorem apply_by_notation_board : forall g s r,
  WF (gboard g) -> ep_wf (gboard g) (turn (gboard g)) ->
  apply_by_notation T rook_t bishop_t g s = GOk r ->
  exists ms, gen_moves (gboard g) (turn (gboard g)) = Ok (ms, gboard g) /\
             In (fst r) ms /\ game_apply T g (gboard g) (fst r) = GOk r.
Proof.
  intros g s r W E H. unfold apply_by_notation in H.
  destruct (MoveGen.gen_annotated T rook_t bishop_t (gboard g) (turn (gboard g))) as [[cands b1]| |] eqn:G;
    try discriminate.
  destruct (enumerate_board _ _ _ W E G) as [Eb [Gm Hlab]]. subst b1.
  destruct (san_all (gboard g) (map fst cands) cands) as [labelled| |] eqn:L; try discriminate.
  destruct (find _ labelled) as [[m lbl]|] eqn:F; try discriminate.
  exists (map fst cands). split; [exact Gm|].
  assert (Em : fst r = m).
  { unfold game_apply in H. destruct (apply_move T m (gboard g)); try discriminate.
    inversion H. reflexivity. }
  rewrite Em. split; [|exact H].
  rewrite <- (Hlab labelled eq_refl). apply find_some in F. destruct F as [Hin _].
  apply in_map_iff. exists (m, lbl). split; [reflexivity|exact Hin].
Qed.

End Frame.

(* ------------------------------------------------------------------ *)
(** * non-vacuity *)

(* a position with a pinned piece: white Ke1, Re2; black Re8, Ke... ; the filter drops the
   rook's sideways moves, and the board comes back *)
Definition GF_demo : board :=
  match put example_table board_new 4 King White with
  | Ok b1 => match put example_table b1 12 Rook White with
             | Ok b2 => match put example_table b2 60 Rook Black with
                        | Ok b3 => match put example_table b3 63 King Black with
                                   | Ok b4 => set_cr b4 [0]
                                   | _ => board_new end
                        | _ => board_new end
             | _ => board_new end
  | _ => board_new end.

Example GF_demo_WF : WF GF_demo /\ ep_wf GF_demo White.
Proof.
  split.
  - apply (wf_b_WF GF_demo). vm_compute. reflexivity.
  - intros t H. vm_compute in H. inversion H. left. reflexivity.
Qed.

Example GF_demo_gen :
  match gen_annotated example_table rook_ref bishop_ref GF_demo White with
  | Ok (l, b') => b' = GF_demo /\ length l = 10%nat /\ In (Std 12 60 (Some Rook), ECheck) l
                  /\ ~ In (Std 12 13 None) (map fst l)
  | _ => False
  end.
Proof.
  vm_compute. repeat split; [tauto|].
  intro H. repeat (destruct H as [H|H]; [discriminate H|]). exact H.
Qed.

Example GF_demo_score :
  match score example_table rook_ref bishop_ref GF_demo White 0 with
  | Ok (v, b') => b' = GF_demo
  | _ => False
  end.
Proof. vm_compute. reflexivity. Qed.

Print Assumptions pseudo_moves_sq_ok.
Print Assumptions gen_annotated_board.
Print Assumptions score_board.
Print Assumptions enumerate_board.
