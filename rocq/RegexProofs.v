(* RegexProofs.v — C14 at the command-line level: every label the engine's own SAN writer
   (San.san_label, model of chess_move_to_algebraic_notation) can print for a move —
   including castling that gives check or mate — is classified by the input handler
   (src/input_handler/mod.rs; regexes in gen/InputRegex.v, regenerated from the repo on every
   run) as algebraic notation: ALGEBRAIC_RE accepts it and COORDINATE_RE (which is tried
   first) does not.

   The space of well-formed labels is finite (164 166 strings); the regex facts are complete
   sweeps of that space by vm_compute, lifted with forallb_forall.  That the writer's output
   always lies in that space (san_label_shape) is proved by case analysis for ALL boards,
   candidate lists, moves and effects, with membership established through product
   decomposition lemmas (never by computing over the 10^5-element list). *)
From Coq Require Import Lia NArith List Bool String Ascii.
From ChessV Require Import Regex San.
From ChessV.gen Require Import InputRegex.
Import ListNotations.
Open Scope list_scope.
Open Scope string_scope.
Open Scope N_scope.

(* ================================================================================== *)
(** * 1. The finite space of labels                                                    *)
(* ================================================================================== *)

(* all concatenations a ++ b, a from A, b from B *)
Definition prod_app (A B : list string) : list string :=
  flat_map (fun a => map (fun b => a ++ b) B) A.

Lemma in_prod_app : forall A B a b, In a A -> In b B -> In (a ++ b) (prod_app A B).
Proof.
  intros A B a b Ha Hb. unfold prod_app. apply in_flat_map. exists a. split; [exact Ha|].
  apply (in_map (fun b0 => a ++ b0)). exact Hb.
Qed.

Definition file_strs : list string := ["a"; "b"; "c"; "d"; "e"; "f"; "g"; "h"].
Definition rank_strs : list string := ["1"; "2"; "3"; "4"; "5"; "6"; "7"; "8"].
Definition sq_strs : list string := prod_app file_strs rank_strs.                       (* 64 *)
Definition piece_letters : list string := ["N"; "B"; "R"; "Q"; "K"].
Definition dis_opts : list string := ([""] ++ file_strs ++ rank_strs ++ sq_strs)%list.    (* 81 *)
Definition cap_opts : list string := [""; "x"].
Definition suffixes : list string := [""; "+"; "#"].
Definition promo_opts : list string := [""; "=Q"; "=R"; "=B"; "=N"].

(* [NBRQK] (e | file | rank | file rank) x? file rank (+|#)?            : 155 520 strings *)
Definition piece_labels : list string :=
  prod_app piece_letters (prod_app dis_opts (prod_app cap_opts (prod_app sq_strs suffixes))).
(* (file x)? file rank (= [QRBN])? (+|#)?                                :   8 640 strings *)
Definition pawn_labels : list string :=
  prod_app ([""] ++ prod_app file_strs ["x"])%list (prod_app sq_strs (prod_app promo_opts suffixes)).
(* O-O, O-O-O, each with (+|#)?                                          :       6 strings *)
Definition castle_labels : list string := prod_app ["O-O"; "O-O-O"] suffixes.

Definition all_labels : list string := (piece_labels ++ pawn_labels ++ castle_labels)%list.

Example all_labels_size : N.of_nat (length all_labels) = 164166.
Proof. vm_compute. reflexivity. Qed.

(* ================================================================================== *)
(** * 2. The regex sweeps                                                              *)
(* ================================================================================== *)

(* measured: about 4 s *)
Lemma input_regex_complete :
  forallb (fun s => full_match ALGEBRAIC_RE s && negb (full_match COORDINATE_RE s)) all_labels = true.
Proof. vm_compute. reflexivity. Qed.

Theorem labels_accepted : forall s,
  In s all_labels -> full_match ALGEBRAIC_RE s = true /\ full_match COORDINATE_RE s = false.
Proof.
  intros s Hin. pose proof input_regex_complete as H. rewrite forallb_forall in H.
  specialize (H s Hin). apply andb_true_iff in H. destruct H as [H1 H2].
  apply negb_true_iff in H2. auto.
Qed.

(* castling with check or mate, explicitly *)
Corollary castle_labels_accepted :
  Forall (fun s => full_match ALGEBRAIC_RE s = true /\ full_match COORDINATE_RE s = false)
         ["O-O"; "O-O+"; "O-O#"; "O-O-O"; "O-O-O+"; "O-O-O#"].
Proof.
  repeat constructor; apply labels_accepted; unfold all_labels;
    apply in_or_app; right; apply in_or_app; right; vm_compute; auto 10.
Qed.

(* all 64 x 64 coordinate pairs are accepted by COORDINATE_RE *)
Lemma coordinate_complete :
  forallb (fun f => forallb (fun t => full_match COORDINATE_RE (sq_str f ++ sq_str t)) squares) squares = true.
Proof. vm_compute. reflexivity. Qed.

Lemma in_squares : forall i, i < 64 -> In i squares.
Proof.
  intros i H.
  replace squares with (map N.of_nat (seq 0 64)) by (vm_compute; reflexivity).
  apply in_map_iff. exists (N.to_nat i). split; [apply N2Nat.id|].
  apply in_seq. lia.
Qed.

Theorem coordinates_accepted : forall f t,
  f < 64 -> t < 64 -> full_match COORDINATE_RE (sq_str f ++ sq_str t) = true.
Proof.
  intros f t Hf Ht. pose proof coordinate_complete as H. rewrite forallb_forall in H.
  specialize (H f (in_squares f Hf)). rewrite forallb_forall in H.
  exact (H t (in_squares t Ht)).
Qed.

(* hence the UCI string of every non-promotion move on the board is a coordinate command *)
Corollary uci_is_coordinate : forall m s,
  mv_from m < 64 -> mv_to m < 64 -> (forall f t c pp, m <> Promo f t c pp) ->
  to_uci m = Ok s -> full_match COORDINATE_RE s = true.
Proof.
  intros m s Hf Ht Hnp H. destruct m as [f t c | f t c pp | f t | f t]; cbn [to_uci mv_from mv_to] in *.
  - injection H as <-. apply coordinates_accepted; assumption.
  - exfalso. apply (Hnp f t c pp). reflexivity.
  - injection H as <-. apply coordinates_accepted; assumption.
  - injection H as <-. apply coordinates_accepted; assumption.
Qed.

Example coordinates_accepted_nonvacuous :
  sq_str 12 ++ sq_str 28 = "e2e4" /\ full_match COORDINATE_RE "e2e4" = true
  /\ full_match COORDINATE_RE "e2e9" = false.
Proof. vm_compute. auto. Qed.

(* ================================================================================== *)
(** * 3. The writer's output lies in the label space                                   *)
(* ================================================================================== *)

Lemma chars_sweep :
  forallb (fun i => existsb (String.eqb (ch (file_char i))) file_strs
                    && existsb (String.eqb (ch (rank_char i))) rank_strs) squares = true.
Proof. vm_compute. reflexivity. Qed.

Lemma existsb_string_in : forall s l, existsb (String.eqb s) l = true -> In s l.
Proof.
  intros s l H. apply existsb_exists in H. destruct H as [x [Hin E]].
  apply String.eqb_eq in E. subst x. exact Hin.
Qed.

Lemma file_char_in : forall i, i < 64 -> In (ch (file_char i)) file_strs.
Proof.
  intros i H. pose proof chars_sweep as S. rewrite forallb_forall in S.
  specialize (S i (in_squares i H)). apply andb_true_iff in S. destruct S as [S _].
  apply existsb_string_in. exact S.
Qed.

Lemma rank_char_in : forall i, i < 64 -> In (ch (rank_char i)) rank_strs.
Proof.
  intros i H. pose proof chars_sweep as S. rewrite forallb_forall in S.
  specialize (S i (in_squares i H)). apply andb_true_iff in S. destruct S as [_ S].
  apply existsb_string_in. exact S.
Qed.

Lemma sq_str_split : forall i, sq_str i = ch (file_char i) ++ ch (rank_char i).
Proof. intros i. reflexivity. Qed.

Lemma sq_str_in : forall i, i < 64 -> In (sq_str i) sq_strs.
Proof.
  intros i H. rewrite sq_str_split. unfold sq_strs.
  apply in_prod_app; [apply file_char_in | apply rank_char_in]; exact H.
Qed.

Lemma suffix_in : forall e, In (suffix_of e) suffixes.
Proof. intros e. destruct e; cbn [suffix_of suffixes In]; auto. Qed.

(* the parts of san_label, named *)
Definition rivals (b : board) (all : list cmove) (m : cmove) (p : piece) : list cmove :=
  filter (fun o =>
            negb (mv_from o =? mv_from m) && (mv_to o =? mv_to m)
            && match bget b (mv_from o) with Some (q, _) => piece_eqb q p | None => false end) all.

Definition dis_of (p : piece) (from : N) (is_cap : bool) (amb : list cmove) : string :=
  if piece_eqb p Pawn && is_cap then ch (file_char from)
  else
    let same_file := existsb (fun o => N.eqb (mv_from o mod 8) (from mod 8)) amb in
    let same_rank := existsb (fun o => N.eqb (mv_from o / 8) (from / 8)) amb in
    match same_file, same_rank with
    | true, true => sq_str from
    | true, false => ch (rank_char from)
    | false, true => ch (file_char from)
    | false, false => if is_nil amb then "" else ch (file_char from)
    end.

Definition promo_of (m : cmove) : string :=
  match m with Promo _ _ _ pp => "=" ++ piece_str pp | _ => "" end.

Definition cap_str_of (m : cmove) : string := if is_some (mv_captures m) then "x" else "".

(* san_label on a non-castle move, as a product of its parts *)
Lemma san_label_core : forall b all m e s,
  (forall f t, m <> Castle f t) ->
  san_label b all m e = Ok s ->
  exists p col,
    bget b (mv_from m) = Some (p, col) /\
    s = piece_str p
        ++ dis_of p (mv_from m) (is_some (mv_captures m)) (rivals b all m p)
        ++ cap_str_of m ++ sq_str (mv_to m) ++ promo_of m ++ suffix_of e.
Proof.
  intros b all m e s Hnc H.
  destruct m as [f t c | f t c pp | f t | f t];
    [ | | | exfalso; apply (Hnc f t); reflexivity ];
    unfold san_label in H; cbn [mv_from mv_to] in *;
    (destruct (bget b f) as [[p col]|]; [|discriminate]);
    (destruct (negb (forallb _ all)); [discriminate|]);
    injection H as <-; exists p, col; (split; reflexivity).
Qed.

Lemma dis_of_in : forall p from is_cap amb, from < 64 -> In (dis_of p from is_cap amb) dis_opts.
Proof.
  intros p from is_cap amb H.
  assert (Hf : In (ch (file_char from)) dis_opts).
  { unfold dis_opts. apply in_or_app. right. apply in_or_app. left. apply file_char_in; exact H. }
  assert (Hr : In (ch (rank_char from)) dis_opts).
  { unfold dis_opts. apply in_or_app. right. apply in_or_app. right. apply in_or_app. left.
    apply rank_char_in; exact H. }
  assert (Hs : In (sq_str from) dis_opts).
  { unfold dis_opts. apply in_or_app. right. apply in_or_app. right. apply in_or_app. right.
    apply sq_str_in; exact H. }
  assert (He : In "" dis_opts).
  { unfold dis_opts. apply in_or_app. left. left. reflexivity. }
  unfold dis_of.
  destruct (piece_eqb p Pawn && is_cap); [exact Hf|].
  destruct (existsb (fun o => mv_from o mod 8 =? from mod 8) amb);
    destruct (existsb (fun o => mv_from o / 8 =? from / 8) amb); try assumption.
  destruct (is_nil amb); assumption.
Qed.

Lemma dis_of_pawn_capture : forall from amb, dis_of Pawn from true amb = ch (file_char from).
Proof. intros. reflexivity. Qed.

Lemma dis_of_quiet_norival : forall p from, dis_of p from false [] = "".
Proof. intros p from. unfold dis_of. rewrite andb_false_r. reflexivity. Qed.

(* The hypotheses on the move.  All hold for every move the engine's generator produces on a
   well-formed board (squares are on the board; a promotion is a pawn move to one of
   Q, R, B, N; two pawns never have non-capturing moves to one square, and no pawn can push
   to the en-passant target square since the square behind it holds the enemy pawn):
   (1),(2) origin and destination are squares 0..63;
   (3) a Promo move promotes to Queen, Rook, Bishop or Knight, and the piece on its origin
       square is a pawn;
   (4) a NON-capturing pawn move (Std/Promo with cap = None from a square holding a pawn)
       has no rival in `all`: no other candidate from a different origin square holding a
       pawn goes to the same destination.
   Without (4) the writer would print labels such as "ee4" or "e2e4" for a pawn push — the
   latter IS a coordinate pair; without (3) it would print "=K", "=" or "Nd8=Q".
   Nothing is assumed about captures / en passant (an EnPassant or capturing move from a
   non-pawn square simply yields a piece-capture label), about the effect, or about `all`
   beyond (4). *)
Definition label_hyps (b : board) (all : list cmove) (m : cmove) : Prop :=
  mv_from m < 64
  /\ mv_to m < 64
  /\ (forall f t c pp, m = Promo f t c pp ->
        In pp [Queen; Rook; Bishop; Knight] /\ exists col, bget b f = Some (Pawn, col))
  /\ (forall col, bget b (mv_from m) = Some (Pawn, col) -> mv_captures m = None ->
        rivals b all m Pawn = []).

Lemma promo_of_in : forall m,
  (forall f t c pp, m = Promo f t c pp -> In pp [Queen; Rook; Bishop; Knight]) ->
  In (promo_of m) promo_opts.
Proof.
  intros m H. destruct m as [f t c | f t c pp | f t | f t]; cbn [promo_of promo_opts In]; auto.
  specialize (H f t c pp eq_refl). cbn [In] in H.
  destruct H as [<- | [<- | [<- | [<- | []]]]]; cbn; auto 10.
Qed.

Lemma castle_label_in : forall b all f t e s,
  san_label b all (Castle f t) e = Ok s -> In s castle_labels.
Proof.
  intros b all f t e s H. unfold castle_labels. unfold san_label in H.
  destruct ((f =? 4) && (t =? 6) || (f =? 60) && (t =? 62)).
  - injection H as <-.
    apply (in_prod_app ["O-O"; "O-O-O"] suffixes "O-O" (suffix_of e)); [left; reflexivity | apply suffix_in].
  - destruct ((f =? 4) && (t =? 2) || (f =? 60) && (t =? 58)); [|discriminate].
    injection H as <-.
    apply (in_prod_app ["O-O"; "O-O-O"] suffixes "O-O-O" (suffix_of e)); [right; left; reflexivity | apply suffix_in].
Qed.

Theorem san_label_shape : forall b all m e s,
  label_hyps b all m -> san_label b all m e = Ok s -> In s all_labels.
Proof.
  intros b all m e s [Hfrom [Hto [Hpromo Hquiet]]] H.
  unfold all_labels.
  destruct m as [f t c | f t c pp | f t | f t] eqn:Em.
  4: { (* castle *)
    apply in_or_app; right; apply in_or_app; right.
    apply (castle_label_in b all f t e s H). }
  all: rewrite <- Em in *;
    assert (Hnc : forall f0 t0, m <> Castle f0 t0) by (intros f0 t0; rewrite Em; discriminate);
    destruct (san_label_core b all m e s Hnc H) as [p [col [Hb Hs]]];
    assert (Hpr : In (promo_of m) promo_opts)
      by (apply promo_of_in; intros f0 t0 c0 pp0 E0; apply (Hpromo f0 t0 c0 pp0 E0));
    assert (Hnonpawn : p <> Pawn -> promo_of m = "")
      by (intros Hp; destruct m as [f1 t1 c1 | f1 t1 c1 pp1 | f1 t1 | f1 t1]; try reflexivity;
          destruct (Hpromo f1 t1 c1 pp1 eq_refl) as [_ [col' Hb']];
          cbn [mv_from] in Hb; rewrite Hb in Hb'; injection Hb' as Hp' _; contradiction);
    assert (Hpiece : p <> Pawn -> In s piece_labels)
      by (intros Hp; rewrite Hs, (Hnonpawn Hp); unfold piece_labels;
          apply in_prod_app; [destruct p; cbn; auto 10; contradiction|];
          apply in_prod_app; [apply dis_of_in; exact Hfrom|];
          apply in_prod_app; [unfold cap_str_of; destruct (is_some (mv_captures m)); cbn; auto|];
          apply in_prod_app; [apply sq_str_in; exact Hto | apply suffix_in]);
    assert (Hpawn : p = Pawn -> In s pawn_labels)
      by (intros ->; rewrite Hs; unfold pawn_labels, cap_str_of;
          destruct (mv_captures m) as [cp|] eqn:Ec; cbn [is_some];
          [ rewrite dis_of_pawn_capture;
            change (In ((ch (file_char (mv_from m)) ++ "x")
                        ++ sq_str (mv_to m) ++ promo_of m ++ suffix_of e)
                       (prod_app ([""] ++ prod_app file_strs ["x"])%list
                                 (prod_app sq_strs (prod_app promo_opts suffixes))));
            apply in_prod_app;
            [ apply in_or_app; right; apply in_prod_app;
              [apply file_char_in; exact Hfrom | left; reflexivity] | ]
          | rewrite (Hquiet col Hb eq_refl), dis_of_quiet_norival;
            change (In ("" ++ sq_str (mv_to m) ++ promo_of m ++ suffix_of e)
                       (prod_app ([""] ++ prod_app file_strs ["x"])%list
                                 (prod_app sq_strs (prod_app promo_opts suffixes))));
            apply in_prod_app; [apply in_or_app; left; left; reflexivity | ] ];
          (apply in_prod_app; [apply sq_str_in; exact Hto|];
           apply in_prod_app; [exact Hpr | apply suffix_in]));
    destruct p;
      try (apply in_or_app; left; apply Hpiece; discriminate);
      apply in_or_app; right; apply in_or_app; left; apply Hpawn; reflexivity.
Qed.

(* ================================================================================== *)
(** * 4. C14, command-line level                                                       *)
(* ================================================================================== *)

Theorem printed_labels_accepted : forall b all m e s,
  san_label b all m e = Ok s -> label_hyps b all m ->
  full_match ALGEBRAIC_RE s = true /\ full_match COORDINATE_RE s = false.
Proof.
  intros b all m e s H Hh. apply labels_accepted. eapply san_label_shape; eauto.
Qed.

(* castling needs no hypothesis about the board or the candidate list at all *)
Corollary printed_castle_accepted : forall b all f t e s,
  san_label b all (Castle f t) e = Ok s ->
  full_match ALGEBRAIC_RE s = true /\ full_match COORDINATE_RE s = false.
Proof.
  intros b all f t e s H.
  pose proof (castle_label_in b all f t e s H) as Hin.
  apply labels_accepted. unfold all_labels. apply in_or_app; right; apply in_or_app; right. exact Hin.
Qed.

(* ---- non-vacuity: a board with a white pawn on e2, knights on g1 and d2 ---- *)
Definition demo_board : board :=
  set_white board_new {| pw := bit 12; kn := N.lor (bit 6) (bit 11); bi := 0; rk := 0; qn := 0; kg := 0;
                         occ := N.lor (bit 12) (N.lor (bit 6) (bit 11)) |}.
Definition demo_all : list cmove := [Std 12 28 None; Std 6 21 None; Std 11 21 None].

Example san_label_shape_nonvacuous :
  san_label demo_board demo_all (Std 6 21 None) ECheck = Ok "Ngf3+"
  /\ san_label demo_board demo_all (Std 12 28 None) ENone = Ok "e4"
  /\ san_label demo_board demo_all (Castle 4 2) ECheckmate = Ok "O-O-O#"
  /\ label_hyps demo_board demo_all (Std 6 21 None)
  /\ label_hyps demo_board demo_all (Std 12 28 None).
Proof.
  split; [vm_compute; reflexivity|].
  split; [vm_compute; reflexivity|].
  split; [vm_compute; reflexivity|].
  split; (split; [reflexivity|]; split; [reflexivity|]; split;
          [intros f t c pp E; discriminate E | intros col Hb Hc; vm_compute; reflexivity]).
Qed.

Print Assumptions labels_accepted.
Print Assumptions coordinates_accepted.
Print Assumptions san_label_shape.
Print Assumptions printed_labels_accepted.
