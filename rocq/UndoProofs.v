(* UndoProofs.v — property C04: undoing the most recently made move restores the whole board
   record (both piece sets with all 7 bitboards each, side to move, the three stacks, the
   move counter, the repetition map and its stack, and the position key), for every move
   kind, and for sequences of any length undone in reverse order.  Proofs only.

   IMPORTANT SIDE CONDITION (a finding about the real code, see [undo_apply_refuted_ep]):
   EnPassantChessMove::apply removes WHATEVER stands on the square behind the target and
   undo always puts back a pawn of the opposite colour.  [undo_apply] therefore carries the
   hypothesis [ep_ok m b = true] (the victim of an en-passant move is an enemy pawn), which is
   trivially true for the three other move kinds. *)
From Coq Require Import Lia.
From ChessV Require Import Moves.
From ChessV Require Export BoardLemmas.

(* ------------------------------------------------------------------ *)
(** * small general facts *)

Lemma unwrap_ok_inv {A} (r : res A) a : unwrap r = Ok a -> r = Ok a.
Proof. destruct r; cbn; intro H; try discriminate; exact H. Qed.

Lemma board_ext b r :
  white r = white b -> black r = black b -> turn r = turn b -> ep_stack r = ep_stack b ->
  cr_stack r = cr_stack b -> hm_stack r = hm_stack b -> fullmove r = fullmove b ->
  pos_count r = pos_count b -> seen_stack r = seen_stack b -> hash r = hash b -> r = b.
Proof.
  destruct b as [w bl tu e c hm fm pc ss hs], r as [w' bl' tu' e' c' hm' fm' pc' ss' hs'].
  cbn [white black turn ep_stack cr_stack hm_stack fullmove pos_count seen_stack hash].
  intros; subst; reflexivity.
Qed.

Lemma set_hash_id x h : h = hash x -> set_hash x h = x.
Proof. intros ->. apply set_hash_same. Qed.

Lemma lor_lor_swap x a b : N.lor (N.lor x a) b = N.lor (N.lor x b) a.
Proof. rewrite <- !N.lor_assoc, (N.lor_comm a b). reflexivity. Qed.

Lemma upd_lor_comm s p q i j :
  upd (upd s p (fun x => N.lor x (bit i))) q (fun x => N.lor x (bit j))
  = upd (upd s q (fun x => N.lor x (bit j))) p (fun x => N.lor x (bit i)).
Proof.
  destruct s as [a1 a2 a3 a4 a5 a6 a7], p, q; cbn [upd pw kn bi rk qn kg occ];
    f_equal; apply lor_lor_swap.
Qed.

Ltac bstep H E :=
  match type of H with
  | bind ?r _ = Ok _ => destruct r eqn:E; cbn [bind] in H; [|discriminate H|discriminate H]
  end.

Ltac neq_tac := first [assumption | apply not_eq_sym; assumption].
Ltac eqb_simp :=
  repeat match goal with
         | |- context [N.eqb ?a ?a] => rewrite (N.eqb_refl a)
         | |- context [N.eqb ?a ?b] => rewrite (proj2 (N.eqb_neq a b)) by neq_tac
         end.

Section WithTable.
Variable T : ztable.

(* ------------------------------------------------------------------ *)
(** * [bump]: the net effect of the four bookkeeping pushes of a move, as one record *)

Definition bump (x : board) (hmv t ncr h : N) : board :=
  {| white := white x; black := black x; turn := turn x;
     ep_stack := t :: ep_stack x; cr_stack := ncr :: cr_stack x; hm_stack := hmv :: hm_stack x;
     fullmove := fullmove x + 1; pos_count := pos_count x; seen_stack := seen_stack x; hash := h |}.

Lemma bump_WF x hmv t ncr h : WF x -> WF (bump x hmv t ncr h).
Proof. apply WF_same_sets; reflexivity. Qed.

Lemma bget_bump x hmv t ncr h i : bget (bump x hmv t ncr h) i = bget x i.
Proof. reflexivity. Qed.

(* piece operations go through a bump unchanged *)
Lemma put_bump x i p c x' hmv t ncr h : put T x i p c = Ok x' ->
  put T (bump x hmv t ncr h) i p c = Ok (bump x' hmv t ncr (N.lxor h (zp T p i c))).
Proof.
  intro H. apply put_ok_inv in H. destruct H as [E ->].
  rewrite put_free by exact E. destruct c; reflexivity.
Qed.

Lemma bremove_bump x i p c x' hmv t ncr h : bremove T x i = Some ((p, c), x') ->
  bremove T (bump x hmv t ncr h) i = Some ((p, c), bump x' hmv t ncr (N.lxor h (zp T p i c))).
Proof.
  intro H. apply bremove_some_inv in H. destruct H as [E ->].
  rewrite (bremove_some T _ i p c) by exact E. destruct c; reflexivity.
Qed.

Lemma inc_halfmove_push b b' : inc_halfmove b = Ok b' -> exists v, b' = push_halfmove b v.
Proof.
  rewrite inc_halfmove_eq. destruct (hm_stack b) as [|old rest] eqn:E; [discriminate|].
  destruct (old =? U8_MAX); [discriminate|]. intro H. inversion H. exists (old + 1).
  unfold push_halfmove. rewrite E. reflexivity.
Qed.

(* forward: halfmove push, fullmove increment, en-passant push, rights push *)
Lemma fwd_lose b2 hmv b4 t b5 l b6 :
  inc_fullmove (push_halfmove b2 hmv) = Ok b4 -> push_ep T b4 t = Ok b5 -> lose_rights T b5 l = Ok b6 ->
  exists prev er old crr,
    ep_stack b2 = prev :: er /\ cr_stack b2 = old :: crr
    /\ b6 = bump b2 hmv t (N.lxor old (N.land old l))
              (N.lxor (N.lxor (N.lxor (N.lxor (hash b2) (epk T prev)) (epk T t)) (zc T old))
                      (zc T (N.lxor old (N.land old l)))).
Proof.
  destruct b2 as [w bl tu e c hm fm pc ss hs].
  unfold inc_fullmove, push_halfmove. bsimpl.
  destruct (fm =? FULLMOVE_MAX); [discriminate|]. intro H; inversion H; subst b4; clear H.
  rewrite push_ep_eq. bsimpl. destruct e as [|prev er]; [discriminate|].
  intro H; inversion H; subst b5; clear H.
  rewrite lose_rights_eq. bsimpl. destruct c as [|old crr]; [discriminate|]. cbv zeta.
  intro H; inversion H; subst b6; clear H.
  exists prev, er, old, crr. split; [reflexivity|]. split; reflexivity.
Qed.

Lemma fwd_preserve b2 hmv b4 t b5 b6 :
  inc_fullmove (push_halfmove b2 hmv) = Ok b4 -> push_ep T b4 t = Ok b5 -> preserve_rights b5 = Ok b6 ->
  exists prev er old crr,
    ep_stack b2 = prev :: er /\ cr_stack b2 = old :: crr
    /\ b6 = bump b2 hmv t old (N.lxor (N.lxor (hash b2) (epk T prev)) (epk T t)).
Proof.
  destruct b2 as [w bl tu e c hm fm pc ss hs].
  unfold inc_fullmove, push_halfmove. bsimpl.
  destruct (fm =? FULLMOVE_MAX); [discriminate|]. intro H; inversion H; subst b4; clear H.
  rewrite push_ep_eq. bsimpl. destruct e as [|prev er]; [discriminate|].
  intro H; inversion H; subst b5; clear H.
  rewrite preserve_rights_eq. bsimpl. destruct c as [|old crr]; [discriminate|].
  intro H; inversion H; subst b6; clear H.
  exists prev, er, old, crr. split; [reflexivity|]. split; reflexivity.
Qed.

(* backward, in the order used by Standard/EnPassant undo: halfmove, fullmove, ep, rights *)
Lemma unbump_hf x hmv t ncr h prev er old crr :
  ep_stack x = prev :: er -> cr_stack x = old :: crr ->
  exists y3 y4 y5,
    pop_halfmove (bump x hmv t ncr h) = Ok y3 /\ dec_fullmove y3 = Ok y4
    /\ pop_ep T y4 = Ok (t, y5)
    /\ pop_rights T y5 =
       Ok (set_hash x (N.lxor (N.lxor (N.lxor (N.lxor h (epk T t)) (epk T prev)) (zc T ncr)) (zc T old))).
Proof.
  destruct x as [w bl tu e c hm fm pc ss hs]. cbn [ep_stack cr_stack]. intros -> ->.
  eexists. eexists. eexists.
  split. { unfold pop_halfmove, bump. cbn [hm_stack]. reflexivity. }
  split. { unfold dec_fullmove. bsimpl. destruct (N.eqb_spec (fm + 1) 0) as [Hz|_]; [lia|]. reflexivity. }
  split. { rewrite pop_ep_eq. bsimpl. reflexivity. }
  rewrite pop_rights_eq. bsimpl. f_equal. apply board_ext; bsimpl; try reflexivity. cbn [bump fullmove]. lia.
Qed.

(* backward, in the order used by Castle undo: fullmove, halfmove, ep, rights *)
Lemma unbump_fh x hmv t ncr h prev er old crr :
  ep_stack x = prev :: er -> cr_stack x = old :: crr ->
  exists y3 y4 y5,
    dec_fullmove (bump x hmv t ncr h) = Ok y3 /\ pop_halfmove y3 = Ok y4
    /\ pop_ep T y4 = Ok (t, y5)
    /\ pop_rights T y5 =
       Ok (set_hash x (N.lxor (N.lxor (N.lxor (N.lxor h (epk T t)) (epk T prev)) (zc T ncr)) (zc T old))).
Proof.
  destruct x as [w bl tu e c hm fm pc ss hs]. cbn [ep_stack cr_stack]. intros -> ->.
  eexists. eexists. eexists.
  split. { unfold dec_fullmove, bump. bsimpl. destruct (N.eqb_spec (fm + 1) 0) as [Hz|_]; [lia|]. reflexivity. }
  split. { unfold pop_halfmove. bsimpl. reflexivity. }
  split. { rewrite pop_ep_eq. bsimpl. reflexivity. }
  rewrite pop_rights_eq. bsimpl. f_equal. apply board_ext; bsimpl; try reflexivity. cbn [bump fullmove]. lia.
Qed.


(* ------------------------------------------------------------------ *)
(** * Standard moves *)

(* the common tail of StandardChessMove::apply, from the board [b2] on which both removals have
   been done; [b1] is the board before the removal of the captured piece *)
Lemma std_tail b b1 b2 b' p c from to cap hmv t l :
  WF b2 -> to < 64 ->
  match cap with Some cp => put T b2 to cp (opp_c c) = Ok b1 | None => b2 = b1 end ->
  put T b1 from p c = Ok b ->
  (let* b4 := inc_fullmove (push_halfmove b2 hmv) in
   let* b5 := push_ep T b4 t in
   let* b6 := lose_rights T b5 l in
   unwrap (put T b6 to p c)) = Ok b' ->
  WF b' /\ undo_std T b' from to cap = Ok b.
Proof.
  intros W2 Lt Hcap P1 H.
  bstep H E4. bstep H E5. bstep H E6. apply unwrap_ok_inv in H.
  destruct (fwd_lose _ _ _ _ _ _ _ E4 E5 E6) as (prev & er & old & crr & Eep & Ecr & ->).
  match type of H with put T (bump b2 ?a1 ?a2 ?a3 ?a4) _ _ _ = _ =>
    pose proof (bump_WF b2 a1 a2 a3 a4 W2) as W6 end.
  split; [apply (put_WF T _ _ _ _ _ H W6 Lt)|].
  unfold undo_std. rewrite (put_bremove T _ _ _ _ _ H W6 Lt).
  destruct cap as [cp|].
  - rewrite (put_bump _ _ _ _ _ _ _ _ _ Hcap). cbn [bind].
    destruct (put_frame T _ _ _ _ _ Hcap) as (_ & F2 & F3 & _).
    rewrite <- F2 in Eep. rewrite <- F3 in Ecr.
    match goal with |- context [pop_halfmove (bump b1 ?a1 ?a2 ?a3 ?a4)] =>
      destruct (unbump_hf b1 a1 a2 a3 a4 _ _ _ _ Eep Ecr) as (y3 & y4 & y5 & Q1 & Q2 & Q3 & Q4) end.
    rewrite Q1; cbn [bind]. rewrite Q2; cbn [bind]. rewrite Q3; cbn [bind]. rewrite Q4; cbn [bind].
    rewrite set_hash_id; [rewrite P1; reflexivity|].
    rewrite (put_hash T _ _ _ _ _ Hcap). xor_cancel.
  - subst b1. cbn [bind].
    match goal with |- context [pop_halfmove (bump b2 ?a1 ?a2 ?a3 ?a4)] =>
      destruct (unbump_hf b2 a1 a2 a3 a4 _ _ _ _ Eep Ecr) as (y3 & y4 & y5 & Q1 & Q2 & Q3 & Q4) end.
    rewrite Q1; cbn [bind]. rewrite Q2; cbn [bind]. rewrite Q3; cbn [bind]. rewrite Q4; cbn [bind].
    rewrite set_hash_id; [rewrite P1; reflexivity|].
    xor_cancel.
Qed.

Lemma apply_std_ok b from to cap b' :
  WF b -> to < 64 -> apply_std T b from to cap = Ok b' ->
  WF b' /\ undo_std T b' from to cap = Ok b.
Proof.
  intros W Lt H. unfold apply_std in H.
  destruct (bremove T b from) as [[[p c] b1]|] eqn:E1; [|discriminate].
  pose proof (bremove_WF T _ _ _ _ _ E1 W) as W1.
  pose proof (bremove_put T _ _ _ _ _ E1 W) as P1.
  destruct (bremove T b1 to) as [[[q d] b2]|] eqn:E2.
  - destruct cap as [cp|]; cbn [option_map opt_pc_eqb] in H; [|discriminate].
    destruct (pc_eqb (q, d) (cp, opp_c c)) eqn:Epc; cbn [negb] in H; [|discriminate].
    apply pc_eqb_eq in Epc. inversion Epc; subst q d. cbn [bind] in H.
    apply (std_tail b b1 b2 b' p c from to (Some cp) 0 _ _ (bremove_WF T _ _ _ _ _ E2 W1) Lt
                    (bremove_put T _ _ _ _ _ E2 W1) P1 H).
  - destruct cap as [cp|]; cbn [option_map opt_pc_eqb negb] in H; [discriminate|].
    destruct (piece_eqb p Pawn).
    + cbn [bind] in H.
      apply (std_tail b b1 b1 b' p c from to None 0 _ _ W1 Lt eq_refl P1 H).
    + bstep H E3. destruct (inc_halfmove_push _ _ E3) as [v ->].
      apply (std_tail b b1 b1 b' p c from to None v _ _ W1 Lt eq_refl P1 H).
Qed.


(* ------------------------------------------------------------------ *)
(** * Promotions *)

Lemma apply_promo_ok b from to cap pp b' :
  WF b -> to < 64 -> apply_promo T b from to cap pp = Ok b' ->
  WF b' /\ undo_promo T b' from to cap pp = Ok b.
Proof.
  intros W Lt H. unfold apply_promo in H. bstep H S1.
  destruct (apply_std_ok _ _ _ _ _ W Lt S1) as [W1 U1].
  destruct (bremove T a to) as [[[q d] b2]|] eqn:E2; [|discriminate].
  destruct q; try discriminate.
  pose proof (bremove_WF T _ _ _ _ _ E2 W1) as W2.
  split; [apply (put_WF T _ _ _ _ _ H W2 Lt)|].
  unfold undo_promo. rewrite (put_bremove T _ _ _ _ _ H W2 Lt), piece_eqb_refl.
  rewrite (bremove_put T _ _ _ _ _ E2 W1). cbn [bind]. exact U1.
Qed.

(* ------------------------------------------------------------------ *)
(** * two puts commute *)

Lemma mem_occupied_after_put x i p c j :
  mem j (occupied (toggle_piece T (set_pieces x c (upd (pieces x c) p (fun y => N.lor y (bit i)))) i p c))
  = (j =? i) || mem j (occupied x).
Proof.
  destruct c; unfold occupied; bsimpl; rewrite !mem_lor, occ_upd, mem_set_bit;
    destruct (j =? i), (mem j (occ (white x))), (mem j (occ (black x))); reflexivity.
Qed.

Lemma put_put_comm x i p c y j q d z :
  put T x i p c = Ok y -> put T y j q d = Ok z ->
  exists y', put T x j q d = Ok y' /\ put T y' i p c = Ok z.
Proof.
  intros H1 H2. apply put_ok_inv in H1. destruct H1 as [E1 ->].
  apply put_ok_inv in H2. destruct H2 as [E2 ->].
  rewrite mem_occupied_after_put in E2. apply orb_false_elim in E2. destruct E2 as [Eji E2].
  eexists. split; [apply put_free, E2|].
  rewrite put_free.
  - f_equal. destruct x as [w bl tu e cr hm fm pc ss hs].
    destruct c, d; bunfold; cbn [pieces white black]; f_equal; try apply upd_lor_comm; xor_cancel.
  - rewrite mem_occupied_after_put, E1, N.eqb_sym, Eji. reflexivity.
Qed.

End WithTable.

(* ------------------------------------------------------------------ *)
(** * En passant *)

(* the side condition: the piece an en-passant move removes is an enemy pawn *)
Definition ep_ok (m : cmove) (b : board) : bool :=
  match m with
  | EnPassant f t =>
      match bget b f with
      | Some (_, c) => opt_pc_eqb (bget b (ep_captured_square c t)) (Some (Pawn, opp_c c))
      | None => true
      end
  | _ => true
  end.

Section WithTable2.
Variable T : ztable.

Lemma apply_ep_ok b from to b' :
  WF b -> to < 64 -> ep_ok (EnPassant from to) b = true -> apply_ep T b from to = Ok b' ->
  WF b' /\ undo_ep T b' from to = Ok b.
Proof.
  intros W Lt Hv H. unfold apply_ep in H.
  destruct (bremove T b from) as [[[p c] b1]|] eqn:E1; [|discriminate].
  destruct (piece_eqb p Pawn) eqn:Ep; cbn [negb] in H; [|discriminate].
  apply piece_eqb_eq in Ep. subst p.
  destruct (bremove T b1 (ep_captured_square c to)) as [[[q d] b2]|] eqn:E2; [|discriminate].
  pose proof (bremove_WF T _ _ _ _ _ E1 W) as W1.
  pose proof (bremove_WF T _ _ _ _ _ E2 W1) as W2.
  destruct (bremove_bget T _ _ _ _ _ E1 W) as [G1 C1].
  destruct (bremove_bget T _ _ _ _ _ E2 W1) as [G2 _].
  unfold ep_ok in Hv. rewrite G1 in Hv. apply opt_pc_eqb_eq in Hv.
  rewrite C1 in G2. destruct (ep_captured_square c to =? from); [discriminate|].
  rewrite Hv in G2. inversion G2; subst q d. clear G2.
  change (reset_halfmove b2) with (push_halfmove b2 0) in H.
  bstep H E4. bstep H E5. bstep H E6.
  destruct (fwd_preserve T _ _ _ _ _ _ E4 E5 E6) as (prev & er & old & crr & Eep & Ecr & ->).
  match type of H with put T (bump b2 ?a1 ?a2 ?a3 ?a4) _ _ _ = _ =>
    pose proof (bump_WF b2 a1 a2 a3 a4 W2) as W6 end.
  split; [apply (put_WF T _ _ _ _ _ H W6 Lt)|].
  unfold undo_ep. rewrite (put_bremove T _ _ _ _ _ H W6 Lt), piece_eqb_refl. cbn [negb].
  pose proof (bremove_put T _ _ _ _ _ E2 W1) as P2.
  pose proof (bremove_put T _ _ _ _ _ E1 W) as P1.
  destruct (put_put_comm T _ _ _ _ _ _ _ _ _ P2 P1) as (z & Z1 & Z2).
  rewrite (put_bump T _ _ _ _ _ _ _ _ _ Z1). cbn [unwrap bind].
  destruct (put_frame T _ _ _ _ _ Z1) as (_ & F2 & F3 & _).
  rewrite <- F2 in Eep. rewrite <- F3 in Ecr.
  match goal with |- context [pop_halfmove (bump z ?a1 ?a2 ?a3 ?a4)] =>
    destruct (unbump_hf T z a1 a2 a3 a4 _ _ _ _ Eep Ecr) as (y3 & y4 & y5 & Q1 & Q2 & Q3 & Q4) end.
  rewrite Q1; cbn [bind]. rewrite Q2; cbn [bind]. rewrite Q3; cbn [bind]. rewrite Q4; cbn [bind].
  rewrite set_hash_id; [exact Z2|].
  rewrite (put_hash T _ _ _ _ _ Z1). xor_cancel.
Qed.


(* ------------------------------------------------------------------ *)
(** * Castling *)

Lemma castle_shape_inv from to c rf rt :
  from < 64 -> castle_shape from to = Ok (c, rf, rt) -> to < 64 /\ rf < 64 /\ rt < 64 /\ rf <> rt.
Proof.
  intros Lf H. unfold castle_shape in H.
  assert (Lt : to < 64).
  { destruct (N.eqb_spec (bit to) (shl (bit from) 2)) as [Es|_].
    - destruct (N.lt_ge_cases (from + 2) 64) as [L|L].
      + rewrite (shl_bit _ _ L) in Es. apply bit_inj in Es. lia.
      + rewrite (shl_bit_out _ _ L) in Es. exfalso. apply (bit_neq_0 to Es).
    - destruct (N.eqb_spec (bit to) (shr (bit from) 2)) as [Es|_]; [|discriminate].
      destruct (N.le_gt_cases 2 from) as [L|L].
      + rewrite (shr_bit _ _ L) in Es. apply bit_inj in Es. lia.
      + rewrite (shr_bit_out _ _ L) in Es. exfalso. apply (bit_neq_0 to Es). }
  split; [exact Lt|].
  destruct (if bit to =? shl (bit from) 2 then Some true
            else if bit to =? shr (bit from) 2 then Some false else None) as [[|]|];
    [| |discriminate];
    destruct (mem from RANK_1), (mem from RANK_8); try discriminate;
    inversion H; subst; unfold A1, D1, F1, H1, A8, D8, F8, H8; repeat split; lia.
Qed.

Lemma opt_pc_eqb_refl x : opt_pc_eqb x x = true.
Proof. apply opt_pc_eqb_eq. reflexivity. Qed.

Lemma is_none_true {A} (o : option A) : is_none o = true -> o = None.
Proof. destruct o; [discriminate|reflexivity]. Qed.

(* the piece part of a castle: king from -> to, rook rf -> rt, and back in the order of undo *)
Lemma relocate2 b c from to rf rt p1 c1 b1 b2 p3 c3 b3 b4 :
  WF b -> to < 64 -> rt < 64 -> rf <> rt ->
  bget b from = Some (King, c) -> bget b to = None ->
  bget b rf = Some (Rook, c) -> bget b rt = None ->
  bremove T b from = Some ((p1, c1), b1) -> put T b1 to King c = Ok b2 ->
  bremove T b2 rf = Some ((p3, c3), b3) -> put T b3 rt Rook c = Ok b4 ->
  WF b4
  /\ bget b4 to = Some (King, c) /\ bget b4 from = None
  /\ bget b4 rt = Some (Rook, c) /\ bget b4 rf = None
  /\ hash b4 = N.lxor (N.lxor (N.lxor (N.lxor (hash b) (zp T King from c)) (zp T King to c))
                              (zp T Rook rf c)) (zp T Rook rt c)
  /\ ep_stack b4 = ep_stack b /\ cr_stack b4 = cr_stack b
  /\ exists u1 u2 u3,
       bremove T b4 to = Some ((King, c), u1) /\ put T u1 from King c = Ok u2
       /\ bremove T u2 rt = Some ((Rook, c), u3) /\ put T u3 rf Rook c = Ok b.
Proof.
  intros W Lto Lrt Nrr C1 C2 C3 C4 R1 P2 R3 P4.
  assert (Lfrom : from < 64) by (apply (bget_lt64 b from _ W C1)).
  assert (Lrf : rf < 64) by (apply (bget_lt64 b rf _ W C3)).
  assert (N1 : from <> to) by (intros ->; congruence).
  assert (N2 : from <> rf) by (intros ->; congruence).
  assert (N3 : from <> rt) by (intros ->; congruence).
  assert (N4 : to <> rf) by (intros ->; congruence).
  pose proof (bremove_WF T _ _ _ _ _ R1 W) as W1.
  destruct (bremove_bget T _ _ _ _ _ R1 W) as [K1 G1].
  rewrite C1 in K1. inversion K1; subst p1 c1. clear K1.
  pose proof (put_WF T _ _ _ _ _ P2 W1 Lto) as W2.
  pose proof (put_bget T _ _ _ _ _ P2 W1 Lto) as G2.
  pose proof (bremove_WF T _ _ _ _ _ R3 W2) as W3.
  destruct (bremove_bget T _ _ _ _ _ R3 W2) as [K3 G3].
  rewrite G2, G1 in K3. revert K3. eqb_simp. rewrite C3. intro K3. inversion K3; subst p3 c3. clear K3.
  pose proof (put_WF T _ _ _ _ _ P4 W3 Lrt) as W4.
  pose proof (put_bget T _ _ _ _ _ P4 W3 Lrt) as G4.
  assert (N5 : to <> rt).
  { intros ->. pose proof (proj1 (put_ok_iff T b3 rt Rook c W3) (ex_intro _ _ P4)) as Y.
    rewrite G3, G2 in Y. revert Y. eqb_simp. discriminate. }
  assert (K4to : bget b4 to = Some (King, c)) by (rewrite G4, G3, G2; eqb_simp; reflexivity).
  assert (K4from : bget b4 from = None) by (rewrite G4, G3, G2, G1; eqb_simp; reflexivity).
  assert (K4rt : bget b4 rt = Some (Rook, c)) by (rewrite G4; eqb_simp; reflexivity).
  assert (K4rf : bget b4 rf = None) by (rewrite G4, G3; eqb_simp; reflexivity).
  split; [exact W4|]. split; [exact K4to|]. split; [exact K4from|].
  split; [exact K4rt|]. split; [exact K4rf|].
  pose proof (bremove_hash T _ _ _ _ _ R1) as H1'. pose proof (put_hash T _ _ _ _ _ P2) as H2'.
  pose proof (bremove_hash T _ _ _ _ _ R3) as H3'. pose proof (put_hash T _ _ _ _ _ P4) as H4'.
  destruct (bremove_frame T _ _ _ _ _ R1) as (Fa1 & Fb1 & Fc1 & Fd1 & Fe1 & Ff1 & Fg1 & _).
  destruct (put_frame T _ _ _ _ _ P2) as (Fa2 & Fb2 & Fc2 & Fd2 & Fe2 & Ff2 & Fg2 & _).
  destruct (bremove_frame T _ _ _ _ _ R3) as (Fa3 & Fb3 & Fc3 & Fd3 & Fe3 & Ff3 & Fg3 & _).
  destruct (put_frame T _ _ _ _ _ P4) as (Fa4 & Fb4 & Fc4 & Fd4 & Fe4 & Ff4 & Fg4 & _).
  split; [rewrite H4', H3', H2', H1'; reflexivity|].
  split; [congruence|]. split; [congruence|].
  (* the way back *)
  destruct (bremove T b4 to) as [[[pk ck] u1]|] eqn:U1;
    [|apply bremove_none_iff in U1; congruence].
  pose proof (bremove_WF T _ _ _ _ _ U1 W4) as WU1.
  destruct (bremove_bget T _ _ _ _ _ U1 W4) as [KU1 GU1].
  rewrite K4to in KU1. inversion KU1; subst pk ck. clear KU1.
  assert (X2 : bget u1 from = None) by (rewrite GU1; eqb_simp; exact K4from).
  destruct (proj2 (put_ok_iff T u1 from King c WU1) X2) as [u2 U2].
  pose proof (put_WF T _ _ _ _ _ U2 WU1 Lfrom) as WU2.
  pose proof (put_bget T _ _ _ _ _ U2 WU1 Lfrom) as GU2.
  destruct (bremove T u2 rt) as [[[pr cr] u3]|] eqn:U3.
  2:{ apply bremove_none_iff in U3. revert U3. rewrite GU2, GU1. eqb_simp. congruence. }
  pose proof (bremove_WF T _ _ _ _ _ U3 WU2) as WU3.
  destruct (bremove_bget T _ _ _ _ _ U3 WU2) as [KU3 GU3].
  revert KU3. rewrite GU2, GU1. eqb_simp. rewrite K4rt. intro KU3. inversion KU3; subst pr cr. clear KU3.
  assert (X4 : bget u3 rf = None) by (rewrite GU3, GU2, GU1; eqb_simp; exact K4rf).
  destruct (proj2 (put_ok_iff T u3 rf Rook c WU3) X4) as [u4 U4].
  pose proof (put_WF T _ _ _ _ _ U4 WU3 Lrf) as WU4.
  pose proof (put_bget T _ _ _ _ _ U4 WU3 Lrf) as GU4.
  exists u1, u2, u3. split; [reflexivity|]. split; [exact U2|]. split; [exact U3|].
  replace b with u4; [exact U4|].
  pose proof (bremove_hash T _ _ _ _ _ U1) as HU1. pose proof (put_hash T _ _ _ _ _ U2) as HU2.
  pose proof (bremove_hash T _ _ _ _ _ U3) as HU3. pose proof (put_hash T _ _ _ _ _ U4) as HU4.
  destruct (bremove_frame T _ _ _ _ _ U1) as (Ja1 & Jb1 & Jc1 & Jd1 & Je1 & Jf1 & Jg1 & _).
  destruct (put_frame T _ _ _ _ _ U2) as (Ja2 & Jb2 & Jc2 & Jd2 & Je2 & Jf2 & Jg2 & _).
  destruct (bremove_frame T _ _ _ _ _ U3) as (Ja3 & Jb3 & Jc3 & Jd3 & Je3 & Jf3 & Jg3 & _).
  destruct (put_frame T _ _ _ _ _ U4) as (Ja4 & Jb4 & Jc4 & Jd4 & Je4 & Jf4 & Jg4 & _).
  assert (Cells : forall j, bget u4 j = bget b j).
  { intro j. rewrite GU4, GU3, GU2, GU1, G4, G3, G2, G1.
    destruct (N.eqb_spec j rf) as [->|Jrf]; [eqb_simp; congruence|].
    destruct (N.eqb_spec j rt) as [->|Jrt]; [eqb_simp; congruence|].
    destruct (N.eqb_spec j from) as [->|Jfrom]; [eqb_simp; congruence|].
    destruct (N.eqb_spec j to) as [->|Jto]; [eqb_simp; congruence|].
    reflexivity. }
  destruct (WF_sets_ext u4 b WU4 W Cells) as [Sw Sb].
  apply board_ext; try congruence.
  rewrite HU4, HU3, HU2, HU1, H4', H3', H2', H1'. xor_cancel.
Qed.

Lemma remove_unwrap_inv b i b' : remove_unwrap T b i = Ok b' -> exists pc, bremove T b i = Some (pc, b').
Proof.
  unfold remove_unwrap. destruct (bremove T b i) as [[pc b1]|]; [|discriminate].
  intro H. inversion H. exists pc. reflexivity.
Qed.

Lemma apply_castle_ok b from to b' :
  WF b -> apply_castle T b from to = Ok b' ->
  WF b' /\ undo_castle T b' from to = Ok b.
Proof.
  intros W H. unfold apply_castle in H.
  destruct (castle_shape from to) as [[[c rf] rt]| |] eqn:Es; cbn [bind] in H; try discriminate.
  destruct (opt_pc_eqb (bget b from) (Some (King, c))) eqn:C1; cbn [negb] in H; [|discriminate].
  destruct (is_none (bget b to)) eqn:C2; cbn [negb] in H; [|discriminate].
  destruct (opt_pc_eqb (bget b rf) (Some (Rook, c))) eqn:C3; cbn [negb] in H; [|discriminate].
  destruct (is_none (bget b rt)) eqn:C4; cbn [negb] in H; [|discriminate].
  apply opt_pc_eqb_eq in C1, C3. apply is_none_true in C2, C4.
  destruct (castle_shape_inv _ _ _ _ _ (bget_lt64 b from _ W C1) Es) as (Lto & Lrf & Lrt & Nrr).
  bstep H S1. destruct (remove_unwrap_inv _ _ _ S1) as [[p1 c1] R1]. clear S1.
  bstep H S2. apply unwrap_ok_inv in S2.
  bstep H S3. destruct (remove_unwrap_inv _ _ _ S3) as [[p3 c3] R3]. clear S3.
  bstep H S4. apply unwrap_ok_inv in S4.
  bstep H S5. destruct (inc_halfmove_push _ _ S5) as [v ->]. clear S5.
  bstep H S6. bstep H S7.
  destruct (fwd_lose T _ _ _ _ _ _ _ S6 S7 H) as (prev & er & old & crr & Eep & Ecr & ->).
  destruct (relocate2 b c from to rf rt _ _ _ _ _ _ _ _ W Lto Lrt Nrr C1 C2 C3 C4 R1 S2 R3 S4)
    as (W4 & K1 & K2 & K3 & K4 & Hh & Fe & Fc & u1 & u2 & u3 & U1 & U2 & U3 & U4).
  split; [apply bump_WF, W4|].
  unfold undo_castle. rewrite Es. cbn [bind].
  rewrite !bget_bump, K1, K2, K3, K4, !opt_pc_eqb_refl. cbn [is_none negb].
  unfold remove_unwrap.
  rewrite (bremove_bump T _ _ _ _ _ _ _ _ _ U1). cbn [bind].
  rewrite (put_bump T _ _ _ _ _ _ _ _ _ U2). cbn [unwrap bind].
  rewrite (bremove_bump T _ _ _ _ _ _ _ _ _ U3). cbn [bind].
  rewrite (put_bump T _ _ _ _ _ _ _ _ _ U4). cbn [unwrap bind].
  rewrite Fe in Eep. rewrite Fc in Ecr.
  match goal with |- context [dec_fullmove (bump b ?a1 ?a2 ?a3 ?a4)] =>
    destruct (unbump_fh T b a1 a2 a3 a4 _ _ _ _ Eep Ecr) as (y3 & y4 & y5 & Q1 & Q2 & Q3 & Q4) end.
  rewrite Q1; cbn [bind]. rewrite Q2; cbn [bind]. rewrite Q3; cbn [bind]. rewrite Q4.
  rewrite set_hash_id; [reflexivity|].
  rewrite Hh. xor_cancel.
Qed.


(* WF alone does not need the victim side condition *)
Lemma apply_ep_WF b from to b' : WF b -> to < 64 -> apply_ep T b from to = Ok b' -> WF b'.
Proof.
  intros W Lt H. unfold apply_ep in H.
  destruct (bremove T b from) as [[[p c] b1]|] eqn:R1; [|discriminate].
  destruct (negb (piece_eqb p Pawn)); [discriminate|].
  destruct (bremove T b1 (ep_captured_square c to)) as [[[q d] b2]|] eqn:R2; [|discriminate].
  bstep H S4. bstep H S5. bstep H S6.
  apply (put_WF T _ _ _ _ _ H); [|exact Lt].
  apply (preserve_rights_WF _ _ S6). apply (push_ep_WF T _ _ _ S5). apply (inc_fullmove_WF _ _ S4).
  apply reset_halfmove_WF. apply (bremove_WF T _ _ _ _ _ R2). apply (bremove_WF T _ _ _ _ _ R1 W).
Qed.

End WithTable2.

(* ------------------------------------------------------------------ *)
(** * The main theorems *)

Definition sq_ok (m : cmove) : Prop := mv_from m < 64 /\ mv_to m < 64.

Definition is_ep (m : cmove) : bool := match m with EnPassant _ _ => true | _ => false end.

Lemma ep_ok_non_ep m b : is_ep m = false -> ep_ok m b = true.
Proof. destruct m; cbn; intro H; try reflexivity; discriminate. Qed.

Lemma ep_ok_toggle_turn m b : ep_ok m (toggle_turn b) = ep_ok m b.
Proof. reflexivity. Qed.

Section WithTable.
Variable T : ztable.

(* the strongest form: only the destination square has to be a real square *)
Theorem apply_move_ok m b b' :
  WF b -> mv_to m < 64 -> ep_ok m b = true -> apply_move T m b = Ok b' ->
  WF b' /\ undo_move T m b' = Ok b.
Proof.
  intros W Lt Hv H. destruct m as [f t cap|f t cap pp|f t|f t]; cbn [apply_move undo_move mv_to] in *.
  - apply (apply_std_ok T _ _ _ _ _ W Lt H).
  - apply (apply_promo_ok T _ _ _ _ _ _ W Lt H).
  - apply (apply_ep_ok T _ _ _ _ W Lt Hv H).
  - apply (apply_castle_ok T _ _ _ _ W H).
Qed.

Theorem apply_move_WF : forall m b b', WF b -> sq_ok m -> apply_move T m b = Ok b' -> WF b'.
Proof.
  intros m b b' W [_ Lt] H. destruct m as [f t cap|f t cap pp|f t|f t]; cbn [apply_move mv_to] in *.
  - apply (apply_std_ok T _ _ _ _ _ W Lt H).
  - apply (apply_promo_ok T _ _ _ _ _ _ W Lt H).
  - apply (apply_ep_WF T _ _ _ _ W Lt H).
  - apply (apply_castle_ok T _ _ _ _ W H).
Qed.

(* C04, one ply.  NOTE the hypothesis [ep_ok m b = true]: without it the statement is false
   for en-passant moves, see [undo_apply_refuted_ep] below. *)
Theorem undo_apply : forall m b b',
  WF b -> sq_ok m -> ep_ok m b = true -> apply_move T m b = Ok b' -> undo_move T m b' = Ok b.
Proof. intros m b b' W [_ Lt] Hv H. apply (apply_move_ok m b b' W Lt Hv H). Qed.

Corollary undo_apply_non_ep : forall m b b',
  WF b -> sq_ok m -> is_ep m = false -> apply_move T m b = Ok b' -> undo_move T m b' = Ok b.
Proof. intros m b b' W S Hn H. apply (undo_apply m b b' W S (ep_ok_non_ep m b Hn) H). Qed.

Corollary undo_apply_std : forall f t cap b b',
  WF b -> t < 64 -> apply_std T b f t cap = Ok b' -> undo_std T b' f t cap = Ok b.
Proof. intros f t cap b b' W Lt H. apply (apply_std_ok T _ _ _ _ _ W Lt H). Qed.
Corollary undo_apply_promo : forall f t cap pp b b',
  WF b -> t < 64 -> apply_promo T b f t cap pp = Ok b' -> undo_promo T b' f t cap pp = Ok b.
Proof. intros f t cap pp b b' W Lt H. apply (apply_promo_ok T _ _ _ _ _ _ W Lt H). Qed.
Corollary undo_apply_ep : forall f t b b',
  WF b -> t < 64 -> ep_ok (EnPassant f t) b = true -> apply_ep T b f t = Ok b' -> undo_ep T b' f t = Ok b.
Proof. intros f t b b' W Lt Hv H. apply (apply_ep_ok T _ _ _ _ W Lt Hv H). Qed.
Corollary undo_apply_castle : forall f t b b',
  WF b -> apply_castle T b f t = Ok b' -> undo_castle T b' f t = Ok b.
Proof. intros f t b b' W H. apply (apply_castle_ok T _ _ _ _ W H). Qed.

(* a successful application found a piece on the origin square (no invariant needed) *)
Theorem apply_move_from_some m b b' :
  apply_move T m b = Ok b' -> exists p c, bget b (mv_from m) = Some (p, c).
Proof.
  destruct m as [f t cap|f t cap pp|f t|f t]; cbn [apply_move mv_from]; intro H.
  - unfold apply_std in H. destruct (bremove T b f) as [[[p c] b1]|] eqn:R1; [|discriminate].
    apply bremove_some_inv in R1. exists p, c. tauto.
  - unfold apply_promo in H. bstep H S1. unfold apply_std in S1.
    destruct (bremove T b f) as [[[p c] b1]|] eqn:R1; [|discriminate].
    apply bremove_some_inv in R1. exists p, c. tauto.
  - unfold apply_ep in H. destruct (bremove T b f) as [[[p c] b1]|] eqn:R1; [|discriminate].
    apply bremove_some_inv in R1. exists p, c. tauto.
  - unfold apply_castle in H.
    destruct (castle_shape f t) as [[[c rf] rt]| |]; cbn [bind] in H; try discriminate.
    destruct (opt_pc_eqb (bget b f) (Some (King, c))) eqn:C1; cbn [negb] in H; [|discriminate].
    apply opt_pc_eqb_eq in C1. exists King, c. exact C1.
Qed.

(* ... hence the origin square is a real square, and [sq_ok] can be weakened to its second half *)
Corollary apply_move_from_lt64 m b b' : WF b -> apply_move T m b = Ok b' -> mv_from m < 64.
Proof.
  intros W H. destruct (apply_move_from_some m b b' H) as (p & c & G). apply (bget_lt64 b _ _ W G).
Qed.

Corollary apply_move_sq_ok m b b' : WF b -> mv_to m < 64 -> apply_move T m b = Ok b' -> sq_ok m.
Proof. intros W Lt H. split; [apply (apply_move_from_lt64 m b b' W H) | exact Lt]. Qed.

(* ------------------------------------------------------------------ *)
(** * Sequences of any length, undone in reverse order *)

Fixpoint apply_all (ms : list cmove) (b : board) : res board :=
  match ms with
  | [] => Ok b
  | m :: r => let* b1 := apply_move T m b in apply_all r b1
  end.

(* undo_all [m1; ...; mn] undoes mn first and m1 last *)
Fixpoint undo_all (ms : list cmove) (b : board) : res board :=
  match ms with
  | [] => Ok b
  | m :: r => let* b1 := undo_all r b in undo_move T m b1
  end.

(* the en-passant side condition along the path *)
Fixpoint path_ok (ms : list cmove) (b : board) : Prop :=
  match ms with
  | [] => True
  | m :: r => ep_ok m b = true /\ match apply_move T m b with Ok b1 => path_ok r b1 | _ => True end
  end.

Lemma path_ok_no_ep ms b : Forall (fun m => is_ep m = false) ms -> path_ok ms b.
Proof.
  intro F. revert b. induction F as [|m r Hm _ IH]; intro b; cbn [path_ok]; [exact I|].
  split; [apply ep_ok_non_ep, Hm|]. destruct (apply_move T m b); try exact I. apply IH.
Qed.

Lemma apply_all_app ms1 ms2 b :
  apply_all (ms1 ++ ms2) b = let* b1 := apply_all ms1 b in apply_all ms2 b1.
Proof.
  revert b. induction ms1 as [|m r IH]; intro b; cbn [apply_all app bind]; [reflexivity|].
  destruct (apply_move T m b); cbn [bind]; [apply IH|reflexivity|reflexivity].
Qed.

Lemma undo_all_app ms1 ms2 b :
  undo_all (ms1 ++ ms2) b = let* b1 := undo_all ms2 b in undo_all ms1 b1.
Proof.
  induction ms1 as [|m r IH]; cbn [undo_all app].
  - destruct (undo_all ms2 b); reflexivity.
  - rewrite IH. destruct (undo_all ms2 b); reflexivity.
Qed.

Lemma path_ok_app ms1 ms2 b b1 :
  path_ok (ms1 ++ ms2) b -> apply_all ms1 b = Ok b1 -> path_ok ms1 b /\ path_ok ms2 b1.
Proof.
  revert b. induction ms1 as [|m r IH]; intros b P H; cbn [apply_all app path_ok] in *.
  - inversion H; subst. split; [exact I|exact P].
  - destruct P as [Hv P]. destruct (apply_move T m b) as [b0| |]; cbn [bind] in H; try discriminate.
    destruct (IH b0 P H) as [P1 P2]. split; [split; assumption|exact P2].
Qed.

Theorem apply_all_WF ms b b' : WF b -> Forall sq_ok ms -> apply_all ms b = Ok b' -> WF b'.
Proof.
  intros W F. revert b W. induction F as [|m r Hm _ IH]; intros b W H; cbn [apply_all] in H.
  - inversion H; subst; exact W.
  - bstep H S1. apply (IH a); [|exact H]. apply (apply_move_WF m b a W Hm S1).
Qed.

(* C04, any number of plies *)
Theorem undo_apply_seq : forall ms b b',
  WF b -> Forall sq_ok ms -> path_ok ms b -> apply_all ms b = Ok b' -> undo_all ms b' = Ok b.
Proof.
  intros ms b b' W F. revert b W. induction F as [|m r Hm _ IH]; intros b W P H;
    cbn [apply_all undo_all path_ok] in *.
  - inversion H; subst; reflexivity.
  - destruct P as [Hv P]. bstep H S1.
    rewrite (IH a (apply_move_WF m b a W Hm S1) P H). cbn [bind].
    apply (undo_apply m b a W Hm Hv S1).
Qed.

(* undoing m_n .. m_{k+1} gives the state after m_1 .. m_k *)
Theorem undo_apply_seq_prefix : forall ms1 ms2 b b1 b2,
  WF b -> Forall sq_ok (ms1 ++ ms2) -> path_ok (ms1 ++ ms2) b ->
  apply_all ms1 b = Ok b1 -> apply_all ms2 b1 = Ok b2 -> undo_all ms2 b2 = Ok b1.
Proof.
  intros ms1 ms2 b b1 b2 W F P H1' H2'. apply Forall_app in F. destruct F as [F1 F2].
  destruct (path_ok_app ms1 ms2 b b1 P H1') as [_ P2].
  apply (undo_apply_seq ms2 b1 b2 (apply_all_WF ms1 b b1 W F1 H1') F2 P2 H2').
Qed.

(* ... and undoing everything gives the start again, in two stages *)
Corollary undo_apply_seq_app : forall ms1 ms2 b b',
  WF b -> Forall sq_ok (ms1 ++ ms2) -> path_ok (ms1 ++ ms2) b ->
  apply_all (ms1 ++ ms2) b = Ok b' ->
  exists b1, undo_all ms2 b' = Ok b1 /\ apply_all ms1 b = Ok b1 /\ undo_all ms1 b1 = Ok b.
Proof.
  intros ms1 ms2 b b' W F P H. rewrite apply_all_app in H. bstep H S1.
  exists a. pose proof F as F'. apply Forall_app in F'. destruct F' as [F1 F2].
  destruct (path_ok_app ms1 ms2 b a P S1) as [P1 _].
  split; [apply (undo_apply_seq_prefix ms1 ms2 b a b' W F P S1 H)|].
  split; [reflexivity|]. apply (undo_apply_seq ms1 b a W F1 P1 S1).
Qed.

(* ------------------------------------------------------------------ *)
(** * With the side to move toggled between plies (the game loop and the search) *)

Theorem play_unplay : forall m b b',
  WF b -> sq_ok m -> ep_ok m b = true -> apply_move T m b = Ok b' ->
  undo_move T m (toggle_turn (toggle_turn b')) = Ok b.
Proof. intros m b b' W S Hv H. rewrite toggle_turn_involutive. apply (undo_apply m b b' W S Hv H). Qed.

(* apply m1; toggle; apply m2; toggle; ... *)
Fixpoint apply_toggle_all (ms : list cmove) (b : board) : res board :=
  match ms with
  | [] => Ok b
  | m :: r => let* b1 := apply_move T m b in apply_toggle_all r (toggle_turn b1)
  end.

(* ...; toggle; undo m2; toggle; undo m1 *)
Fixpoint untoggle_undo_all (ms : list cmove) (b : board) : res board :=
  match ms with
  | [] => Ok b
  | m :: r => let* b1 := untoggle_undo_all r b in undo_move T m (toggle_turn b1)
  end.

Fixpoint tpath_ok (ms : list cmove) (b : board) : Prop :=
  match ms with
  | [] => True
  | m :: r => ep_ok m b = true
              /\ match apply_move T m b with Ok b1 => tpath_ok r (toggle_turn b1) | _ => True end
  end.

Lemma tpath_ok_no_ep ms b : Forall (fun m => is_ep m = false) ms -> tpath_ok ms b.
Proof.
  intro F. revert b. induction F as [|m r Hm _ IH]; intro b; cbn [tpath_ok]; [exact I|].
  split; [apply ep_ok_non_ep, Hm|]. destruct (apply_move T m b); try exact I. apply IH.
Qed.

Theorem apply_toggle_all_WF ms b b' : WF b -> Forall sq_ok ms -> apply_toggle_all ms b = Ok b' -> WF b'.
Proof.
  intros W F. revert b W. induction F as [|m r Hm _ IH]; intros b W H; cbn [apply_toggle_all] in H.
  - inversion H; subst; exact W.
  - bstep H S1. apply (IH (toggle_turn a)); [|exact H].
    apply toggle_turn_WF. apply (apply_move_WF m b a W Hm S1).
Qed.

Theorem play_unplay_seq : forall ms b b',
  WF b -> Forall sq_ok ms -> tpath_ok ms b -> apply_toggle_all ms b = Ok b' ->
  untoggle_undo_all ms b' = Ok b.
Proof.
  intros ms b b' W F. revert b W. induction F as [|m r Hm _ IH]; intros b W P H;
    cbn [apply_toggle_all untoggle_undo_all tpath_ok] in *.
  - inversion H; subst; reflexivity.
  - destruct P as [Hv P]. bstep H S1.
    rewrite (IH (toggle_turn a) (toggle_turn_WF _ (apply_move_WF m b a W Hm S1)) P H). cbn [bind].
    apply (play_unplay m b a W Hm Hv S1).
Qed.

End WithTable.

(* ------------------------------------------------------------------ *)
(** * Non-vacuity, and the counter-example without the en-passant side condition *)

Definition put_list (T : ztable) (l : list (N * piece * color)) (b : board) : res board :=
  fold_left (fun r x => let* b0 := r in put T b0 (fst (fst x)) (snd (fst x)) (snd x)) l (Ok b).

Lemma put_list_WF T l : forall b b',
  Forall (fun x => fst (fst x) < 64) l -> WF b -> put_list T l b = Ok b' -> WF b'.
Proof.
  unfold put_list. induction l as [|x r IH]; intros b b' F W H; cbn [fold_left] in H.
  - inversion H; subst; exact W.
  - inversion F as [|x' r' Hx Fr]; subst. cbn [bind] in H.
    destruct (put T b (fst (fst x)) (snd (fst x)) (snd x)) as [b1| |] eqn:P.
    + apply (IH b1 b' Fr (put_WF T _ _ _ _ _ P W Hx) H).
    + exfalso. clear -H. induction r as [|y r IHr]; cbn [fold_left bind] in H; [discriminate|auto].
    + exfalso. clear -H. induction r as [|y r IHr]; cbn [fold_left bind] in H; [discriminate|auto].
Qed.

Definition board_of (T : ztable) (l : list (N * piece * color)) : board :=
  match put_list T l board_new with Ok b => b | _ => board_new end.

(* the initial position *)
Definition start_cells : list (N * piece * color) :=
  [(0, Rook, White); (1, Knight, White); (2, Bishop, White); (3, Queen, White); (4, King, White);
   (5, Bishop, White); (6, Knight, White); (7, Rook, White);
   (8, Pawn, White); (9, Pawn, White); (10, Pawn, White); (11, Pawn, White); (12, Pawn, White);
   (13, Pawn, White); (14, Pawn, White); (15, Pawn, White);
   (48, Pawn, Black); (49, Pawn, Black); (50, Pawn, Black); (51, Pawn, Black); (52, Pawn, Black);
   (53, Pawn, Black); (54, Pawn, Black); (55, Pawn, Black);
   (56, Rook, Black); (57, Knight, Black); (58, Bishop, Black); (59, Queen, Black); (60, King, Black);
   (61, Bishop, Black); (62, Knight, Black); (63, Rook, Black)].

(* a middlegame position in which every kind of move is available to White:
   Ke1 Ra1 Rh1 Nc3 Pe5 Pb7 / Ke8 Na8 Bc8 Pd5 *)
Definition demo_cells : list (N * piece * color) :=
  [(4, King, White); (0, Rook, White); (7, Rook, White); (18, Knight, White); (36, Pawn, White);
   (49, Pawn, White); (60, King, Black); (56, Knight, Black); (58, Bishop, Black); (35, Pawn, Black)].

Definition start_b : board := board_of example_table start_cells.
Definition demo_b : board := board_of example_table demo_cells.

Lemma board_of_WF l : Forall (fun x => fst (fst x) < 64) l ->
  (exists b, put_list example_table l board_new = Ok b) -> WF (board_of example_table l).
Proof.
  intros F [b H]. unfold board_of. rewrite H. apply (put_list_WF example_table l board_new b F WF_new H).
Qed.

Lemma cells_lt64_dec l : forallb (fun x : N * piece * color => fst (fst x) <? 64) l = true ->
  Forall (fun x => fst (fst x) < 64) l.
Proof. intro H. apply Forall_forall. intros x Hx. apply N.ltb_lt. apply (proj1 (forallb_forall _ l) H x Hx). Qed.

Lemma start_b_WF : WF start_b.
Proof. apply board_of_WF; [apply cells_lt64_dec; vm_compute; reflexivity|]. eexists. vm_compute. reflexivity. Qed.
Lemma demo_b_WF : WF demo_b.
Proof. apply board_of_WF; [apply cells_lt64_dec; vm_compute; reflexivity|]. eexists. vm_compute. reflexivity. Qed.

Definition roundtrip (T : ztable) (m : cmove) (b : board) : Prop :=
  match apply_move T m b with
  | Ok b' => undo_move T m b' = Ok b /\ hash b' <> hash b
  | _ => False
  end.

(* e2-e4 from the initial position (creates an en-passant target) *)
Example ex_std_quiet : roundtrip example_table (Std 12 28 None) start_b /\ ep_ok (Std 12 28 None) start_b = true.
Proof. split; [|reflexivity]. vm_compute. split; [reflexivity|discriminate]. Qed.
(* Ng1-f3 from the initial position *)
Example ex_std_knight : roundtrip example_table (Std 6 21 None) start_b.
Proof. vm_compute. split; [reflexivity|discriminate]. Qed.
(* Nc3xd5 *)
Example ex_std_capture : roundtrip example_table (Std 18 35 (Some Pawn)) demo_b.
Proof. vm_compute. split; [reflexivity|discriminate]. Qed.
(* Rh1-h8: a rook move that loses a castling right *)
Example ex_std_rook : roundtrip example_table (Std 7 63 None) demo_b.
Proof. vm_compute. split; [reflexivity|discriminate]. Qed.
(* b7xa8=Q, a capturing promotion, and b7-b8=N *)
Example ex_promo_capture : roundtrip example_table (Promo 49 56 (Some Knight) Queen) demo_b.
Proof. vm_compute. split; [reflexivity|discriminate]. Qed.
Example ex_promo_quiet : roundtrip example_table (Promo 49 57 None Knight) demo_b.
Proof. vm_compute. split; [reflexivity|discriminate]. Qed.
(* e5xd6 e.p. *)
Example ex_ep : roundtrip example_table (EnPassant 36 43) demo_b /\ ep_ok (EnPassant 36 43) demo_b = true.
Proof. split; [|reflexivity]. vm_compute. split; [reflexivity|discriminate]. Qed.
(* O-O and O-O-O *)
Example ex_castle_k : roundtrip example_table (Castle 4 6) demo_b.
Proof. vm_compute. split; [reflexivity|discriminate]. Qed.
Example ex_castle_q : roundtrip example_table (Castle 4 2) demo_b.
Proof. vm_compute. split; [reflexivity|discriminate]. Qed.

Definition demo_line : list cmove :=
  [Std 18 35 (Some Pawn); Castle 4 6; Promo 49 56 (Some Knight) Queen; Std 36 44 None; Std 5 61 None].

Example ex_seq :
  Forall sq_ok demo_line /\ path_ok example_table demo_line demo_b
  /\ match apply_all example_table demo_line demo_b with
     | Ok b' => undo_all example_table demo_line b' = Ok demo_b /\ hash b' <> hash demo_b
     | _ => False
     end.
Proof.
  split; [repeat constructor; vm_compute; reflexivity|].
  split; [vm_compute; repeat split; reflexivity|].
  vm_compute. split; [reflexivity|discriminate].
Qed.

Example ex_seq_toggle :
  tpath_ok example_table [Std 12 28 None; Std 52 36 None; Std 6 21 None; Std 57 42 None] start_b
  /\ match apply_toggle_all example_table [Std 12 28 None; Std 52 36 None; Std 6 21 None; Std 57 42 None] start_b with
     | Ok b' => untoggle_undo_all example_table [Std 12 28 None; Std 52 36 None; Std 6 21 None; Std 57 42 None] b' = Ok start_b
                /\ fullmove b' <> fullmove start_b
     | _ => False
     end.
Proof. split; [vm_compute; repeat split; reflexivity|]. vm_compute. split; [reflexivity|discriminate]. Qed.

(* ---- the counter-example: [undo_apply] is FALSE without [ep_ok] ----
   demo position with a black KNIGHT (resp. a WHITE knight) on d5 instead of the black pawn:
   "e5xd6 e.p." is accepted by apply (it removes whatever stands on d5), and undo puts a black
   PAWN on d5.  Board, squares and move satisfy WF and sq_ok. *)
Definition bad_cells (victim : piece * color) : list (N * piece * color) :=
  [(4, King, White); (36, Pawn, White); (60, King, Black); (35, fst victim, snd victim)].
Definition bad_b (victim : piece * color) : board := board_of example_table (bad_cells victim).

Lemma bad_b_WF v : WF (bad_b v).
Proof.
  apply board_of_WF; [apply cells_lt64_dec; reflexivity|].
  destruct v as [p c]. destruct p, c; eexists; vm_compute; reflexivity.
Qed.

Example undo_apply_refuted_ep :
  let m := EnPassant 36 43 in
  let b := bad_b (Knight, Black) in
  WF b /\ sq_ok m /\ ep_ok m b = false
  /\ exists b' b'', apply_move example_table m b = Ok b' /\ undo_move example_table m b' = Ok b''
       /\ b'' <> b /\ bget b 35 = Some (Knight, Black) /\ bget b'' 35 = Some (Pawn, Black).
Proof.
  cbv zeta. split; [apply bad_b_WF|]. split; [split; reflexivity|]. split; [reflexivity|].
  eexists. eexists. split; [vm_compute; reflexivity|]. split; [vm_compute; reflexivity|].
  split; [intro H; apply (f_equal (fun x => bget x 35)) in H; vm_compute in H; discriminate|].
  split; vm_compute; reflexivity.
Qed.

Example undo_apply_refuted_ep_own_piece :
  let m := EnPassant 36 43 in
  let b := bad_b (Knight, White) in
  WF b /\ sq_ok m /\ ep_ok m b = false
  /\ exists b' b'', apply_move example_table m b = Ok b' /\ undo_move example_table m b' = Ok b''
       /\ b'' <> b /\ bget b 35 = Some (Knight, White) /\ bget b'' 35 = Some (Pawn, Black).
Proof.
  cbv zeta. split; [apply bad_b_WF|]. split; [split; reflexivity|]. split; [reflexivity|].
  eexists. eexists. split; [vm_compute; reflexivity|]. split; [vm_compute; reflexivity|].
  split; [intro H; apply (f_equal (fun x => bget x 35)) in H; vm_compute in H; discriminate|].
  split; vm_compute; reflexivity.
Qed.

(* [mv_to m < 64] is needed for [apply_move_WF]: a quiet move "to square 64" succeeds and sets
   bit 64 of a bitboard *)
Example apply_move_WF_needs_to_lt64 :
  exists b', apply_move example_table (Std 6 64 None) start_b = Ok b' /\ ~ WF b'.
Proof.
  eexists. split; [vm_compute; reflexivity|].
  intros (Ww & _). destruct Ww as (_ & _ & F). specialize (F 64 (N.le_refl 64)). vm_compute in F. discriminate.
Qed.

Print Assumptions apply_move_WF.
Print Assumptions undo_apply.
Print Assumptions undo_apply_seq.
Print Assumptions undo_apply_seq_prefix.
Print Assumptions play_unplay_seq.
Print Assumptions undo_apply_refuted_ep.
