(* InvProofs2.v — property C12, part 2: every move the generator proposes (pseudo-legal or
   legal) has the shape [gen_shape] that InvProofs.apply_Repr asks for; the invariant [Inv]
   (= Abs.inv_ok, plus "the en-passant target is a u64") is kept by every legal move followed
   by toggle_turn; so [Repr] holds in every state visited from a consistent position,
   including the transient ones between a candidate move and its undo. *)
From Coq Require Import Lia ZArith NArith List Bool.
From ChessV Require Import Abs WfReflect GeomProofs EpFrame GenFrame TurnIndep.
From ChessV Require Export InvProofs.

#[local] Arguments N.add : simpl never.
#[local] Arguments N.sub : simpl never.
#[local] Arguments N.mul : simpl never.
#[local] Arguments N.div : simpl never.
#[local] Arguments N.modulo : simpl never.
#[local] Arguments N.eqb : simpl never.
#[local] Arguments N.ltb : simpl never.
#[local] Arguments N.leb : simpl never.
#[local] Arguments N.shiftl : simpl never.
#[local] Arguments N.shiftr : simpl never.
#[local] Arguments N.land : simpl never.
#[local] Arguments N.lor : simpl never.
#[local] Arguments N.lxor : simpl never.
#[local] Arguments N.ldiff : simpl never.
#[local] Arguments N.testbit : simpl never.

(* ------------------------------------------------------------------ *)
(** * the union of a PieceTargetList (as in AttackProofs.v; repeated to keep this file light) *)

Lemma Inv_mem_fold_lor_snd (j : N) : forall (l : ptl) a,
  mem j (fold_left (fun acc pt => N.lor acc (snd pt)) l a)
  = mem j a || existsb (fun pt => mem j (snd pt)) l.
Proof.
  induction l as [|pt l IH]; intro a; cbn [fold_left existsb].
  - rewrite orb_false_r. reflexivity.
  - rewrite IH, mem_lor, orb_assoc. reflexivity.
Qed.

Definition union_of (l : ptl) : N := fold_left (fun acc pt => N.lor acc (snd pt)) l 0.

Lemma mem_union_of j l : mem j (union_of l) = existsb (fun pt => mem j (snd pt)) l.
Proof. unfold union_of. rewrite Inv_mem_fold_lor_snd, mem_0. reflexivity. Qed.

(* ------------------------------------------------------------------ *)
(** * pawn geometry: three finite sweeps (colour x 64 x 64) *)

Definition sweepA (c : color) (f t : N) : bool :=
  implb (targ c f t && (8 <=? f) && (f <? 56) && negb (mem t (promo_rank c)))
        ((8 <=? t) && (t <? 56)).

Definition sweepB (c : color) (f t : N) : bool :=
  implb ((mem t (pawn_step c (bit f)) || mem t (pawn_step c (pawn_step c (bit f))))
         && negb (ep_target_of Pawn c f t =? 0))
        (match c with
         | White => (t =? f + 16) && (pawn_step c (bit f) =? bit (f + 8))
         | Black => (f =? t + 16) && (pawn_step c (bit f) =? bit (t + 8))
         end).

Definition sweepC (c : color) (f t : N) : bool :=
  implb (mem t (pawn_attack_east c (bit f)) || mem t (pawn_attack_west c (bit f)))
        (ep_target_of Pawn c f t =? 0).

Lemma sweepA_ok c f t : f < 64 -> t < 64 -> sweepA c f t = true.
Proof. apply (sweep_c64x64 sweepA). vm_compute. reflexivity. Qed.
Lemma sweepB_ok c f t : f < 64 -> t < 64 -> sweepB c f t = true.
Proof. apply (sweep_c64x64 sweepB). vm_compute. reflexivity. Qed.
Lemma sweepC_ok c f t : f < 64 -> t < 64 -> sweepC c f t = true.
Proof. apply (sweep_c64x64 sweepC). vm_compute. reflexivity. Qed.

Lemma partition_fst_true {A} (f : A -> bool) (l l1 l2 : list A) :
  partition f l = (l1, l2) -> forall x, In x l1 -> f x = true.
Proof.
  revert l1 l2. induction l as [|a l IH]; intros l1 l2 H x Hx; cbn [partition] in H.
  - inversion H; subst. destruct Hx.
  - destruct (partition f l) as [g d]. destruct (f a) eqn:Fa; inversion H; subst.
    + destruct Hx as [<-|Hx]; [exact Fa|exact (IH _ _ eq_refl x Hx)].
    + exact (IH _ _ eq_refl x Hx).
Qed.

Lemma promo_rank_last c t : mem t (promo_rank c) = true -> t < 8 \/ 56 <= t.
Proof.
  intro H. pose proof (mem_rank18 t) as M. rewrite mem_lor in M.
  assert (X : mem t RANK_1 || mem t RANK_8 = true).
  { destruct c; cbn [promo_rank] in H; rewrite H; [reflexivity|apply orb_true_r]. }
  rewrite X in M. symmetry in M. apply orb_true_iff in M. destruct M as [M|M].
  - left. apply N.ltb_lt. exact M.
  - right. apply andb_true_iff in M. apply N.leb_le. apply M.
Qed.

(* ------------------------------------------------------------------ *)
(** * the reachable-state invariant *)

Section Gen.
Variable T : ztable.
Variables rook_t bishop_t : N -> N -> N.

Notation attack_targets := (attack_targets rook_t bishop_t).
Notation pseudo_moves := (pseudo_moves rook_t bishop_t).
Notation gen_moves := (gen_moves T rook_t bishop_t).
Notation in_check := (in_check rook_t bishop_t).

(* Abs.inv_ok in Prop form, for the side c that is about to move, plus one typing fact the
   executable check leaves implicit: the en-passant target is a u64.
   (The generator is also run for a side that is not [turn b] — MoveGen.effect_of generates
   the replies before toggling — so the side is a parameter; [Inv b] is the case c = turn b.) *)
Definition InvC (b : board) (c : color) : Prop :=
  Repr b
  /\ in_check b (opp_c c) = false
  /\ (top (ep_stack b) = 0 \/ rank_of (tz (top (ep_stack b))) = ep_mover_rank c)
  /\ top (ep_stack b) <= ALL64.

Definition Inv (b : board) : Prop := InvC b (turn b).

Definition invb (b : board) : bool := inv_ok rook_t bishop_t b && (top (ep_stack b) <=? ALL64).

Theorem invb_spec b : invb b = true <-> Inv b.
Proof.
  unfold invb, inv_ok, Inv, InvC. rewrite !andb_true_iff, repr_ok_iff, negb_true_iff, N.leb_le.
  cbv zeta. rewrite orb_true_iff, is_empty_spec, N.eqb_eq.
  assert (E : match turn b with White => 5 | Black => 2 end = ep_mover_rank (turn b))
    by (destruct (turn b); reflexivity).
  rewrite E. tauto.
Qed.

Lemma InvC_Repr b c : InvC b c -> Repr b.
Proof. intros [R _]. exact R. Qed.

(* the en-passant part of InvC, read by the side to move *)
Lemma InvC_ep b c : InvC b c ->
  top (ep_stack b) = 0 \/
  exists e, e < 64 /\ top (ep_stack b) = bit e /\ rank_of e = ep_mover_rank c.
Proof.
  intros (R & _ & Rk & F).
  destruct Rk as [Z|Rk]; [left; exact Z|].
  destruct R as (_ & _ & _ & _ & _ & _ & _ & _ & E). unfold ep_shape in E. cbv zeta in E.
  destruct E as [Z|[P _]]; [left; exact Z|]. right.
  apply fits64_le in F. destruct (popcount_1_bit _ F P) as (e & Le & Ee).
  exists e. split; [exact Le|]. split; [exact Ee|].
  rewrite Ee, (BoardLemmas.tz_bit e Le) in Rk. exact Rk.
Qed.

Lemma InvC_ep_wf b c : InvC b c -> EpFrame.ep_wf b c.
Proof.
  intros I t Pk. destruct (peek_ep_top _ _ Pk) as [Et _].
  destruct (InvC_ep b c I) as [Z|(e & Le & Ee & Rk)]; [left; congruence|right].
  exists e. split; [exact Le|]. split; [congruence|].
  destruct I as (R & _). destruct R as (_ & _ & _ & _ & _ & _ & _ & _ & E).
  apply (ep_victim b c e E Ee Le Rk).
Qed.

(* ------------------------------------------------------------------ *)
(** * 3. what the generator emits has the generated shape *)

(* the mover owns the piece on the origin square *)
Definition own_move (b : board) (c : color) (m : cmove) : Prop :=
  exists p, bget b (mv_from m) = Some (p, c).

(* the facts about the position that the shape of the candidates rests on *)
Definition ps_hyp (b : board) (c : color) : Prop :=
  Repr b
  (* the side not to move is not in check: no enemy king on an attacked square *)
  /\ (forall t, mem t (attack_targets b c) = true -> pget (pieces b (opp_c c)) t <> Some King)
  /\ (top (ep_stack b) = 0 \/
      exists e, e < 64 /\ top (ep_stack b) = bit e /\ rank_of e = ep_mover_rank c).

Lemma nonpawn_std_shape b c (PS : ps_hyp b c) f t p cap :
  f < 64 -> t < 64 -> bget b f = Some (p, c) -> p <> Pawn -> cap <> Some King ->
  gen_shape b (Std f t cap) /\ own_move b c (Std f t cap).
Proof.
  pose proof PS as (R & NK & EW). pose proof (Repr_WF b R) as W.
  intros Lf Lt G0 Np Hcap. split; [|exists p; exact G0].
  unfold gen_shape. cbn [mv_from mv_to]. rewrite G0.
  split; [exact Lf|]. split; [exact Lt|]. split; [exact Hcap|]. split.
  - intro X. contradiction.
  - rewrite (ep_target_of_nonpawn p c f t Np). intro X. contradiction.
Qed.

Lemma in_attack_list b c (PS : ps_hyp b c) pt t (l : ptl) :
  (exists l1 l2, pawn_attack_targets b c ++ sliding_targets rook_t bishop_t b c
                 ++ table_targets knight_targets b c Knight ++ table_targets king_targets b c King
                 = l1 ++ l ++ l2) ->
  In pt l -> mem t (snd pt) = true -> mem t (attack_targets b c) = true.
Proof.
  pose proof PS as (R & NK & EW). pose proof (Repr_WF b R) as W.
  intros (l1 & l2 & E) Hin Mt.
  change (attack_targets b c) with
    (union_of (pawn_attack_targets b c ++ sliding_targets rook_t bishop_t b c
               ++ table_targets knight_targets b c Knight ++ table_targets king_targets b c King)).
  rewrite E, mem_union_of. apply existsb_exists. exists pt. split; [|exact Mt].
  apply in_or_app. right. apply in_or_app. left. exact Hin.
Qed.

Lemma expand_nonpawn_shape b c (PS : ps_hyp b c) (pts : ptl) :
  (forall pt, In pt pts ->
     (exists p, p <> Pawn /\ bget b (fst pt) = Some (p, c))
     /\ (forall t, mem t (snd pt) = true -> mem t (attack_targets b c) = true)) ->
  forall m, In m (expand b c pts) -> gen_shape b m /\ own_move b c m.
Proof.
  pose proof PS as (R & NK & EW). pose proof (Repr_WF b R) as W.
  intros H m Hm. apply in_expand in Hm. destruct Hm as (pt & t & Hpt & Lt & Mt & ->).
  destruct (H pt Hpt) as [(p & Np & G0) Att].
  apply (nonpawn_std_shape b c PS (fst pt) t p _ (bget_lt64 b _ _ W G0) Lt G0 Np).
  apply NK. apply Att. exact Mt.
Qed.

(* ---- pawns ---- *)
Lemma pawn_all_inv2 b c (PS : ps_hyp b c) m : In m (pawn_all b c) ->
  exists f t, m = Std f t (pget (pieces b (opp_c c)) t) /\ f < 64 /\ t < 64
    /\ bget b f = Some (Pawn, c)
    /\ ((overlaps (pawn_step c (bit f)) (occupied b) = false
         /\ mem t (pawn_step c (bit f)) || mem t (pawn_step c (pawn_step c (bit f))) = true
         /\ mem t (occupied b) = false)
        \/ (mem t (pawn_attack_east c (bit f)) || mem t (pawn_attack_west c (bit f)) = true
            /\ mem t (attack_targets b c) = true)).
Proof.
  pose proof PS as (R & NK & EW). pose proof (Repr_WF b R) as W.
  intro H. unfold pawn_all in H. apply in_expand in H.
  destruct H as (pt & t & Hpt & Lt & Mt & ->).
  exists (fst pt), t. split; [reflexivity|].
  apply in_app_or in Hpt. destruct Hpt as [Hpt|Hpt].
  - unfold pawn_move_targets in Hpt. apply in_flat_map in Hpt. destruct Hpt as [x [Hx Hpt]].
    apply BitsLemmas.in_squares in Hx. destruct (mem x _) eqn:Mx; [|destruct Hpt].
    destruct (overlaps _ _) eqn:Ov; [destruct Hpt|]. cbv zeta in Hpt.
    destruct (is_empty _); [destruct Hpt|]. destruct Hpt as [<-|[]]. cbn [fst snd] in *.
    split; [exact Hx|]. split; [exact Lt|]. split; [exact (own_pawn b c x W Mx)|].
    left. split; [exact Ov|].
    rewrite mem_lor, !mem_land, !mem_andn in Mt.
    apply orb_true_iff in Mt.
    destruct Mt as [Mt|Mt]; apply andb_true_iff in Mt; destruct Mt as [Mt Mo];
      apply andb_true_iff in Mo; destruct Mo as [_ Mo]; apply negb_true_iff in Mo;
      rewrite Mt, Mo; rewrite ?orb_true_r; split; reflexivity.
  - unfold pawn_caps in Hpt. apply in_flat_map in Hpt. destruct Hpt as [pt' [Hpt' Hpt]].
    destruct (overlaps _ _); [|destruct Hpt]. destruct Hpt as [<-|[]]. cbn [fst snd] in *.
    rewrite mem_land in Mt. apply andb_true_iff in Mt. destruct Mt as [Mt _].
    assert (Att : mem t (attack_targets b c) = true).
    { apply (in_attack_list b c PS pt' t (pawn_attack_targets b c)); [|exact Hpt'|exact Mt].
      exists [], (sliding_targets rook_t bishop_t b c
                  ++ table_targets knight_targets b c Knight ++ table_targets king_targets b c King).
      reflexivity. }
    unfold pawn_attack_targets in Hpt'. apply in_flat_map in Hpt'. destruct Hpt' as [x [Hx Hpt']].
    apply BitsLemmas.in_squares in Hx. destruct (mem x _) eqn:Mx; [|destruct Hpt'].
    destruct Hpt' as [<-|[]]. cbn [fst snd] in *.
    split; [exact Hx|]. split; [exact Lt|]. split; [exact (own_pawn b c x W Mx)|].
    right. rewrite mem_lor in Mt. split; [exact Mt|exact Att].
Qed.

Lemma pawn_cap_ok b c (PS : ps_hyp b c) f t :
  ((overlaps (pawn_step c (bit f)) (occupied b) = false
    /\ mem t (pawn_step c (bit f)) || mem t (pawn_step c (pawn_step c (bit f))) = true
    /\ mem t (occupied b) = false)
   \/ (mem t (pawn_attack_east c (bit f)) || mem t (pawn_attack_west c (bit f)) = true
       /\ mem t (attack_targets b c) = true)) ->
  pget (pieces b (opp_c c)) t <> Some King.
Proof.
  pose proof PS as (R & NK & EW). pose proof (Repr_WF b R) as W.
  intros [(_ & _ & Mo)|(_ & Att)]; [|apply NK; exact Att].
  rewrite (mem_occupied_c b t (opp_c c)) in Mo. apply orb_false_elim in Mo. destruct Mo as [Mo _].
  rewrite (proj2 (pget_none _ t (WF_pieces b (opp_c c) W)) Mo). discriminate.
Qed.

Lemma pawn_targ b c (PS : ps_hyp b c) f t :
  ((overlaps (pawn_step c (bit f)) (occupied b) = false
    /\ mem t (pawn_step c (bit f)) || mem t (pawn_step c (pawn_step c (bit f))) = true
    /\ mem t (occupied b) = false)
   \/ (mem t (pawn_attack_east c (bit f)) || mem t (pawn_attack_west c (bit f)) = true
       /\ mem t (attack_targets b c) = true)) ->
  targ c f t = true.
Proof.
  pose proof PS as (R & NK & EW). pose proof (Repr_WF b R) as W.
  unfold targ. intros [(_ & M & _)|(M & _)].
  - rewrite M. reflexivity.
  - apply orb_true_iff in M. destruct M as [M|M]; rewrite M; rewrite ?orb_true_r; reflexivity.
Qed.

Lemma pawn_std_shape b c (PS : ps_hyp b c) f t :
  f < 64 -> t < 64 -> bget b f = Some (Pawn, c) ->
  ((overlaps (pawn_step c (bit f)) (occupied b) = false
    /\ mem t (pawn_step c (bit f)) || mem t (pawn_step c (pawn_step c (bit f))) = true
    /\ mem t (occupied b) = false)
   \/ (mem t (pawn_attack_east c (bit f)) || mem t (pawn_attack_west c (bit f)) = true
       /\ mem t (attack_targets b c) = true)) ->
  mem t (promo_rank c) = false ->
  gen_shape b (Std f t (pget (pieces b (opp_c c)) t)).
Proof.
  pose proof PS as (R & NK & EW). pose proof (Repr_WF b R) as W.
  intros Lf Lt G0 K NP.
  unfold gen_shape. cbn [mv_from mv_to]. rewrite G0.
  split; [exact Lf|]. split; [exact Lt|]. split; [apply (pawn_cap_ok b c PS f t K)|]. split.
  - intros _.
    destruct R as (_ & _ & _ & Pm & _). destruct (Pm _ _ G0) as [F8 F56].
    pose proof (sweepA_ok c f t Lf Lt) as S. unfold sweepA in S.
    rewrite (pawn_targ b c PS f t K), NP in S.
    destruct (N.leb_spec 8 f); [|lia]. destruct (N.ltb_spec f 56); [|lia].
    cbn [andb negb implb] in S. apply andb_true_iff in S.
    rewrite N.leb_le, N.ltb_lt in S. exact S.
  - intro NZ. destruct K as [(Ov & M & Mo)|(M & _)].
    + pose proof (sweepB_ok c f t Lf Lt) as S. unfold sweepB in S.
      rewrite M in S. destruct (N.eqb_spec (ep_target_of Pawn c f t) 0) as [Z|_]; [contradiction|].
      cbn [andb negb implb] in S.
      destruct c; apply andb_true_iff in S; destruct S as [S1 S2];
        apply N.eqb_eq in S1, S2; rewrite S2 in Ov; (split; [exact S1|]);
        apply (bget_none_iff b _ W);
        match goal with |- mem ?i _ = false =>
          destruct (mem i (occupied b)) eqn:X; [|reflexivity];
          exfalso; assert (Y : overlaps (bit i) (occupied b) = true)
            by (apply overlaps_spec; exists i; split; [apply mem_bit_same|exact X]);
          congruence
        end.
    + exfalso. pose proof (sweepC_ok c f t Lf Lt) as S. unfold sweepC in S.
      rewrite M in S. cbn [implb] in S. apply N.eqb_eq in S. contradiction.
Qed.

Lemma promo_shape b c (PS : ps_hyp b c) f t pp :
  f < 64 -> t < 64 ->
  pget (pieces b (opp_c c)) t <> Some King ->
  mem t (promo_rank c) = true -> In pp PAWN_PROMOTIONS ->
  gen_shape b (Promo f t (pget (pieces b (opp_c c)) t) pp).
Proof.
  pose proof PS as (R & NK & EW). pose proof (Repr_WF b R) as W.
  intros Lf Lt K PR Hpp. unfold gen_shape. cbn [mv_from mv_to].
  split; [exact Lf|]. split; [exact Lt|]. split; [exact K|].
  cbn [In PAWN_PROMOTIONS] in Hpp.
  split; [destruct Hpp as [<-|[<-|[<-|[<-|[]]]]]; discriminate|].
  split; [destruct Hpp as [<-|[<-|[<-|[<-|[]]]]]; discriminate|].
  apply (promo_rank_last c t PR).
Qed.

Lemma ep_moves_shape b c (PS : ps_hyp b c) l : ep_moves b c = Ok l ->
  forall m, In m l -> gen_shape b m /\ own_move b c m.
Proof.
  pose proof PS as (R & NK & EW). pose proof (Repr_WF b R) as W.
  intros H m Hm. unfold ep_moves in H.
  destruct (peek_ep b) as [t| |] eqn:Pk; try discriminate. cbn [bind] in H.
  destruct (is_empty t) eqn:Ee; [inversion H; subst l; destruct Hm|]. cbv zeta in H.
  apply EF_Ok_inj in H. subst l.
  destruct (peek_ep_top _ _ Pk) as [Et _].
  destruct EW as [Z|(e & Le & Ee' & Rk)].
  { rewrite Et in Z. subst t. discriminate Ee. }
  rewrite Et in Ee'. subst t. rewrite (BoardLemmas.tz_bit e Le) in Hm.
  pose proof (WFs_fits_locate (pieces b c) Pawn (WF_pieces b c W)) as F. cbn [locate] in F.
  assert (Shape : forall f, mem f (pw (pieces b c)) = true ->
            gen_shape b (EnPassant f e) /\ own_move b c (EnPassant f e)).
  { intros f Mf. pose proof (own_pawn b c f W Mf) as G0.
    split; [|exists Pawn; exact G0].
    unfold gen_shape. cbn [mv_from mv_to]. rewrite G0.
    split; [apply (bget_lt64 b f _ W G0)|]. split; [exact Le|]. split; [exact Pk|exact Rk]. }
  apply in_app_or in Hm. destruct Hm as [Hm|Hm].
  - destruct (overlaps (pawn_attack_west c _) (bit e)) eqn:O; [|destruct Hm].
    destruct Hm as [<-|[]]. apply EpFrame.overlaps_bit in O.
    destruct c; unfold pawn_attack_west in O; cbv beta iota.
    + destruct (EpFrame.ep_src_shr _ e 7 _ F O) as [-> Hm]. apply Shape. exact Hm.
    + destruct (EpFrame.ep_src_shl _ e 9 _ O) as [-> Hm]. apply Shape. exact Hm.
  - destruct (overlaps (pawn_attack_east c _) (bit e)) eqn:O; [|destruct Hm].
    destruct Hm as [<-|[]]. apply EpFrame.overlaps_bit in O.
    destruct c; unfold pawn_attack_east in O; cbv beta iota.
    + destruct (EpFrame.ep_src_shr _ e 9 _ F O) as [-> Hm]. apply Shape. exact Hm.
    + destruct (EpFrame.ep_src_shl _ e 7 _ O) as [-> Hm]. apply Shape. exact Hm.
Qed.

Lemma pawn_moves_shape b c (PS : ps_hyp b c) l : pawn_moves b c = Ok l ->
  forall m, In m l -> gen_shape b m /\ own_move b c m.
Proof.
  pose proof PS as (R & NK & EW). pose proof (Repr_WF b R) as W.
  intros H m Hm. rewrite pawn_moves_unfold in H.
  destruct (partition _ (pawn_all b c)) as [std promotable] eqn:Ep. cbv zeta in H.
  destruct (ep_moves b c) as [eps| |] eqn:Heps; try discriminate. cbn [bind] in H.
  inversion H; subst l; clear H.
  pose proof (elements_in_partition _ _ Ep) as Hpart.
  apply in_app_or in Hm. destruct Hm as [Hm|Hm]; [|apply in_app_or in Hm; destruct Hm as [Hm|Hm]].
  - apply in_flat_map in Hm. destruct Hm as [m0 [Hm0 Hm]].
    pose proof (partition_snd_false _ _ _ _ Ep m0 Hm0) as PR. apply negb_false_iff in PR.
    assert (Hin : In m0 (pawn_all b c)) by (apply Hpart; right; exact Hm0).
    destruct (pawn_all_inv2 b c PS m0 Hin) as (f & t & -> & Lf & Lt & G0 & K).
    cbn [mv_from mv_to mv_captures] in *.
    assert (Hpp : exists pp, m = Promo f t (pget (pieces b (opp_c c)) t) pp /\ In pp PAWN_PROMOTIONS).
    { cbn [In map PAWN_PROMOTIONS] in Hm |- *.
      destruct Hm as [<-|[<-|[<-|[<-|[]]]]]; eexists; (split; [reflexivity|]); tauto. }
    destruct Hpp as (pp & -> & Hpp).
    split; [|exists Pawn; exact G0].
    apply (promo_shape b c PS f t pp Lf Lt (pawn_cap_ok b c PS f t K) PR Hpp).
  - assert (Hin : In m (pawn_all b c)) by (apply Hpart; left; exact Hm).
    pose proof (partition_fst_true _ _ _ _ Ep m Hm) as NP.
    apply negb_true_iff in NP.
    destruct (pawn_all_inv2 b c PS m Hin) as (f & t & -> & Lf & Lt & G0 & K). cbn [mv_to] in NP.
    split; [|exists Pawn; exact G0].
    apply (pawn_std_shape b c PS f t Lf Lt G0 K NP).
  - apply (ep_moves_shape b c PS eps Heps m Hm).
Qed.

Lemma castle_moves_shape b c (PS : ps_hyp b c) l : castle_moves rook_t bishop_t b c = Ok l ->
  forall m, In m l -> gen_shape b m /\ own_move b c m.
Proof.
  pose proof PS as (R & NK & EW). pose proof (Repr_WF b R) as W.
  intros H m Hm. unfold castle_moves in H. cbv zeta in H.
  destruct (overlaps _ _); [inversion H; subst l; destruct Hm|].
  destruct (peek_rights b) as [r| |] eqn:Pr; try discriminate. cbn [bind] in H.
  inversion H; subst l; clear H.
  (* a castle is only proposed with the right held, so the king is at home *)
  assert (Home : forall i ksq rsq, right_home b i ksq rsq c -> N.land (bit i) r <> 0 ->
                   bget b ksq = Some (King, c)).
  { intros i ksq rsq RH NZ. apply RH.
    assert (Er : top (cr_stack b) = r).
    { unfold peek_rights in Pr. unfold top. destruct (cr_stack b); [discriminate|]. inversion Pr. reflexivity. }
    rewrite Er. destruct (mem i r) eqn:M; [reflexivity|]. exfalso. apply NZ.
    rewrite N.land_comm. apply land_bit_0. exact M. }
  destruct R as (_ & _ & _ & _ & R1 & R2 & R3 & R4 & _).
  apply in_app_or in Hm. destruct Hm as [Hm|Hm].
  - match type of Hm with In _ (if ?x then _ else _) => destruct x eqn:Cond end; [|destruct Hm].
    destruct Hm as [<-|[]]. rewrite !andb_true_iff in Cond.
    destruct Cond as [[[[Hr _] _] _] _]. apply N.ltb_lt in Hr.
    split; [destruct c; unfold gen_shape; cbn; repeat split; lia|].
    exists King. destruct c; cbn [mv_from].
    + apply (Home 2 60 63 R3). change BK with (bit 2) in Hr. lia.
    + apply (Home 3 4 7 R1). change WK with (bit 3) in Hr. lia.
  - match type of Hm with In _ (if ?x then _ else _) => destruct x eqn:Cond end; [|destruct Hm].
    destruct Hm as [<-|[]]. rewrite !andb_true_iff in Cond.
    destruct Cond as [[[[[Hr _] _] _] _] _]. apply N.ltb_lt in Hr.
    split; [destruct c; unfold gen_shape; cbn; repeat split; lia|].
    exists King. destruct c; cbn [mv_from].
    + apply (Home 0 60 56 R4). change BQ with (bit 0) in Hr. lia.
    + apply (Home 1 4 0 R2). change WQ with (bit 1) in Hr. lia.
Qed.

Theorem pseudo_moves_shape b c (PS : ps_hyp b c) l : pseudo_moves b c = Ok l ->
  forall m, In m l -> gen_shape b m /\ own_move b c m.
Proof.
  pose proof PS as (R & NK & EW). pose proof (Repr_WF b R) as W.
  intros H m Hm. unfold MoveGen.pseudo_moves in H. cbv zeta in H.
  destruct (pawn_moves b c) as [pawns| |] eqn:Hp; try discriminate. cbn [bind] in H.
  destruct (castle_moves rook_t bishop_t b c) as [castles| |] eqn:Hc; try discriminate. cbn [bind] in H.
  inversion H; subst l; clear H.
  apply in_app_or in Hm. destruct Hm as [Hm|Hm].
  { apply (expand_nonpawn_shape b c PS (table_targets knight_targets b c Knight)); [|exact Hm].
    intros pt Hpt. split.
    - exists Knight. split; [discriminate|apply (table_targets_origin _ _ _ _ _ W Hpt)].
    - intros t Mt. apply (in_attack_list b c PS pt t (table_targets knight_targets b c Knight)); [|exact Hpt|exact Mt].
      exists (pawn_attack_targets b c ++ sliding_targets rook_t bishop_t b c),
             (table_targets king_targets b c King).
      rewrite <- !app_assoc. reflexivity. }
  apply in_app_or in Hm. destruct Hm as [Hm|Hm].
  { apply (expand_nonpawn_shape b c PS (sliding_targets rook_t bishop_t b c)); [|exact Hm].
    intros pt Hpt. split.
    - apply (sliding_targets_origin rook_t bishop_t b c pt W Hpt).
    - intros t Mt. apply (in_attack_list b c PS pt t (sliding_targets rook_t bishop_t b c)); [|exact Hpt|exact Mt].
      exists (pawn_attack_targets b c),
             (table_targets knight_targets b c Knight ++ table_targets king_targets b c King).
      reflexivity. }
  apply in_app_or in Hm. destruct Hm as [Hm|Hm].
  { apply (expand_nonpawn_shape b c PS (table_targets king_targets b c King)); [|exact Hm].
    intros pt Hpt. split.
    - exists King. split; [discriminate|apply (table_targets_origin _ _ _ _ _ W Hpt)].
    - intros t Mt. apply (in_attack_list b c PS pt t (table_targets king_targets b c King)); [|exact Hpt|exact Mt].
      exists (pawn_attack_targets b c ++ sliding_targets rook_t bishop_t b c
              ++ table_targets knight_targets b c Knight), [].
      rewrite <- !app_assoc, app_nil_r. reflexivity. }
  apply in_app_or in Hm. destruct Hm as [Hm|Hm].
  - apply (pawn_moves_shape b c PS pawns Hp m Hm).
  - apply (castle_moves_shape b c PS castles Hc m Hm).
Qed.



Lemma InvC_ps_hyp b c : InvC b c -> ps_hyp b c.
Proof.
  intro I. split; [apply (InvC_Repr b c I)|]. split; [|apply (InvC_ep b c I)].
  intros t Mt Pg. destruct I as (_ & Chk & _).
  unfold MoveGen.in_check in Chk. rewrite opp_c_involutive in Chk.
  assert (X : overlaps (kg (pieces b (opp_c c))) (attack_targets b c) = true).
  { apply overlaps_spec. exists t. split; [|exact Mt].
    apply pget_some_mem in Pg. exact Pg. }
  congruence.
Qed.

(** every pseudo-legal candidate of the side to move has the generated shape and moves one
    of the mover's own pieces *)
Theorem pseudo_moves_have_shape b c l :
  InvC b c -> pseudo_moves b c = Ok l ->
  forall m, In m l -> gen_shape b m /\ own_move b c m.
Proof. intros I H m Hm. apply (pseudo_moves_shape b c (InvC_ps_hyp b c I) l H m Hm). Qed.

(** what gen_moves hands back: the same board, and moves that have the generated shape,
    can be made, and leave the mover's king unattacked *)
Theorem gen_moves_InvC_spec b c ms b' :
  InvC b c -> gen_moves b c = Ok (ms, b') ->
  b' = b /\
  forall m, In m ms ->
    gen_shape b m /\ own_move b c m /\
    exists b1, apply_move T m b = Ok b1 /\ in_check b1 c = false.
Proof.
  intros I H. pose proof (Repr_WF b (InvC_Repr b c I)) as W.
  destruct (gen_moves_spec T rook_t bishop_t b c ms b' W (InvC_ep_wf b c I) H)
    as (Eb & cands & Hc & _ & _ & Ems).
  split; [exact Eb|]. intros m Hm. rewrite Ems in Hm. apply filter_In in Hm. destruct Hm as [Hin Safe].
  destruct (pseudo_moves_have_shape b c cands I Hc m Hin) as [S O].
  split; [exact S|]. split; [exact O|].
  unfold leaves_king_safe in Safe. destruct (apply_move T m b) as [b1| |]; try discriminate.
  exists b1. split; [reflexivity|]. apply negb_true_iff in Safe. exact Safe.
Qed.

(** the abstract hypothesis of the frame files (GenFrame / SearchFrame / Perft / Congr):
    generated moves satisfy the side conditions of UndoProofs.undo_apply *)
Corollary pseudo_moves_sq_ok_ep_ok b c l :
  InvC b c -> pseudo_moves b c = Ok l ->
  forall m, In m l -> UndoProofs.sq_ok m /\ UndoProofs.ep_ok m b = true.
Proof.
  intros I H m Hm. destruct (pseudo_moves_have_shape b c l I H m Hm) as [S _].
  apply (gen_shape_sq_ok_ep_ok b m (InvC_Repr b c I) S).
Qed.

Corollary gen_moves_sq_ok_ep_ok b c ms b' :
  InvC b c -> gen_moves b c = Ok (ms, b') ->
  forall m, In m ms -> UndoProofs.sq_ok m /\ UndoProofs.ep_ok m b = true.
Proof.
  intros I H m Hm. destruct (gen_moves_InvC_spec b c ms b' I H) as [_ X].
  destruct (X m Hm) as (S & _).
  apply (gen_shape_sq_ok_ep_ok b m (InvC_Repr b c I) S).
Qed.

Theorem generated_moves_have_shape b ms b' :
  Inv b -> gen_moves b (turn b) = Ok (ms, b') -> forall m, In m ms -> gen_shape b m.
Proof.
  intros I H m Hm. destruct (gen_moves_InvC_spec b (turn b) ms b' I H) as [_ X].
  apply (X m Hm).
Qed.

(* ------------------------------------------------------------------ *)
(** * 4. the invariant along play *)

(* nothing in the invariant reads the side-to-move field *)
Lemma Repr_set_turn b k : Repr b -> Repr (set_turn b k).
Proof.
  intro R. apply repr_ok_iff. apply repr_ok_iff in R.
  change (repr_ok (set_turn b k)) with (repr_ok b). exact R.
Qed.

Lemma InvC_set_turn b k c : InvC b c -> InvC (set_turn b k) c.
Proof.
  intros (R & Chk & Rk & F). split; [apply Repr_set_turn; exact R|].
  split; [exact Chk|]. split; [exact Rk|exact F].
Qed.

Lemma ep_target_cases p c f t : f < 64 -> t < 64 ->
  ep_target_of p c f t = 0 \/
  exists e, e < 64 /\ ep_target_of p c f t = bit e /\ rank_of e = ep_mover_rank (opp_c c).
Proof.
  intros Lf Lt. destruct (piece_eq_dec p Pawn) as [->|Np]; [|left; apply ep_target_of_nonpawn; exact Np].
  rewrite (ep_target_closed c f t Lf Lt). destruct c; cbn [opp_c ep_mover_rank].
  - destruct ((48 <=? f) && (f <? 56) && (32 <=? t) && (t <? 40)) eqn:C; [|left; reflexivity].
    rewrite !andb_true_iff, !N.leb_le, !N.ltb_lt in C. right. exists (f - 8).
    split; [lia|]. split; [reflexivity|]. apply (rank_of_cases (f - 8)). lia.
  - destruct ((8 <=? f) && (f <? 16) && (24 <=? t) && (t <? 32)) eqn:C; [|left; reflexivity].
    rewrite !andb_true_iff, !N.leb_le, !N.ltb_lt in C. right. exists (f + 8).
    split; [lia|]. split; [reflexivity|]. apply (rank_of_cases (f + 8)). lia.
Qed.

(* the new en-passant target: none, or a square on the rank behind the mover *)
Lemma apply_move_ep_top m b b1 : WF b -> mv_to m < 64 -> apply_move T m b = Ok b1 ->
  top (ep_stack b1) = 0 \/
  exists p c e, bget b (mv_from m) = Some (p, c) /\ e < 64 /\ top (ep_stack b1) = bit e
                /\ rank_of e = ep_mover_rank (opp_c c).
Proof.
  intros W Lt H. destruct m as [f t cap|f t cap pp|f t|f t]; cbn [apply_move mv_from mv_to] in *.
  - destruct (apply_std_cells T b f t cap b1 W Lt H) as (p & c & G0 & _ & _ & P & _).
    destruct P as (P1 & _). rewrite P1, top_cons.
    destruct (ep_target_cases p c f t (bget_lt64 b f _ W G0) Lt) as [Z|(e & Le & Ee & Rk)]; [left; exact Z|].
    right. exists p, c, e. tauto.
  - destruct (apply_promo_cells T b f t cap pp b1 W Lt H) as (c & G0 & _ & _ & P & _).
    destruct P as (P1 & _). rewrite P1, top_cons.
    destruct (ep_target_cases Pawn c f t (bget_lt64 b f _ W G0) Lt) as [Z|(e & Le & Ee & Rk)]; [left; exact Z|].
    right. exists Pawn, c, e. tauto.
  - pose proof (apply_ep_cells T b f t b1 W Lt H) as X. cbv zeta in X.
    destruct X as (c & pc2 & _ & _ & _ & _ & _ & P & _). destruct P as (P1 & _).
    left. rewrite P1. reflexivity.
  - destruct (apply_castle_cells T b f t b1 W Lt H) as (c & rf & rt & _ & _ & _ & _ & _ & _ & _ & P & _).
    destruct P as (P1 & _). left. rewrite P1. reflexivity.
Qed.

(** a legal move hands the invariant to the opponent *)
Theorem legal_move_InvC b c m b1 :
  InvC b c -> gen_shape b m -> own_move b c m -> apply_move T m b = Ok b1 ->
  in_check b1 c = false -> InvC b1 (opp_c c).
Proof.
  intros I S [p0 O] H Chk. pose proof (InvC_Repr b c I) as R. pose proof (Repr_WF b R) as W.
  split; [apply (apply_Repr T m b b1 R S H)|].
  split; [rewrite opp_c_involutive; exact Chk|].
  destruct S as (_ & Lt & _).
  destruct (apply_move_ep_top m b b1 W Lt H) as [Z|(p & c' & e & G0 & Le & Ee & Rk)].
  - rewrite Z. split; [left; reflexivity|]. vm_compute. discriminate.
  - rewrite O in G0. inversion G0. subst c'. rewrite Ee, (BoardLemmas.tz_bit e Le).
    split; [right; exact Rk|apply bit_le_ALL64; exact Le].
Qed.

(* positions = a board and the side about to move.  Closed under: a legal move; flipping the
   side-to-move FIELD (the game loop, the search and effect_of do it at different moments);
   taking back a legal move, on the board as it is or with the field flipped *)
Inductive reachable (b0 : board) (c0 : color) : board -> color -> Prop :=
| reach_init : reachable b0 c0 b0 c0
| reach_play b c ms b1 m b2 :
    reachable b0 c0 b c -> gen_moves b c = Ok (ms, b1) -> In m ms ->
    apply_move T m b1 = Ok b2 -> reachable b0 c0 b2 (opp_c c)
| reach_turn b c k : reachable b0 c0 b c -> reachable b0 c0 (set_turn b k) c
| reach_unplay b c ms b1 m b2 k b3 :
    reachable b0 c0 b c -> gen_moves b c = Ok (ms, b1) -> In m ms ->
    apply_move T m b1 = Ok b2 -> undo_move T m (set_turn b2 k) = Ok b3 ->
    reachable b0 c0 b3 c.

(* every board value held on the way, including the transient ones inside legality
   filtering: a pseudo-legal candidate made, and the board after it is taken back *)
Inductive visited (b0 : board) (c0 : color) : board -> Prop :=
| vis_reach b c : reachable b0 c0 b c -> visited b0 c0 b
| vis_made b c l m b1 :
    reachable b0 c0 b c -> pseudo_moves b c = Ok l -> In m l ->
    apply_move T m b = Ok b1 -> visited b0 c0 b1
| vis_unmade b c l m b1 k b2 :
    reachable b0 c0 b c -> pseudo_moves b c = Ok l -> In m l ->
    apply_move T m b = Ok b1 -> undo_move T m (set_turn b1 k) = Ok b2 -> visited b0 c0 b2
| vis_turn b k : visited b0 c0 b -> visited b0 c0 (set_turn b k).

Lemma undo_set_turn m b b1 k b2 :
  Repr b -> gen_shape b m -> apply_move T m b = Ok b1 ->
  undo_move T m (set_turn b1 k) = Ok b2 -> b2 = set_turn b k.
Proof.
  intros R S H U. pose proof (undo_move_st T k m b1) as E. unfold st in E.
  rewrite (undo_apply_gen T m b b1 R S H) in E. cbn [rmap] in E. congruence.
Qed.

Theorem InvC_reachable b0 c0 b c : InvC b0 c0 -> reachable b0 c0 b c -> InvC b c.
Proof.
  intros I0 H. induction H as [|b c ms b1 m b2 _ IH G Hm A|b c k _ IH|b c ms b1 m b2 k b3 _ IH G Hm A U].
  - exact I0.
  - destruct (gen_moves_InvC_spec b c ms b1 IH G) as [-> X].
    destruct (X m Hm) as (S & O & b2' & A' & Chk). rewrite A in A'. inversion A'. subst b2'.
    apply (legal_move_InvC b c m b2 IH S O A Chk).
  - apply InvC_set_turn. exact IH.
  - destruct (gen_moves_InvC_spec b c ms b1 IH G) as [-> X].
    destruct (X m Hm) as (S & _).
    rewrite (undo_set_turn m b b2 k b3 (InvC_Repr b c IH) S A U). apply InvC_set_turn. exact IH.
Qed.

(** C12: every clause of the representation invariant holds in every state visited by legal
    moves and undos from a consistent position, transient states included *)
Theorem Repr_visited b0 c0 b : InvC b0 c0 -> visited b0 c0 b -> Repr b.
Proof.
  intros I0 H. induction H as [b c H|b c l m b1 H P Hm A|b c l m b1 k b2 H P Hm A U|b k _ IH].
  - apply (InvC_Repr b c). apply (InvC_reachable b0 c0 b c I0 H).
  - pose proof (InvC_reachable b0 c0 b c I0 H) as I.
    destruct (pseudo_moves_have_shape b c l I P m Hm) as [S _].
    apply (apply_Repr T m b b1 (InvC_Repr b c I) S A).
  - pose proof (InvC_reachable b0 c0 b c I0 H) as I.
    destruct (pseudo_moves_have_shape b c l I P m Hm) as [S _].
    rewrite (undo_set_turn m b b1 k b2 (InvC_Repr b c I) S A U).
    apply Repr_set_turn. apply (InvC_Repr b c I).
  - apply Repr_set_turn. exact IH.
Qed.

Corollary Repr_reachable b0 b c : Inv b0 -> reachable b0 (turn b0) b c -> Repr b.
Proof. intros I H. apply (InvC_Repr b c). apply (InvC_reachable b0 (turn b0) b c I H). Qed.

End Gen.

(* ------------------------------------------------------------------ *)
(** * non-vacuity *)

Example Inv_start : Inv rook_ref bishop_ref UndoProofs.start_b.
Proof. apply invb_spec. vm_compute. reflexivity. Qed.

Example Inv_demo : Inv rook_ref bishop_ref inv_demo.
Proof. apply invb_spec. vm_compute. reflexivity. Qed.

(* all 20 moves of the initial position, and all moves of the demo position (en passant, both
   castles and promotions among them), pass the executable shape check *)
Example gen_shapeb_start_20 :
  match gen_moves example_table rook_ref bishop_ref UndoProofs.start_b White with
  | Ok (l, _) => length l = 20%nat /\ forallb (gen_shapeb UndoProofs.start_b) l = true
  | _ => False
  end.
Proof. vm_compute. split; reflexivity. Qed.

Example gen_shapeb_demo :
  match gen_moves example_table rook_ref bishop_ref inv_demo White with
  | Ok (l, _) =>
      forallb (gen_shapeb inv_demo) l = true
      /\ existsb (cmove_eqb (EnPassant 36 43)) l = true /\ existsb (cmove_eqb (Castle 4 6)) l = true
      /\ existsb (cmove_eqb (Promo 49 56 (Some Knight) Queen)) l = true
  | _ => False
  end.
Proof. vm_compute. split; [reflexivity|]. split; [reflexivity|]. split; reflexivity. Qed.

(* a position really is reached: 1. e4 from the initial position *)
Example reachable_e4 :
  exists b2, apply_move example_table (Std 12 28 None) UndoProofs.start_b = Ok b2
             /\ reachable example_table rook_ref bishop_ref UndoProofs.start_b White b2 Black
             /\ invb rook_ref bishop_ref (toggle_turn b2) = true.
Proof.
  destruct (apply_move example_table (Std 12 28 None) UndoProofs.start_b) as [b2| |] eqn:A;
    [|vm_compute in A; discriminate A|vm_compute in A; discriminate A].
  exists b2. split; [reflexivity|]. split.
  - destruct (gen_moves example_table rook_ref bishop_ref UndoProofs.start_b White) as [[ms b1]| |] eqn:G;
      [|vm_compute in G; discriminate G|vm_compute in G; discriminate G].
    assert (Eb : b1 = UndoProofs.start_b).
    { apply (gen_moves_InvC_spec example_table rook_ref bishop_ref UndoProofs.start_b White ms b1 Inv_start G). }
    apply (reach_play example_table rook_ref bishop_ref _ _ UndoProofs.start_b White ms b1 (Std 12 28 None) b2).
    + apply reach_init.
    + exact G.
    + assert (X : existsb (cmove_eqb (Std 12 28 None)) ms = true).
      { vm_compute in G. inversion G. vm_compute. reflexivity. }
      apply existsb_exists in X. destruct X as (m & Hm & E).
      destruct m as [f t cap| | |]; try discriminate E. cbn [cmove_eqb] in E.
      rewrite !andb_true_iff, !N.eqb_eq in E. destruct E as [[-> ->] E].
      destruct cap; [discriminate E|]. exact Hm.
    + rewrite Eb. exact A.
  - vm_compute in A. inversion A. vm_compute. reflexivity.
Qed.

Print Assumptions invb_spec.
Print Assumptions pseudo_moves_have_shape.
Print Assumptions generated_moves_have_shape.
Print Assumptions gen_moves_InvC_spec.
Print Assumptions legal_move_InvC.
Print Assumptions InvC_reachable.
Print Assumptions Repr_visited.
