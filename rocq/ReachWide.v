(* ReachWide.v — the closed cache-free search theorems on the WIDE domain.

   Reach.Sound carries Congr.far: half-move clock + depth < 100 and no third repetition.  Those
   two clauses are what the statements about the RESULT CACHE need (its key does not determine
   the clocks); the cache-free statements — the search never panics, answers with a generated
   legal move, its score is the exact minimax value under the engine's own leaf score and the
   move attains it — need only that no counter overflows.  SoundW drops the two clauses:

     wide d b :  the clock stack is non-empty and clock + d < 255 (u8), the repetition stack is
                 non-empty, fullmove + d < 65535 (u16)

   so that positions in which the engine's leaf score already reports the move-count draw, or a
   third repetition, are inside the theorems (the correspondence searches such positions since
   D13).  Sound d b -> SoundW d b.  Proofs only. *)
From Coq Require Import Lia ZArith NArith List Bool.
From ChessV Require Import Abs WfReflect GeomProofs InvProofs InvProofs2 Congr ZobristProofs
  EvalProofs2 Search GenFrame EpFrame GenTotal Material SearchFrame SearchLink SearchIx Reach.
From ChessV Require UndoProofs SoundB.
Import ListNotations.
Open Scope N_scope.

#[local] Arguments N.add : simpl never.
#[local] Arguments N.sub : simpl never.
#[local] Arguments N.mul : simpl never.
#[local] Arguments N.eqb : simpl never.
#[local] Arguments N.ltb : simpl never.
#[local] Arguments N.leb : simpl never.
#[local] Arguments N.of_nat : simpl never.
#[local] Arguments N.shiftl : simpl never.
#[local] Arguments N.shiftr : simpl never.
#[local] Arguments N.land : simpl never.
#[local] Arguments N.lor : simpl never.
#[local] Arguments N.lxor : simpl never.
#[local] Arguments N.testbit : simpl never.

Definition wide (d : nat) (b : board) : Prop :=
  hm_stack b <> [] /\ hd 0 (hm_stack b) + N.of_nat d < U8_MAX /\
  seen_stack b <> [] /\ fullmove b + N.of_nat d < FULLMOVE_MAX.

Lemma far_wide d b : far d b -> wide d b.
Proof.
  unfold far, wide. intros (Hn & Hh & Hs & _ & Hf).
  assert (U8_MAX = 255) by reflexivity. repeat split; try assumption; lia.
Qed.

Lemma wide_le d d' b : (d' <= d)%nat -> wide d b -> wide d' b.
Proof. unfold wide. intros L (Hn & Hh & Hs & Hf). repeat split; try assumption; lia. Qed.

Lemma wide_fine0 d b : wide d b -> fine 0 b.
Proof. unfold wide, fine. intros (Hn & Hh & _ & Hf). repeat split; [exact Hn|lia|lia]. Qed.

Lemma wide_fine1 d b : wide (S d) b -> fine 1 b.
Proof. unfold wide, fine. intros (Hn & Hh & _ & Hf). repeat split; [exact Hn|lia|lia]. Qed.

Lemma wide_child T d m b a : wide (S d) b -> apply_move T m b = Ok a -> wide d (toggle_turn a).
Proof.
  intros (Hn & Hh & Hs & Hf) HA.
  destruct (apply_move_clock T m b a HA) as (Hn' & Hh' & Hf' & Hs').
  unfold wide, toggle_turn. cbn [hm_stack seen_stack fullmove set_turn]. rewrite Hs', Hf'.
  repeat split; try assumption; lia.
Qed.

Section ReachWide.
Variable T : ztable.
Variables rook_t bishop_t : N -> N -> N.

Notation Inv := (Inv rook_t bishop_t).
Notation InvC := (InvC rook_t bishop_t).
Notation gen_moves := (gen_moves T rook_t bishop_t).
Notation gen_annotated := (gen_annotated T rook_t bishop_t).
Notation score := (score T rook_t bishop_t).
Notation search := (search T rook_t bishop_t).

Definition SoundW (d : nat) (b : board) : Prop :=
  Inv b /\ legal_material (white b) /\ legal_material (black b) /\ wide d b /\ KeyInv T b.

Lemma Sound_SoundW d b : Reach.Sound T rook_t bishop_t d b -> SoundW d b.
Proof.
  intros (I & Mw & Mb & F & K).
  split; [exact I|]. split; [exact Mw|]. split; [exact Mb|]. split; [exact (far_wide d b F)|exact K].
Qed.

Lemma SoundW_le d d' b : (d' <= d)%nat -> SoundW d b -> SoundW d' b.
Proof.
  intros L (I & Mw & Mb & F & K).
  split; [exact I|]. split; [exact Mw|]. split; [exact Mb|]. split; [exact (wide_le d d' b L F)|exact K].
Qed.

Lemma SoundW_depth_u8 d b : SoundW d b -> N.of_nat d < 255.
Proof. intros (_ & _ & _ & (_ & H & _) & _). assert (U8_MAX = 255) by reflexivity. lia. Qed.

Theorem SoundW_step d b ms b0 m b1 :
  SoundW (S d) b -> gen_moves b (turn b) = Ok (ms, b0) -> In m ms -> apply_move T m b = Ok b1 ->
  SoundW d (toggle_turn b1).
Proof.
  intros (I & Mw & Mb & F & K) G Hm A.
  pose proof (InvC_Repr rook_t bishop_t b (turn b) I) as R.
  pose proof (Repr_WF b R) as W.
  destruct (gen_moves_InvC_spec T rook_t bishop_t b (turn b) ms b0 I G) as [_ X].
  destruct (X m Hm) as (Sh & Own & b1' & A' & Chk).
  rewrite A in A'. apply Reach_Ok_inj in A'. subst b1'.
  pose proof (apply_move_turn T m b b1 A) as Et.
  pose proof Sh as (_ & Lt & _).
  split.
  - unfold InvProofs2.Inv. unfold toggle_turn. cbn [turn set_turn]. rewrite Et.
    apply InvC_set_turn.
    exact (legal_move_InvC T rook_t bishop_t b (turn b) m b1 I Sh Own A Chk).
  - destruct (legal_material_apply T m b b1 R Sh A Mw Mb) as [Mw1 Mb1].
    split; [exact Mw1|]. split; [exact Mb1|].
    split; [exact (wide_child T d m b b1 F A)|].
    apply KeyInv_toggle_turn_r. exact (apply_move_KeyInv T m b b1 A W Lt K).
Qed.

Theorem SoundW_gen_total d b : SoundW (S d) b -> exists l, gen_annotated b (turn b) = Ok (l, b).
Proof.
  intros (I & _ & _ & F & _).
  exact (gen_annotated_total T rook_t bishop_t b (turn b) I (wide_fine1 d b F)).
Qed.

Theorem SoundW_gen_moves_total d b : SoundW d b -> exists ms, gen_moves b (turn b) = Ok (ms, b).
Proof.
  intros (I & _ & _ & F & _).
  exact (gen_moves_total T rook_t bishop_t b (turn b) I (wide_fine0 d b F)).
Qed.

Theorem SoundW_score_total d b r : SoundW d b -> r <= 255 ->
  exists v, score b (turn b) r = Ok (v, b) /\ (I16_MIN < v < I16_MAX)%Z.
Proof.
  intros (I & Mw & Mb & F & _) Lr.
  pose proof F as (_ & _ & Ns & _).
  exact (score_total T rook_t bishop_t b (turn b) r I (wide_fine0 d b F) Ns Mw Mb Lr).
Qed.

(* ---- the hypotheses of SearchIx.v, for Good := SoundW ---- *)
Lemma W_inv : forall k b, SoundW k b -> WF b /\ ep_wf b (turn b).
Proof.
  intros k b (I & _). split.
  - exact (Repr_WF b (InvC_Repr rook_t bishop_t b (turn b) I)).
  - exact (InvC_ep_wf rook_t bishop_t b (turn b) I).
Qed.

Lemma W_gen : forall k b, SoundW (S k) b -> exists l b', gen_annotated b (turn b) = Ok (l, b').
Proof. intros k b S. destruct (SoundW_gen_total k b S) as [l E]. exists l, b. exact E. Qed.

Lemma W_step : forall k b ms m b1,
  SoundW (S k) b -> gen_moves b (turn b) = Ok (ms, b) -> In m ms -> apply_move T m b = Ok b1 ->
  SoundW k (toggle_turn b1).
Proof. intros k b ms m b1 S G Hm A. exact (SoundW_step k b ms b m b1 S G Hm A). Qed.

Lemma W_score : forall k b, SoundW k b -> exists v b', score b (turn b) (N.of_nat k) = Ok (v, b').
Proof.
  intros k b S. pose proof (SoundW_depth_u8 k b S) as L.
  destruct (SoundW_score_total k b (N.of_nat k) S ltac:(lia)) as (v & E & _). exists v, b. exact E.
Qed.

Lemma W_range : forall k b v b',
  SoundW k b -> score b (turn b) (N.of_nat k) = Ok (v, b') -> (I16_MIN < v < I16_MAX)%Z.
Proof.
  intros k b v b' S E. pose proof (SoundW_depth_u8 k b S) as L.
  destruct (SoundW_score_total k b (N.of_nat k) S ltac:(lia)) as (v0 & E0 & Rg).
  rewrite E in E0. apply Reach_Ok_inj in E0.
  assert (Ev : v = v0) by exact (f_equal fst E0). subst v0. exact Rg.
Qed.

Ltac feedW X :=
  repeat first [specialize (X W_inv) | specialize (X W_gen) | specialize (X W_step)
               | specialize (X W_score) | specialize (X W_range)].

(** * C07 on the wide domain *)
Theorem C07_wide : forall depth b,
  1 <= depth -> SoundW (N.to_nat depth) b ->
  (exists v m (cands : list (cmove * effect)), search depth b = SOk (v, m, b)
       /\ gen_moves b (turn b) = Ok (map fst cands, b) /\ In m (map fst cands))
  \/ (search depth b = SErr NoAvailableMoves /\ gen_moves b (turn b) = Ok ([], b)).
Proof. pose proof (search_total_ix T rook_t bishop_t SoundW) as X. feedW X. exact X. Qed.

Corollary C07_wide_never_panics : forall depth b, SoundW (N.to_nat depth) b -> search depth b <> SPanic.
Proof. pose proof (search_never_panics_ix T rook_t bishop_t SoundW) as X. feedW X. exact X. Qed.

Theorem C07_wide_ab_total : forall d b alpha beta mx, SoundW d b ->
  exists v, Search.ab T rook_t bishop_t d b alpha beta mx = Ok (v, b).
Proof. pose proof (ab_total_ix T rook_t bishop_t SoundW) as X. feedW X. exact X. Qed.

(** * C08 on the wide domain *)
Theorem C08_wide : forall depth b v m b1,
  1 <= depth -> SoundW (N.to_nat depth) b -> search depth b = SOk (v, m, b1) ->
  Search.mm T rook_t bishop_t (N.to_nat depth) b (maximize (turn b)) = Ok v
  /\ (exists b2, apply_move T m b = Ok b2 /\
        Search.mm T rook_t bishop_t (Nat.pred (N.to_nat depth)) (toggle_turn b2)
                  (negb (maximize (turn b))) = Ok v)
  /\ (exists rv, Search.root_values T rook_t bishop_t (N.to_nat depth) b = Ok rv /\ In (m, v) rv /\
        forall m' v', In (m', v') rv -> if maximize (turn b) then (v' <= v)%Z else (v <= v')%Z).
Proof.
  intros depth b v m b1 L S E.
  pose proof (search_score_is_minimax_ix T rook_t bishop_t SoundW) as X1. feedW X1.
  pose proof (search_move_attains_ix T rook_t bishop_t SoundW) as X2. feedW X2.
  pose proof (search_in_root_values_ix T rook_t bishop_t SoundW) as X3. feedW X3.
  split; [exact (X1 depth b v m b1 L S E)|].
  split; [exact (X2 depth b v m b1 L S E)|exact (X3 depth b v m b1 L S E)].
Qed.

Theorem C08_wide_ab_full_window : forall d b mx, SoundW d b ->
  exists v, Search.ab T rook_t bishop_t d b I16_MIN I16_MAX mx = Ok (v, b)
            /\ Search.mm T rook_t bishop_t d b mx = Ok v.
Proof. pose proof (ab_full_window_chess_ix T rook_t bishop_t SoundW) as X. feedW X. exact X. Qed.

(** the fast oracle of the correspondence (full-window alpha-beta per root move) is the
    plain-minimax oracle on the wide domain *)
Theorem root_values_ab_eq_wide : forall d b,
  SoundW (S d) b ->
  Search.root_values_ab T rook_t bishop_t (S d) b = Search.root_values T rook_t bishop_t (S d) b.
Proof.
  intros d b S.
  destruct (SoundW_gen_moves_total (Datatypes.S d) b S) as [ms G].
  unfold Search.root_values_ab, Search.root_values. rewrite G. cbn [bind Nat.pred].
  assert (Hall : forall m, In m ms -> In m ms) by (intros m Hm; exact Hm).
  revert Hall. generalize ms at 1 3 4. intros l. induction l as [|m l IH]; intros Hall; [reflexivity|].
  cbn [fold_right]. rewrite IH by (intros m' Hm'; apply Hall; right; exact Hm').
  match goal with |- bind ?X _ = _ => destruct X as [r| |] end; cbn [bind]; try reflexivity.
  destruct (apply_move T m b) as [b2| |] eqn:A; cbn [unwrap bind]; try reflexivity.
  pose proof (SoundW_step d b ms b m b2 S G (Hall m (or_introl eq_refl)) A) as S2.
  destruct (C08_wide_ab_full_window d (toggle_turn b2) (negb (maximize (turn b))) S2) as (v & Ea & Em).
  rewrite Ea, Em. reflexivity.
Qed.

(** * an executable check *)
Notation wideb := SoundB.wideb.

Lemma wideb_spec d b : wideb d b = true <-> wide d b.
Proof.
  unfold SoundB.wideb, wide. rewrite !andb_true_iff, !nonempty_iff, !N.ltb_lt. tauto.
Qed.

Notation soundWb := (SoundB.soundWb T rook_t bishop_t).

Theorem soundWb_spec d b : soundWb d b = true <-> SoundW d b.
Proof.
  unfold SoundB.soundWb, SoundW. rewrite !andb_true_iff.
  rewrite (invb_spec rook_t bishop_t b), !legal_materialb_spec, wideb_spec, N.eqb_eq.
  unfold KeyInv.
  split.
  - intros ((((I & Mw) & Mb) & F) & K).
    split; [exact I|]. split; [exact Mw|]. split; [exact Mb|]. split; [exact F|exact K].
  - intros (I & Mw & Mb & F & K).
    split; [|exact K]. split; [|exact F]. split; [|exact Mb]. split; [exact I|exact Mw].
Qed.

End ReachWide.

(* non-vacuity: the initial placement one ply from the move-count draw may be searched 4 plies
   in the wide domain, and is outside Reach.Sound (Congr.far) *)
Definition wide_demo0 : board := push_halfmove UndoProofs.start_b 99.
Definition wide_demo : board := set_hash wide_demo0 (key_of example_table (abstract wide_demo0)).
Example SoundW_demo : SoundW example_table rook_ref bishop_ref 4 wide_demo.
Proof. apply soundWb_spec. vm_compute. reflexivity. Qed.
Example wide_demo_not_far : ~ far 4 wide_demo.
Proof.
  unfold far. intros (_ & H & _).
  assert (E : hd 0 (hm_stack wide_demo) = 99) by (vm_compute; reflexivity).
  rewrite E in H. cbn in H. lia.
Qed.

Print Assumptions C07_wide.
Print Assumptions C08_wide.
Print Assumptions root_values_ab_eq_wide.
Print Assumptions SoundW_step.
