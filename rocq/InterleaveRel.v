(* InterleaveRel.v -- generic theory (Coq stdlib + AlphaBeta.v + Interleave.v, no chess file).

   Interleave.v proves that the memoised alpha-beta (a resumption over an arbitrary shared
   cache) returns the pure value, for every start cache and every schedule, from the hypothesis
   `key_det`: "equal cache keys => equal pure values", quantified over ALL positions and ALL
   depths.  For the chess instance that hypothesis is only available on the positions that
   satisfy the search invariant and for depths up to the engine's bound (a 64-bit key is not
   injective on all boards, and the 50-move / repetition clocks, which the key ignores, matter
   beyond a bounded horizon).

   This file re-proves the same results with every assumption RELATIVISED to a set `Sp` of
   positions closed under `moves` and a depth bound `Dn`:
       key_det_S : Sp p -> Sp p' -> d <= Dn -> d' <= Dn -> equal keys -> equal values.
   The programs (abp), the cache operations, the scheduler and the completion schedule are the
   definitions of Interleave.v, unchanged; only the soundness predicates are relativised
   (rvalid / rsound / rgood: a cache entry is right for every node OF Sp WITHIN THE DEPTH BOUND
   that maps to its key).

   Main results (same names as in Interleave.v with suffix _rel):
     abp_rgood, run_rgood, run_abp_rel, run_abp_minimax_rel,
     pool_schedule_independent_rel, pool_task_result_rel, pool_results_agree_rel,
     pool_completion_rel, pool_schedule_extends_rel, pool_root_minimax_rel.                 *)
From Coq Require Import ZArith List Lia Bool.
From ChessV Require Import AlphaBeta Interleave.
Import ListNotations.
Open Scope Z_scope.

Section ILR.
Variable pos key : Type.
Variable moves : pos -> list pos.
Variable leaf : pos -> nat -> Z.
Variables LO HI : Z.
Variable mkkey : pos -> Z -> Z -> nat -> bool -> key.
Variable key_eqb : key -> key -> bool.
Hypothesis key_eqb_true : forall a b, key_eqb a b = true -> a = b.

Variable Sp : pos -> Prop.
Variable Dn : nat.
Hypothesis S_moves : forall p c, Sp p -> In c (moves p) -> Sp c.

Local Notation ab := (AlphaBeta.ab pos moves leaf LO HI).
Local Notation mm := (AlphaBeta.mm pos moves leaf LO HI).
Local Notation loop_max := (AlphaBeta.loop_max pos).
Local Notation loop_min := (AlphaBeta.loop_min pos).
Local Notation abp := (Interleave.abp pos key moves leaf LO HI mkkey).
Local Notation lp_max := (Interleave.lp_max pos key).
Local Notation lp_min := (Interleave.lp_min pos key).
Local Notation run := (Interleave.run key key_eqb).
Local Notation lookup := (Interleave.lookup key key_eqb).
Local Notation write := (Interleave.write key).
Local Notation step_task := (Interleave.step_task key key_eqb).
Local Notation run_sched := (Interleave.run_sched key key_eqb).
Local Notation root_pool := (Interleave.root_pool pos key moves leaf LO HI mkkey).
Local Notation finish := (Interleave.finish key key_eqb).
Local Notation complete_sched := (Interleave.complete_sched key key_eqb).

(* on Sp and up to depth Dn, the key determines the value (no injectivity assumed) *)
Hypothesis key_det_S : forall p a b d mx p' a' b' d' mx',
  Sp p -> Sp p' -> (d <= Dn)%nat -> (d' <= Dn)%nat ->
  mkkey p a b d mx = mkkey p' a' b' d' mx' -> ab d mx p a b = ab d' mx' p' a' b'.

(* w is a correct entry for key k: the pure value of every node of Sp, within the depth bound,
   that maps to k *)
Definition rvalid (k:key) (w:Z) : Prop :=
  forall p a b d mx, Sp p -> (d <= Dn)%nat -> mkkey p a b d mx = k -> w = ab d mx p a b.

Definition rsound (c:cache key) : Prop := forall k v, lookup c k = Some v -> rvalid k v.

Lemma rsound_nil : rsound [].
Proof. intros k v H. discriminate H. Qed.

Lemma rsound_write c k v : rsound c -> rvalid k v -> rsound (write c k v).
Proof.
  intros Hc Hv k' v' H. unfold Interleave.write in H. cbn [Interleave.lookup] in H.
  destruct (key_eqb k' k) eqn:E.
  - apply key_eqb_true in E. subst k'. inversion H; subst v'. exact Hv.
  - apply Hc. exact H.
Qed.

Lemma rvalid_self p a b d mx : Sp p -> (d <= Dn)%nat -> rvalid (mkkey p a b d mx) (ab d mx p a b).
Proof.
  intros Hp Hd p' a' b' d' mx' Hp' Hd' E. apply key_det_S; [exact Hp|exact Hp'|exact Hd|exact Hd'|].
  symmetry. exact E.
Qed.

Fixpoint rgood (v:Z) (p:prog key) : Prop :=
  match p with
  | Ret w => w = v
  | Read k f => rgood v (f None) /\ (forall w, rvalid k w -> rgood v (f (Some w)))
  | Write k w p' => rvalid k w /\ rgood v p'
  end.

Lemma lp_max_rgood (f : pos -> Z -> Z -> (Z -> prog key) -> prog key) (g : pos -> Z -> Z -> Z) :
  (forall c a b k v, Sp c -> (forall r, r = g c a b -> rgood v (k r)) -> rgood v (f c a b k)) ->
  forall fin v cs value a b, Forall Sp cs ->
    (forall r, r = loop_max g cs value a b -> rgood v (fin r)) ->
    rgood v (lp_max f fin cs value a b).
Proof.
  intros Hf fin v. induction cs as [|c cs IH]; intros value a b HS H; cbn [Interleave.lp_max].
  - apply H. reflexivity.
  - inversion HS as [|? ? Hc HScs]; subst.
    apply Hf; [exact Hc|]. intros r ->. cbn zeta. cbn [AlphaBeta.loop_max] in H. cbn zeta in H.
    destruct (b <=? Z.max a (Z.max value (g c a b))) eqn:Ecut.
    + apply H. reflexivity.
    + apply IH; [exact HScs|exact H].
Qed.

Lemma lp_min_rgood (f : pos -> Z -> Z -> (Z -> prog key) -> prog key) (g : pos -> Z -> Z -> Z) :
  (forall c a b k v, Sp c -> (forall r, r = g c a b -> rgood v (k r)) -> rgood v (f c a b k)) ->
  forall fin v cs value a b, Forall Sp cs ->
    (forall r, r = loop_min g cs value a b -> rgood v (fin r)) ->
    rgood v (lp_min f fin cs value a b).
Proof.
  intros Hf fin v. induction cs as [|c cs IH]; intros value a b HS H; cbn [Interleave.lp_min].
  - apply H. reflexivity.
  - inversion HS as [|? ? Hc HScs]; subst.
    apply Hf; [exact Hc|]. intros r ->. cbn zeta. cbn [AlphaBeta.loop_min] in H. cbn zeta in H.
    destruct (Z.min b (Z.min value (g c a b)) <=? a) eqn:Ecut.
    + apply H. reflexivity.
    + apply IH; [exact HScs|exact H].
Qed.

Theorem abp_rgood : forall d mx p a b k v, Sp p -> (d <= Dn)%nat ->
  (forall r, r = ab d mx p a b -> rgood v (k r)) -> rgood v (abp d mx p a b k).
Proof.
  induction d as [|d IH]; intros mx p a b k v Hp Hd Hk.
  - cbn [Interleave.abp rgood]. split.
    + split; [exact (rvalid_self p a b 0%nat mx Hp Hd)|apply Hk; reflexivity].
    + intros w Hw. apply Hk. exact (Hw p a b 0%nat mx Hp Hd eq_refl).
  - cbn [Interleave.abp rgood]. split.
    2:{ intros w Hw. apply Hk. exact (Hw p a b (S d) mx Hp Hd eq_refl). }
    assert (Hfin: forall r, r = ab (S d) mx p a b ->
                  rgood v (Write (mkkey p a b (S d) mx) r (k r))).
    { intros r ->. cbn [rgood]. split; [apply rvalid_self; assumption|apply Hk; reflexivity]. }
    assert (Hd' : (d <= Dn)%nat) by lia.
    assert (HS : Forall Sp (moves p)).
    { apply Forall_forall. intros c Hc. exact (S_moves p c Hp Hc). }
    revert Hfin HS. cbn [AlphaBeta.ab]. destruct (moves p) as [|c0 cs0] eqn:E; intros Hfin HS.
    + apply Hfin. reflexivity.
    + destruct mx.
      * apply lp_max_rgood with (g := ab d false).
        -- intros c a' b' k' v' Hc H'. apply IH; assumption.
        -- exact HS.
        -- exact Hfin.
      * apply lp_min_rgood with (g := ab d true).
        -- intros c a' b' k' v' Hc H'. apply IH; assumption.
        -- exact HS.
        -- exact Hfin.
Qed.

Corollary abp_rgood_ret d mx p a b : Sp p -> (d <= Dn)%nat ->
  rgood (ab d mx p a b) (abp d mx p a b Ret).
Proof. intros Hp Hd. apply abp_rgood; [exact Hp|exact Hd|]. intros r ->. reflexivity. Qed.

Theorem run_rgood : forall p c v, rsound c -> rgood v p ->
  fst (run c p) = v /\ rsound (snd (run c p)).
Proof.
  induction p as [w|k f IH|k w p' IH]; intros c v Hc Hg; cbn [Interleave.run rgood] in *.
  - split; [exact Hg|exact Hc].
  - destruct Hg as [Hn Hs]. destruct (lookup c k) as [w|] eqn:E.
    + apply IH; [exact Hc|]. apply Hs. apply (Hc k w E).
    + apply IH; assumption.
  - destruct Hg as [Hv Hg]. apply IH; [|exact Hg]. apply rsound_write; assumption.
Qed.

(* whatever (sound) cache earlier searches left behind, the memoised search of a node of Sp
   within the depth bound returns the pure alpha-beta value, and leaves a sound cache *)
Corollary run_abp_rel : forall c d mx p a b, Sp p -> (d <= Dn)%nat -> rsound c ->
  fst (run c (abp d mx p a b Ret)) = ab d mx p a b /\ rsound (snd (run c (abp d mx p a b Ret))).
Proof. intros. apply run_rgood; [assumption|apply abp_rgood_ret; assumption]. Qed.

(* ---------------------------------------------------------------- *)
(* pools                                                             *)

Definition rpool_inv (vs:list Z) (pl:pool key) : Prop :=
  rsound (fst pl) /\ Forall2 rgood vs (snd pl).

Lemma step_task_rinv vs i pl : rpool_inv vs pl -> rpool_inv vs (step_task i pl).
Proof.
  intros [Hc Hg]. unfold Interleave.step_task.
  destruct (nth_error (snd pl) i) as [t|] eqn:En; [|split; assumption].
  destruct t as [w|k f|k w p']; [split; assumption| |]; split; cbn [fst snd].
  - exact Hc.
  - apply Forall2_set_nth with (t := Read k f); [exact Hg|exact En|].
    intros v Hv. cbn [rgood] in Hv. destruct Hv as [Hn Hs].
    destruct (lookup (fst pl) k) as [w|] eqn:E; [apply Hs; apply (Hc k w E)|exact Hn].
  - destruct (Forall2_nth_r rgood vs (snd pl) Hg i (Write k w p') En) as [v0 Hv0].
    cbn [rgood] in Hv0. apply rsound_write; [exact Hc|apply Hv0].
  - apply Forall2_set_nth with (t := Write k w p'); [exact Hg|exact En|].
    intros v Hv. cbn [rgood] in Hv. apply Hv.
Qed.

Lemma run_sched_rinv vs : forall sch pl, rpool_inv vs pl -> rpool_inv vs (run_sched sch pl).
Proof.
  induction sch as [|i sch IH]; intros pl H; cbn [Interleave.run_sched fold_left]; [exact H|].
  apply IH. apply step_task_rinv. exact H.
Qed.

Lemma root_pool_rinv c0 d mx a b cs : Forall Sp cs -> (d <= Dn)%nat -> rsound c0 ->
  rpool_inv (map (fun c => ab d mx c a b) cs) (root_pool c0 d mx a b cs).
Proof.
  intros HS Hd Hc. split; [exact Hc|]. cbn [Interleave.root_pool snd].
  apply (proj2 (Forall2_map_l rgood (fun c => ab d mx c a b) cs _)).
  clear Hc. induction HS as [|c cs Hc HS IH]; cbn [map]; constructor; [|exact IH].
  apply abp_rgood_ret; assumption.
Qed.

(* every interleaving of the root tasks *)
Theorem pool_schedule_independent_rel : forall c0 d mx a b cs (sch : list nat),
  Forall Sp cs -> (d <= Dn)%nat -> rsound c0 ->
  let pl := run_sched sch (root_pool c0 d mx a b cs) in
  rsound (fst pl) /\
  Forall2 (fun c t => rgood (ab d mx c a b) t /\ (forall w, t = Ret w -> w = ab d mx c a b))
          cs (snd pl).
Proof.
  intros c0 d mx a b cs sch HS Hd Hc pl.
  destruct (run_sched_rinv _ sch _ (root_pool_rinv c0 d mx a b cs HS Hd Hc)) as [Hs Hg].
  fold pl in Hs, Hg. split; [exact Hs|].
  apply (proj1 (Forall2_map_l rgood (fun c => ab d mx c a b) cs (snd pl))) in Hg.
  revert Hg. generalize (snd pl). generalize cs. clear.
  intros cs1 ts1 H. induction H as [|c t cs2 ts2 Hct H IH]; constructor; [|exact IH].
  split; [exact Hct|]. intros w ->. exact Hct.
Qed.

Corollary pool_task_result_rel : forall c0 d mx a b cs sch i c w,
  Forall Sp cs -> (d <= Dn)%nat -> rsound c0 -> nth_error cs i = Some c ->
  nth_error (snd (run_sched sch (root_pool c0 d mx a b cs))) i = Some (Ret w) ->
  w = ab d mx c a b.
Proof.
  intros c0 d mx a b cs sch i c w HS Hd Hc Hi Ht.
  destruct (pool_schedule_independent_rel c0 d mx a b cs sch HS Hd Hc) as [_ H].
  revert i Hi Ht. induction H as [|c' t cs' ts [_ Hr] H IH]; intros i Hi Ht.
  - destruct i; discriminate Hi.
  - destruct i as [|i]; cbn [nth_error] in *.
    + inversion Hi; subst c'. inversion Ht; subst t. apply Hr. reflexivity.
    + inversion HS as [|? ? _ HS']; subst. apply (IH HS' i Hi Ht).
Qed.

Corollary pool_results_agree_rel : forall c1 c2 d mx a b cs sch1 sch2 i w1 w2,
  Forall Sp cs -> (d <= Dn)%nat -> rsound c1 -> rsound c2 -> (i < length cs)%nat ->
  nth_error (snd (run_sched sch1 (root_pool c1 d mx a b cs))) i = Some (Ret w1) ->
  nth_error (snd (run_sched sch2 (root_pool c2 d mx a b cs))) i = Some (Ret w2) ->
  w1 = w2.
Proof.
  intros c1 c2 d mx a b cs sch1 sch2 i w1 w2 HS Hd H1 H2 Hi T1 T2.
  destruct (nth_error cs i) as [c|] eqn:E.
  - rewrite (pool_task_result_rel c1 d mx a b cs sch1 i c w1 HS Hd H1 E T1).
    rewrite (pool_task_result_rel c2 d mx a b cs sch2 i c w2 HS Hd H2 E T2). reflexivity.
  - apply nth_error_None in E. lia.
Qed.

Lemma finish_rgood : forall vs ts, Forall2 rgood vs ts -> forall c, rsound c ->
  fst (finish c ts) = vs /\ rsound (snd (finish c ts)).
Proof.
  intros vs ts H. induction H as [|v t vs ts Hvt H IH]; intros c Hc; cbn [Interleave.finish fst snd].
  - split; [reflexivity|exact Hc].
  - destruct (run_rgood t c v Hc Hvt) as [R1 R2].
    destruct (IH _ R2) as [F1 F2]. rewrite R1, F1. split; [reflexivity|exact F2].
Qed.

Theorem pool_completion_rel : forall c0 d mx a b cs sch,
  Forall Sp cs -> (d <= Dn)%nat -> rsound c0 ->
  let pl := run_sched sch (root_pool c0 d mx a b cs) in
  fst (finish (fst pl) (snd pl)) = map (fun c => ab d mx c a b) cs /\
  rsound (snd (finish (fst pl) (snd pl))).
Proof.
  intros c0 d mx a b cs sch HS Hd Hc pl.
  destruct (run_sched_rinv _ sch _ (root_pool_rinv c0 d mx a b cs HS Hd Hc)) as [Hs Hg].
  apply finish_rgood; assumption.
Qed.

(* every schedule can be extended to a complete one, which holds exactly the pure values *)
Theorem pool_schedule_extends_rel : forall c0 d mx a b cs sch,
  Forall Sp cs -> (d <= Dn)%nat -> rsound c0 ->
  exists sch',
    let pl := run_sched (sch ++ sch') (root_pool c0 d mx a b cs) in
    snd pl = map (fun c => Ret (ab d mx c a b)) cs /\ rsound (fst pl).
Proof.
  intros c0 d mx a b cs sch HS Hd Hc.
  set (pl0 := run_sched sch (root_pool c0 d mx a b cs)).
  exists (complete_sched 0 (fst pl0) (snd pl0)). cbn zeta.
  rewrite run_sched_app. fold pl0.
  pose proof (complete_sched_run key key_eqb (snd pl0) (fst pl0) []) as H. cbn [length app] in H.
  replace (fst pl0, snd pl0) with pl0 in H by (destruct pl0; reflexivity).
  rewrite H. cbn [fst snd].
  destruct (pool_completion_rel c0 d mx a b cs sch HS Hd Hc) as [F1 F2]. fold pl0 in F1, F2.
  rewrite F1. split; [apply map_map|exact F2].
Qed.

(* ---------------------------------------------------------------- *)
(* full window: memoised search = minimax                            *)

Hypothesis leaf_range : forall p d, LO < leaf p d < HI.

Corollary run_abp_minimax_rel : forall c d mx p, Sp p -> (d <= Dn)%nat -> rsound c ->
  fst (run c (abp d mx p LO HI Ret)) = mm d mx p.
Proof.
  intros c d mx p Hp Hd Hc. destruct (run_abp_rel c d mx p LO HI Hp Hd Hc) as [-> _].
  apply ab_full_window. exact leaf_range.
Qed.

Corollary pool_root_minimax_rel : forall c0 d mx p cs sch,
  Sp p -> (d <= Dn)%nat -> rsound c0 -> moves p = cs -> cs <> [] ->
  exists sch',
    let pl := run_sched (sch ++ sch') (root_pool c0 d (negb mx) LO HI cs) in
    snd pl = map (fun c => Ret (mm d (negb mx) c)) cs /\
    (if mx then fold_left Z.max (map (fun c => mm d (negb mx) c) cs) LO
           else fold_left Z.min (map (fun c => mm d (negb mx) c) cs) HI) = mm (S d) mx p.
Proof.
  intros c0 d mx p cs sch Hp Hd Hc E Hne.
  assert (HS : Forall Sp cs).
  { apply Forall_forall. intros c Hin. apply (S_moves p c Hp). rewrite E. exact Hin. }
  destruct (pool_schedule_extends_rel c0 d (negb mx) LO HI cs sch HS Hd Hc) as [sch' [H1 H2]].
  exists sch'. cbn zeta. split.
  - rewrite H1. apply map_ext. intro c. f_equal. apply ab_full_window. exact leaf_range.
  - rewrite <- (root_best pos moves leaf LO HI leaf_range d mx p cs E Hne).
    destruct mx; f_equal; apply map_ext; intro c; symmetry; apply ab_full_window; exact leaf_range.
Qed.

End ILR.

(* ---------------------------------------------------------------- *)
(* non-vacuity: the relativised hypothesis is strictly weaker.  In the tree of ILExample,
   take the key (fold5 p, a, b, d, mx) with fold5 5 = 1: positions 1 and 5 collide, 5 is not reachable.  The key
   is not determining on all positions, but it is on Sp = {0,1,2,3}.                           *)
Module ILRExample.
  Import ILExample.

  Definition moves5 (p:nat) : list nat :=
    match p with 0 => [1;2] | 1 => [2] | 2 => [3] | 5 => [3] | _ => [] end%nat.
  Definition modkey := (nat * Z * Z * nat * bool)%type.
  Definition fold5 (p:nat) : nat := match p with 5%nat => 1%nat | _ => p end.
  Definition mkmod (p:nat) (a b:Z) (d:nat) (mx:bool) : modkey := (fold5 p, a, b, d, mx).
  Definition S4 (p:nat) : Prop := (p < 4)%nat.

  Example S4_moves : forall p c, S4 p -> In c (moves5 p) -> S4 c.
  Proof.
    unfold S4. intros p c Hp Hc.
    do 4 (destruct p as [|p]; [cbn in Hc; lia|]). lia.
  Qed.

  Example mod_key_det_S : forall p a b d mx p' a' b' d' mx',
    S4 p -> S4 p' -> (d <= 7)%nat -> (d' <= 7)%nat ->
    mkmod p a b d mx = mkmod p' a' b' d' mx' ->
    ab nat moves5 leaf LO HI d mx p a b = ab nat moves5 leaf LO HI d' mx' p' a' b'.
  Proof.
    unfold S4, mkmod. intros p a b d mx p' a' b' d' mx' Hp Hp' _ _ E.
    assert (F : forall q, (q < 4)%nat -> fold5 q = q).
    { intros q Hq. do 4 (destruct q as [|q]; [reflexivity|]). lia. }
    rewrite (F p Hp), (F p' Hp') in E. inversion E. subst. reflexivity.
  Qed.

  (* the unrelativised key_det fails for this key: 1 and 5 collide with different values *)
  Example mod_key_not_det :
    mkmod 1 LO HI 1 false = mkmod 5 LO HI 1 false /\
    ab nat moves5 leaf LO HI 1 false 1%nat LO HI <> ab nat moves5 leaf LO HI 1 false 5%nat LO HI.
  Proof. split; [reflexivity|]. vm_compute. discriminate. Qed.

  Example pool_rel_instance :=
    pool_schedule_independent_rel nat modkey moves5 leaf LO HI mkmod fullkey_eqb
      fullkey_eqb_true S4 7 S4_moves mod_key_det_S.
End ILRExample.

Print Assumptions abp_rgood.
Print Assumptions run_abp_rel.
Print Assumptions pool_schedule_independent_rel.
Print Assumptions pool_schedule_extends_rel.
Print Assumptions pool_root_minimax_rel.
