(* RepetitionProofs.v — property C17:
   "When each position of a game is registered as it arises, the reported occurrence count
    equals the number of times the current position — same placement, same side to move,
    same castling rights and same en-passant target — has been registered, and
    unregistering is the exact inverse.  A game played through the game API in which a
    position occurs for the third time is reported as drawn."
   Proofs about Board.count_position / uncount_position (src/board/position_info.rs),
   Eval.game_ending (src/evaluate/mod.rs), Game.game_apply / apply_by_coords /
   apply_by_notation (src/game/game.rs).

   RESULT IN SHORT.  The first sentence holds (count_returns, uncount_returns,
   count_uncount_inverse, history_count, registered_game_count, ..._collision_free).
   The second sentence is FALSE for the code as written and as modelled in Game.v: no
   function of the game API ever registers a position (game_never_registers), so the
   repetition branch of game_ending is dead through that API (api_no_repetition_draw) and a
   threefold repetition goes unreported (threefold_not_reported).  What does hold is the
   conditional statement third_registration_draws: IF the caller registers positions, the
   third registration makes game_ending answer Draw. *)
From Coq Require Import Lia ZArith Relations.
From ChessV Require Import Eval Abs Game CountFrame CounterProofs.

Arguments N.add : simpl never.
Arguments N.sub : simpl never.
Arguments N.mul : simpl never.
Arguments N.eqb : simpl never.
Arguments N.ltb : simpl never.
Arguments N.leb : simpl never.
Arguments N.shiftl : simpl never.
Arguments N.shiftr : simpl never.
Arguments N.land : simpl never.
Arguments N.lor : simpl never.
Arguments N.lxor : simpl never.
Arguments N.ldiff : simpl never.
Arguments N.testbit : simpl never.

(* ------------------------------------------------------------------------------------ *)
(* 1. the count map                                                                     *)
(* ------------------------------------------------------------------------------------ *)
Definition key : Type := (N * color)%type.
Definition cmap : Type := list (key * N).

(* the count of a key; a key never inserted counts 0 *)
Definition occ_of (m : cmap) (k : key) : N :=
  match cnt_get m k with Some v => v | None => 0 end.

Lemma key_eqb_eq a b : key_eqb a b = true <-> a = b.
Proof.
  destruct a as [h c], b as [h' c']. unfold key_eqb; cbn [fst snd]. split.
  - intro H. apply Bool.andb_true_iff in H. destruct H as [H1 H2].
    apply N.eqb_eq in H1. apply color_eqb_eq in H2. congruence.
  - intro H. inversion H; subst. rewrite N.eqb_refl. destruct c'; reflexivity.
Qed.
Lemma key_eqb_refl a : key_eqb a a = true.
Proof. apply key_eqb_eq. reflexivity. Qed.
Lemma key_eqb_neq a b : key_eqb a b = false <-> a <> b.
Proof.
  split.
  - intros H E. apply key_eqb_eq in E. congruence.
  - intro H. destruct (key_eqb a b) eqn:E; [|reflexivity]. apply key_eqb_eq in E. contradiction.
Qed.
Lemma key_eqb_sym a b : key_eqb a b = key_eqb b a.
Proof.
  destruct (key_eqb b a) eqn:E.
  - apply key_eqb_eq in E. subst. apply key_eqb_refl.
  - apply key_eqb_neq in E. apply key_eqb_neq. congruence.
Qed.

Lemma cnt_get_set_same m k v : cnt_get (cnt_set m k v) k = Some v.
Proof.
  induction m as [|[k' v'] m IH]; cbn [cnt_set cnt_get].
  - rewrite key_eqb_refl. reflexivity.
  - destruct (key_eqb k' k) eqn:E; cbn [cnt_get]; rewrite E; [reflexivity|exact IH].
Qed.

Lemma cnt_get_set_other m k k2 v : k2 <> k -> cnt_get (cnt_set m k v) k2 = cnt_get m k2.
Proof.
  intro Hn. induction m as [|[k' v'] m IH]; cbn [cnt_set cnt_get].
  - assert (E : key_eqb k k2 = false) by (apply key_eqb_neq; congruence). rewrite E. reflexivity.
  - destruct (key_eqb k' k) eqn:E; cbn [cnt_get].
    + apply key_eqb_eq in E. subst k'.
      assert (E2 : key_eqb k k2 = false) by (apply key_eqb_neq; congruence). rewrite E2. reflexivity.
    + destruct (key_eqb k' k2); [reflexivity|exact IH].
Qed.

Lemma occ_set m k v k2 : occ_of (cnt_set m k v) k2 = if key_eqb k2 k then v else occ_of m k2.
Proof.
  unfold occ_of. destruct (key_eqb k2 k) eqn:E.
  - apply key_eqb_eq in E. subst. rewrite cnt_get_set_same. reflexivity.
  - apply key_eqb_neq in E. rewrite cnt_get_set_other by exact E. reflexivity.
Qed.

(* ------------------------------------------------------------------------------------ *)
(* 2. count_position / uncount_position                                                 *)
(* ------------------------------------------------------------------------------------ *)
Definition bkey (b : board) : key := (hash b, turn b).

(* all fields other than the two repetition fields are unchanged *)
Definition same_but_counts (b b' : board) : Prop :=
  b' = set_counts b (pos_count b') (seen_stack b').

Lemma same_but_counts_fields b b' :
  same_but_counts b b' ->
  white b' = white b /\ black b' = black b /\ turn b' = turn b /\ ep_stack b' = ep_stack b /\
  cr_stack b' = cr_stack b /\ hm_stack b' = hm_stack b /\ fullmove b' = fullmove b /\ hash b' = hash b.
Proof. unfold same_but_counts. intro H. rewrite H. cbn. repeat split; reflexivity. Qed.

(* registration at the map level: what count_position does to position_count *)
Definition reg_step (m : cmap) (k : key) : res (N * cmap) :=
  match cnt_get m k with
  | None => Ok (1, cnt_set m k 1)
  | Some v => if v =? U8_MAX then Panic else Ok (v + 1, cnt_set m k (v + 1))
  end.
Definition unreg_step (m : cmap) (k : key) : res (N * cmap) :=
  match cnt_get m k with
  | None => Panic
  | Some v => if v =? 0 then Panic else Ok (v - 1, cnt_set m k (v - 1))
  end.

Lemma count_position_reg b :
  count_position b =
  match reg_step (pos_count b) (bkey b) with
  | Ok (n, m') => Ok (n, set_counts b m' (n :: seen_stack b))
  | Err e => Err e
  | Panic => Panic
  end.
Proof.
  unfold count_position, reg_step, bkey. destruct (cnt_get (pos_count b) (hash b, turn b)) as [v|]; [|reflexivity].
  destruct (v =? U8_MAX); reflexivity.
Qed.
Lemma uncount_position_unreg b :
  uncount_position b =
  match unreg_step (pos_count b) (bkey b) with
  | Ok (n, m') => Ok (n, set_counts b m' (tl (seen_stack b)))
  | Err e => Err e
  | Panic => Panic
  end.
Proof.
  unfold uncount_position, unreg_step, bkey. destruct (cnt_get (pos_count b) (hash b, turn b)) as [v|]; [|reflexivity].
  destruct (v =? 0); reflexivity.
Qed.

Lemma reg_step_ok m k n m' :
  reg_step m k = Ok (n, m') ->
  n = occ_of m k + 1 /\ occ_of m k <> U8_MAX /\
  (forall k2, occ_of m' k2 = if key_eqb k2 k then n else occ_of m k2).
Proof.
  unfold reg_step, occ_of at 1 2. destruct (cnt_get m k) as [v|] eqn:G.
  - destruct (v =? U8_MAX) eqn:E; [discriminate|]. intro H; inversion H; subst.
    apply N.eqb_neq in E. repeat split; try assumption. intro k2. apply occ_set.
  - intro H; inversion H; subst. repeat split; [discriminate|]. intro k2. apply occ_set.
Qed.

Lemma reg_step_panic_iff m k : reg_step m k = Panic <-> occ_of m k = U8_MAX.
Proof.
  unfold reg_step, occ_of. destruct (cnt_get m k) as [v|].
  - destruct (v =? U8_MAX) eqn:E.
    + apply N.eqb_eq in E. tauto.
    + apply N.eqb_neq in E. split; [discriminate|contradiction].
  - split; discriminate.
Qed.
Lemma reg_step_never_err m k e : reg_step m k <> Err e.
Proof. unfold reg_step. destruct (cnt_get m k) as [v|]; [destruct (v =? U8_MAX)|]; discriminate. Qed.

Lemma unreg_step_ok m k n m' :
  unreg_step m k = Ok (n, m') ->
  n = occ_of m k - 1 /\ 0 < occ_of m k /\
  (forall k2, occ_of m' k2 = if key_eqb k2 k then n else occ_of m k2).
Proof.
  unfold unreg_step, occ_of at 1 2. destruct (cnt_get m k) as [v|] eqn:G; [|discriminate].
  destruct (v =? 0) eqn:E; [discriminate|]. intro H; inversion H; subst.
  apply N.eqb_neq in E. repeat split; [lia|]. intro k2. apply occ_set.
Qed.

Lemma unreg_step_succeeds m k :
  0 < occ_of m k -> exists m', unreg_step m k = Ok (occ_of m k - 1, m').
Proof.
  unfold unreg_step, occ_of. destruct (cnt_get m k) as [v|]; [|lia].
  intro H. assert (E : (v =? 0) = false) by (apply N.eqb_neq; lia). rewrite E.
  eexists; reflexivity.
Qed.

(* "the reported occurrence count": the count returned is one more than the number
   recorded for the current (hash, side) key; only that key's entry changes; the count is
   pushed on the seen stack; nothing else moves *)
Theorem count_returns b n b' :
  count_position b = Ok (n, b') ->
  n = occ_of (pos_count b) (bkey b) + 1 /\
  (forall k, occ_of (pos_count b') k = if key_eqb k (bkey b) then n else occ_of (pos_count b) k) /\
  seen_stack b' = n :: seen_stack b /\
  same_but_counts b b'.
Proof.
  rewrite count_position_reg. destruct (reg_step (pos_count b) (bkey b)) as [[n0 m']|e|] eqn:R; try discriminate.
  intro H; inversion H; subst. destruct (reg_step_ok _ _ _ _ R) as (Hn & _ & Ho).
  repeat split; assumption.
Qed.

Theorem uncount_returns b n b' :
  uncount_position b = Ok (n, b') ->
  n = occ_of (pos_count b) (bkey b) - 1 /\ 1 <= occ_of (pos_count b) (bkey b) /\
  (forall k, occ_of (pos_count b') k = if key_eqb k (bkey b) then n else occ_of (pos_count b) k) /\
  seen_stack b' = tl (seen_stack b) /\
  same_but_counts b b'.
Proof.
  rewrite uncount_position_unreg. destruct (unreg_step (pos_count b) (bkey b)) as [[n0 m']|e|] eqn:R; try discriminate.
  intro H; inversion H; subst. destruct (unreg_step_ok _ _ _ _ R) as (Hn & Hp & Ho).
  repeat split; try assumption. lia.
Qed.

(* count_position aborts exactly on u8 overflow, and never returns an error *)
Lemma count_position_panic_iff b :
  count_position b = Panic <-> occ_of (pos_count b) (bkey b) = U8_MAX.
Proof.
  rewrite count_position_reg. rewrite <- reg_step_panic_iff.
  destruct (reg_step (pos_count b) (bkey b)) as [[n m']|e|] eqn:R; split; try discriminate; try reflexivity.
Qed.

(* unregistering is the exact inverse of registering — observationally: every key's count,
   the seen stack and all other fields are restored.  (The list position_count itself is
   NOT restored structurally: a key registered once and unregistered stays in the map with
   count 0, cf. ex_zero_entry_remains; in the Rust FxHashMap likewise.) *)
Theorem count_uncount_inverse b n b1 :
  count_position b = Ok (n, b1) ->
  exists b2, uncount_position b1 = Ok (n - 1, b2) /\
    n - 1 = occ_of (pos_count b) (bkey b) /\
    (forall k, occ_of (pos_count b2) k = occ_of (pos_count b) k) /\
    seen_stack b2 = seen_stack b /\
    same_but_counts b b2.
Proof.
  intro H. destruct (count_returns _ _ _ H) as (Hn & Ho & Hs & Hf).
  assert (Hk : bkey b1 = bkey b).
  { destruct (same_but_counts_fields _ _ Hf) as (_ & _ & Ht & _ & _ & _ & _ & Hh).
    unfold bkey. rewrite Ht, Hh. reflexivity. }
  assert (Hp : 0 < occ_of (pos_count b1) (bkey b1)).
  { rewrite Hk, Ho, key_eqb_refl. lia. }
  destruct (unreg_step_succeeds _ _ Hp) as [m' R].
  pose proof (uncount_position_unreg b1) as U. rewrite R in U.
  eexists. split.
  - rewrite U. rewrite Hk, Ho, key_eqb_refl. reflexivity.
  - destruct (unreg_step_ok _ _ _ _ R) as (_ & _ & Ho2).
    split; [lia|]. split; [|split].
    + intro k. cbn [set_counts pos_count]. rewrite Ho2, Hk.
      destruct (key_eqb k (bkey b)) eqn:E.
      * rewrite Ho, key_eqb_refl. apply key_eqb_eq in E. subst k. lia.
      * rewrite Ho, E. reflexivity.
    + cbn [set_counts seen_stack]. rewrite Hs. reflexivity.
    + unfold same_but_counts in *. rewrite Hf. reflexivity.
Qed.

(* and the other way round, for the counts (n <> 255 always holds for a real u8 count
   that has just been decremented) *)
Theorem uncount_count_inverse b n b1 :
  uncount_position b = Ok (n, b1) -> n <> U8_MAX ->
  exists b2, count_position b1 = Ok (n + 1, b2) /\
    (forall k, occ_of (pos_count b2) k = occ_of (pos_count b) k) /\
    same_but_counts b b2.
Proof.
  intros H Hm. destruct (uncount_returns _ _ _ H) as (Hn & Hp & Ho & Hs & Hf).
  assert (Hk : bkey b1 = bkey b).
  { destruct (same_but_counts_fields _ _ Hf) as (_ & _ & Ht & _ & _ & _ & _ & Hh).
    unfold bkey. rewrite Ht, Hh. reflexivity. }
  destruct (count_position b1) as [[n2 b2]|e|] eqn:C.
  - destruct (count_returns _ _ _ C) as (Hn2 & Ho2 & _ & Hf2).
    rewrite Hk, Ho, key_eqb_refl in Hn2. subst n2.
    exists b2. split; [reflexivity|]. split.
    + intro k. rewrite Ho2, Hk. destruct (key_eqb k (bkey b)) eqn:E.
      * apply key_eqb_eq in E. subst k. lia.
      * rewrite Ho, E. reflexivity.
    + unfold same_but_counts in *. rewrite Hf2. rewrite Hf. reflexivity.
  - rewrite count_position_reg in C. destruct (reg_step (pos_count b1) (bkey b1)) as [[n2 m2]|e2|] eqn:R; try discriminate.
    exfalso. exact (reg_step_never_err _ _ _ R).
  - apply count_position_panic_iff in C. rewrite Hk, Ho, key_eqb_refl in C. contradiction.
Qed.

(* ------------------------------------------------------------------------------------ *)
(* 3. histories of registrations                                                        *)
(* ------------------------------------------------------------------------------------ *)
Inductive event := Reg (k : key) | Unreg (k : key).

Definition ev_step (m : cmap) (e : event) : res cmap :=
  match e with
  | Reg k => let* (_, m') := reg_step m k in Ok m'
  | Unreg k => let* (_, m') := unreg_step m k in Ok m'
  end.
Fixpoint run_events (evs : list event) (m : cmap) : res cmap :=
  match evs with
  | [] => Ok m
  | e :: rest => let* m1 := ev_step m e in run_events rest m1
  end.

Definition is_reg (k : key) (e : event) : bool := match e with Reg k' => key_eqb k' k | Unreg _ => false end.
Definition is_unreg (k : key) (e : event) : bool := match e with Unreg k' => key_eqb k' k | Reg _ => false end.
Definition n_reg (k : key) (evs : list event) : nat := length (filter (is_reg k) evs).
Definition n_unreg (k : key) (evs : list event) : nat := length (filter (is_unreg k) evs).

(* after any history that the code survives, each key's count is
   (#registrations of that key) - (#unregistrations of that key), on top of where it started *)
Theorem history_count evs : forall m m',
  run_events evs m = Ok m' ->
  forall k, Z.of_N (occ_of m' k)
            = (Z.of_N (occ_of m k) + Z.of_nat (n_reg k evs) - Z.of_nat (n_unreg k evs))%Z.
Proof.
  induction evs as [|e evs IH]; intros m m' H k.
  - cbn in H. inversion H; subst. cbn. lia.
  - cbn [run_events] in H. destruct (ev_step m e) as [m1|er|] eqn:S; cbn [bind] in H; try discriminate H.
    rewrite (IH _ _ H k). unfold n_reg, n_unreg. cbn [filter].
    destruct e as [k0|k0]; cbn [ev_step] in S; cbn [is_reg is_unreg].
    + destruct (reg_step m k0) as [[n m2]|er|] eqn:R; cbn [bind] in S; try discriminate S.
      inversion S; subst m2. destruct (reg_step_ok _ _ _ _ R) as (Hn & _ & Ho).
      rewrite Ho. rewrite (key_eqb_sym k0 k). destruct (key_eqb k k0) eqn:E; cbn [length].
      * apply key_eqb_eq in E. subst k0. lia.
      * lia.
    + destruct (unreg_step m k0) as [[n m2]|er|] eqn:R; cbn [bind] in S; try discriminate S.
      inversion S; subst m2. destruct (unreg_step_ok _ _ _ _ R) as (Hn & Hp & Ho).
      rewrite Ho. rewrite (key_eqb_sym k0 k). destruct (key_eqb k k0) eqn:E; cbn [length].
      * apply key_eqb_eq in E. subst k0. lia.
      * lia.
Qed.

(* when does the code survive a history?  [cnt] is the ideal (unbounded) counter: every
   unregistration must find a positive count (well-bracketed) and no count may pass 255 *)
Definition bump (cnt : key -> Z) (k0 : key) (d : Z) : key -> Z :=
  fun k => if key_eqb k k0 then (cnt k + d)%Z else cnt k.
Fixpoint well_bracketed (evs : list event) (cnt : key -> Z) : Prop :=
  match evs with
  | [] => True
  | Reg k :: rest => (cnt k < 255)%Z /\ well_bracketed rest (bump cnt k 1)
  | Unreg k :: rest => (1 <= cnt k)%Z /\ well_bracketed rest (bump cnt k (-1))
  end.

Lemma reg_step_succeeds m k :
  occ_of m k <> U8_MAX -> exists m', reg_step m k = Ok (occ_of m k + 1, m').
Proof.
  unfold reg_step, occ_of. destruct (cnt_get m k) as [v|].
  - intro H. apply N.eqb_neq in H. rewrite H. eexists; reflexivity.
  - intros _. eexists; reflexivity.
Qed.

Theorem history_survives evs : forall m cnt,
  (forall k, cnt k = Z.of_N (occ_of m k)) ->
  well_bracketed evs cnt ->
  exists m', run_events evs m = Ok m'.
Proof.
  induction evs as [|e evs IH]; intros m cnt Hc W.
  - exists m. reflexivity.
  - destruct e as [k0|k0]; cbn [well_bracketed] in W; destruct W as [W1 W2]; cbn [run_events ev_step].
    + destruct (reg_step_succeeds m k0) as [m1 R].
      { rewrite Hc in W1. unfold U8_MAX. lia. }
      rewrite R; cbn [bind]. apply (IH m1 (bump cnt k0 1)); [|exact W2].
      intro k. unfold bump. destruct (reg_step_ok _ _ _ _ R) as (_ & _ & Ho). rewrite Ho.
      destruct (key_eqb k k0) eqn:E; [|apply Hc].
      apply key_eqb_eq in E. subst k0. rewrite Hc. lia.
    + destruct (unreg_step_succeeds m k0) as [m1 R].
      { rewrite Hc in W1. lia. }
      rewrite R; cbn [bind]. apply (IH m1 (bump cnt k0 (-1))); [|exact W2].
      intro k. unfold bump. destruct (unreg_step_ok _ _ _ _ R) as (_ & Hp & Ho). rewrite Ho.
      destruct (key_eqb k k0) eqn:E; [|apply Hc].
      apply key_eqb_eq in E. subst k0. rewrite Hc. lia.
Qed.

(* ------------------------------------------------------------------------------------ *)
(* 4. a game in which each position is registered as it arises                          *)
(* ------------------------------------------------------------------------------------ *)
Ltac bstep H E :=
  match type of H with
  | bind ?r _ = Ok _ => destruct r eqn:E; cbn [bind] in H; [|discriminate H|discriminate H]
  end.
Ltac bstep2 H E x y :=
  match type of H with
  | bind ?r _ = Ok _ => destruct r as [[x y]| |] eqn:E; cbn [bind] in H; [|discriminate H|discriminate H]
  end.

Section Registered.
Variable T : ztable.

(* apply the move, flip the side to move, register the position that has arisen *)
Fixpoint play_reg (ms : list cmove) (b : board) : res board :=
  match ms with
  | [] => Ok b
  | m :: rest =>
      let* b1 := apply_move T m b in
      let* (_, b2) := count_position (toggle_turn b1) in
      play_reg rest b2
  end.

(* the positions as they arise (after the move and the flip, at the moment of registration) *)
Fixpoint arising (ms : list cmove) (b : board) : list board :=
  match ms with
  | [] => []
  | m :: rest =>
      match apply_move T m b with
      | Ok b1 =>
          toggle_turn b1 ::
          match count_position (toggle_turn b1) with
          | Ok (_, b2) => arising rest b2
          | _ => []
          end
      | _ => []
      end
  end.

Definition times_arisen (k : key) (l : list board) : N :=
  N.of_nat (length (filter (fun x => key_eqb (bkey x) k) l)).

Lemma count_position_key b n b' : count_position b = Ok (n, b') -> bkey b' = bkey b.
Proof.
  intro H. destruct (count_returns _ _ _ H) as (_ & _ & _ & Hf).
  destruct (same_but_counts_fields _ _ Hf) as (_ & _ & Ht & _ & _ & _ & _ & Hh).
  unfold bkey. rewrite Ht, Hh. reflexivity.
Qed.

Theorem registered_game_counts ms : forall b b',
  play_reg ms b = Ok b' ->
  forall k, occ_of (pos_count b') k = occ_of (pos_count b) k + times_arisen k (arising ms b).
Proof.
  induction ms as [|m ms IH]; intros b b' H k.
  - cbn in H. inversion H; subst. unfold times_arisen. cbn. lia.
  - cbn [play_reg] in H. bstep H Eq1. bstep2 H Eq2 n b2.
    rewrite (IH _ _ H k). cbn [arising]. rewrite Eq1, Eq2.
    destruct (count_returns _ _ _ Eq2) as (Hn & Ho & _ & _).
    destruct (apply_move_counts T _ _ _ Eq1) as [Hpc _].
    change (pos_count (toggle_turn a)) with (pos_count a) in Hn, Ho. rewrite Hpc in Hn, Ho.
    rewrite Ho. unfold times_arisen. cbn [filter].
    destruct (key_eqb k (bkey (toggle_turn a))) eqn:E.
    + apply key_eqb_eq in E. subst k. rewrite key_eqb_refl. cbn [length]. lia.
    + rewrite key_eqb_sym, E. lia.
Qed.

(* the reported count (what max_seen, hence game_ending, looks at) is the number of times
   the current key has been registered *)
Theorem registered_game_reported m ms : forall b b',
  play_reg (m :: ms) b = Ok b' ->
  max_seen b' = Ok (occ_of (pos_count b') (bkey b')).
Proof.
  revert m. induction ms as [|m2 ms IH]; intros m b b' H.
  - cbn [play_reg] in H. bstep H Eq1. bstep2 H Eq2 n b2. inversion H; subst b2.
    destruct (count_returns _ _ _ Eq2) as (_ & Ho & Hs & _).
    rewrite (count_position_key _ _ _ Eq2). rewrite Ho, key_eqb_refl.
    unfold max_seen. rewrite Hs. reflexivity.
  - cbn [play_reg] in H. bstep H Eq1. bstep2 H Eq2 n b2.
    apply (IH m2 b2 b'). exact H.
Qed.

Corollary registered_game_count m ms b b' :
  play_reg (m :: ms) b = Ok b' ->
  max_seen b' = Ok (occ_of (pos_count b) (bkey b') + times_arisen (bkey b') (arising (m :: ms) b)).
Proof.
  intro H. rewrite (registered_game_reported _ _ _ _ H). f_equal.
  apply registered_game_counts. exact H.
Qed.

(* the whole game, initial position included: b0 is a board on which nothing has been
   registered yet (Board::new), its position is registered first (as the repository's test
   test_draw_from_repetition does by hand), then every position as it arises *)
Theorem registered_game_count_from_start b0 n0 b m ms b' :
  pos_count b0 = [] -> count_position b0 = Ok (n0, b) ->
  play_reg (m :: ms) b = Ok b' ->
  max_seen b' = Ok (times_arisen (bkey b') (b0 :: arising (m :: ms) b)).
Proof.
  intros F C H. rewrite (registered_game_count _ _ _ _ H). f_equal.
  destruct (count_returns _ _ _ C) as (Hn & Ho & _ & _).
  rewrite F in Hn, Ho. unfold occ_of in Hn at 1; cbn [cnt_get] in Hn.
  rewrite Ho. unfold times_arisen. cbn [filter].
  rewrite (key_eqb_sym (bkey b0) (bkey b')).
  destruct (key_eqb (bkey b') (bkey b0)); cbn [length].
  - lia.
  - unfold occ_of; cbn [cnt_get]. lia.
Qed.

(* "same placement, same side to move, same castling rights and same en-passant target":
   [pos_of] is that tuple.  That the (hash, side) key is a function of it is property C05
   (hypothesis key_determined); that it is injective on the positions of this game is the
   absence of Zobrist collisions, which no proof can supply (hypothesis collision_free). *)
Section CollisionFree.
Variable P : Type.
Variable pos_of : board -> P.
Variable P_eqb : P -> P -> bool.
Variables (b0 : board) (n0 : N) (m : cmove) (ms : list cmove) (b b' : board).
Hypothesis fresh : pos_count b0 = [].
Hypothesis registered0 : count_position b0 = Ok (n0, b).
Hypothesis played : play_reg (m :: ms) b = Ok b'.
Hypothesis key_determined :
  forall x, In x (b0 :: arising (m :: ms) b) -> P_eqb (pos_of x) (pos_of b') = true -> bkey x = bkey b'.
Hypothesis collision_free :
  forall x, In x (b0 :: arising (m :: ms) b) -> bkey x = bkey b' -> P_eqb (pos_of x) (pos_of b') = true.

(* the reported count is the number of positions of the game so far (the current one
   included) that are the same position as the current one *)
Theorem registered_game_count_collision_free :
  max_seen b' =
  Ok (N.of_nat (length (filter (fun x => P_eqb (pos_of x) (pos_of b')) (b0 :: arising (m :: ms) b)))).
Proof.
  rewrite (registered_game_count_from_start _ _ _ _ _ _ fresh registered0 played).
  unfold times_arisen. f_equal. f_equal. f_equal.
  apply filter_ext_in. intros x Hx.
  destruct (P_eqb (pos_of x) (pos_of b')) eqn:E.
  - apply key_eqb_eq. apply key_determined; assumption.
  - destruct (key_eqb (bkey x) (bkey b')) eqn:E2; [|reflexivity].
    apply key_eqb_eq in E2. rewrite (collision_free x Hx E2) in E. discriminate E.
Qed.
End CollisionFree.

End Registered.

(* ------------------------------------------------------------------------------------ *)
(* 5. FINDING: the game API never registers a position                                  *)
(* ------------------------------------------------------------------------------------ *)
Definition counts (b : board) : cmap * list N := (pos_count b, seen_stack b).

Definition with_board (g : game) (b : board) : game :=
  {| gboard := b; ghist := ghist g; gdepth := gdepth g |}.

Section GameApi.
Variable T : ztable.
Variables rook_t bishop_t : N -> N -> N.

Lemma apply_counts m b b' : apply_move T m b = Ok b' -> counts b' = counts b.
Proof. intro H. destruct (apply_move_counts T _ _ _ H) as [H1 H2]. unfold counts. rewrite H1, H2. reflexivity. Qed.
Lemma undo_counts m b b' : undo_move T m b = Ok b' -> counts b' = counts b.
Proof. intro H. destruct (undo_move_counts T _ _ _ H) as [H1 H2]. unfold counts. rewrite H1, H2. reflexivity. Qed.

(* legality filtering makes and unmakes every candidate on the caller's board *)
Lemma remove_invalid_counts cands : forall b c l b',
  remove_invalid T rook_t bishop_t b c cands = Ok (l, b') -> counts b' = counts b.
Proof.
  induction cands as [|m cands IH]; intros b c l b' H; cbn [remove_invalid] in H.
  - inversion H; reflexivity.
  - bstep H Eq1. apply unwrap_ok in Eq1. bstep H Eq2. apply unwrap_ok in Eq2.
    bstep2 H Eq3 rest' b3. inversion H; subst.
    apply IH in Eq3. apply apply_counts in Eq1. apply undo_counts in Eq2. congruence.
Qed.

Lemma gen_moves_counts b c l b' :
  gen_moves T rook_t bishop_t b c = Ok (l, b') -> counts b' = counts b.
Proof.
  unfold gen_moves. intro H. bstep H Eq1. eapply remove_invalid_counts; eassumption.
Qed.

Lemma effect_of_counts b c m e b' :
  effect_of T rook_t bishop_t b c m = Ok (e, b') -> counts b' = counts b.
Proof.
  unfold effect_of. intro H. bstep H Eq1. apply unwrap_ok in Eq1.
  bstep2 H Eq2 replies b1'. bstep H Eq3. apply unwrap_ok in Eq3. inversion H; subst.
  apply apply_counts in Eq1. apply gen_moves_counts in Eq2. apply undo_counts in Eq3. congruence.
Qed.

Lemma annotate_counts ms : forall b c l b',
  annotate T rook_t bishop_t b c ms = Ok (l, b') -> counts b' = counts b.
Proof.
  induction ms as [|m ms IH]; intros b c l b' H; cbn [annotate] in H.
  - inversion H; reflexivity.
  - bstep2 H Eq1 e b1. bstep2 H Eq2 rest' b2. inversion H; subst.
    apply effect_of_counts in Eq1. apply IH in Eq2. congruence.
Qed.

Lemma gen_annotated_counts b c l b' :
  gen_annotated T rook_t bishop_t b c = Ok (l, b') -> counts b' = counts b.
Proof.
  unfold gen_annotated. intro H. bstep2 H Eq1 ms b1.
  apply gen_moves_counts in Eq1. apply annotate_counts in H. congruence.
Qed.

Lemma game_ending_counts b c e b' :
  game_ending T rook_t bishop_t b c = Ok (e, b') -> counts b' = counts b.
Proof.
  unfold game_ending. intro H. bstep H Eq1.
  destruct (a =? REPETITION_DRAW_COUNT); [inversion H; reflexivity|].
  bstep H Eq2. destruct (HALFMOVE_DRAW_THRESHOLD <=? a0); [inversion H; reflexivity|].
  bstep2 H Eq3 cands b1. apply gen_moves_counts in Eq3.
  destruct (is_nil cands); inversion H; subst; assumption.
Qed.

(* Game::apply_chess_move *)
Theorem game_apply_never_registers g bd m m' g' :
  game_apply T g bd m = GOk (m', g') -> counts (gboard g') = counts bd.
Proof.
  unfold game_apply. destruct (apply_move T m bd) as [b'|e|] eqn:A; try discriminate.
  intro H; inversion H; subst. cbn [gboard]. eapply apply_counts; eassumption.
Qed.

(* Game::apply_chess_move_by_from_to_coordinates *)
Theorem apply_by_coords_never_registers g from to m g' :
  apply_by_coords T rook_t bishop_t g from to = GOk (m, g') ->
  counts (gboard g') = counts (gboard g).
Proof.
  unfold apply_by_coords.
  destruct (gen_moves T rook_t bishop_t (gboard g) (turn (gboard g))) as [[cands b1]|e|] eqn:G; try discriminate.
  destruct (find _ cands) as [m0|]; [|discriminate].
  intro H. apply game_apply_never_registers in H. apply gen_moves_counts in G. congruence.
Qed.

(* Game::apply_chess_move_from_raw_algebraic_notation *)
Theorem apply_by_notation_never_registers g s m g' :
  apply_by_notation T rook_t bishop_t g s = GOk (m, g') ->
  counts (gboard g') = counts (gboard g).
Proof.
  unfold apply_by_notation.
  destruct (gen_annotated T rook_t bishop_t (gboard g) (turn (gboard g))) as [[cands b1]|e|] eqn:G; try discriminate.
  destruct (san_all b1 (map fst cands) cands) as [labelled|e|]; try discriminate.
  destruct (find _ labelled) as [[m0 s0]|]; [|discriminate].
  intro H. apply game_apply_never_registers in H. apply gen_annotated_counts in G. congruence.
Qed.

(* everything a driver of the game API does to the game's board: enter a move by
   coordinates or by notation, apply a move object (this is also how an engine move chosen
   by engine_select is made), flip the side to move, ask whether the game is over *)
Inductive api_step : game -> game -> Prop :=
| step_coords g from to m g' :
    apply_by_coords T rook_t bishop_t g from to = GOk (m, g') -> api_step g g'
| step_notation g s m g' :
    apply_by_notation T rook_t bishop_t g s = GOk (m, g') -> api_step g g'
| step_apply g m m' g' :
    game_apply T g (gboard g) m = GOk (m', g') -> api_step g g'
| step_toggle g :
    api_step g (with_board g (toggle_turn (gboard g)))
| step_check g c e b1 :
    game_ending T rook_t bishop_t (gboard g) c = Ok (e, b1) -> api_step g (with_board g b1).

Theorem game_never_registers g g' :
  api_step g g' ->
  pos_count (gboard g') = pos_count (gboard g) /\ seen_stack (gboard g') = seen_stack (gboard g).
Proof.
  intro S. assert (C : counts (gboard g') = counts (gboard g)).
  { destruct S as [g from to m g' H|g s m g' H|g m m' g' H|g|g c e b1 H].
    - eapply apply_by_coords_never_registers; eassumption.
    - eapply apply_by_notation_never_registers; eassumption.
    - eapply game_apply_never_registers; eassumption.
    - reflexivity.
    - cbn [with_board gboard]. eapply game_ending_counts; eassumption. }
  unfold counts in C. inversion C. split; reflexivity.
Qed.

Definition api_reach : game -> game -> Prop := clos_refl_trans game api_step.

Theorem api_reach_never_registers g g' :
  api_reach g g' ->
  pos_count (gboard g') = pos_count (gboard g) /\ seen_stack (gboard g') = seen_stack (gboard g).
Proof.
  intro R. induction R as [g g' S| g |g1 g2 g3 R1 IH1 R2 IH2].
  - apply game_never_registers. assumption.
  - split; reflexivity.
  - destruct IH1 as [A1 B1]. destruct IH2 as [A2 B2]. split; congruence.
Qed.

(* hence: starting from a board as Board::new / Board::starting_position make it
   (seen stack [1]), however the game goes, a Draw answer of game_ending is never due to
   repetition — it can only be the 100-ply rule *)
Theorem api_no_repetition_draw g0 g c b1 :
  seen_stack (gboard g0) = [1] ->
  api_reach g0 g ->
  game_ending T rook_t bishop_t (gboard g) c = Ok (Some Draw, b1) ->
  max_seen (gboard g) = Ok 1 /\ exists h, halfmove (gboard g) = Ok h /\ 100 <= h.
Proof.
  intros H0 R H. destruct (api_reach_never_registers _ _ R) as [_ Hs]. rewrite H0 in Hs.
  assert (M : max_seen (gboard g) = Ok 1) by (unfold max_seen; rewrite Hs; reflexivity).
  split; [exact M|].
  destruct (halfmove (gboard g)) as [h|e|] eqn:Hh.
  - exists h. split; [reflexivity|].
    apply (draw_on_clock_iff T rook_t bishop_t (gboard g) c 1 h M); [discriminate|exact Hh|].
    exists b1. exact H.
  - unfold halfmove in Hh. destruct (hm_stack (gboard g)); discriminate Hh.
  - unfold game_ending in H. rewrite M in H; cbn [bind] in H.
    change (1 =? REPETITION_DRAW_COUNT) with false in H. cbv iota in H.
    rewrite Hh in H. discriminate H.
Qed.

(* what does hold: IF the caller registers the positions, the third registration of a
   position makes game_ending answer Draw at once *)
Theorem third_registration_draws b b' c :
  count_position b = Ok (3, b') ->
  game_ending T rook_t bishop_t b' c = Ok (Some Draw, b').
Proof.
  intro H. destruct (count_returns _ _ _ H) as (_ & _ & Hs & _).
  unfold game_ending, max_seen. rewrite Hs; cbn [bind].
  rewrite REPETITION_DRAW_COUNT_is_3. reflexivity.
Qed.

(* put together with section 4: in a game whose positions are registered as they arise
   (the initial position too, as the repository's own test does by hand), the position that
   has now arisen for the third time is reported as drawn *)
Corollary registered_third_occurrence_draws m ms b b' c :
  play_reg T (m :: ms) b = Ok b' ->
  occ_of (pos_count b) (bkey b') + times_arisen (bkey b') (arising T (m :: ms) b) = 3 ->
  game_ending T rook_t bishop_t b' c = Ok (Some Draw, b').
Proof.
  intros H H3. pose proof (registered_game_count T _ _ _ _ H) as M. rewrite H3 in M.
  unfold game_ending. rewrite M; cbn [bind]. rewrite REPETITION_DRAW_COUNT_is_3. reflexivity.
Qed.

End GameApi.

(* ------------------------------------------------------------------------------------ *)
(* 6. Examples                                                                          *)
(* ------------------------------------------------------------------------------------ *)
Definition ex_T : ztable := demo_table.
Definition ex_start : board := start_board ex_T.

(* count_returns / uncount_returns / count_uncount_inverse have satisfiable hypotheses;
   and the map is not restored structurally: the entry stays, with count 0 *)
Definition ex_c1 : board := ok_or board_new (let* (_, b) := count_position ex_start in Ok b).
Definition ex_c2 : board := ok_or board_new (let* (_, b) := uncount_position ex_c1 in Ok b).
Example ex_count_uncount :
  count_position ex_start = Ok (1, ex_c1) /\
  uncount_position ex_c1 = Ok (0, ex_c2) /\
  seen_stack ex_c1 = [1; 1] /\ seen_stack ex_c2 = [1] /\
  pos_count ex_start = [] /\ pos_count ex_c2 = [(bkey ex_start, 0)].
Proof. vm_conj. Qed.
Example ex_zero_entry_remains : pos_count ex_c2 <> pos_count ex_start.
Proof. vm_compute. discriminate. Qed.

(* history_count / history_survives *)
Definition ex_k1 : key := (17, White).
Definition ex_k2 : key := (17, Black).
Definition ex_events : list event := [Reg ex_k1; Reg ex_k2; Reg ex_k1; Unreg ex_k1; Reg ex_k1; Unreg ex_k2].
Example ex_history :
  exists m', run_events ex_events [] = Ok m' /\ occ_of m' ex_k1 = 2 /\ occ_of m' ex_k2 = 0 /\
             n_reg ex_k1 ex_events = 3%nat /\ n_unreg ex_k1 ex_events = 1%nat.
Proof.
  exists (match run_events ex_events [] with Ok m => m | _ => [] end). vm_conj.
Qed.
Example ex_well_bracketed : well_bracketed ex_events (fun k => Z.of_N (occ_of [] k)).
Proof.
  vm_compute. repeat (lazymatch goal with |- _ /\ _ => split end);
  try reflexivity; try (intro; discriminate); exact I.
Qed.

(* --- a threefold repetition through the game API goes unreported --- *)
Definition ex_g0 : game := {| gboard := ex_start; ghist := []; gdepth := 0 |}.

(* the game loop of src/game/{player_vs_player,human_vs_computer,...}.rs: enter the move,
   flip the side to move *)
Fixpoint play_coords (l : list (N * N)) (g : game) : option game :=
  match l with
  | [] => Some g
  | (f, t) :: rest =>
      match apply_by_coords ex_T rook_ref bishop_ref g f t with
      | GOk (_, g') => play_coords rest (with_board g' (toggle_turn (gboard g')))
      | _ => None
      end
  end.

Lemma play_coords_reach l : forall g g',
  play_coords l g = Some g' -> api_reach ex_T rook_ref bishop_ref g g'.
Proof.
  induction l as [|[f t] l IH]; intros g g' H; cbn [play_coords] in H.
  - inversion H; subst. apply rt_refl.
  - destruct (apply_by_coords ex_T rook_ref bishop_ref g f t) as [[m g1]| | | |] eqn:A; try discriminate H.
    eapply rt_trans; [apply rt_step; eapply step_coords; exact A|].
    eapply rt_trans; [apply rt_step; apply step_toggle|].
    apply IH. exact H.
Qed.

(* Ng1-f3 Ng8-f6 Nf3-g1 Nf6-g8 *)
Definition knight_dance : list (N * N) := [(6, 21); (62, 45); (21, 6); (45, 62)].
Definition ex_g4 : game := match play_coords knight_dance ex_g0 with Some g => g | None => ex_g0 end.
Definition ex_g8 : game := match play_coords knight_dance ex_g4 with Some g => g | None => ex_g0 end.

(* placement, side to move, castling rights, en-passant target *)
Definition pos_sig (b : board) : pset * pset * color * N * N :=
  (white b, black b, turn b, top (cr_stack b), top (ep_stack b)).

Example ex_dance_played :
  play_coords knight_dance ex_g0 = Some ex_g4 /\ play_coords knight_dance ex_g4 = Some ex_g8 /\
  play_coords (knight_dance ++ knight_dance) ex_g0 = Some ex_g8.
Proof. vm_conj. Qed.

Example threefold_not_reported :
  (* the initial position has now occurred three times: at plies 0, 4 and 8 ... *)
  pos_sig (gboard ex_g4) = pos_sig (gboard ex_g0) /\
  pos_sig (gboard ex_g8) = pos_sig (gboard ex_g0) /\
  bkey (gboard ex_g4) = bkey (gboard ex_g0) /\ bkey (gboard ex_g8) = bkey (gboard ex_g0) /\
  fullmove (gboard ex_g8) = 9 /\
  (* ... nothing was ever registered ... *)
  pos_count (gboard ex_g8) = [] /\ seen_stack (gboard ex_g8) = [1] /\
  (* ... and the game is not reported as over *)
  match game_ending ex_T rook_ref bishop_ref (gboard ex_g8) White with
  | Ok (e, _) => e = None
  | _ => False
  end.
Proof. vm_conj. Qed.

(* the hypotheses of api_no_repetition_draw are satisfied by that game *)
Example ex_api_reach :
  seen_stack (gboard ex_g0) = [1] /\ api_reach ex_T rook_ref bishop_ref ex_g0 ex_g8.
Proof.
  split; [reflexivity|]. apply (play_coords_reach (knight_dance ++ knight_dance)).
  vm_compute. reflexivity.
Qed.

(* --- the same game with every position registered, the initial one included --- *)
Definition dance_moves : list cmove :=
  [Std 6 21 None; Std 62 45 None; Std 21 6 None; Std 45 62 None].
Definition ex_r8 : board := ok_or board_new (play_reg ex_T (dance_moves ++ dance_moves) ex_c1).

Example threefold_reported_when_registered :
  play_reg ex_T (dance_moves ++ dance_moves) ex_c1 = Ok ex_r8 /\
  occ_of (pos_count ex_c1) (bkey ex_r8) = 1 /\
  times_arisen (bkey ex_r8) (arising ex_T (dance_moves ++ dance_moves) ex_c1) = 2 /\
  max_seen ex_r8 = Ok 3 /\
  seen_stack ex_r8 = [3; 2; 2; 2; 2; 1; 1; 1; 1; 1] /\
  game_ending ex_T rook_ref bishop_ref ex_r8 White = Ok (Some Draw, ex_r8).
Proof. vm_conj. Qed.

(* hypotheses of registered_game_count_from_start / ..._collision_free: pos_of := pos_sig *)
Example ex_from_start :
  pos_count ex_start = [] /\ count_position ex_start = Ok (1, ex_c1) /\
  times_arisen (bkey ex_r8) (ex_start :: arising ex_T (dance_moves ++ dance_moves) ex_c1) = 3 /\
  map (fun x => key_eqb (bkey x) (bkey ex_r8)) (ex_start :: arising ex_T (dance_moves ++ dance_moves) ex_c1)
  = [true; false; false; false; true; false; false; false; true].
Proof. vm_conj. Qed.

(* hypotheses of third_registration_draws *)
Example ex_third_registration :
  exists b, count_position b = Ok (3, ex_r8).
Proof.
  exists (ok_or board_new (let* (_, b) := uncount_position ex_r8 in Ok b)). vm_compute. reflexivity.
Qed.

Print Assumptions count_returns.
Print Assumptions uncount_returns.
Print Assumptions count_uncount_inverse.
Print Assumptions history_count.
Print Assumptions history_survives.
Print Assumptions registered_game_count.
Print Assumptions registered_game_count_from_start.
Print Assumptions registered_game_count_collision_free.
Print Assumptions api_reach_never_registers.
Print Assumptions api_no_repetition_draw.
Print Assumptions third_registration_draws.
Print Assumptions registered_third_occurrence_draws.
Print Assumptions threefold_not_reported.
