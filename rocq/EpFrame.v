(* EpFrame.v — the en-passant side condition of UndoProofs.undo_apply holds for every move the
   generator proposes, in every position the search can reach.

   UndoProofs.undo_apply needs [ep_ok m b = true]: the victim of an en-passant move is an enemy
   pawn.  Here:
     ep_wf b c              the en-passant target on top of the stack is either empty, or a single
                            square e with a pawn of c's opponent on the square "behind" e as seen
                            from the capturer c  (a property of the position, not of a move);
     pseudo_moves_ep_ok     WF b -> ep_wf b c -> every pseudo-legal candidate of c is ep_ok;
     apply_pseudo_ep_wf     WF b -> after making ANY pseudo-legal candidate of c the new position
                            satisfies ep_wf for the opponent (a double pawn push leaves the target
                            right behind the pushed pawn; every other move leaves no target).
   Hence {WF /\ ep_wf for the side to move} is an invariant of make-move along generated moves,
   which is what GenFrame.v / SearchFrame.v need.  Proofs only. *)
From Coq Require Import Lia List.
From ChessV Require Import BoardLemmas MoveGen UndoProofs.
Import ListNotations.
Open Scope N_scope.
Open Scope list_scope.

#[local] Arguments N.add : simpl never.
#[local] Arguments N.sub : simpl never.
#[local] Arguments N.mul : simpl never.
#[local] Arguments N.eqb : simpl never.
#[local] Arguments N.ltb : simpl never.
#[local] Arguments N.leb : simpl never.
#[local] Arguments N.shiftl : simpl never.
#[local] Arguments N.shiftr : simpl never.
#[local] Arguments N.land : simpl never.
#[local] Arguments N.lor : simpl never.
#[local] Arguments N.lxor : simpl never.
#[local] Arguments N.ldiff : simpl never.
#[local] Arguments N.testbit : simpl never.

Lemma EF_bind_ok {A B} (r : res A) (k : A -> res B) y :
  bind r k = Ok y -> exists x, r = Ok x /\ k x = Ok y.
Proof. destruct r as [a|e|]; cbn [bind]; intro H; try discriminate. exists a. split; [reflexivity|exact H]. Qed.

Lemma EF_unwrap_ok {A} (r : res A) a : unwrap r = Ok a -> r = Ok a.
Proof. destruct r; cbn [unwrap]; intro H; try discriminate. exact H. Qed.

Lemma EF_Ok_inj {A} (a b : A) : Ok a = Ok b -> a = b.
Proof. intro H. congruence. Qed.

Ltac bind_inv H x Hx := apply EF_bind_ok in H; destruct H as [x [Hx H]]; cbv beta iota in H.

(* ------------------------------------------------------------------ *)
(** * the position invariant *)

Definition ep_wf (b : board) (c : color) : Prop :=
  forall t, peek_ep b = Ok t ->
    t = 0 \/ exists e, e < 64 /\ t = bit e
                       /\ bget b (ep_captured_square c e) = Some (Pawn, opp_c c).

(* it does not read the side-to-move field *)
Lemma ep_wf_toggle_turn b c : ep_wf (toggle_turn b) c <-> ep_wf b c.
Proof. split; intro H; exact H. Qed.

Lemma ep_wf_no_target b c rest : ep_stack b = 0 :: rest -> ep_wf b c.
Proof. intros E t H. unfold peek_ep in H. rewrite E in H. inversion H. left. reflexivity. Qed.

Lemma ep_ok_intro b c f e :
  bget b f = Some (Pawn, c) -> bget b (ep_captured_square c e) = Some (Pawn, opp_c c) ->
  ep_ok (EnPassant f e) b = true.
Proof. intros Hf Hv. unfold ep_ok. rewrite Hf, Hv. destruct c; reflexivity. Qed.

Lemma ep_ok_std b f t cap : ep_ok (Std f t cap) b = true.  Proof. reflexivity. Qed.
Lemma ep_ok_promo b f t cap pp : ep_ok (Promo f t cap pp) b = true.  Proof. reflexivity. Qed.
Lemma ep_ok_castle b f t : ep_ok (Castle f t) b = true.  Proof. reflexivity. Qed.

(* ------------------------------------------------------------------ *)
(** * candidates are ep_ok *)

Lemma ep_src_shl pawns e k msk :
  mem e (andn (shl pawns k) msk) = true ->
  tz (shr (bit e) k) = e - k /\ mem (e - k) pawns = true.
Proof.
  intro H. rewrite mem_andn in H. apply andb_true_iff in H. destruct H as [H _].
  rewrite mem_shl in H. apply andb_true_iff in H. destruct H as [H Hm].
  apply andb_true_iff in H. destruct H as [Hk Hl]. apply N.leb_le in Hk. apply N.ltb_lt in Hl.
  split; [|exact Hm]. rewrite (shr_bit e k Hk). apply tz_bit. lia.
Qed.

Lemma ep_src_shr pawns e k msk :
  fits64 pawns -> mem e (andn (shr pawns k) msk) = true ->
  tz (shl (bit e) k) = e + k /\ mem (e + k) pawns = true.
Proof.
  intros F H. rewrite mem_andn in H. apply andb_true_iff in H. destruct H as [H _].
  rewrite mem_shr in H. pose proof (mem_lt64 pawns (e + k) F H) as L.
  split; [|exact H]. rewrite (shl_bit e k L). apply tz_bit. exact L.
Qed.

Lemma overlaps_bit x e : overlaps x (bit e) = true -> mem e x = true.
Proof.
  intro H. apply overlaps_spec in H. destruct H as [i [Hi Hb]].
  rewrite mem_bit in Hb. apply N.eqb_eq in Hb. subst i. exact Hi.
Qed.

Lemma own_pawn b c i : WF b -> mem i (pw (pieces b c)) = true -> bget b i = Some (Pawn, c).
Proof. intros W H. apply (bget_mem b i Pawn c W). exact H. Qed.

Lemma ep_moves_ep_ok b c l :
  WF b -> ep_wf b c -> ep_moves b c = Ok l -> Forall (fun m => ep_ok m b = true) l.
Proof.
  intros W E H. unfold ep_moves in H. bind_inv H t Ht.
  destruct (is_empty t) eqn:Ee; [inversion H; constructor|]. cbv zeta in H.
  apply EF_Ok_inj in H. subst l.
  destruct (E t Ht) as [E0|[e [Le [Eb Hv]]]]; [subst t; discriminate Ee|]. subst t.
  rewrite (tz_bit e Le).
  pose proof (WFs_fits_locate (pieces b c) Pawn (WF_pieces b c W)) as F. cbn [locate] in F.
  apply Forall_app. split.
  - destruct (overlaps (pawn_attack_west c _) (bit e)) eqn:O; [|constructor].
    constructor; [|constructor]. apply overlaps_bit in O.
    destruct c; unfold pawn_attack_west in O; cbv beta iota.
    + destruct (ep_src_shr _ e 7 _ F O) as [-> Hm]. exact (ep_ok_intro b Black _ e (own_pawn b Black _ W Hm) Hv).
    + destruct (ep_src_shl _ e 9 _ O) as [-> Hm]. exact (ep_ok_intro b White _ e (own_pawn b White _ W Hm) Hv).
  - destruct (overlaps (pawn_attack_east c _) (bit e)) eqn:O; [|constructor].
    constructor; [|constructor]. apply overlaps_bit in O.
    destruct c; unfold pawn_attack_east in O; cbv beta iota.
    + destruct (ep_src_shr _ e 9 _ F O) as [-> Hm]. exact (ep_ok_intro b Black _ e (own_pawn b Black _ W Hm) Hv).
    + destruct (ep_src_shl _ e 7 _ O) as [-> Hm]. exact (ep_ok_intro b White _ e (own_pawn b White _ W Hm) Hv).
Qed.

Definition promo_rank (c : color) : N := match c with White => RANK_8 | Black => RANK_1 end.

Definition pawn_caps (b : board) (c : color) : ptl :=
  flat_map (fun pt =>
              if overlaps (snd pt) (occ (pieces b (opp_c c)))
              then [(fst pt, N.land (snd pt) (occ (pieces b (opp_c c))))] else [])
           (pawn_attack_targets b c).

Definition pawn_all (b : board) (c : color) : list cmove :=
  expand b c (pawn_move_targets b c ++ pawn_caps b c).

Lemma pawn_moves_unfold b c :
  pawn_moves b c =
  let '(std, promotable) := partition (fun m => negb (mem (mv_to m) (promo_rank c))) (pawn_all b c) in
  let promos := flat_map (fun m =>
                   map (fun pp => Promo (mv_from m) (mv_to m) (mv_captures m) pp) PAWN_PROMOTIONS)
                  promotable in
  let* eps := ep_moves b c in
  Ok (promos ++ std ++ eps).
Proof. unfold pawn_moves, pawn_all, pawn_caps, promo_rank. reflexivity. Qed.

Lemma in_expand b c pts m : In m (expand b c pts) ->
  exists pt t, In pt pts /\ t < 64 /\ mem t (snd pt) = true
               /\ m = Std (fst pt) t (pget (pieces b (opp_c c)) t).
Proof.
  intro H. unfold expand in H. apply in_flat_map in H. destruct H as [pt [Hpt H]].
  apply in_map_iff in H. destruct H as [t [E Ht]]. apply bits_of_spec in Ht.
  exists pt, t. repeat split; try tauto. symmetry. exact E.
Qed.

Section Gen.
Variables rook_t bishop_t : N -> N -> N.

Theorem pseudo_moves_ep_ok b c l :
  WF b -> ep_wf b c -> pseudo_moves rook_t bishop_t b c = Ok l ->
  Forall (fun m => ep_ok m b = true) l.
Proof.
  intros W E H. unfold pseudo_moves in H. cbv zeta in H.
  bind_inv H pawns Hp. bind_inv H castles Hc. inversion H; subst l; clear H.
  assert (Hexp : forall pts, Forall (fun m => ep_ok m b = true) (expand b c pts)).
  { intro pts. apply Forall_forall. intros m Hm. apply in_expand in Hm.
    destruct Hm as (pt & t & _ & _ & _ & ->). reflexivity. }
  repeat (apply Forall_app; split); try apply Hexp.
  - rewrite pawn_moves_unfold in Hp.
    destruct (partition _ (pawn_all b c)) as [std promotable] eqn:Ep. cbv zeta in Hp.
    bind_inv Hp eps Heps. inversion Hp; subst pawns; clear Hp.
    pose proof (elements_in_partition _ _ Ep) as Hpart.
    apply Forall_app. split; [|apply Forall_app; split].
    + apply Forall_forall. intros m Hm. apply in_flat_map in Hm. destruct Hm as [m0 [_ Hm]].
      cbn [In map PAWN_PROMOTIONS] in Hm. destruct Hm as [<-|[<-|[<-|[<-|[]]]]]; reflexivity.
    + apply Forall_forall. intros m Hm.
      assert (Hin : In m (pawn_all b c)) by (apply Hpart; left; exact Hm).
      apply in_expand in Hin. destruct Hin as (pt & t & _ & _ & _ & ->). reflexivity.
    + exact (ep_moves_ep_ok b c eps W E Heps).
  - unfold castle_moves in Hc. cbv zeta in Hc.
    destruct (overlaps _ _); [inversion Hc; constructor|].
    bind_inv Hc r Hr. inversion Hc; subst castles; clear Hc.
    apply Forall_app. split;
      (match goal with |- Forall _ (if ?x then _ else _) => destruct x end;
       [constructor; [reflexivity|constructor]|constructor]).
Qed.

End Gen.

(* ------------------------------------------------------------------ *)
(** * what a successful apply leaves on top of the en-passant stack *)

Section Apply.
Variable T : ztable.

Definition same_sets_ep (b b' : board) : Prop :=
  white b' = white b /\ black b' = black b /\ ep_stack b' = ep_stack b.

Lemma sse_refl b : same_sets_ep b b.
Proof. repeat split. Qed.

Lemma sse_trans b1 b2 b3 : same_sets_ep b1 b2 -> same_sets_ep b2 b3 -> same_sets_ep b1 b3.
Proof. intros (Aq1 & Aq2 & Aq3) (Bq1 & Bq2 & Bq3). repeat split; congruence. Qed.

Lemma sse_reset_halfmove b : same_sets_ep b (reset_halfmove b).
Proof. repeat split. Qed.

Lemma sse_inc_halfmove b b' : inc_halfmove b = Ok b' -> same_sets_ep b b'.
Proof. intro H. apply inc_halfmove_spec in H. unfold same_sets_ep. tauto. Qed.

Lemma sse_inc_fullmove b b' : inc_fullmove b = Ok b' -> same_sets_ep b b'.
Proof. intro H. apply inc_fullmove_spec in H. unfold same_sets_ep. tauto. Qed.

Lemma sse_lose_rights b l b' : lose_rights T b l = Ok b' -> same_sets_ep b b'.
Proof. intro H. apply lose_rights_spec in H. unfold same_sets_ep. tauto. Qed.

Lemma sse_preserve_rights b b' : preserve_rights b = Ok b' -> same_sets_ep b b'.
Proof. intro H. apply preserve_rights_spec in H. unfold same_sets_ep. tauto. Qed.

Lemma push_ep_sets b t b' : push_ep T b t = Ok b' ->
  white b' = white b /\ black b' = black b /\ ep_stack b' = t :: ep_stack b.
Proof. intro H. apply push_ep_spec in H. tauto. Qed.

Lemma put_ep_stack b i p c b' : put T b i p c = Ok b' -> ep_stack b' = ep_stack b.
Proof. intro H. apply put_frame in H. tauto. Qed.

Lemma bremove_ep_stack b i pc b' : bremove T b i = Some (pc, b') -> ep_stack b' = ep_stack b.
Proof. destruct pc as [p c]. intro H. apply bremove_frame in H. tauto. Qed.

Lemma remove_unwrap_ep_stack b i b' : remove_unwrap T b i = Ok b' -> ep_stack b' = ep_stack b.
Proof.
  unfold remove_unwrap. destruct (bremove T b i) as [[pc b1]|] eqn:E; [|discriminate].
  intro H. inversion H; subst b1. exact (bremove_ep_stack _ _ _ _ E).
Qed.

Lemma sse_WF b b' : same_sets_ep b b' -> WF b -> WF b'.
Proof. intros (Aq1 & Aq2 & _). apply WF_same_sets; assumption. Qed.

(* the common tail of StandardChessMove::apply *)
Lemma std_tail_ep b2 (captured : option (piece * color)) p c f t b' :
  WF b2 -> t < 64 ->
  (let ept := ep_target_of p c f t in
   let lost := N.lor (lost_if_moved p c f) (lost_if_taken captured t) in
   let* b3 := (match captured with
               | Some _ => Ok (reset_halfmove b2)
               | None => if piece_eqb p Pawn then Ok (reset_halfmove b2) else inc_halfmove b2
               end) in
   let* b4 := inc_fullmove b3 in
   let* b5 := push_ep T b4 ept in
   let* b6 := lose_rights T b5 lost in
   unwrap (put T b6 t p c)) = Ok b' ->
  ep_stack b' = ep_target_of p c f t :: ep_stack b2 /\ bget b' t = Some (p, c).
Proof.
  intros W2 Lt H. cbv zeta in H.
  bind_inv H b3 Eq3.
  assert (S3 : same_sets_ep b2 b3).
  { destruct captured as [pc|].
    - inversion Eq3. apply sse_reset_halfmove.
    - destruct (piece_eqb p Pawn).
      + inversion Eq3. apply sse_reset_halfmove.
      + exact (sse_inc_halfmove _ _ Eq3). }
  bind_inv H b4 Eq4. pose proof (sse_trans _ _ _ S3 (sse_inc_fullmove _ _ Eq4)) as S4.
  bind_inv H b5 Eq5. destruct (push_ep_sets _ _ _ Eq5) as (P1 & P2 & P3).
  bind_inv H b6 Eq6. pose proof (sse_lose_rights _ _ _ Eq6) as S6.
  apply EF_unwrap_ok in H.
  destruct S4 as (Aq1 & Aq2 & Aq3). destruct S6 as (Cq1 & Cq2 & Cq3).
  assert (W6 : WF b6) by (apply (WF_same_sets b2 b6); [congruence|congruence|exact W2]).
  split.
  - rewrite (put_ep_stack _ _ _ _ _ H). congruence.
  - rewrite (put_bget T _ _ _ _ _ H W6 Lt t), N.eqb_refl. reflexivity.
Qed.

Lemma apply_std_ep b f t cap b' :
  WF b -> t < 64 -> apply_std T b f t cap = Ok b' ->
  exists p c, bget b f = Some (p, c)
              /\ ep_stack b' = ep_target_of p c f t :: ep_stack b
              /\ bget b' t = Some (p, c).
Proof.
  intros W Lt H. unfold apply_std in H.
  destruct (bremove T b f) as [[[p c] b1]|] eqn:Eq1; [|discriminate].
  exists p, c. destruct (bremove_bget T _ _ _ _ _ Eq1 W) as [Hf _]. split; [exact Hf|].
  pose proof (bremove_WF T _ _ _ _ _ Eq1 W) as W1.
  pose proof (bremove_ep_stack _ _ _ _ Eq1) as Ep1.
  destruct (bremove T b1 t) as [[[q d] b2]|] eqn:Eq2; cbv beta iota in H;
    (destruct (negb _); [discriminate|]).
  - pose proof (bremove_WF T _ _ _ _ _ Eq2 W1) as W2.
    pose proof (bremove_ep_stack _ _ _ _ Eq2) as Ep2.
    destruct (std_tail_ep b2 (Some (q, d)) p c f t b' W2 Lt H) as [A B].
    split; [congruence|exact B].
  - destruct (std_tail_ep b1 None p c f t b' W1 Lt H) as [A B].
    split; [congruence|exact B].
Qed.

Lemma apply_promo_ep b f t cap pp b' :
  WF b -> t < 64 -> apply_promo T b f t cap pp = Ok b' ->
  exists c, bget b f = Some (Pawn, c)
            /\ ep_stack b' = ep_target_of Pawn c f t :: ep_stack b.
Proof.
  intros W Lt H. unfold apply_promo in H. bind_inv H b1 Eq1.
  destruct (apply_std_ep b f t cap b1 W Lt Eq1) as (p & c & Hf & Hs & Ht).
  destruct (bremove T b1 t) as [[[q d] b2]|] eqn:Eq2; [|discriminate].
  pose proof (apply_move_WF T (Std f t cap) b b1 W) as W1.
  assert (Sq : sq_ok (Std f t cap)).
  { split; cbn [mv_from mv_to]; [exact (bget_lt64 b f _ W Hf)|exact Lt]. }
  specialize (W1 Sq Eq1).
  destruct (bremove_bget T _ _ _ _ _ Eq2 W1) as [Hq _]. rewrite Ht in Hq. inversion Hq; subst q d.
  destruct p; try discriminate.
  exists c. split; [exact Hf|].
  rewrite (put_ep_stack _ _ _ _ _ H), (bremove_ep_stack _ _ _ _ Eq2). exact Hs.
Qed.

Lemma apply_ep_ep b f t b' : apply_ep T b f t = Ok b' -> exists rest, ep_stack b' = 0 :: rest.
Proof.
  intro H. unfold apply_ep in H.
  destruct (bremove T b f) as [[[p c] b1]|]; [|discriminate].
  destruct (negb _); [discriminate|].
  destruct (bremove T b1 _) as [[pc b2]|]; [|discriminate]. cbv zeta in H.
  bind_inv H b4 Eq4. bind_inv H b5 Eq5. bind_inv H b6 Eq6.
  destruct (push_ep_sets _ _ _ Eq5) as (_ & _ & P3).
  destruct (sse_preserve_rights _ _ Eq6) as (_ & _ & Cq3).
  eexists. rewrite (put_ep_stack _ _ _ _ _ H), Cq3, P3. reflexivity.
Qed.

Lemma apply_castle_ep b f t b' : apply_castle T b f t = Ok b' -> exists rest, ep_stack b' = 0 :: rest.
Proof.
  intro H. unfold apply_castle in H.
  bind_inv H sh Hs. destruct sh as [[c rf] rt]. cbv beta iota in H.
  repeat (match type of H with (if ?x then _ else _) = _ => destruct x; [discriminate|] end).
  bind_inv H b1 Eq1. bind_inv H b2 Eq2. bind_inv H b3 Eq3. bind_inv H b4 Eq4. cbv zeta in H.
  bind_inv H b5 Eq5. bind_inv H b6 Eq6. bind_inv H b7 Eq7.
  destruct (push_ep_sets _ _ _ Eq7) as (_ & _ & P3).
  destruct (sse_lose_rights _ _ _ H) as (_ & _ & Cq3).
  eexists. rewrite Cq3, P3. reflexivity.
Qed.

End Apply.

(* ------------------------------------------------------------------ *)
(** * pawn geometry (finite sweeps over colour x square x square) *)

Definition colors2 : list color := [White; Black].

Lemma sweep_c64x64 (P : color -> N -> N -> bool) :
  forallb (fun c => forallb (fun f => forallb (fun t => P c f t) squares) squares) colors2 = true ->
  forall c f t, f < 64 -> t < 64 -> P c f t = true.
Proof.
  intros H c f t Lf Lt. rewrite forallb_forall in H.
  assert (Hc : In c colors2) by (destruct c; cbn; tauto).
  specialize (H c Hc). rewrite forallb_forall in H.
  specialize (H f (proj2 (in_squares f) Lf)). rewrite forallb_forall in H.
  exact (H t (proj2 (in_squares t) Lt)).
Qed.

(* t is one of the squares a pawn of c on f can be sent to by the generator *)
Definition targ (c : color) (f t : N) : bool :=
  mem t (pawn_step c (bit f)) || mem t (pawn_step c (pawn_step c (bit f)))
  || mem t (pawn_attack_east c (bit f)) || mem t (pawn_attack_west c (bit f)).

Definition mid (c : color) (f : N) : N := match c with White => f + 8 | Black => f - 8 end.

Definition geo (c : color) (f t : N) : bool :=
  negb (targ c f t)
  || (ep_target_of Pawn c f t =? 0)
  || ((ep_target_of Pawn c f t =? bit (mid c f)) && (mid c f <? 64)
      && (ep_captured_square (opp_c c) (mid c f) =? t)).

Lemma pawn_geometry c f t : f < 64 -> t < 64 -> targ c f t = true ->
  ep_target_of Pawn c f t = 0 \/
  (ep_target_of Pawn c f t = bit (mid c f) /\ mid c f < 64
   /\ ep_captured_square (opp_c c) (mid c f) = t).
Proof.
  intros Lf Lt Ht.
  assert (G : geo c f t = true).
  { apply (sweep_c64x64 geo); [vm_compute; reflexivity|exact Lf|exact Lt]. }
  unfold geo in G. rewrite Ht in G. cbn [negb orb] in G.
  apply orb_true_iff in G. destruct G as [G|G].
  - left. apply N.eqb_eq. exact G.
  - right. apply andb_true_iff in G. destruct G as [G Gq3].
    apply andb_true_iff in G. destruct G as [Gq1 Gq2].
    apply N.eqb_eq in Gq1. apply N.ltb_lt in Gq2. apply N.eqb_eq in Gq3. tauto.
Qed.

Lemma promo_rank_no_ep c f t : t < 64 -> mem t (promo_rank c) = true -> ep_target_of Pawn c f t = 0.
Proof.
  intros Lt H.
  assert (S : forallb (fun t => negb (mem t RANK_8 && mem t RANK_4) && negb (mem t RANK_1 && mem t RANK_5))
                squares = true) by (vm_compute; reflexivity).
  rewrite forallb_forall in S. specialize (S t (proj2 (in_squares t) Lt)).
  apply andb_true_iff in S. destruct S as [S1 S2].
  unfold ep_target_of. destruct c; cbn [promo_rank] in H; rewrite H in *; cbn [andb negb] in *.
  - destruct (mem t RANK_5); [discriminate S2|]. rewrite andb_false_r. reflexivity.
  - destruct (mem t RANK_4); [discriminate S1|]. rewrite andb_false_r. reflexivity.
Qed.

(* every entry of the pawn list is a move of an own pawn to one of the `targ` squares *)
Lemma pawn_all_inv b c m : WF b -> In m (pawn_all b c) ->
  exists f t cap, m = Std f t cap /\ f < 64 /\ t < 64
                  /\ bget b f = Some (Pawn, c) /\ targ c f t = true.
Proof.
  intros W H. unfold pawn_all in H. apply in_expand in H.
  destruct H as (pt & t & Hpt & Lt & Mt & ->).
  exists (fst pt), t, (pget (pieces b (opp_c c)) t). split; [reflexivity|].
  apply in_app_or in Hpt. destruct Hpt as [Hpt|Hpt].
  - unfold pawn_move_targets in Hpt. apply in_flat_map in Hpt. destruct Hpt as [x [Hx Hpt]].
    apply in_squares in Hx. destruct (mem x _) eqn:Mx; [|destruct Hpt].
    destruct (overlaps _ _); [destruct Hpt|]. cbv zeta in Hpt.
    destruct (is_empty _); [destruct Hpt|]. destruct Hpt as [<-|[]]. cbn [fst snd] in *.
    split; [exact Hx|]. split; [exact Lt|]. split; [exact (own_pawn b c x W Mx)|].
    rewrite mem_lor, !mem_land in Mt. unfold targ.
    apply orb_true_iff in Mt. destruct Mt as [Mt|Mt]; apply andb_true_iff in Mt; destruct Mt as [Mt _];
      rewrite Mt; rewrite ?orb_true_r; reflexivity.
  - unfold pawn_caps in Hpt. apply in_flat_map in Hpt. destruct Hpt as [pt' [Hpt' Hpt]].
    destruct (overlaps _ _); [|destruct Hpt]. destruct Hpt as [<-|[]]. cbn [fst snd] in *.
    unfold pawn_attack_targets in Hpt'. apply in_flat_map in Hpt'. destruct Hpt' as [x [Hx Hpt']].
    apply in_squares in Hx. destruct (mem x _) eqn:Mx; [|destruct Hpt'].
    destruct Hpt' as [<-|[]]. cbn [fst snd] in *.
    split; [exact Hx|]. split; [exact Lt|]. split; [exact (own_pawn b c x W Mx)|].
    rewrite mem_land, mem_lor in Mt. apply andb_true_iff in Mt. destruct Mt as [Mt _]. unfold targ.
    apply orb_true_iff in Mt. destruct Mt as [Mt|Mt]; rewrite Mt; rewrite ?orb_true_r; reflexivity.
Qed.

Lemma partition_snd_false {A} (f : A -> bool) (l l1 l2 : list A) :
  partition f l = (l1, l2) -> forall x, In x l2 -> f x = false.
Proof.
  revert l1 l2. induction l as [|a l IH]; intros l1 l2 H x Hx; cbn [partition] in H.
  - inversion H; subst. destruct Hx.
  - destruct (partition f l) as [g d]. destruct (f a) eqn:Fa; inversion H; subst.
    + exact (IH _ _ eq_refl x Hx).
    + destruct Hx as [<-|Hx]; [exact Fa|exact (IH _ _ eq_refl x Hx)].
Qed.

(* ------------------------------------------------------------------ *)
(** * the invariant is re-established for the opponent by every candidate *)

Section Step.
Variable T : ztable.
Variables rook_t bishop_t : N -> N -> N.

Lemma peek_of_stack b x rest t : ep_stack b = x :: rest -> peek_ep b = Ok t -> t = x.
Proof. intros E H. unfold peek_ep in H. rewrite E in H. inversion H. reflexivity. Qed.

(* a standard move whose mover is known *)
Lemma std_after b c p f t cap b1 :
  WF b -> t < 64 -> bget b f = Some (p, c) -> apply_std T b f t cap = Ok b1 ->
  (ep_target_of p c f t = 0 \/
   (p = Pawn /\ exists e, ep_target_of p c f t = bit e /\ e < 64 /\ ep_captured_square (opp_c c) e = t)) ->
  ep_wf b1 (opp_c c).
Proof.
  intros W Lt Hf Ha Hg.
  destruct (apply_std_ep T b f t cap b1 W Lt Ha) as (p' & c' & Hf' & Hs & Ht).
  rewrite Hf in Hf'. inversion Hf'; subst p' c'.
  intros t0 Hp. rewrite (peek_of_stack _ _ _ _ Hs Hp).
  destruct Hg as [E0|[Ep [e [Ee [Le Ec]]]]]; [left; exact E0|].
  right. exists e. split; [exact Le|]. split; [exact Ee|].
  rewrite Ec, Ht, Ep. destruct c; reflexivity.
Qed.

Lemma nonpawn_after b c p f t cap b1 :
  WF b -> t < 64 -> bget b f = Some (p, c) -> p <> Pawn -> apply_std T b f t cap = Ok b1 ->
  ep_wf b1 (opp_c c).
Proof.
  intros W Lt Hf Hp Ha. apply (std_after b c p f t cap b1 W Lt Hf Ha).
  left. destruct p; try reflexivity. contradiction.
Qed.

Lemma table_targets_origin tbl b c p pt :
  WF b -> In pt (table_targets tbl b c p) -> bget b (fst pt) = Some (p, c).
Proof.
  intros W H. unfold table_targets in H. apply in_flat_map in H. destruct H as [sq [_ H]].
  destruct (mem sq _) eqn:M; [|destruct H].
  destruct (is_empty _); [destruct H|]. destruct H as [<-|[]]. cbn [fst].
  apply (bget_mem b sq p c W). exact M.
Qed.

Lemma sliding_targets_origin b c pt :
  WF b -> In pt (sliding_targets rook_t bishop_t b c) ->
  exists p, p <> Pawn /\ bget b (fst pt) = Some (p, c).
Proof.
  intros W H. unfold sliding_targets in H. apply in_flat_map in H. destruct H as [sq [_ H]].
  destruct (pget (pieces b c) sq) as [p|] eqn:G; [|destruct H].
  apply (bget_some_iff b sq p c W) in G.
  destruct p; cbn [In] in H; try (destruct H; fail); destruct H as [<-|[]]; cbn [fst];
    eexists; (split; [|exact G]); discriminate.
Qed.

Theorem apply_pseudo_ep_wf b c l m b1 :
  WF b -> pseudo_moves rook_t bishop_t b c = Ok l -> In m l ->
  apply_move T m b = Ok b1 -> ep_wf b1 (opp_c c).
Proof.
  intros W H Hin Ha. unfold pseudo_moves in H. cbv zeta in H.
  bind_inv H pawns Hp. bind_inv H castles Hc. inversion H; subst l; clear H.
  apply in_app_or in Hin. destruct Hin as [Hin|Hin].
  { apply in_expand in Hin. destruct Hin as (pt & t & Hpt & Lt & _ & ->). cbn [apply_move] in Ha.
    exact (nonpawn_after b c Knight _ t _ b1 W Lt (table_targets_origin _ b c Knight pt W Hpt) ltac:(discriminate) Ha). }
  apply in_app_or in Hin. destruct Hin as [Hin|Hin].
  { apply in_expand in Hin. destruct Hin as (pt & t & Hpt & Lt & _ & ->). cbn [apply_move] in Ha.
    destruct (sliding_targets_origin b c pt W Hpt) as [p [Np Hf]].
    exact (nonpawn_after b c p _ t _ b1 W Lt Hf Np Ha). }
  apply in_app_or in Hin. destruct Hin as [Hin|Hin].
  { apply in_expand in Hin. destruct Hin as (pt & t & Hpt & Lt & _ & ->). cbn [apply_move] in Ha.
    exact (nonpawn_after b c King _ t _ b1 W Lt (table_targets_origin _ b c King pt W Hpt) ltac:(discriminate) Ha). }
  apply in_app_or in Hin. destruct Hin as [Hin|Hin].
  - rewrite pawn_moves_unfold in Hp.
    destruct (partition _ (pawn_all b c)) as [std promotable] eqn:Ep. cbv zeta in Hp.
    bind_inv Hp eps Heps. inversion Hp; subst pawns; clear Hp.
    pose proof (elements_in_partition _ _ Ep) as Hpart.
    apply in_app_or in Hin. destruct Hin as [Hin|Hin]; [|apply in_app_or in Hin; destruct Hin as [Hin|Hin]].
    + (* promotions *)
      apply in_flat_map in Hin. destruct Hin as [m0 [Hm0 Hin]].
      pose proof (partition_snd_false _ _ _ _ Ep m0 Hm0) as Hr. apply negb_false_iff in Hr.
      assert (Hall : In m0 (pawn_all b c)) by (apply Hpart; right; exact Hm0).
      destruct (pawn_all_inv b c m0 W Hall) as (f & t & cap & -> & Lf & Lt & Hf & _).
      cbn [mv_from mv_to mv_captures] in *.
      cbn [In map PAWN_PROMOTIONS] in Hin.
      assert (Hpr : exists pp, m = Promo f t cap pp).
      { destruct Hin as [<-|[<-|[<-|[<-|[]]]]]; eexists; reflexivity. }
      destruct Hpr as [pp ->]. cbn [apply_move] in Ha.
      destruct (apply_promo_ep T b f t cap pp b1 W Lt Ha) as (c' & Hf' & Hs).
      rewrite Hf in Hf'. inversion Hf'; subst c'.
      rewrite (promo_rank_no_ep c f t Lt Hr) in Hs.
      exact (ep_wf_no_target b1 (opp_c c) _ Hs).
    + (* ordinary pawn moves *)
      assert (Hall : In m (pawn_all b c)) by (apply Hpart; left; exact Hin).
      destruct (pawn_all_inv b c m W Hall) as (f & t & cap & -> & Lf & Lt & Hf & Htarg).
      cbn [apply_move] in Ha.
      apply (std_after b c Pawn f t cap b1 W Lt Hf Ha).
      destruct (pawn_geometry c f t Lf Lt Htarg) as [E0|(Eq1 & Eq2 & Eq3)]; [left; exact E0|].
      right. split; [reflexivity|]. exists (mid c f). tauto.
    + (* en passant *)
      unfold ep_moves in Heps. bind_inv Heps t0 Ht0.
      destruct (is_empty t0); [inversion Heps; subst eps; destruct Hin|]. cbv zeta in Heps.
      inversion Heps; subst eps; clear Heps.
      assert (Hm : exists f t, m = EnPassant f t).
      { apply in_app_or in Hin.
        destruct Hin as [Hin|Hin]; destruct (overlaps _ _); cbn [In] in Hin;
          try (destruct Hin; fail); destruct Hin as [<-|[]]; eexists; eexists; reflexivity. }
      destruct Hm as (f & t & ->). cbn [apply_move] in Ha.
      destruct (apply_ep_ep T b f t b1 Ha) as [rest Hs].
      exact (ep_wf_no_target b1 (opp_c c) rest Hs).
  - (* castling *)
    unfold castle_moves in Hc. cbv zeta in Hc.
    destruct (overlaps _ _); [inversion Hc; subst castles; destruct Hin|].
    bind_inv Hc r Hr. inversion Hc; subst castles; clear Hc.
    assert (Hm : exists f t, m = Castle f t).
    { apply in_app_or in Hin.
      destruct Hin as [Hin|Hin];
        match type of Hin with In _ (if ?x then _ else _) => destruct x end; cbn [In] in Hin;
        try (destruct Hin; fail); destruct Hin as [<-|[]]; eexists; eexists; reflexivity. }
    destruct Hm as (f & t & ->). cbn [apply_move] in Ha.
    destruct (apply_castle_ep T b f t b1 Ha) as [rest Hs].
    exact (ep_wf_no_target b1 (opp_c c) rest Hs).
Qed.

End Step.

(* ------------------------------------------------------------------ *)
(** * non-vacuity *)

(* white pawn e5, black pawn d5 that has just advanced two squares: target d6 = 43 *)
Definition EF_demo : board :=
  match put example_table board_new 36 Pawn White with
  | Ok b1 => match put example_table b1 35 Pawn Black with
             | Ok b2 => set_ep b2 [bit 43]
             | _ => board_new end
  | _ => board_new end.

Example EF_demo_ep_wf : ep_wf EF_demo White.
Proof.
  intros t H. vm_compute in H. inversion H. right. exists 43. split; [reflexivity|].
  split; [reflexivity|]. vm_compute. reflexivity.
Qed.

Example EF_demo_has_ep :
  match pseudo_moves rook_ref bishop_ref EF_demo White with
  | Ok l => In (EnPassant 36 43) l /\ ep_ok (EnPassant 36 43) EF_demo = true
  | _ => False
  end.
Proof. vm_compute. split; [tauto|reflexivity]. Qed.

(* a double push establishes the invariant for the opponent with a real target *)
Example EF_double_push :
  match put example_table board_new 12 Pawn White with
  | Ok b => match apply_move example_table (Std 12 28 None) b with
            | Ok b1 => peek_ep b1 = Ok (bit 20) /\ bget b1 (ep_captured_square Black 20) = Some (Pawn, White)
            | _ => False end
  | _ => False end.
Proof. vm_compute. split; reflexivity. Qed.

Print Assumptions pseudo_moves_ep_ok.
Print Assumptions apply_pseudo_ep_wf.
