(* SuccProofs1.v — C03, part 1: what one applied move does to the observable fields of the
   model board (piece on every square, side to move, en-passant stack, castle-rights stack),
   for each of the four move kinds, and when the application cannot fail.
   Proofs only; the definitions reasoned about are in Board.v / Moves.v.
   Part 2 (SuccProofs.v) compares these effects with Rules.successor. *)
From Coq Require Import Lia ZArith NArith List Bool.
From ChessV Require Import Bits Types Board Moves Abs.
From ChessV Require Import BitsLemmas BoardLemmas.

#[local] Arguments N.add : simpl never.
#[local] Arguments N.sub : simpl never.
#[local] Arguments N.mul : simpl never.
#[local] Arguments N.eqb : simpl never.
#[local] Arguments N.ltb : simpl never.
#[local] Arguments N.leb : simpl never.
#[local] Arguments N.shiftl : simpl never.
#[local] Arguments N.shiftr : simpl never.
#[local] Arguments N.land : simpl never.
#[local] Arguments N.lor : simpl never.
#[local] Arguments N.lxor : simpl never.
#[local] Arguments N.ldiff : simpl never.
#[local] Arguments N.testbit : simpl never.

Ltac sstep H x E :=
  match type of H with
  | bind ?r _ = Ok _ => destruct r as [x| |] eqn:E; cbn [bind] in H; [|discriminate H|discriminate H]
  end.

Lemma unwrap_Ok {A} (r : res A) a : unwrap r = Ok a -> r = Ok a.
Proof. destruct r; cbn; intro H; try discriminate H; exact H. Qed.

Lemma opt_pc_eqb_true a b : opt_pc_eqb a b = true <-> a = b.
Proof. apply opt_pc_eqb_eq. Qed.

Lemma is_none_true {A} (o : option A) : is_none o = true <-> o = None.
Proof. destruct o; cbn; split; intro H; try discriminate H; reflexivity. Qed.

(* ------------------------------------------------------------------ *)
(** * steps that leave the pieces, the turn and both observable stacks alone *)

Definition keeps (b b' : board) : Prop :=
  white b' = white b /\ black b' = black b /\ turn b' = turn b
  /\ ep_stack b' = ep_stack b /\ cr_stack b' = cr_stack b.

Lemma keeps_refl b : keeps b b.
Proof. repeat split. Qed.

Lemma keeps_trans b1 b2 b3 : keeps b1 b2 -> keeps b2 b3 -> keeps b1 b3.
Proof. unfold keeps. intuition congruence. Qed.

Lemma keeps_WF b b' : keeps b b' -> WF b -> WF b'.
Proof. intros (Kw & Kb & _). apply WF_same_sets; assumption. Qed.

Lemma keeps_bget b b' : keeps b b' -> forall j, bget b' j = bget b j.
Proof. intros (Kw & Kb & _) j. rewrite (bget_same_sets b b' Kw Kb). reflexivity. Qed.

Lemma reset_halfmove_keeps b : keeps b (reset_halfmove b).
Proof. repeat split. Qed.

Lemma inc_halfmove_keeps b b' : inc_halfmove b = Ok b' -> keeps b b'.
Proof. intro H. apply inc_halfmove_spec in H. unfold keeps. tauto. Qed.

Lemma inc_fullmove_keeps b b' : inc_fullmove b = Ok b' -> keeps b b'.
Proof. intro H. apply BoardLemmas.inc_fullmove_spec in H. unfold keeps. tauto. Qed.

Section WithTable.
Variable T : ztable.

(* the pieces and the turn stay, one observable stack grows *)
Lemma push_ep_obs b t b' : push_ep T b t = Ok b' ->
  white b' = white b /\ black b' = black b /\ turn b' = turn b
  /\ ep_stack b' = t :: ep_stack b /\ cr_stack b' = cr_stack b.
Proof. intro H. apply push_ep_spec in H. tauto. Qed.

Lemma lose_rights_obs b l b' : lose_rights T b l = Ok b' ->
  white b' = white b /\ black b' = black b /\ turn b' = turn b
  /\ ep_stack b' = ep_stack b
  /\ cr_stack b' = N.lxor (top (cr_stack b)) (N.land (top (cr_stack b)) l) :: cr_stack b.
Proof. intro H. apply lose_rights_spec in H. unfold top. tauto. Qed.

Lemma preserve_rights_obs b b' : preserve_rights b = Ok b' ->
  white b' = white b /\ black b' = black b /\ turn b' = turn b
  /\ ep_stack b' = ep_stack b /\ cr_stack b' = top (cr_stack b) :: cr_stack b.
Proof. intro H. apply preserve_rights_spec in H. unfold top. tauto. Qed.

(* ------------------------------------------------------------------ *)
(** * piece steps: one cell changes, the rest of the observable state stays *)

Definition pstep (b b' : board) (i : N) (v : option (piece * color)) : Prop :=
  WF b' /\ (forall j, bget b' j = if j =? i then v else bget b j)
  /\ turn b' = turn b /\ ep_stack b' = ep_stack b /\ cr_stack b' = cr_stack b
  /\ hm_stack b' = hm_stack b /\ fullmove b' = fullmove b.

Lemma put_pstep b i p c b' : put T b i p c = Ok b' -> WF b -> i < 64 -> pstep b b' i (Some (p, c)).
Proof.
  intros H W Li. pose proof (put_frame T _ _ _ _ _ H) as F.
  split; [exact (put_WF T _ _ _ _ _ H W Li)|]. split; [exact (put_bget T _ _ _ _ _ H W Li)|]. tauto.
Qed.

Lemma bremove_pstep b i p c b' : bremove T b i = Some ((p, c), b') -> WF b ->
  bget b i = Some (p, c) /\ pstep b b' i None.
Proof.
  intros H W. pose proof (bremove_frame T _ _ _ _ _ H) as F.
  destruct (bremove_bget T _ _ _ _ _ H W) as [G0 G1]. split; [exact G0|].
  split; [exact (bremove_WF T _ _ _ _ _ H W)|]. split; [exact G1|]. tauto.
Qed.

Lemma remove_unwrap_pstep b i b' : remove_unwrap T b i = Ok b' -> WF b ->
  bget b i <> None /\ pstep b b' i None.
Proof.
  unfold remove_unwrap. intros H W.
  destruct (bremove T b i) as [[[p c] b1]|] eqn:E; [|discriminate H].
  inversion H; subst b1. destruct (bremove_pstep _ _ _ _ _ E W) as [G S].
  split; [congruence|exact S].
Qed.

(* ------------------------------------------------------------------ *)
(** * StandardChessMove::apply *)

(* what `apply_std` finds on the destination: nothing if it is the (just vacated) origin *)
Definition found_on (b : board) (f t : N) : option (piece * color) :=
  if t =? f then None else bget b t.

Definition new_rights (old lost : N) : N := N.lxor old (N.land old lost).

Lemma second_removal b1 t :
  WF b1 ->
  exists b2,
    (match bremove T b1 t with None => (None, b1) | Some (pc, b2) => (Some pc, b2) end) = (bget b1 t, b2)
    /\ pstep b1 b2 t None.
Proof.
  intro W1. destruct (bremove T b1 t) as [[[q d] b2]|] eqn:E.
  - exists b2. destruct (bremove_pstep _ _ _ _ _ E W1) as [G S]. rewrite G. split; [reflexivity|exact S].
  - exists b1. apply bremove_none_iff in E. rewrite E. split; [reflexivity|].
    split; [exact W1|]. split; [|repeat split].
    intro j. destruct (N.eqb_spec j t) as [->|Hne]; [exact E|reflexivity].
Qed.

Definition clock_step (captured : option (piece * color)) (p : piece) (b2 : board) : res board :=
  match captured with
  | Some _ => Ok (reset_halfmove b2)
  | None => if piece_eqb p Pawn then Ok (reset_halfmove b2) else inc_halfmove b2
  end.

Lemma clock_step_keeps captured p b2 b3 : clock_step captured p b2 = Ok b3 -> keeps b2 b3.
Proof.
  unfold clock_step. intro H. destruct captured as [x|].
  - inversion H. apply reset_halfmove_keeps.
  - destruct (piece_eqb p Pawn).
    + inversion H. apply reset_halfmove_keeps.
    + apply inc_halfmove_keeps, H.
Qed.

Theorem apply_std_obs b f t cap b' :
  WF b -> t < 64 -> apply_std T b f t cap = Ok b' ->
  exists p c, bget b f = Some (p, c) /\
    found_on b f t = option_map (fun cp => (cp, opp_c c)) cap /\
    WF b' /\
    (forall j, bget b' j = if j =? t then Some (p, c) else if j =? f then None else bget b j) /\
    turn b' = turn b /\
    ep_stack b' = ep_target_of p c f t :: ep_stack b /\
    cr_stack b' = new_rights (top (cr_stack b))
                    (N.lor (lost_if_moved p c f) (lost_if_taken (found_on b f t) t)) :: cr_stack b.
Proof.
  intros W Lt H. unfold apply_std in H.
  destruct (bremove T b f) as [[[p c] b1]|] eqn:Eq1; [|discriminate H].
  destruct (bremove_pstep _ _ _ _ _ Eq1 W) as [G0 (W1 & G1 & T1 & Ep1 & Cr1 & _)].
  exists p, c. split; [exact G0|].
  destruct (second_removal b1 t W1) as [b2 [Eq2 (W2 & G2 & T2 & Ep2 & Cr2 & _)]].
  rewrite Eq2 in H. cbv beta iota zeta in H.
  assert (Ef : bget b1 t = found_on b f t) by (unfold found_on; rewrite G1; reflexivity).
  rewrite Ef in H.
  destruct (opt_pc_eqb (found_on b f t) (option_map (fun cp => (cp, opp_c c)) cap)) eqn:Ec;
    cbn [negb] in H; [|discriminate H].
  apply opt_pc_eqb_true in Ec. split; [exact Ec|].
  change (match found_on b f t with
          | Some _ => Ok (reset_halfmove b2)
          | None => if piece_eqb p Pawn then Ok (reset_halfmove b2) else inc_halfmove b2
          end) with (clock_step (found_on b f t) p b2) in H.
  sstep H b3 Eq3. sstep H b4 Eq4. sstep H b5 Eq5. sstep H b6 Eq6. apply unwrap_Ok in H.
  apply clock_step_keeps in Eq3. apply inc_fullmove_keeps in Eq4.
  apply push_ep_obs in Eq5. apply lose_rights_obs in Eq6.
  destruct Eq3 as (A3 & B3 & C3 & D3 & F3). destruct Eq4 as (A4 & B4 & C4 & D4 & F4).
  destruct Eq5 as (A5 & B5 & C5 & D5 & F5). destruct Eq6 as (A6 & B6 & C6 & D6 & F6).
  assert (Kw : white b6 = white b2) by congruence.
  assert (Kb : black b6 = black b2) by congruence.
  pose proof (WF_same_sets b2 b6 Kw Kb W2) as W6.
  destruct (put_pstep _ _ _ _ _ H W6 Lt) as (W' & G' & T' & Ep' & Cr' & _).
  split; [exact W'|]. split.
  - intro j. rewrite G'. destruct (N.eqb_spec j t) as [->|Hne]; [reflexivity|].
    rewrite (bget_same_sets b2 b6 Kw Kb), G2.
    apply N.eqb_neq in Hne. rewrite Hne. apply G1.
  - split; [congruence|]. split; [congruence|].
    rewrite Cr', F6. f_equal; [|congruence].
    unfold new_rights. replace (cr_stack b5) with (cr_stack b) by congruence. reflexivity.
Qed.

(* when it cannot fail *)
Definition stacks_ok (b : board) : Prop := ep_stack b <> [] /\ cr_stack b <> [].

Lemma push_ep_total b t : ep_stack b <> [] -> exists b', push_ep T b t = Ok b'.
Proof. intro H. rewrite push_ep_eq. destruct (ep_stack b); [congruence|]. eexists. reflexivity. Qed.

Lemma lose_rights_total b l : cr_stack b <> [] -> exists b', lose_rights T b l = Ok b'.
Proof. intro H. rewrite lose_rights_eq. destruct (cr_stack b); [congruence|]. eexists. reflexivity. Qed.

Lemma preserve_rights_total b : cr_stack b <> [] -> exists b', preserve_rights b = Ok b'.
Proof. intro H. rewrite preserve_rights_eq. destruct (cr_stack b); [congruence|]. eexists. reflexivity. Qed.

Lemma inc_fullmove_total b : fullmove b <> FULLMOVE_MAX -> exists b', inc_fullmove b = Ok b'.
Proof.
  intro H. unfold inc_fullmove. apply N.eqb_neq in H. rewrite H. eexists. reflexivity.
Qed.

Lemma inc_halfmove_total b : hm_stack b <> [] -> top (hm_stack b) <> U8_MAX -> exists b', inc_halfmove b = Ok b'.
Proof.
  intros H1 H2. rewrite inc_halfmove_eq. destruct (hm_stack b) as [|h r]; [congruence|].
  cbn [top hd] in H2. apply N.eqb_neq in H2. rewrite H2. eexists. reflexivity.
Qed.

Lemma inc_halfmove_fullmove b b' : inc_halfmove b = Ok b' -> fullmove b' = fullmove b.
Proof. intro H. apply inc_halfmove_spec in H. tauto. Qed.

Definition counters_ok (b : board) : Prop :=
  ep_stack b <> [] /\ cr_stack b <> [] /\ hm_stack b <> []
  /\ fullmove b <> FULLMOVE_MAX /\ top (hm_stack b) <> U8_MAX.

Lemma clock_step_total captured p b2 :
  hm_stack b2 <> [] -> top (hm_stack b2) <> U8_MAX ->
  exists b3, clock_step captured p b2 = Ok b3 /\ fullmove b3 = fullmove b2.
Proof.
  intros H1 H2. unfold clock_step. destruct captured as [x|].
  - eexists. split; reflexivity.
  - destruct (piece_eqb p Pawn).
    + eexists. split; reflexivity.
    + destruct (inc_halfmove_total b2 H1 H2) as [b3 E]. exists b3. split; [exact E|].
      apply inc_halfmove_fullmove, E.
Qed.

Theorem apply_std_total b f t cap p c :
  WF b -> t < 64 -> counters_ok b ->
  bget b f = Some (p, c) ->
  found_on b f t = option_map (fun cp => (cp, opp_c c)) cap ->
  exists b', apply_std T b f t cap = Ok b'.
Proof.
  intros W Lt (Se & Sc & Sh & Sf & Sm) G Ec. unfold apply_std.
  rewrite (bremove_some T _ _ _ _ G).
  set (b1 := toggle_piece T _ f p c).
  assert (Eq1 : bremove T b f = Some ((p, c), b1)) by apply (bremove_some T _ _ _ _ G).
  destruct (bremove_pstep _ _ _ _ _ Eq1 W) as [_ (W1 & G1 & T1 & Ep1 & Cr1 & Hm1 & Fm1)].
  destruct (second_removal b1 t W1) as [b2 [Eq2 (W2 & G2 & T2 & Ep2 & Cr2 & Hm2 & Fm2)]].
  rewrite Eq2. cbv beta iota zeta.
  assert (Ef : bget b1 t = found_on b f t) by (unfold found_on; rewrite G1; reflexivity).
  rewrite Ef, Ec.
  replace (opt_pc_eqb _ _) with true by (symmetry; apply opt_pc_eqb_true; reflexivity).
  cbn [negb]. rewrite <- Ec.
  change (match found_on b f t with
          | Some _ => Ok (reset_halfmove b2)
          | None => if piece_eqb p Pawn then Ok (reset_halfmove b2) else inc_halfmove b2
          end) with (clock_step (found_on b f t) p b2).
  destruct (clock_step_total (found_on b f t) p b2) as [b3 [Eq3 Fm3]]; [congruence|congruence|].
  rewrite Eq3. cbn [bind]. pose proof (clock_step_keeps _ _ _ _ Eq3) as (A3 & B3 & C3 & D3 & F3).
  destruct (inc_fullmove_total b3) as [b4 Eq4]; [congruence|].
  rewrite Eq4. cbn [bind]. pose proof (inc_fullmove_keeps _ _ Eq4) as (A4 & B4 & C4 & D4 & F4).
  destruct (push_ep_total b4 (ep_target_of p c f t)) as [b5 Eq5]; [congruence|].
  rewrite Eq5. cbn [bind]. pose proof (push_ep_obs _ _ _ Eq5) as (A5 & B5 & C5 & D5 & F5).
  destruct (lose_rights_total b5 (N.lor (lost_if_moved p c f) (lost_if_taken (found_on b f t) t))) as [b6 Eq6];
    [congruence|].
  rewrite Eq6. cbn [bind]. pose proof (lose_rights_obs _ _ _ Eq6) as (A6 & B6 & C6 & D6 & F6).
  assert (Kw : white b6 = white b2) by congruence.
  assert (Kb : black b6 = black b2) by congruence.
  pose proof (WF_same_sets b2 b6 Kw Kb W2) as W6.
  assert (Gt : bget b6 t = None).
  { rewrite (bget_same_sets b2 b6 Kw Kb), G2, N.eqb_refl. reflexivity. }
  apply (put_ok_iff T b6 t p c W6) in Gt. destruct Gt as [b' E']. exists b'. rewrite E'. reflexivity.
Qed.

(* ------------------------------------------------------------------ *)
(** * PawnPromotionChessMove::apply *)

Theorem apply_promo_obs b f t cap pp b' :
  WF b -> t < 64 -> apply_promo T b f t cap pp = Ok b' ->
  exists c, bget b f = Some (Pawn, c) /\
    found_on b f t = option_map (fun cp => (cp, opp_c c)) cap /\
    WF b' /\
    (forall j, bget b' j = if j =? t then Some (pp, c) else if j =? f then None else bget b j) /\
    turn b' = turn b /\
    ep_stack b' = ep_target_of Pawn c f t :: ep_stack b /\
    cr_stack b' = new_rights (top (cr_stack b))
                    (N.lor (lost_if_moved Pawn c f) (lost_if_taken (found_on b f t) t)) :: cr_stack b.
Proof.
  intros W Lt H. unfold apply_promo in H. sstep H b1 Eq1.
  destruct (apply_std_obs _ _ _ _ _ W Lt Eq1) as (p & c & G0 & Ec & W1 & G1 & T1 & Ep1 & Cr1).
  destruct (bremove T b1 t) as [[[q d] b2]|] eqn:Eq2; [|discriminate H].
  destruct (bremove_pstep _ _ _ _ _ Eq2 W1) as [Gq (W2 & G2 & T2 & Ep2 & Cr2 & _)].
  rewrite G1, N.eqb_refl in Gq. inversion Gq; subst q d.
  destruct p; try discriminate H.
  destruct (put_pstep _ _ _ _ _ H W2 Lt) as (W' & G' & T' & Ep' & Cr' & _).
  exists c. split; [exact G0|]. split; [exact Ec|]. split; [exact W'|]. split.
  - intro j. rewrite G'. destruct (N.eqb_spec j t) as [->|Hne]; [reflexivity|].
    rewrite G2. apply N.eqb_neq in Hne. rewrite Hne, G1, Hne. reflexivity.
  - split; [congruence|]. split; congruence.
Qed.

Theorem apply_promo_total b f t cap pp c :
  WF b -> t < 64 -> counters_ok b ->
  bget b f = Some (Pawn, c) ->
  found_on b f t = option_map (fun cp => (cp, opp_c c)) cap ->
  exists b', apply_promo T b f t cap pp = Ok b'.
Proof.
  intros W Lt Ck G Ec. unfold apply_promo.
  destruct (apply_std_total b f t cap Pawn c W Lt Ck G Ec) as [b1 Eq1]. rewrite Eq1. cbn [bind].
  destruct (apply_std_obs _ _ _ _ _ W Lt Eq1) as (p & c' & G0 & _ & W1 & G1 & _).
  rewrite G in G0. inversion G0; subst p c'.
  assert (Gt : bget b1 t = Some (Pawn, c)) by (rewrite G1, N.eqb_refl; reflexivity).
  rewrite (bremove_some T _ _ _ _ Gt).
  set (b2 := toggle_piece T _ t Pawn c).
  assert (Eq2 : bremove T b1 t = Some ((Pawn, c), b2)) by apply (bremove_some T _ _ _ _ Gt).
  destruct (bremove_pstep _ _ _ _ _ Eq2 W1) as [_ (W2 & G2 & _)].
  assert (Gn : bget b2 t = None) by (rewrite G2, N.eqb_refl; reflexivity).
  apply (put_ok_iff T b2 t pp c W2) in Gn. exact Gn.
Qed.

(* ------------------------------------------------------------------ *)
(** * EnPassantChessMove::apply *)

Theorem apply_ep_obs b f t b' :
  WF b -> t < 64 -> apply_ep T b f t = Ok b' ->
  exists c, bget b f = Some (Pawn, c) /\
    (if ep_captured_square c t =? f then False else bget b (ep_captured_square c t) <> None) /\
    WF b' /\
    (forall j, bget b' j = if j =? t then Some (Pawn, c)
                           else if j =? ep_captured_square c t then None
                           else if j =? f then None else bget b j) /\
    turn b' = turn b /\
    ep_stack b' = 0 :: ep_stack b /\
    cr_stack b' = top (cr_stack b) :: cr_stack b.
Proof.
  intros W Lt H. unfold apply_ep in H.
  destruct (bremove T b f) as [[[p c] b1]|] eqn:Eq1; [|discriminate H].
  destruct (bremove_pstep _ _ _ _ _ Eq1 W) as [G0 (W1 & G1 & T1 & Ep1 & Cr1 & _)].
  destruct (piece_eqb p Pawn) eqn:Ep; cbn [negb] in H; [|discriminate H].
  apply BoardLemmas.piece_eqb_eq in Ep. subst p.
  destruct (bremove T b1 (ep_captured_square c t)) as [[[q d] b2]|] eqn:Eq2; [|discriminate H].
  destruct (bremove_pstep _ _ _ _ _ Eq2 W1) as [Gq (W2 & G2 & T2 & Ep2 & Cr2 & _)].
  cbv zeta in H. sstep H b4 Eq4. sstep H b5 Eq5. sstep H b6 Eq6.
  pose proof (reset_halfmove_keeps b2) as (A3 & B3 & C3 & D3 & F3).
  apply inc_fullmove_keeps in Eq4. apply push_ep_obs in Eq5. apply preserve_rights_obs in Eq6.
  destruct Eq4 as (A4 & B4 & C4 & D4 & F4).
  destruct Eq5 as (A5 & B5 & C5 & D5 & F5). destruct Eq6 as (A6 & B6 & C6 & D6 & F6).
  assert (Kw : white b6 = white b2) by congruence.
  assert (Kb : black b6 = black b2) by congruence.
  pose proof (WF_same_sets b2 b6 Kw Kb W2) as W6.
  destruct (put_pstep _ _ _ _ _ H W6 Lt) as (W' & G' & T' & Ep' & Cr' & _).
  exists c. split; [exact G0|]. split.
  { rewrite G1 in Gq. destruct (ep_captured_square c t =? f); [discriminate Gq|congruence]. }
  split; [exact W'|]. split.
  - intro j. rewrite G'. destruct (N.eqb_spec j t) as [->|Hne]; [reflexivity|].
    rewrite (bget_same_sets b2 b6 Kw Kb), G2.
    destruct (j =? ep_captured_square c t); [reflexivity|]. apply G1.
  - split; [congruence|]. split; [congruence|].
    rewrite Cr', F6. f_equal; congruence.
Qed.

Theorem apply_ep_total b f t c :
  WF b -> t < 64 -> counters_ok b ->
  bget b f = Some (Pawn, c) ->
  ep_captured_square c t <> f -> ep_captured_square c t <> t -> f <> t ->
  bget b (ep_captured_square c t) <> None ->
  bget b t = None ->
  exists b', apply_ep T b f t = Ok b'.
Proof.
  intros W Lt (Se & Sc & Sh & Sf & Sm) G Nvf Nvt Nft Gv Gt. unfold apply_ep.
  rewrite (bremove_some T _ _ _ _ G).
  set (b1 := toggle_piece T _ f Pawn c).
  assert (Eq1 : bremove T b f = Some ((Pawn, c), b1)) by apply (bremove_some T _ _ _ _ G).
  destruct (bremove_pstep _ _ _ _ _ Eq1 W) as [_ (W1 & G1 & T1 & Ep1 & Cr1 & Hm1 & Fm1)].
  cbn [piece_eqb negb].
  destruct (bget b (ep_captured_square c t)) as [[q d]|] eqn:Gv'; [|congruence].
  assert (Gv1 : bget b1 (ep_captured_square c t) = Some (q, d)).
  { rewrite G1. apply N.eqb_neq in Nvf. rewrite Nvf. exact Gv'. }
  rewrite (bremove_some T _ _ _ _ Gv1).
  set (b2 := toggle_piece T _ (ep_captured_square c t) q d).
  assert (Eq2 : bremove T b1 (ep_captured_square c t) = Some ((q, d), b2)) by apply (bremove_some T _ _ _ _ Gv1).
  destruct (bremove_pstep _ _ _ _ _ Eq2 W1) as [_ (W2 & G2 & T2 & Ep2 & Cr2 & Hm2 & Fm2)].
  cbv zeta.
  pose proof (reset_halfmove_keeps b2) as (A3 & B3 & C3 & D3 & F3).
  destruct (inc_fullmove_total (reset_halfmove b2)) as [b4 Eq4].
  { change (fullmove (reset_halfmove b2)) with (fullmove b2). congruence. }
  rewrite Eq4. cbn [bind]. pose proof (inc_fullmove_keeps _ _ Eq4) as (A4 & B4 & C4 & D4 & F4).
  destruct (push_ep_total b4 0) as [b5 Eq5]; [congruence|].
  rewrite Eq5. cbn [bind]. pose proof (push_ep_obs _ _ _ Eq5) as (A5 & B5 & C5 & D5 & F5).
  destruct (preserve_rights_total b5) as [b6 Eq6]; [congruence|].
  rewrite Eq6. cbn [bind]. pose proof (preserve_rights_obs _ _ Eq6) as (A6 & B6 & C6 & D6 & F6).
  assert (Kw : white b6 = white b2) by congruence.
  assert (Kb : black b6 = black b2) by congruence.
  pose proof (WF_same_sets b2 b6 Kw Kb W2) as W6.
  assert (Gn : bget b6 t = None).
  { rewrite (bget_same_sets b2 b6 Kw Kb), G2, G1.
    assert (X1 : (t =? ep_captured_square c t) = false) by (apply N.eqb_neq; congruence).
    assert (X2 : (t =? f) = false) by (apply N.eqb_neq; congruence).
    rewrite X1, X2. exact Gt. }
  apply (put_ok_iff T b6 t Pawn c W6) in Gn. exact Gn.
Qed.

(* ------------------------------------------------------------------ *)
(** * CastleChessMove::apply *)

Theorem apply_castle_obs b f t b' :
  WF b -> t < 64 -> apply_castle T b f t = Ok b' ->
  exists c rf rt, castle_shape f t = Ok (c, rf, rt) /\
    bget b f = Some (King, c) /\ bget b t = None /\ bget b rf = Some (Rook, c) /\ bget b rt = None /\
    WF b' /\
    (forall j, bget b' j = if j =? rt then Some (Rook, c)
                           else if j =? rf then None
                           else if j =? t then Some (King, c)
                           else if j =? f then None else bget b j) /\
    turn b' = turn b /\
    ep_stack b' = 0 :: ep_stack b /\
    cr_stack b' = new_rights (top (cr_stack b))
                    (match c with White => N.lor WK WQ | Black => N.lor BK BQ end) :: cr_stack b.
Proof.
  intros W Lt H. unfold apply_castle in H.
  destruct (castle_shape f t) as [[[c rf] rt]| |] eqn:Es; cbn [bind] in H; try discriminate H.
  destruct (opt_pc_eqb (bget b f) (Some (King, c))) eqn:Gk; cbn [negb] in H; [|discriminate H].
  destruct (is_none (bget b t)) eqn:Gt; cbn [negb] in H; [|discriminate H].
  destruct (opt_pc_eqb (bget b rf) (Some (Rook, c))) eqn:Gr; cbn [negb] in H; [|discriminate H].
  destruct (is_none (bget b rt)) eqn:Grt; cbn [negb] in H; [|discriminate H].
  apply opt_pc_eqb_true in Gk, Gr. apply is_none_true in Gt, Grt.
  assert (Lrt : rt < 64).
  { unfold castle_shape in Es.
    destruct (if bit t =? shl (bit f) 2 then Some true else if bit t =? shr (bit f) 2 then Some false else None)
      as [[|]|]; [| |discriminate Es];
    destruct (mem f RANK_1), (mem f RANK_8); try discriminate Es; inversion Es; vm_compute; reflexivity. }
  sstep H b1 Eq1. sstep H b2 Eq2. sstep H b3 Eq3. sstep H b4 Eq4.
  sstep H b5 Eq5. sstep H b6 Eq6. sstep H b7 Eq7.
  destruct (remove_unwrap_pstep _ _ _ Eq1 W) as [_ (W1 & G1 & T1 & Ep1 & Cr1 & _)].
  apply unwrap_Ok in Eq2. destruct (put_pstep _ _ _ _ _ Eq2 W1 Lt) as (W2 & G2 & T2 & Ep2 & Cr2 & _).
  destruct (remove_unwrap_pstep _ _ _ Eq3 W2) as [_ (W3 & G3 & T3 & Ep3 & Cr3 & _)].
  apply unwrap_Ok in Eq4. destruct (put_pstep _ _ _ _ _ Eq4 W3 Lrt) as (W4 & G4 & T4 & Ep4 & Cr4 & _).
  apply inc_halfmove_keeps in Eq5. apply inc_fullmove_keeps in Eq6.
  apply push_ep_obs in Eq7. apply lose_rights_obs in H.
  destruct Eq5 as (A5 & B5 & C5 & D5 & F5). destruct Eq6 as (A6 & B6 & C6 & D6 & F6).
  destruct Eq7 as (A7 & B7 & C7 & D7 & F7). destruct H as (A8 & B8 & C8 & D8 & F8).
  assert (Kw : white b' = white b4) by congruence.
  assert (Kb : black b' = black b4) by congruence.
  exists c, rf, rt. split; [reflexivity|]. split; [exact Gk|]. split; [exact Gt|].
  split; [exact Gr|]. split; [exact Grt|].
  split; [exact (WF_same_sets b4 b' Kw Kb W4)|]. split.
  - intro j. rewrite (bget_same_sets b4 b' Kw Kb), G4, G3, G2, G1. reflexivity.
  - split; [congruence|]. split; [congruence|].
    rewrite F8. unfold new_rights. replace (cr_stack b7) with (cr_stack b) by congruence. reflexivity.
Qed.

Theorem apply_castle_total b f t c rf rt :
  WF b -> t < 64 -> rt < 64 -> counters_ok b ->
  castle_shape f t = Ok (c, rf, rt) ->
  f <> t -> rf <> f -> rf <> t -> rt <> f -> rt <> t -> rt <> rf ->
  bget b f = Some (King, c) -> bget b t = None -> bget b rf = Some (Rook, c) -> bget b rt = None ->
  exists b', apply_castle T b f t = Ok b'.
Proof.
  intros W Lt Lrt (Se & Sc & Sh & Sf & Sm) Es N1 N2 N3 N4 N5 N6 Gk Gt Gr Grt.
  unfold apply_castle. rewrite Es. cbn [bind]. rewrite Gk, Gt, Gr, Grt.
  replace (opt_pc_eqb (Some (King, c)) (Some (King, c))) with true
    by (symmetry; apply opt_pc_eqb_true; reflexivity).
  replace (opt_pc_eqb (Some (Rook, c)) (Some (Rook, c))) with true
    by (symmetry; apply opt_pc_eqb_true; reflexivity).
  cbn [is_none negb].
  apply N.eqb_neq in N1, N2, N3, N4, N5, N6.
  assert (N1' : (t =? f) = false) by (rewrite N.eqb_sym; exact N1).
  (* remove the king *)
  unfold remove_unwrap at 1. rewrite (bremove_some T _ _ _ _ Gk).
  set (b1 := toggle_piece T _ f King c).
  assert (Eq1 : bremove T b f = Some ((King, c), b1)) by apply (bremove_some T _ _ _ _ Gk).
  destruct (bremove_pstep _ _ _ _ _ Eq1 W) as [_ (W1 & G1 & T1 & Ep1 & Cr1 & Hm1 & Fm1)].
  cbn [bind].
  (* put it on t *)
  assert (G1t : bget b1 t = None) by (rewrite G1, N1'; exact Gt).
  apply (put_ok_iff T b1 t King c W1) in G1t. destruct G1t as [b2 Eq2]. rewrite Eq2. cbn [unwrap bind].
  destruct (put_pstep _ _ _ _ _ Eq2 W1 Lt) as (W2 & G2 & T2 & Ep2 & Cr2 & Hm2 & Fm2).
  (* remove the rook *)
  assert (G2r : bget b2 rf = Some (Rook, c)) by (rewrite G2, N3, G1, N2; exact Gr).
  unfold remove_unwrap at 1. rewrite (bremove_some T _ _ _ _ G2r).
  set (b3 := toggle_piece T _ rf Rook c).
  assert (Eq3 : bremove T b2 rf = Some ((Rook, c), b3)) by apply (bremove_some T _ _ _ _ G2r).
  destruct (bremove_pstep _ _ _ _ _ Eq3 W2) as [_ (W3 & G3 & T3 & Ep3 & Cr3 & Hm3 & Fm3)].
  cbn [bind].
  (* put it on rt *)
  assert (G3t : bget b3 rt = None) by (rewrite G3, N6, G2, N5, G1, N4; exact Grt).
  apply (put_ok_iff T b3 rt Rook c W3) in G3t. destruct G3t as [b4 Eq4]. rewrite Eq4. cbn [unwrap bind].
  destruct (put_pstep _ _ _ _ _ Eq4 W3 Lrt) as (W4 & G4 & T4 & Ep4 & Cr4 & Hm4 & Fm4).
  (* the stacks *)
  destruct (inc_halfmove_total b4) as [b5 Eq5]; [congruence|congruence|].
  rewrite Eq5. cbn [bind]. pose proof (inc_halfmove_fullmove _ _ Eq5) as Fm5.
  pose proof (inc_halfmove_keeps _ _ Eq5) as (A5 & B5 & C5 & D5 & F5).
  destruct (inc_fullmove_total b5) as [b6 Eq6]; [congruence|].
  rewrite Eq6. cbn [bind]. pose proof (inc_fullmove_keeps _ _ Eq6) as (A6 & B6 & C6 & D6 & F6).
  destruct (push_ep_total b6 0) as [b7 Eq7]; [congruence|].
  rewrite Eq7. cbn [bind]. pose proof (push_ep_obs _ _ _ Eq7) as (A7 & B7 & C7 & D7 & F7).
  apply lose_rights_total. congruence.
Qed.

End WithTable.

(* non-vacuity: the premises of the four `_obs` / `_total` theorems hold on concrete boards
   (further examples, against the rules' successor, are in SuccProofs.v) *)
Definition ex_put_all (l : list (N * piece * color)) (b : board) : board :=
  fold_left (fun b0 x => let '(i, p, c) := x in
               match put example_table b0 i p c with Ok b1 => b1 | _ => b0 end) l b.

(* kings e1/e8, white rooks a1/h1, white pawns e5 and b7, black pawn d5, black rook a8 *)
Definition ex_board : board :=
  ex_put_all [(4, King, White); (60, King, Black); (0, Rook, White); (7, Rook, White);
              (36, Pawn, White); (35, Pawn, Black); (49, Pawn, White); (56, Rook, Black)] board_new.

Example ex_board_premises :
  wf_b ex_board = true /\ counters_ok ex_board /\
  bget ex_board 0 = Some (Rook, White) /\ found_on ex_board 0 1 = None /\
  bget ex_board 49 = Some (Pawn, White) /\ found_on ex_board 49 56 = Some (Rook, Black).
Proof.
  split; [vm_compute; reflexivity|]. split.
  - unfold counters_ok. repeat (lazymatch goal with |- _ /\ _ => split end); vm_compute; discriminate.
  - repeat (lazymatch goal with |- _ /\ _ => split end); vm_compute; reflexivity.
Qed.

Example ex_all_four_kinds_apply :
  (exists b', apply_std example_table ex_board 0 1 None = Ok b' /\ bget b' 1 = Some (Rook, White)) /\
  (exists b', apply_promo example_table ex_board 49 56 (Some Rook) Queen = Ok b' /\ bget b' 56 = Some (Queen, White)) /\
  (exists b', apply_ep example_table ex_board 36 43 = Ok b' /\ bget b' 35 = None) /\
  (exists b', apply_castle example_table ex_board 4 6 = Ok b' /\ bget b' 5 = Some (Rook, White)).
Proof.
  repeat (lazymatch goal with |- _ /\ _ => split end); eexists; (split; [vm_compute; reflexivity|vm_compute; reflexivity]).
Qed.

Print Assumptions apply_std_obs.
Print Assumptions apply_promo_obs.
Print Assumptions apply_ep_obs.
Print Assumptions apply_castle_obs.
Print Assumptions apply_std_total.
Print Assumptions apply_promo_total.
Print Assumptions apply_ep_total.
Print Assumptions apply_castle_total.
