(* Magic.v — the magic-bitboard slider tables.  Executable definitions only
   (proofs: MagicProofs.v).
   Rust, runtime   : src/move_generator/magic_table.rs
                     (MagicEntry, magic_index, make_table, get_rook_targets, get_bishop_targets)
   Rust, build time: precompile/src/magic/find_magics.rs
                     (magic_index, try_make_table, find_magic, find_and_write_magics)
   The ray walks (slider_moves = targets, relevant_blockers, try_offset) are in Rays.v. *)
From ChessV Require Export Rays.

(* MagicEntry { mask: u64, magic: u64, shift: u8, offset: u32 } *)
Record mentry := { m_mask : N; m_magic : N; m_shift : N; m_offset : N }.
Definition dummy_entry : mentry := {| m_mask := 0; m_magic := 0; m_shift := 0; m_offset := 0 |}.

(* u64 wrapping_mul / wrapping_sub with the truncation written as `& (2^64-1)`.  These are
   Bits.wmul / Bits.wsub (MagicProofs.wmul64_eq, wsub64_eq: `N.land x ALL64 = x mod TWO64`);
   the `land` form evaluates about 10x faster than `mod` under vm_compute and in the
   extracted code, which matters for the 107,648 blocker sets of entries_valid. *)
Definition wmul64 (x y : N) : N := N.land (x * y) ALL64.
Definition wsub64 (x y : N) : N := N.land (x + TWO64 - y) ALL64.

(* find_magics.rs::magic_index — the build-time index, WITHOUT offset:
     (blockers & mask).wrapping_mul(magic) >> shift *)
Definition hash_index (e : mentry) (blockers : N) : N :=
  N.shiftr (wmul64 (N.land blockers (m_mask e)) (m_magic e)) (m_shift e).

(* magic_table.rs::magic_index — the runtime index: offset + build-time index
   (= m_offset e + N.shiftr (wmul (N.land blockers (m_mask e)) (m_magic e)) (m_shift e),
   MagicProofs.magic_index_wmul) *)
Definition magic_index (e : mentry) (blockers : N) : N := m_offset e + hash_index e blockers.

(* ---------- Carry-Rippler subset enumeration ----------
     let mut blockers = EMPTY;
     loop { <body blockers>;
            blockers = blockers.wrapping_sub(mask) & mask;
            if blockers.is_empty() { break } }
   subsets_from fuel mask b = the blocker sets for which the body runs, in order,
   starting with b.  The fuel is never exhausted for a mask of at most 12 bits
   (MagicProofs.subsets_fuel_enough). *)
Definition next_subset (mask b : N) : N := N.land (wsub64 b mask) mask.

Fixpoint subsets_from (fuel : nat) (mask b : N) : list N :=
  match fuel with
  | O => []
  | S k => b :: (let b' := next_subset mask b in
                 if is_empty b' then [] else subsets_from k mask b')
  end.

Definition cr_fuel : nat := S (N.to_nat 4096).
Definition subsets (mask : N) : list N := subsets_from cr_fuel mask 0.

(* ---------- Vec<Bitboard> initialised with EMPTY ----------
   A finite map from indices to bitboards (binary trie on the index + 1); a slot that
   was never written reads EMPTY = 0, like `vec![Bitboard::EMPTY; size]`.  The Vec
   bound is modelled separately (index_in_range, *_checked). *)
Inductive table := TLeaf | TNode (l : table) (v : N) (r : table).

Fixpoint tget (t : table) (p : positive) : N :=
  match t with
  | TLeaf => 0
  | TNode l v r =>
      match p with
      | xH => v
      | xO q => tget l q
      | xI q => tget r q
      end
  end.

Fixpoint tset (t : table) (p : positive) (x : N) : table :=
  match p with
  | xH => match t with
          | TLeaf => TNode TLeaf x TLeaf
          | TNode l _ r => TNode l x r
          end
  | xO q => match t with
            | TLeaf => TNode (tset TLeaf q x) 0 TLeaf
            | TNode l v r => TNode (tset l q x) v r
            end
  | xI q => match t with
            | TLeaf => TNode TLeaf 0 (tset TLeaf q x)
            | TNode l v r => TNode l v (tset r q x)
            end
  end.

Definition empty_table : table := TLeaf.
Definition lookup (t : table) (idx : N) : N := tget t (N.succ_pos idx).
Definition store (t : table) (idx : N) (x : N) : table := tset t (N.succ_pos idx) x.

(* ---------- build time: try_make_table (the acceptance test of find_magic) ----------
   One loop iteration.  None = Err(TableFillError).  Note `table_entry.is_empty()`:
   a slot that holds the EMPTY bitboard counts as free.  The Vec has 1 << (64 - shift)
   slots and the index is below that bound for every u64 hash
   (MagicProofs.hash_index_lt), so the access cannot panic. *)
Definition try_step (deltas : list (Z * Z)) (sq : N) (e : mentry)
                    (acc : option table) (blockers : N) : option table :=
  match acc with
  | None => None
  | Some t =>
      let moves := slider_moves deltas sq blockers in
      let idx := hash_index e blockers in
      let cur := lookup t idx in
      if is_empty cur then Some (store t idx moves)
      else if cur =? moves then Some t
      else None
  end.

Definition try_make_table (deltas : list (Z * Z)) (sq : N) (e : mentry) : option table :=
  fold_left (try_step deltas sq e) (subsets (m_mask e)) (Some empty_table).

Definition accepted (deltas : list (Z * Z)) (sq : N) (e : mentry) : bool :=
  match try_make_table deltas sq e with Some _ => true | None => false end.

(* ---------- build time: what find_and_write_magics emits ----------
   For square i = 0..63: mask = relevant_blockers, shift = 64 - popcnt(mask),
   offset = running sum of the table lengths 1 << popcnt(mask_j), and a multiplier that
   passed try_make_table.  entries_valid is the decidable predicate every possible
   output of the build script satisfies, whatever the random draws were. *)
Definition seg_size (deltas : list (Z * Z)) (sq : N) : N :=
  2 ^ popcount (relevant_blockers deltas sq).

Fixpoint entries_valid_from (deltas : list (Z * Z)) (i off : N) (es : list mentry) : bool :=
  match es with
  | [] => true
  | e :: es' =>
      let mask := relevant_blockers deltas i in
      let k := popcount mask in
      (m_mask e =? mask) && (m_shift e =? 64 - k) && (m_offset e =? off)
      && accepted deltas i e
      && entries_valid_from deltas (i + 1) (off + 2 ^ k) es'
  end.

Definition entries_valid (deltas : list (Z * Z)) (es : list mentry) : bool :=
  (N.of_nat (length es) =? 64) && entries_valid_from deltas 0 0 es.

(* ROOK_TABLE_SIZE / BISHOP_TABLE_SIZE: the sum of the per-square table lengths
   `1 << (64 - shift)` *)
Definition table_size (es : list mentry) : N :=
  fold_left (fun a e => a + 2 ^ (64 - m_shift e)) es 0.

Definition index_in_range (es : list mentry) (idx : N) : bool := idx <? table_size es.

(* ---------- runtime: make_table ----------
   for &square in &ORDERED_SQUARES { for blockers in Carry-Rippler order {
       table[magic_index(entry, blockers)] = slider_moves(deltas, square, blockers) } }
   Last write wins, no collision check. *)
Definition entry_of (es : list mentry) (sq : N) : mentry := nth (N.to_nat sq) es dummy_entry.

Definition write_square (deltas : list (Z * Z)) (es : list mentry) (t : table) (sq : N) : table :=
  let e := entry_of es sq in
  fold_left (fun t b => store t (magic_index e b) (slider_moves deltas sq b))
            (subsets (m_mask e)) t.

Definition make_table (deltas : list (Z * Z)) (es : list mentry) : table :=
  fold_left (write_square deltas es) ordered_squares empty_table.

(* the same with the Vec bound: None = index-out-of-bounds panic in make_table *)
Definition write_square_checked (size : N) (deltas : list (Z * Z)) (es : list mentry)
                                (acc : option table) (sq : N) : option table :=
  let e := entry_of es sq in
  fold_left (fun acc b =>
               match acc with
               | None => None
               | Some t => if magic_index e b <? size
                           then Some (store t (magic_index e b) (slider_moves deltas sq b))
                           else None
               end)
            (subsets (m_mask e)) acc.

Definition make_table_checked (size : N) (deltas : list (Z * Z)) (es : list mentry) : option table :=
  fold_left (write_square_checked size deltas es) ordered_squares (Some empty_table).

(* ---------- runtime: get_rook_targets / get_bishop_targets ----------
   self.table[magic_index(&MAGICS[square.trailing_zeros()], blockers)];
   `occ` is the whole-board occupancy (targets.rs::generate_sliding_targets), which
   includes the slider's own square. *)
Definition get_targets (es : list mentry) (t : table) (sq occ : N) : N :=
  lookup t (magic_index (entry_of es sq) occ).

(* None = index-out-of-bounds panic *)
Definition get_targets_checked (size : N) (es : list mentry) (t : table) (sq occ : N) : option N :=
  let idx := magic_index (entry_of es sq) occ in
  if idx <? size then Some (lookup t idx) else None.

(* MagicTable::new() followed by lookups; partial application shares the table *)
Definition magic_rook (es : list mentry) : N -> N -> N :=
  let t := make_table rook_deltas es in fun sq occ => get_targets es t sq occ.
Definition magic_bishop (es : list mentry) : N -> N -> N :=
  let t := make_table bishop_deltas es in fun sq occ => get_targets es t sq occ.
Definition magic_queen (res bes : list mentry) : N -> N -> N :=
  let r := magic_rook res in
  let b := magic_bishop bes in
  fun sq occ => N.lor (r sq occ) (b sq occ).
