(* MagicProofs.v — C11: the magic-bitboard lookup equals the ray walk, for every square,
   every occupancy and every list of entries the build script can emit. *)
From Coq Require Import Lia ZArith NArith List Bool.
From ChessV Require Import Bits Rays Magic.
Import ListNotations.
Open Scope N_scope.
Arguments N.add : simpl never.
Arguments N.sub : simpl never.
Arguments N.mul : simpl never.
Arguments N.eqb : simpl never.
Arguments N.ltb : simpl never.
Arguments N.leb : simpl never.
Arguments N.shiftl : simpl never.
Arguments N.shiftr : simpl never.
Arguments N.land : simpl never.
Arguments N.lor : simpl never.
Arguments N.lxor : simpl never.
Arguments N.ldiff : simpl never.
Arguments N.testbit : simpl never.
Arguments N.pow : simpl never.

(* ------------------------------------------------------------------ *)
(** * 0. wrapping arithmetic: the `land` forms are the `mod` forms of Bits.v *)

Lemma ALL64_ones : ALL64 = N.ones 64.
Proof. reflexivity. Qed.

Lemma land_ALL64 x : N.land x ALL64 = x mod TWO64.
Proof. rewrite ALL64_ones, N.land_ones. reflexivity. Qed.

Lemma wmul64_eq x y : wmul64 x y = wmul x y.
Proof. unfold wmul64, wmul. apply land_ALL64. Qed.

Lemma wsub64_eq x y : wsub64 x y = wsub x y.
Proof. unfold wsub64, wsub. apply land_ALL64. Qed.

Lemma magic_index_wmul e b :
  magic_index e b = m_offset e + N.shiftr (wmul (N.land b (m_mask e)) (m_magic e)) (m_shift e).
Proof. unfold magic_index, hash_index. rewrite wmul64_eq. reflexivity. Qed.

Lemma next_subset_wsub mask b : next_subset mask b = N.land (wsub b mask) mask.
Proof. unfold next_subset. rewrite wsub64_eq. reflexivity. Qed.

Lemma wmul64_lt x y : wmul64 x y < TWO64.
Proof. unfold wmul64. rewrite land_ALL64. apply N.mod_lt. discriminate. Qed.

(* a u64 shifted right by s is below 2^(64-s): the build-time Vec of 1 << (64-shift)
   slots is never indexed out of bounds *)
Lemma hash_index_lt e b : m_shift e <= 64 -> hash_index e b < 2 ^ (64 - m_shift e).
Proof.
  intro Hs. unfold hash_index. rewrite N.shiftr_div_pow2.
  apply N.div_lt_upper_bound.
  - apply N.pow_nonzero. discriminate.
  - rewrite <- N.pow_add_r. replace (m_shift e + (64 - m_shift e)) with 64 by lia.
    apply wmul64_lt.
Qed.

Lemma hash_index_land e b : hash_index e (N.land b (m_mask e)) = hash_index e b.
Proof.
  unfold hash_index. rewrite <- N.land_assoc, N.land_diag. reflexivity.
Qed.

(* ------------------------------------------------------------------ *)
(** * 1. the table (trie) is a total map with default 0 *)

Lemma tget_leaf p : tget TLeaf p = 0.
Proof. destruct p; reflexivity. Qed.

Lemma tget_tset_same t p x : tget (tset t p x) p = x.
Proof.
  revert t. induction p as [q IH|q IH|]; intros [|l v r]; cbn [tset tget]; auto.
Qed.

Lemma tget_tset_other t p q x : p <> q -> tget (tset t p x) q = tget t q.
Proof.
  revert t q. induction p as [p IH|p IH|]; intros [|l v r] [q|q|] Hne; cbn [tset tget];
    rewrite ?tget_leaf; try reflexivity; try congruence;
    try (rewrite IH by congruence; rewrite ?tget_leaf; reflexivity).
Qed.

Lemma lookup_empty i : lookup empty_table i = 0.
Proof. apply tget_leaf. Qed.

Lemma lookup_store_same t i x : lookup (store t i x) i = x.
Proof. apply tget_tset_same. Qed.

Lemma lookup_store_other t i j x : i <> j -> lookup (store t i x) j = lookup t j.
Proof.
  intro Hne. apply tget_tset_other. intro E. apply Hne.
  apply (f_equal Pos.pred_N) in E. rewrite !N.pos_pred_succ in E. exact E.
Qed.

(* ------------------------------------------------------------------ *)
(** * 2. bit-level helpers *)

Lemma testbit_bit i j : N.testbit (bit i) j = (i =? j).
Proof. unfold bit. rewrite N.shiftl_1_l. apply N.pow2_bits_eqb. Qed.

Lemma mem_bit_same i : mem i (bit i) = true.
Proof. unfold mem. rewrite testbit_bit. apply N.eqb_refl. Qed.

Lemma mem_lor i x y : mem i (N.lor x y) = mem i x || mem i y.
Proof. apply N.lor_spec. Qed.

Lemma mem_land i x y : mem i (N.land x y) = mem i x && mem i y.
Proof. apply N.land_spec. Qed.

Lemma mem_andn_bit i x sq : mem i (andn x (bit sq)) = mem i x && negb (sq =? i).
Proof. unfold mem, andn. rewrite N.ldiff_spec, testbit_bit. reflexivity. Qed.

Lemma mem_true_nonzero i x : mem i x = true -> x <> 0.
Proof. intros H E. subst x. unfold mem in H. rewrite N.bits_0 in H. discriminate. Qed.

Lemma squares_seq : squares = map N.of_nat (seq 0 64).
Proof. reflexivity. Qed.

Lemma In_squares i : In i squares <-> i < 64.
Proof.
  rewrite squares_seq, in_map_iff. split.
  - intros [n [E Hn]]. apply in_seq in Hn. lia.
  - intro H. exists (N.to_nat i). split; [apply N2Nat.id|]. apply in_seq. lia.
Qed.

Lemma In_bits_of i x : In i (bits_of x) <-> i < 64 /\ mem i x = true.
Proof. unfold bits_of. rewrite filter_In, In_squares. tauto. Qed.

(* ------------------------------------------------------------------ *)
(** * 3. the ray walk only reads the non-last squares of the ray *)

(* the squares of the ray from i in direction (dr,df), excluding i: independent of blockers *)
Fixpoint ray_list (fuel : nat) (i : N) (dr df : Z) : list N :=
  match fuel with
  | O => []
  | S k => match try_offset i dr df with
           | None => []
           | Some j => j :: ray_list k j dr df
           end
  end.

(* `walk` tests a square only before stepping off it; on a square with no successor
   (the last square of the ray) the outcome of the test is irrelevant *)
Lemma walk_congr dr df b1 b2 : forall fuel i acc,
  (forall j, In j (i :: ray_list fuel i dr df) -> try_offset j dr df <> None -> mem j b1 = mem j b2) ->
  walk fuel i dr df b1 acc = walk fuel i dr df b2 acc.
Proof.
  induction fuel as [|k IH]; intros i acc H; cbn [walk]; [reflexivity|].
  cbn [ray_list] in H.
  destruct (try_offset i dr df) as [j|] eqn:E.
  - rewrite (H i); [|left; reflexivity|congruence].
    destruct (mem i b2); [reflexivity|].
    apply IH. intros j' Hin Hs. apply H; [right; exact Hin|exact Hs].
  - destruct (mem i b1), (mem i b2); reflexivity.
Qed.

Lemma walk_mono dr df b t : forall fuel i acc,
  mem t acc = true -> mem t (walk fuel i dr df b acc) = true.
Proof.
  induction fuel as [|k IH]; intros i acc H; cbn [walk]; [exact H|].
  destruct (mem i b); [exact H|].
  destruct (try_offset i dr df) as [j|]; [|exact H].
  apply IH. rewrite mem_lor, H. reflexivity.
Qed.

Lemma fold_walk_mono sq b t : forall deltas acc,
  mem t acc = true ->
  mem t (fold_left (fun acc d => walk 8 sq (fst d) (snd d) b acc) deltas acc) = true.
Proof.
  induction deltas as [|d l IH]; intros acc H; cbn [fold_left]; [exact H|].
  apply IH. apply walk_mono. exact H.
Qed.

Lemma walk_first k i dr df b acc j :
  mem i b = false -> try_offset i dr df = Some j ->
  walk (S k) i dr df b acc = walk k j dr df b (N.lor acc (bit j)).
Proof. intros H1 H2. cbn [walk]. rewrite H1, H2. reflexivity. Qed.

Lemma slider_moves_first_step deltas sq b d j :
  In d deltas -> try_offset sq (fst d) (snd d) = Some j -> mem sq b = false ->
  mem j (slider_moves deltas sq b) = true.
Proof.
  intros Hin Hstep Hsq. unfold slider_moves.
  destruct (in_split _ _ Hin) as [pre [post E]]. rewrite E, fold_left_app.
  cbn [fold_left]. apply fold_walk_mono.
  rewrite (walk_first 7 sq _ _ b _ j Hsq Hstep).
  apply walk_mono. rewrite mem_lor, mem_bit_same. apply orb_true_r.
Qed.

Lemma fold_left_ext_in {A B} (f g : A -> B -> A) : forall (l : list B) a,
  (forall x a', In x l -> f a' x = g a' x) -> fold_left f l a = fold_left g l a.
Proof.
  induction l as [|x l IH]; intros a H; cbn [fold_left]; [reflexivity|].
  rewrite H by (left; reflexivity). apply IH. intros y a' Hy. apply H. right. exact Hy.
Qed.

(* the squares of the ray from i, exclusive, up to and INCLUDING the first one in occ —
   by rank/file coordinates (try_offset), no bitboard walk *)
Fixpoint ray_sq (occ : N) (fuel : nat) (i : N) (dr df : Z) : list N :=
  match fuel with
  | O => []
  | S k => match try_offset i dr df with
           | None => []
           | Some j => if mem j occ then [j] else j :: ray_sq occ k j dr df
           end
  end.

Lemma walk_blocked dr df b fuel i acc : mem i b = true -> walk fuel i dr df b acc = acc.
Proof. intro H. destruct fuel; cbn [walk]; [reflexivity|]. rewrite H. reflexivity. Qed.

Lemma walk_spec dr df b t : forall fuel i acc, mem i b = false ->
  mem t (walk fuel i dr df b acc) = mem t acc || existsb (N.eqb t) (ray_sq b fuel i dr df).
Proof.
  induction fuel as [|k IH]; intros i acc Hi; cbn [walk ray_sq].
  - cbn [existsb]. rewrite orb_false_r. reflexivity.
  - rewrite Hi. destruct (try_offset i dr df) as [j|].
    + destruct (mem j b) eqn:Ej.
      * rewrite walk_blocked by exact Ej. cbn [existsb].
        rewrite mem_lor, orb_false_r. unfold mem at 2. rewrite testbit_bit, N.eqb_sym. reflexivity.
      * rewrite IH by exact Ej. cbn [existsb].
        rewrite mem_lor, <- orb_assoc. unfold mem at 2. rewrite testbit_bit, N.eqb_sym. reflexivity.
    + cbn [existsb]. rewrite orb_false_r. reflexivity.
Qed.

(* slider_moves = the union over the directions of the coordinate rays *)
Theorem slider_moves_rays deltas sq b t : mem sq b = false ->
  mem t (slider_moves deltas sq b)
  = existsb (fun d => existsb (N.eqb t) (ray_sq b 8 sq (fst d) (snd d))) deltas.
Proof.
  intro Hsq. unfold slider_moves.
  assert (G : forall l acc,
            mem t (fold_left (fun acc d => walk 8 sq (fst d) (snd d) b acc) l acc)
            = mem t acc || existsb (fun d => existsb (N.eqb t) (ray_sq b 8 sq (fst d) (snd d))) l).
  { induction l as [|d l IH]; intro acc; cbn [fold_left existsb].
    - rewrite orb_false_r. reflexivity.
    - rewrite IH, walk_spec by exact Hsq. rewrite orb_assoc. reflexivity. }
  rewrite G. unfold mem at 1. rewrite N.bits_0. reflexivity.
Qed.

(* ray_sq only looks at occ on the ray squares *)
Lemma ray_sq_congr dr df o1 o2 : forall fuel i,
  (forall j, In j (ray_list fuel i dr df) -> mem j o1 = mem j o2) ->
  ray_sq o1 fuel i dr df = ray_sq o2 fuel i dr df.
Proof.
  induction fuel as [|k IH]; intros i H; cbn [ray_sq]; [reflexivity|].
  cbn [ray_list] in H. destruct (try_offset i dr df) as [j|]; [|reflexivity].
  rewrite (H j) by (left; reflexivity). destruct (mem j o2); [reflexivity|].
  f_equal. apply IH. intros j' Hj'. apply H. right. exact Hj'.
Qed.

(* more fuel than the ray is long changes nothing *)
Lemma ray_list_fuel dr df : forall f i, (length (ray_list f i dr df) < f)%nat ->
  forall f', (f <= f')%nat -> ray_list f' i dr df = ray_list f i dr df.
Proof.
  induction f as [|k IH]; intros i Hlen f' Hf'; [inversion Hlen|].
  destruct f' as [|k']; [lia|]. cbn [ray_list] in *.
  destruct (try_offset i dr df) as [j|]; [|reflexivity].
  cbn [length] in Hlen. f_equal. apply IH; lia.
Qed.

Lemma ray_sq_fuel dr df occ : forall f i, (length (ray_list f i dr df) < f)%nat ->
  forall f', (f <= f')%nat -> ray_sq occ f' i dr df = ray_sq occ f i dr df.
Proof.
  induction f as [|k IH]; intros i Hlen f' Hf'; [inversion Hlen|].
  destruct f' as [|k']; [lia|]. cbn [ray_list ray_sq] in *.
  destruct (try_offset i dr df) as [j|]; [|reflexivity].
  destruct (mem j occ); [reflexivity|].
  cbn [length] in Hlen. f_equal. apply IH; lia.
Qed.

(* ------------------------------------------------------------------ *)
(** * 4. structurally complete list of the subsets of a set of bit indices *)

Fixpoint powerset (l : list N) : list N :=
  match l with
  | [] => [0]
  | i :: l' => let p := powerset l' in p ++ map (N.lor (bit i)) p
  end.

Lemma powerset_sound l : forall b, In b (powerset l) -> forall i, N.testbit b i = true -> In i l.
Proof.
  induction l as [|k l IH]; intros b Hb i Hi; cbn [powerset] in Hb.
  - destruct Hb as [E|[]]. subst b. rewrite N.bits_0 in Hi. discriminate.
  - apply in_app_or in Hb. destruct Hb as [Hb|Hb].
    + right. apply (IH b Hb i Hi).
    + apply in_map_iff in Hb. destruct Hb as [b' [E Hb']]. subst b.
      rewrite N.lor_spec, testbit_bit in Hi. apply orb_true_iff in Hi. destruct Hi as [Hi|Hi].
      * left. apply N.eqb_eq. exact Hi.
      * right. apply (IH b' Hb' i Hi).
Qed.

Lemma powerset_complete l : forall b, (forall i, N.testbit b i = true -> In i l) -> In b (powerset l).
Proof.
  induction l as [|k l IH]; intros b H; cbn [powerset].
  - left. symmetry. apply N.bits_inj. intro i. rewrite N.bits_0.
    destruct (N.testbit b i) eqn:E; [destruct (H i E)|reflexivity].
  - assert (Hb' : In (N.ldiff b (bit k)) (powerset l)).
    { apply IH. intros i Hi. rewrite N.ldiff_spec, testbit_bit in Hi.
      apply andb_true_iff in Hi. destruct Hi as [Hi Hne].
      destruct (H i Hi) as [E|Hin]; [|exact Hin].
      subst i. rewrite N.eqb_refl in Hne. discriminate. }
    apply in_or_app. destruct (N.testbit b k) eqn:Ek.
    + right. apply in_map_iff. exists (N.ldiff b (bit k)). split; [|exact Hb'].
      apply N.bits_inj. intro i. rewrite N.lor_spec, N.ldiff_spec, testbit_bit.
      destruct (k =? i) eqn:Eki; cbn [negb orb andb].
      * apply N.eqb_eq in Eki. subst i. symmetry. exact Ek.
      * rewrite andb_true_r. reflexivity.
    + left. assert (Eb : N.ldiff b (bit k) = b); [|rewrite Eb in Hb'; exact Hb'].
      apply N.bits_inj. intro i. rewrite N.ldiff_spec, testbit_bit.
      destruct (k =? i) eqn:Eki; cbn [negb andb].
      * apply N.eqb_eq in Eki. subst i. rewrite Ek, andb_false_r. reflexivity.
      * rewrite andb_true_r. reflexivity.
Qed.

Lemma testbit_of_land_eq b mask i : N.land b mask = b -> N.testbit b i = true -> N.testbit mask i = true.
Proof.
  intros E Hi. rewrite <- E, N.land_spec in Hi. apply andb_true_iff in Hi. tauto.
Qed.

Lemma testbit_high_false x i : x <= ALL64 -> 64 <= i -> N.testbit x i = false.
Proof.
  intros Hx Hi. destruct (N.eq_dec x 0) as [->|Hnz]; [apply N.bits_0|].
  apply N.bits_above_log2. apply N.lt_le_trans with 64; [|exact Hi].
  apply N.log2_lt_pow2; [lia|]. change (2 ^ 64) with TWO64. unfold ALL64, TWO64 in *. lia.
Qed.

(* the subsets of a u64 mask, as a list *)
Lemma powerset_bits_of mask b : mask <= ALL64 ->
  (In b (powerset (rev (bits_of mask))) <-> N.land b mask = b).
Proof.
  intro Hm. split.
  - intro Hin. apply N.bits_inj. intro i. rewrite N.land_spec.
    destruct (N.testbit b i) eqn:Ei; [|reflexivity].
    pose proof (powerset_sound _ _ Hin i Ei) as H. apply in_rev, In_bits_of in H.
    destruct H as [_ H]. unfold mem in H. rewrite H. reflexivity.
  - intro E. apply powerset_complete. intros i Hi. apply in_rev. rewrite rev_involutive.
    apply In_bits_of. pose proof (testbit_of_land_eq _ _ _ E Hi) as Hmi. split; [|exact Hmi].
    destruct (N.lt_ge_cases i 64) as [Hlt|Hge]; [exact Hlt|].
    rewrite (testbit_high_false mask i Hm Hge) in Hmi. discriminate.
Qed.

(* ------------------------------------------------------------------ *)
(** * 5. the finite geometric facts, as one decidable predicate on the direction list
      (a complete sweep over the 64 squares; evaluated for rook_deltas and bishop_deltas) *)

Fixpoint list_eqb (l1 l2 : list N) : bool :=
  match l1, l2 with
  | [], [] => true
  | x :: a, y :: b => (x =? y) && list_eqb a b
  | _, _ => false
  end.

Lemma list_eqb_eq : forall l1 l2, list_eqb l1 l2 = true -> l1 = l2.
Proof.
  induction l1 as [|x a IH]; intros [|y b] H; cbn [list_eqb] in H; try discriminate; [reflexivity|].
  apply andb_true_iff in H. destruct H as [H1 H2]. apply N.eqb_eq in H1. subst y.
  rewrite (IH b H2). reflexivity.
Qed.

Definition has_succ (j : N) (d : Z * Z) : bool :=
  match try_offset j (fst d) (snd d) with Some _ => true | None => false end.

(* every ray square differs from the origin, and if it has a successor (i.e. is not the
   last of its ray) it belongs to relevant_blockers; the ray has at most 7 squares *)
Definition ray_ok (deltas : list (Z * Z)) (sq : N) (d : Z * Z) : bool :=
  forallb (fun j => negb (j =? sq) && (negb (has_succ j d) || mem j (relevant_blockers deltas sq)))
          (ray_list 8 sq (fst d) (snd d))
  && Nat.ltb (length (ray_list 8 sq (fst d) (snd d))) 8.

Definition square_ok (deltas : list (Z * Z)) (sq : N) : bool :=
  let mask := relevant_blockers deltas sq in
  forallb (ray_ok deltas sq) deltas
  && existsb (has_succ sq) deltas                       (* some ray has a first step *)
  && (mask <=? ALL64)
  && list_eqb (subsets mask) (powerset (rev (bits_of mask)))   (* Carry-Rippler = all subsets *)
  && Nat.ltb (length (subsets mask)) cr_fuel.           (* ... and the fuel was not exhausted *)

Definition deltas_ok (deltas : list (Z * Z)) : bool := forallb (square_ok deltas) squares.

Lemma rook_deltas_ok : deltas_ok rook_deltas = true.
Proof. vm_compute. reflexivity. Qed.

Lemma bishop_deltas_ok : deltas_ok bishop_deltas = true.
Proof. vm_compute. reflexivity. Qed.

Lemma deltas_ok_square deltas sq : deltas_ok deltas = true -> sq < 64 -> square_ok deltas sq = true.
Proof.
  intros H Hsq. unfold deltas_ok in H. rewrite forallb_forall in H. apply H, In_squares, Hsq.
Qed.

Section Square.
Variable deltas : list (Z * Z).
Variable sq : N.
Hypothesis Hok : square_ok deltas sq = true.
Let mask := relevant_blockers deltas sq.

Lemma ok_parts :
  forallb (ray_ok deltas sq) deltas = true /\ existsb (has_succ sq) deltas = true /\
  mask <= ALL64 /\ subsets mask = powerset (rev (bits_of mask)) /\
  (length (subsets mask) < cr_fuel)%nat.
Proof.
  pose proof Hok as H. unfold square_ok in H. fold mask in H.
  apply andb_true_iff in H. destruct H as [H H5].
  apply andb_true_iff in H. destruct H as [H H4].
  apply andb_true_iff in H. destruct H as [H H3].
  apply andb_true_iff in H. destruct H as [H1 H2].
  split; [exact H1|]. split; [exact H2|]. split; [apply N.leb_le; exact H3|].
  split; [apply list_eqb_eq; exact H4|apply Nat.ltb_lt; exact H5].
Qed.

Lemma ok_mask_le : mask <= ALL64.
Proof. apply ok_parts. Qed.

(* (i) the Carry-Rippler loop visits exactly the subsets of the mask *)
Lemma ok_subsets b : In b (subsets mask) <-> N.land b mask = b.
Proof.
  destruct ok_parts as (_ & _ & Hle & E & _). rewrite E. apply powerset_bits_of. exact Hle.
Qed.

Lemma ok_fuel : (length (subsets mask) < cr_fuel)%nat.
Proof. apply ok_parts. Qed.

Lemma ok_ray d : In d deltas -> ray_ok deltas sq d = true.
Proof.
  intro Hd. destruct ok_parts as (H & _). rewrite forallb_forall in H. apply H, Hd.
Qed.

Lemma ok_ray_ne d j : In d deltas -> In j (ray_list 8 sq (fst d) (snd d)) -> j <> sq.
Proof.
  intros Hd Hj. pose proof (ok_ray d Hd) as H. unfold ray_ok in H.
  apply andb_true_iff in H. destruct H as [H _]. rewrite forallb_forall in H. specialize (H j Hj).
  apply andb_true_iff in H. destruct H as [H1 _].
  intro E. subst j. rewrite N.eqb_refl in H1. discriminate.
Qed.

Lemma ok_ray_len d : In d deltas -> (length (ray_list 8 sq (fst d) (snd d)) < 8)%nat.
Proof.
  intro Hd. pose proof (ok_ray d Hd) as H. unfold ray_ok in H.
  apply andb_true_iff in H. destruct H as [_ H]. apply Nat.ltb_lt. exact H.
Qed.

Lemma ok_rays d j :
  In d deltas -> In j (ray_list 8 sq (fst d) (snd d)) -> try_offset j (fst d) (snd d) <> None ->
  j <> sq /\ mem j mask = true.
Proof.
  intros Hd Hj Hs. split; [apply (ok_ray_ne d j Hd Hj)|].
  pose proof (ok_ray d Hd) as H. unfold ray_ok in H.
  apply andb_true_iff in H. destruct H as [H _]. rewrite forallb_forall in H. specialize (H j Hj).
  apply andb_true_iff in H. destruct H as [_ H].
  unfold has_succ in H. destruct (try_offset j (fst d) (snd d)); [|congruence].
  cbn [negb orb] in H. exact H.
Qed.

(* the slider's own square is not on its rays: it may be left in the occupancy *)
Lemma ray_sq_own_square occ d : In d deltas ->
  ray_sq (andn occ (bit sq)) 8 sq (fst d) (snd d) = ray_sq occ 8 sq (fst d) (snd d).
Proof.
  intro Hd. apply ray_sq_congr. intros j Hj. rewrite mem_andn_bit.
  pose proof (ok_ray_ne d j Hd Hj) as Hne.
  destruct (sq =? j) eqn:E; [apply N.eqb_eq in E; congruence|]. apply andb_true_r.
Qed.

Lemma ok_first_step : exists d j, In d deltas /\ try_offset sq (fst d) (snd d) = Some j.
Proof.
  destruct ok_parts as (_ & H & _). apply existsb_exists in H. destruct H as [d [Hd H]].
  unfold has_succ in H. destruct (try_offset sq (fst d) (snd d)) as [j|] eqn:E; [|discriminate].
  exists d, j. split; assumption.
Qed.

Lemma mask_not_sq : mem sq mask = false.
Proof.
  unfold mask, relevant_blockers. rewrite mem_andn_bit, N.eqb_refl. apply andb_false_r.
Qed.

Lemma subset_not_sq b : N.land b mask = b -> mem sq b = false.
Proof.
  intro E. rewrite <- E, mem_land, mask_not_sq. apply andb_false_r.
Qed.

(* (ii) a slider always attacks something: the slot test `is_empty` of try_make_table never
   mistakes a written slot for a free one *)
Lemma slider_moves_nonzero b : mem sq b = false -> slider_moves deltas sq b <> 0.
Proof.
  intro Hb. destruct ok_first_step as (d & j & Hd & Hj).
  apply (mem_true_nonzero j). apply (slider_moves_first_step deltas sq b d j Hd Hj Hb).
Qed.

(* (v) occupancy off the rays, on the slider's own square and on the last square of each
   ray is irrelevant *)
Lemma slider_moves_mask occ :
  slider_moves deltas sq (N.land occ mask) = slider_moves deltas sq (andn occ (bit sq)).
Proof.
  unfold slider_moves. apply fold_left_ext_in. intros d acc Hd.
  apply walk_congr. intros j [Ej|Hj] Hs.
  - subst j. rewrite mem_land, mask_not_sq, mem_andn_bit, N.eqb_refl, !andb_false_r. reflexivity.
  - destruct (ok_rays d j Hd Hj Hs) as [Hne Hm].
    rewrite mem_land, Hm, mem_andn_bit, andb_true_r.
    destruct (sq =? j) eqn:E; [apply N.eqb_eq in E; congruence|]. rewrite andb_true_r. reflexivity.
Qed.

End Square.

(* ------------------------------------------------------------------ *)
(** * 6. (iii) the acceptance test, abstractly: index function h, move function mv *)

Section Accept.
Variables h mv : N -> N.

Definition astep (acc : option table) (b : N) : option table :=
  match acc with
  | None => None
  | Some t =>
      let cur := lookup t (h b) in
      if is_empty cur then Some (store t (h b) (mv b))
      else if cur =? mv b then Some t
      else None
  end.

Lemma astep_none L : fold_left astep L None = None.
Proof. induction L as [|a L IH]; cbn [fold_left astep]; auto. Qed.

Lemma accept_inv : forall L t0 t,
  (forall b, In b L -> mv b <> 0) ->
  fold_left astep L (Some t0) = Some t ->
  (forall i, lookup t0 i <> 0 -> lookup t i = lookup t0 i) /\
  (forall b, In b L -> lookup t (h b) = mv b).
Proof.
  induction L as [|a L IH]; intros t0 t Hnz Hf.
  - cbn [fold_left] in Hf. injection Hf as <-. split; [reflexivity|intros b []].
  - cbn [fold_left astep] in Hf.
    assert (Hnz' : forall b, In b L -> mv b <> 0) by (intros b Hb; apply Hnz; right; exact Hb).
    assert (Ha : mv a <> 0) by (apply Hnz; left; reflexivity).
    destruct (is_empty (lookup t0 (h a))) eqn:Ee.
    + unfold is_empty in Ee. apply N.eqb_eq in Ee.
      destruct (IH _ _ Hnz' Hf) as [P1 P2]. split.
      * intros i Hi. assert (Hne : h a <> i) by (intro E; subst i; congruence).
        rewrite P1; rewrite lookup_store_other by exact Hne; [reflexivity|exact Hi].
      * intros b [E|Hb]; [subst b|apply P2; exact Hb].
        rewrite P1; rewrite lookup_store_same; [reflexivity|exact Ha].
    + destruct (lookup t0 (h a) =? mv a) eqn:Eq.
      * apply N.eqb_eq in Eq. destruct (IH _ _ Hnz' Hf) as [P1 P2]. split; [exact P1|].
        intros b [E|Hb]; [subst b|apply P2; exact Hb].
        rewrite P1; [exact Eq|]. rewrite Eq. exact Ha.
      * rewrite astep_none in Hf. discriminate.
Qed.

(* acceptance => two blocker sets that share a slot have the same move set *)
Lemma accept_collisions L t0 t :
  (forall b, In b L -> mv b <> 0) ->
  fold_left astep L (Some t0) = Some t ->
  forall b1 b2, In b1 L -> In b2 L -> h b1 = h b2 -> mv b1 = mv b2.
Proof.
  intros Hnz Hf b1 b2 H1 H2 E. destruct (accept_inv L t0 t Hnz Hf) as [_ P].
  rewrite <- (P b1 H1), <- (P b2 H2), E. reflexivity.
Qed.

(* the runtime fill of one square's segment: last write wins, harmlessly *)
Variable off : N.
Definition wstep (t : table) (b : N) : table := store t (off + h b) (mv b).

Lemma write_fold : forall L t0,
  (forall b1 b2, In b1 L -> In b2 L -> h b1 = h b2 -> mv b1 = mv b2) ->
  (forall b, In b L -> lookup (fold_left wstep L t0) (off + h b) = mv b) /\
  (forall i, (forall b, In b L -> off + h b <> i) -> lookup (fold_left wstep L t0) i = lookup t0 i).
Proof.
  induction L as [|a L IH]; intros t0 Hc; cbn [fold_left].
  - split; [intros b []|reflexivity].
  - assert (Hc' : forall b1 b2, In b1 L -> In b2 L -> h b1 = h b2 -> mv b1 = mv b2).
    { intros b1 b2 H1 H2. apply Hc; right; assumption. }
    destruct (IH (wstep t0 a) Hc') as [P1 P2]. split.
    + intros b [E|Hb]; [subst b|apply P1; exact Hb].
      destruct (existsb (fun b' => h b' =? h a) L) eqn:Ex.
      * apply existsb_exists in Ex. destruct Ex as [b' [Hb' E]]. apply N.eqb_eq in E.
        rewrite <- E, (P1 b' Hb'). apply Hc; [right; exact Hb'|left; reflexivity|exact E].
      * rewrite P2; [apply lookup_store_same|].
        intros b Hb E. assert (E' : h b = h a) by lia.
        assert (Ht : existsb (fun b' => h b' =? h a) L = true).
        { apply existsb_exists. exists b. split; [exact Hb|apply N.eqb_eq; exact E']. }
        congruence.
    + intros i Hi. rewrite P2.
      * apply lookup_store_other. apply Hi. left. reflexivity.
      * intros b Hb. apply Hi. right. exact Hb.
Qed.

End Accept.

(* ------------------------------------------------------------------ *)
(** * 7. (iv) what entries_valid says about each entry; the segments *)

Fixpoint offs (deltas : list (Z * Z)) (n : nat) : N :=
  match n with
  | O => 0
  | S k => offs deltas k + seg_size deltas (N.of_nat k)
  end.

Lemma offs_le deltas n m : (n <= m)%nat -> offs deltas n <= offs deltas m.
Proof.
  induction 1 as [|m Hle IH]; [apply N.le_refl|]. cbn [offs]. lia.
Qed.

Lemma filter_length_le' {A} (f : A -> bool) l : (length (filter f l) <= length l)%nat.
Proof. induction l as [|x l IH]; cbn [filter length]; [lia|]. destruct (f x); cbn [length]; lia. Qed.

Lemma popcount_le_64 x : popcount x <= 64.
Proof.
  unfold popcount, bits_of. pose proof (filter_length_le' (fun i => mem i x) squares) as H.
  change (length squares) with 64%nat in H. lia.
Qed.

Definition entry_spec (deltas : list (Z * Z)) (s : nat) (e : mentry) : Prop :=
  m_mask e = relevant_blockers deltas (N.of_nat s) /\
  m_shift e = 64 - popcount (relevant_blockers deltas (N.of_nat s)) /\
  m_offset e = offs deltas s /\
  accepted deltas (N.of_nat s) e = true.

Lemma evf_nth deltas : forall es i0,
  entries_valid_from deltas (N.of_nat i0) (offs deltas i0) es = true ->
  forall n, (n < length es)%nat -> entry_spec deltas (i0 + n) (nth n es dummy_entry).
Proof.
  induction es as [|e es IH]; intros i0 H n Hn; cbn [length] in Hn; [lia|].
  cbn [entries_valid_from] in H.
  apply andb_true_iff in H. destruct H as [H H5].
  apply andb_true_iff in H. destruct H as [H H4].
  apply andb_true_iff in H. destruct H as [H H3].
  apply andb_true_iff in H. destruct H as [H1 H2].
  apply N.eqb_eq in H1, H2, H3.
  destruct n as [|n]; cbn [nth].
  - rewrite Nat.add_0_r. repeat split; assumption.
  - replace (i0 + S n)%nat with (S i0 + n)%nat by lia. apply IH; [|lia].
    replace (N.of_nat (S i0)) with (N.of_nat i0 + 1) by lia. exact H5.
Qed.

Lemma evf_size deltas : forall es i0,
  entries_valid_from deltas (N.of_nat i0) (offs deltas i0) es = true ->
  fold_left (fun a e => a + 2 ^ (64 - m_shift e)) es (offs deltas i0) = offs deltas (i0 + length es).
Proof.
  induction es as [|e es IH]; intros i0 H; cbn [fold_left length].
  - rewrite Nat.add_0_r. reflexivity.
  - cbn [entries_valid_from] in H.
    apply andb_true_iff in H. destruct H as [H H5].
    apply andb_true_iff in H. destruct H as [H H4].
    apply andb_true_iff in H. destruct H as [H H3].
    apply andb_true_iff in H. destruct H as [H1 H2].
    apply N.eqb_eq in H2.
    replace (N.of_nat i0 + 1) with (N.of_nat (S i0)) in H5 by lia.
    pose proof (popcount_le_64 (relevant_blockers deltas (N.of_nat i0))) as Hp.
    replace (i0 + S (length es))%nat with (S i0 + length es)%nat by lia.
    rewrite <- IH by exact H5. f_equal. cbn [offs]. unfold seg_size. rewrite H2. f_equal. f_equal. lia.
Qed.

Section Valid.
Variable deltas : list (Z * Z).
Variable es : list mentry.
Hypothesis Hdeltas : deltas_ok deltas = true.
Hypothesis Hvalid : entries_valid deltas es = true.

Lemma valid_parts : length es = 64%nat /\ entries_valid_from deltas 0 0 es = true.
Proof.
  unfold entries_valid in Hvalid. apply andb_true_iff in Hvalid. destruct Hvalid as [H1 H2].
  apply N.eqb_eq in H1. split; [lia|exact H2].
Qed.

Lemma valid_entry sq : sq < 64 -> entry_spec deltas (N.to_nat sq) (entry_of es sq).
Proof.
  intro Hsq. destruct valid_parts as [Hlen Hv]. unfold entry_of.
  apply (evf_nth deltas es 0 Hv (N.to_nat sq)). lia.
Qed.

Lemma valid_table_size : table_size es = offs deltas 64.
Proof.
  destruct valid_parts as [Hlen Hv]. unfold table_size.
  pose proof (evf_size deltas es 0%nat Hv) as E. cbn [offs Nat.add] in E.
  rewrite Hlen in E. exact E.
Qed.

(* the slot of (sq, b) lies in the segment [offs sq, offs (sq+1)) *)
Lemma index_in_segment sq b : sq < 64 ->
  offs deltas (N.to_nat sq) <= magic_index (entry_of es sq) b < offs deltas (S (N.to_nat sq)).
Proof.
  intro Hsq. destruct (valid_entry sq Hsq) as (E1 & E2 & E3 & _).
  rewrite N2Nat.id in *. unfold magic_index. rewrite E3. cbn [offs]. rewrite N2Nat.id.
  pose proof (popcount_le_64 (relevant_blockers deltas sq)) as Hp.
  assert (Hs : m_shift (entry_of es sq) <= 64) by lia.
  pose proof (hash_index_lt (entry_of es sq) b Hs) as Hh.
  replace (64 - m_shift (entry_of es sq)) with (popcount (relevant_blockers deltas sq)) in Hh by lia.
  unfold seg_size. lia.
Qed.

(* the Vec access of get_rook_targets / get_bishop_targets cannot panic *)
Lemma lookup_index_in_range sq occ : sq < 64 ->
  index_in_range es (magic_index (entry_of es sq) occ) = true.
Proof.
  intro Hsq. unfold index_in_range. apply N.ltb_lt. rewrite valid_table_size.
  pose proof (index_in_segment sq occ Hsq) as H.
  pose proof (offs_le deltas (S (N.to_nat sq)) 64 ltac:(lia)) as H'. lia.
Qed.

Lemma segments_disjoint s1 s2 b1 b2 : s1 < 64 -> s2 < 64 -> s1 <> s2 ->
  magic_index (entry_of es s1) b1 <> magic_index (entry_of es s2) b2.
Proof.
  intros H1 H2 Hne.
  pose proof (index_in_segment s1 b1 H1) as I1. pose proof (index_in_segment s2 b2 H2) as I2.
  destruct (N.lt_ge_cases s1 s2) as [Hlt|Hge].
  - pose proof (offs_le deltas (S (N.to_nat s1)) (N.to_nat s2) ltac:(lia)). lia.
  - pose proof (offs_le deltas (S (N.to_nat s2)) (N.to_nat s1) ltac:(lia)). lia.
Qed.

End Valid.

(* ------------------------------------------------------------------ *)
(** * 8. the table built by make_table *)

Definition squares_lt64 (l : list N) : bool := forallb (fun s => s <? 64) l.
Definition covers_squares (l : list N) : bool :=
  forallb (fun s => existsb (N.eqb s) l) squares.

Lemma ordered_squares_lt64 s : In s ordered_squares -> s < 64.
Proof.
  assert (H : squares_lt64 ordered_squares = true) by (vm_compute; reflexivity).
  unfold squares_lt64 in H. rewrite forallb_forall in H. intro Hs. apply N.ltb_lt, H, Hs.
Qed.

Lemma ordered_squares_complete s : s < 64 -> In s ordered_squares.
Proof.
  assert (H : covers_squares ordered_squares = true) by (vm_compute; reflexivity).
  unfold covers_squares in H. rewrite forallb_forall in H. intro Hs.
  apply In_squares in Hs. specialize (H s Hs). apply existsb_exists in H.
  destruct H as [x [Hx E]]. apply N.eqb_eq in E. subst x. exact Hx.
Qed.

Section Main.
Variable deltas : list (Z * Z).
Variable es : list mentry.
Hypothesis Hdeltas : deltas_ok deltas = true.
Hypothesis Hvalid : entries_valid deltas es = true.

Lemma entry_mask sq : sq < 64 -> m_mask (entry_of es sq) = relevant_blockers deltas sq.
Proof.
  intro Hsq. destruct (valid_entry deltas es Hvalid sq Hsq) as (E1 & _).
  rewrite N2Nat.id in E1. exact E1.
Qed.

(* (iii) for an accepted entry, blocker sets that share a slot share their move set *)
Lemma entry_collisions sq : sq < 64 ->
  forall b1 b2, In b1 (subsets (m_mask (entry_of es sq))) -> In b2 (subsets (m_mask (entry_of es sq))) ->
    hash_index (entry_of es sq) b1 = hash_index (entry_of es sq) b2 ->
    slider_moves deltas sq b1 = slider_moves deltas sq b2.
Proof.
  intro Hsq. pose proof (deltas_ok_square deltas sq Hdeltas Hsq) as Hok.
  destruct (valid_entry deltas es Hvalid sq Hsq) as (_ & _ & _ & Hacc).
  rewrite N2Nat.id in Hacc. unfold accepted in Hacc.
  destruct (try_make_table deltas sq (entry_of es sq)) as [t|] eqn:Et; [|discriminate].
  unfold try_make_table in Et.
  change (try_step deltas sq (entry_of es sq))
    with (astep (hash_index (entry_of es sq)) (slider_moves deltas sq)) in Et.
  apply (accept_collisions _ _ _ _ t) with (2 := Et).
  intros b Hb. rewrite (entry_mask sq Hsq) in Hb.
  apply (slider_moves_nonzero deltas sq Hok).
  apply (subset_not_sq deltas sq). apply (ok_subsets deltas sq Hok). exact Hb.
Qed.

Lemma write_square_wstep t s :
  write_square deltas es t s =
  fold_left (wstep (hash_index (entry_of es s)) (slider_moves deltas s) (m_offset (entry_of es s)))
            (subsets (m_mask (entry_of es s))) t.
Proof. reflexivity. Qed.

Lemma ws_self sq t b : sq < 64 -> N.land b (relevant_blockers deltas sq) = b ->
  lookup (write_square deltas es t sq) (magic_index (entry_of es sq) b) = slider_moves deltas sq b.
Proof.
  intros Hsq Hb. pose proof (deltas_ok_square deltas sq Hdeltas Hsq) as Hok.
  rewrite write_square_wstep.
  destruct (write_fold (hash_index (entry_of es sq)) (slider_moves deltas sq) (m_offset (entry_of es sq))
              (subsets (m_mask (entry_of es sq))) t (entry_collisions sq Hsq)) as [P _].
  apply (P b). rewrite (entry_mask sq Hsq). apply (ok_subsets deltas sq Hok). exact Hb.
Qed.

Lemma ws_other s t i : s < 64 -> (forall b, magic_index (entry_of es s) b <> i) ->
  lookup (write_square deltas es t s) i = lookup t i.
Proof.
  intros Hs Hi. rewrite write_square_wstep.
  destruct (write_fold (hash_index (entry_of es s)) (slider_moves deltas s) (m_offset (entry_of es s))
              (subsets (m_mask (entry_of es s))) t (entry_collisions s Hs)) as [_ P].
  apply P. intros b _. apply Hi.
Qed.

Lemma make_table_fold sq b : sq < 64 -> N.land b (relevant_blockers deltas sq) = b ->
  forall l t, (forall s, In s l -> s < 64) ->
    lookup t (magic_index (entry_of es sq) b) = slider_moves deltas sq b \/ In sq l ->
    lookup (fold_left (write_square deltas es) l t) (magic_index (entry_of es sq) b)
    = slider_moves deltas sq b.
Proof.
  intros Hsq Hb. induction l as [|s l IH]; intros t Hl H; cbn [fold_left].
  - destruct H as [H|[]]. exact H.
  - assert (Hs : s < 64) by (apply Hl; left; reflexivity).
    apply IH; [intros s' Hs'; apply Hl; right; exact Hs'|].
    destruct (N.eq_dec s sq) as [E|Hne].
    + subst s. left. apply ws_self; assumption.
    + destruct H as [H|[E|H]]; [left|congruence|right; exact H].
      rewrite ws_other; [exact H|exact Hs|].
      intro b'. apply (segments_disjoint deltas es Hvalid); assumption.
Qed.

(* every slot addressed by a subset of the mask holds the ray walk for that subset *)
Lemma make_table_slot sq b : sq < 64 -> N.land b (relevant_blockers deltas sq) = b ->
  lookup (make_table deltas es) (magic_index (entry_of es sq) b) = slider_moves deltas sq b.
Proof.
  intros Hsq Hb. unfold make_table. apply make_table_fold; try assumption.
  - apply ordered_squares_lt64.
  - right. apply ordered_squares_complete. exact Hsq.
Qed.

Lemma magic_index_land sq occ : sq < 64 ->
  magic_index (entry_of es sq) (N.land occ (relevant_blockers deltas sq))
  = magic_index (entry_of es sq) occ.
Proof.
  intro Hsq. unfold magic_index. rewrite <- (entry_mask sq Hsq), hash_index_land. reflexivity.
Qed.

(** ** The main theorem (generic in the direction list) *)
Theorem magic_lookup_exact_gen sq occ : sq < 64 ->
  get_targets es (make_table deltas es) sq occ = slider_moves deltas sq (andn occ (bit sq)).
Proof.
  intro Hsq. pose proof (deltas_ok_square deltas sq Hdeltas Hsq) as Hok.
  unfold get_targets. rewrite <- (magic_index_land sq occ Hsq).
  rewrite make_table_slot; [|exact Hsq|].
  - apply (slider_moves_mask deltas sq Hok).
  - rewrite <- N.land_assoc, N.land_diag. reflexivity.
Qed.

(* the Vec bound is respected while the table is being filled ... *)
Lemma write_square_checked_ok size s : (forall b, magic_index (entry_of es s) b < size) ->
  forall t, write_square_checked size deltas es (Some t) s = Some (write_square deltas es t s).
Proof.
  intros Hb t. unfold write_square_checked, write_square.
  generalize (subsets (m_mask (entry_of es s))) t. induction l as [|b l IH]; intro t0; cbn [fold_left].
  - reflexivity.
  - destruct (magic_index (entry_of es s) b <? size) eqn:E.
    + apply IH.
    + apply N.ltb_ge in E. specialize (Hb b). lia.
Qed.

Theorem make_table_no_panic :
  make_table_checked (table_size es) deltas es = Some (make_table deltas es).
Proof.
  unfold make_table_checked, make_table.
  assert (G : forall l t, (forall s, In s l -> s < 64) ->
            fold_left (write_square_checked (table_size es) deltas es) l (Some t)
            = Some (fold_left (write_square deltas es) l t)).
  { induction l as [|s l IH]; intros t Hl; cbn [fold_left]; [reflexivity|].
    rewrite write_square_checked_ok.
    - apply IH. intros s' Hs'. apply Hl. right. exact Hs'.
    - intro b. apply N.ltb_lt.
      apply (lookup_index_in_range deltas es Hvalid). apply Hl. left. reflexivity. }
  apply G. apply ordered_squares_lt64.
Qed.

(* ... and when it is read *)
Theorem get_targets_no_panic sq occ : sq < 64 ->
  get_targets_checked (table_size es) es (make_table deltas es) sq occ
  = Some (slider_moves deltas sq (andn occ (bit sq))).
Proof.
  intro Hsq. unfold get_targets_checked.
  pose proof (lookup_index_in_range deltas es Hvalid sq occ Hsq) as H.
  unfold index_in_range in H. rewrite H. f_equal. apply (magic_lookup_exact_gen sq occ Hsq).
Qed.

End Main.

(* ------------------------------------------------------------------ *)
(** * 9. C11 *)

(** For EVERY list of entries that the build script can emit (masks = relevant_blockers,
    shifts = 64 - popcount, offsets = running sums, multipliers accepted by try_make_table),
    every square and every occupancy (of any pieces, including the slider itself), the
    runtime lookup returns the ray walk up to and including the first occupied square.
    `occ` is unconstrained (in particular every occ <= ALL64). *)
Theorem magic_lookup_exact deltas es :
  deltas_ok deltas = true ->
  entries_valid deltas es = true ->
  forall sq occ, sq < 64 ->
    get_targets es (make_table deltas es) sq occ = slider_moves deltas sq (andn occ (bit sq)).
Proof. intros Hd Hv sq occ Hsq. apply magic_lookup_exact_gen; assumption. Qed.

(** The index computed by magic_index is inside the Vec (no panic), for reads and for the
    writes of make_table. *)
Theorem magic_index_in_range deltas es :
  entries_valid deltas es = true ->
  forall sq occ, sq < 64 -> index_in_range es (magic_index (entry_of es sq) occ) = true.
Proof. intros Hv sq occ Hsq. apply (lookup_index_in_range deltas es Hv sq occ Hsq). Qed.

Theorem magic_lookup_exact_checked deltas es :
  deltas_ok deltas = true ->
  entries_valid deltas es = true ->
  exists t, make_table_checked (table_size es) deltas es = Some t /\
    forall sq occ, sq < 64 ->
      get_targets_checked (table_size es) es t sq occ
      = Some (slider_moves deltas sq (andn occ (bit sq))).
Proof.
  intros Hd Hv. exists (make_table deltas es). split.
  - apply make_table_no_panic. exact Hv.
  - intros sq occ Hsq. apply get_targets_no_panic; assumption.
Qed.

Theorem rook_lookup_exact es :
  entries_valid rook_deltas es = true ->
  forall sq occ, sq < 64 -> magic_rook es sq occ = rook_ref sq occ.
Proof.
  intros Hv sq occ Hsq. unfold magic_rook, rook_ref.
  apply magic_lookup_exact; [apply rook_deltas_ok|exact Hv|exact Hsq].
Qed.

Theorem bishop_lookup_exact es :
  entries_valid bishop_deltas es = true ->
  forall sq occ, sq < 64 -> magic_bishop es sq occ = bishop_ref sq occ.
Proof.
  intros Hv sq occ Hsq. unfold magic_bishop, bishop_ref.
  apply magic_lookup_exact; [apply bishop_deltas_ok|exact Hv|exact Hsq].
Qed.

Theorem queen_lookup_exact res bes :
  entries_valid rook_deltas res = true ->
  entries_valid bishop_deltas bes = true ->
  forall sq occ, sq < 64 ->
    magic_queen res bes sq occ = N.lor (rook_ref sq occ) (bishop_ref sq occ).
Proof.
  intros Hr Hb sq occ Hsq. unfold magic_queen.
  change (N.lor (magic_rook res sq occ) (magic_bishop bes sq occ)
          = N.lor (rook_ref sq occ) (bishop_ref sq occ)).
  rewrite rook_lookup_exact, bishop_lookup_exact by assumption. reflexivity.
Qed.

(** The same, with the right-hand side spelled out by coordinates: a square t is reported
    iff, for one of the piece's directions, t lies on the ray from sq (stepping by rank/file
    with try_offset) up to and including the first square that is in occ.  The fuel 8 is
    immaterial (ray_sq_fuel_enough). *)
Theorem magic_lookup_rays deltas es :
  deltas_ok deltas = true ->
  entries_valid deltas es = true ->
  forall sq occ t, sq < 64 ->
    mem t (get_targets es (make_table deltas es) sq occ)
    = existsb (fun d => existsb (N.eqb t) (ray_sq occ 8 sq (fst d) (snd d))) deltas.
Proof.
  intros Hd Hv sq occ t Hsq. rewrite (magic_lookup_exact deltas es Hd Hv sq occ Hsq).
  rewrite slider_moves_rays by (rewrite mem_andn_bit, N.eqb_refl; apply andb_false_r).
  pose proof (deltas_ok_square deltas sq Hd Hsq) as Hok.
  assert (G : forall l, (forall d, In d l -> In d deltas) ->
            existsb (fun d => existsb (N.eqb t) (ray_sq (andn occ (bit sq)) 8 sq (fst d) (snd d))) l
            = existsb (fun d => existsb (N.eqb t) (ray_sq occ 8 sq (fst d) (snd d))) l).
  { induction l as [|d l IH]; intro Hl; cbn [existsb]; [reflexivity|].
    rewrite (ray_sq_own_square deltas sq Hok occ d) by (apply Hl; left; reflexivity).
    rewrite IH by (intros d' Hd'; apply Hl; right; exact Hd'). reflexivity. }
  apply G. auto.
Qed.

Theorem ray_sq_fuel_enough deltas sq occ d :
  deltas_ok deltas = true -> sq < 64 -> In d deltas ->
  forall f', (8 <= f')%nat -> ray_sq occ f' sq (fst d) (snd d) = ray_sq occ 8 sq (fst d) (snd d).
Proof.
  intros Hd Hsq Hin f' Hf'. apply ray_sq_fuel; [|exact Hf'].
  apply (ok_ray_len deltas sq (deltas_ok_square deltas sq Hd Hsq) d Hin).
Qed.

(** The fuel 8 of Rays.walk / Rays.mask_walk is never exhausted (the Rust `while` loops have
    no bound): a ray has at most 7 squares, and more fuel changes nothing. *)
Lemma walk_fuel_gen dr df b : forall f i acc, (length (ray_list f i dr df) < f)%nat ->
  forall f', (f <= f')%nat -> walk f' i dr df b acc = walk f i dr df b acc.
Proof.
  induction f as [|k IH]; intros i acc Hlen f' Hf'; [inversion Hlen|].
  destruct f' as [|k']; [lia|]. cbn [ray_list walk] in *.
  destruct (mem i b); [reflexivity|].
  destruct (try_offset i dr df) as [j|]; [|reflexivity].
  cbn [length] in Hlen. apply IH; lia.
Qed.

Lemma mask_walk_fuel_gen dr df : forall f i acc, (length (ray_list f i dr df) < f)%nat ->
  forall f', (f <= f')%nat -> mask_walk f' i dr df acc = mask_walk f i dr df acc.
Proof.
  induction f as [|k IH]; intros i acc Hlen f' Hf'; [inversion Hlen|].
  destruct f' as [|k']; [lia|]. cbn [ray_list mask_walk] in *.
  destruct (try_offset i dr df) as [j|]; [|reflexivity].
  cbn [length] in Hlen. apply IH; lia.
Qed.

Theorem walk_fuel deltas sq d b acc :
  deltas_ok deltas = true -> sq < 64 -> In d deltas ->
  forall f', (8 <= f')%nat ->
    walk f' sq (fst d) (snd d) b acc = walk 8 sq (fst d) (snd d) b acc /\
    mask_walk f' sq (fst d) (snd d) acc = mask_walk 8 sq (fst d) (snd d) acc.
Proof.
  intros Hd Hsq Hin f' Hf'.
  pose proof (ok_ray_len deltas sq (deltas_ok_square deltas sq Hd Hsq) d Hin) as Hlen.
  split; [apply walk_fuel_gen|apply mask_walk_fuel_gen]; assumption.
Qed.

(** The fuel of the Carry-Rippler model is never exhausted on a real mask: the list is
    shorter than the fuel, so the loop ended by `blockers.is_empty()`, and more fuel
    changes nothing. *)
Lemma subsets_from_fuel_irrelevant mask : forall f b,
  (length (subsets_from f mask b) < f)%nat ->
  forall f', (f <= f')%nat -> subsets_from f' mask b = subsets_from f mask b.
Proof.
  induction f as [|k IH]; intros b Hlen f' Hf'; [inversion Hlen|].
  destruct f' as [|k']; [lia|]. cbn [subsets_from] in *.
  destruct (is_empty (next_subset mask b)); [reflexivity|].
  cbn [length] in Hlen. f_equal. apply IH; lia.
Qed.

Theorem subsets_fuel_enough deltas sq :
  deltas_ok deltas = true -> sq < 64 ->
  forall f', (cr_fuel <= f')%nat ->
    subsets_from f' (relevant_blockers deltas sq) 0 = subsets (relevant_blockers deltas sq).
Proof.
  intros Hd Hsq f' Hf'. unfold subsets. apply subsets_from_fuel_irrelevant; [|exact Hf'].
  apply (ok_fuel deltas sq (deltas_ok_square deltas sq Hd Hsq)).
Qed.

(** Non-vacuity.  The hypotheses of the per-square lemmas are met by a multiplier that a
    real run of the build script drew for the rook on a1 (4096 blocker sets); the complete
    premise `entries_valid` is established for all 128 entries of a real build in
    MagicExample.v and re-evaluated by the check driver on the entries of every fresh build. *)
Definition rook_a1_entry : mentry :=
  {| m_mask := 282578800148862; m_magic := 4071263410065510432; m_shift := 52; m_offset := 0 |}.

Example rook_a1_entry_ok :
  m_mask rook_a1_entry = relevant_blockers rook_deltas 0 /\
  m_shift rook_a1_entry = 64 - popcount (relevant_blockers rook_deltas 0) /\
  accepted rook_deltas 0 rook_a1_entry = true.
Proof. vm_compute. repeat split. Qed.

(* a multiplier that is NOT accepted: the premise is a real restriction *)
Example rook_a1_bad_magic :
  accepted rook_deltas 0 {| m_mask := 282578800148862; m_magic := 1; m_shift := 52; m_offset := 0 |} = false.
Proof. vm_compute. reflexivity. Qed.

(* the reference on the positions of the Rust unit tests test_get_rook_targets /
   test_get_bishop_targets (c3 = 18) *)
Example rook_ref_c3 :
  rook_ref 18 (bit 50 + bit 16 + bit 18 + bit 21 + bit 23 + bit 10)
  = bit 16 + bit 17 + bit 19 + bit 20 + bit 21 + bit 10 + bit 26 + bit 34 + bit 42 + bit 50.
Proof. vm_compute. reflexivity. Qed.

Example bishop_ref_c3 :
  bishop_ref 18 (bit 18 + bit 9 + bit 36 + bit 55)
  = bit 27 + bit 36 + bit 9 + bit 11 + bit 4 + bit 25 + bit 32.
Proof. vm_compute. reflexivity. Qed.

Print Assumptions magic_lookup_exact.
Print Assumptions magic_lookup_exact_checked.
Print Assumptions magic_lookup_rays.
Print Assumptions queen_lookup_exact.
Print Assumptions subsets_fuel_enough.
