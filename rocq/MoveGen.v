(* MoveGen.v — src/move_generator/targets.rs and mod.rs (uncached paths), same order of
   emission as the Rust code.  Executable definitions only.  The slider lookup is a
   parameter: instantiated with the magic-table model (Magic.v) or, equivalently under
   C11, with the ray walk. *)
From ChessV Require Export Moves Rays.

Section Gen.
Variable T : ztable.
Variables rook_t bishop_t : N -> N -> N.      (* square -> occupied -> targets incl. own pieces *)

(* generate_knight_targets_table / generate_king_targets_table, entry i *)
Definition knight_targets (i : N) : N :=
  let k := bit i in
  let nne := andn (shl k 17) A_FILE in
  let nee := andn (andn (shl k 10) A_FILE) B_FILE in
  let see := andn (andn (shr k 6) A_FILE) B_FILE in
  let sse := andn (shr k 15) A_FILE in
  let nnw := andn (shl k 15) H_FILE in
  let nww := andn (andn (shl k 6) G_FILE) H_FILE in
  let sww := andn (andn (shr k 10) G_FILE) H_FILE in
  let ssw := andn (shr k 17) H_FILE in
  N.lor (N.lor (N.lor (N.lor (N.lor (N.lor (N.lor nne nee) see) sse) nnw) nww) sww) ssw.

Definition king_targets (i : N) : N :=
  let k := bit i in
  let t1 := andn (andn (shl k 9) RANK_1) A_FILE in
  let t2 := andn (shl k 8) RANK_1 in
  let t3 := andn (andn (shl k 7) RANK_1) H_FILE in
  let t4 := andn (andn (shr k 7) RANK_8) A_FILE in
  let t5 := andn (shr k 8) RANK_8 in
  let t6 := andn (andn (shr k 9) RANK_8) H_FILE in
  let t7 := andn (shl k 1) A_FILE in
  let t8 := andn (shr k 1) H_FILE in
  N.lor (N.lor (N.lor (N.lor (N.lor (N.lor (N.lor t1 t2) t3) t4) t5) t6) t7) t8.

Definition ptl := list (N * N).    (* PieceTargetList: (square, targets) *)

(* Targets::generate_targets_from_precomputed_tables *)
Definition table_targets (tbl : N -> N) (b : board) (c : color) (p : piece) : ptl :=
  let pcs := locate (pieces b c) p in
  let own := occ (pieces b c) in
  flat_map (fun sq =>
    if mem sq pcs then
      let cand := andn (tbl sq) own in
      if is_empty cand then [] else [(sq, cand)]
    else []) ordered_squares.

(* Targets::generate_sliding_targets *)
Definition sliding_targets (b : board) (c : color) : ptl :=
  let occd := occupied b in
  let own := occ (pieces b c) in
  let strip := fun t => N.lxor t (N.land own t) in
  flat_map (fun sq =>
    match pget (pieces b c) sq with
    | Some Rook => [(sq, strip (rook_t sq occd))]
    | Some Bishop => [(sq, strip (bishop_t sq occd))]
    | Some Queen => [(sq, strip (N.lor (rook_t sq occd) (bishop_t sq occd)))]
    | _ => []
    end) squares.

Definition pawn_attack_west (c : color) (x : N) : N :=
  match c with White => andn (shl x 9) A_FILE | Black => andn (shr x 7) A_FILE end.
Definition pawn_attack_east (c : color) (x : N) : N :=
  match c with White => andn (shl x 7) H_FILE | Black => andn (shr x 9) H_FILE end.

(* generate_pawn_attack_targets *)
Definition pawn_attack_targets (b : board) (c : color) : ptl :=
  let pawns := pw (pieces b c) in
  flat_map (fun x =>
    if mem x pawns then
      [(x, N.lor (pawn_attack_east c (bit x)) (pawn_attack_west c (bit x)))]
    else []) squares.

(* Targets::generate_attack_targets *)
Definition attack_targets (b : board) (c : color) : N :=
  fold_left (fun acc pt => N.lor acc (snd pt))
    (pawn_attack_targets b c ++ sliding_targets b c
       ++ table_targets knight_targets b c Knight ++ table_targets king_targets b c King) 0.

Definition pawn_step (c : color) (x : N) : N :=
  match c with White => shl x 8 | Black => shr x 8 end.

(* generate_pawn_move_targets *)
Definition pawn_move_targets (b : board) (c : color) : ptl :=
  let pawns := pw (pieces b c) in
  let occd := occupied b in
  let dbl := match c with White => RANK_4 | Black => RANK_5 end in
  let move_targets := andn (N.lor (pawn_step c pawns) dbl) occd in
  flat_map (fun x =>
    if mem x pawns then
      let single := pawn_step c (bit x) in
      if overlaps single occd then []
      else
        let double := pawn_step c single in
        let t := N.lor (N.land single move_targets) (N.land double move_targets) in
        if is_empty t then [] else [(x, t)]
    else []) squares.

(* expand_piece_targets *)
Definition expand (b : board) (c : color) (pts : ptl) : list cmove :=
  flat_map (fun pt =>
    map (fun t => Std (fst pt) t (pget (pieces b (opp_c c)) t)) (bits_of (snd pt))) pts.

Definition PAWN_PROMOTIONS : list piece := [Queen; Rook; Bishop; Knight].

(* generate_en_passant_moves *)
Definition ep_moves (b : board) (c : color) : res (list cmove) :=
  let* t := peek_ep b in
  if is_empty t then Ok []
  else
    let pawns := pw (pieces b c) in
    let west := pawn_attack_west c pawns in
    let east := pawn_attack_east c pawns in
    let from_w := match c with White => shr t 9 | Black => shl t 7 end in
    let from_e := match c with White => shr t 7 | Black => shl t 9 end in
    Ok ((if overlaps west t then [EnPassant (tz from_w) (tz t)] else [])
        ++ (if overlaps east t then [EnPassant (tz from_e) (tz t)] else [])).

(* generate_pawn_moves *)
Definition pawn_moves (b : board) (c : color) : res (list cmove) :=
  let pts := pawn_move_targets b c in
  let opp_occ := occ (pieces b (opp_c c)) in
  let caps := flat_map (fun pt =>
                 if overlaps (snd pt) opp_occ then [(fst pt, N.land (snd pt) opp_occ)] else [])
                (pawn_attack_targets b c) in
  let all := expand b c (pts ++ caps) in
  let promo_rank := match c with White => RANK_8 | Black => RANK_1 end in
  let '(std, promotable) := partition (fun m => negb (mem (mv_to m) promo_rank)) all in
  let promos := flat_map (fun m =>
                   map (fun pp => Promo (mv_from m) (mv_to m) (mv_captures m) pp) PAWN_PROMOTIONS)
                  promotable in
  let* eps := ep_moves b c in
  Ok (promos ++ std ++ eps).

(* generate_castle_moves *)
Definition castle_moves (b : board) (c : color) : res (list cmove) :=
  let attacked := attack_targets b (opp_c c) in
  if overlaps (kg (pieces b c)) attacked then Ok []
  else
    let* rights := peek_rights b in
    let ks_rights := N.land (match c with White => WK | Black => BK end) rights in
    let qs_rights := N.land (match c with White => WQ | Black => BQ end) rights in
    let ks_transit := match c with White => F1 | Black => F8 end in
    let qs_transit := match c with White => D1 | Black => D8 end in
    let qs_rook_transit := match c with White => B1 | Black => B8 end in
    let ks_target := match c with White => G1 | Black => G8 end in
    let qs_target := match c with White => C1 | Black => C8 end in
    let king_home := match c with White => E1 | Black => E8 end in
    let occd := occupied b in
    Ok ((if (0 <? ks_rights) && is_none (bget b ks_transit) && negb (mem ks_transit attacked)
            && negb (mem ks_transit occd) && negb (mem ks_target occd)
         then [Castle king_home ks_target] else [])
        ++
        (if (0 <? qs_rights) && is_none (bget b qs_transit) && negb (mem qs_transit attacked)
            && negb (mem qs_transit occd) && negb (mem qs_rook_transit occd) && negb (mem qs_target occd)
         then [Castle king_home qs_target] else [])).

(* the pseudo-legal list, in emission order *)
Definition pseudo_moves (b : board) (c : color) : res (list cmove) :=
  let knights := expand b c (table_targets knight_targets b c Knight) in
  let sliders := expand b c (sliding_targets b c) in
  let kings := expand b c (table_targets king_targets b c King) in
  let* pawns := pawn_moves b c in
  let* castles := castle_moves b c in
  Ok (knights ++ sliders ++ kings ++ pawns ++ castles).

(* remove_invalid_moves: make, own king attacked?, unmake — the board is threaded *)
Fixpoint remove_invalid (b : board) (c : color) (cands : list cmove) : res (list cmove * board) :=
  match cands with
  | [] => Ok ([], b)
  | m :: rest =>
      let* b1 := unwrap (apply_move T m b) in
      let king := kg (pieces b1 c) in
      let attacked := attack_targets b1 (opp_c c) in
      let* b2 := unwrap (undo_move T m b1) in
      let* (rest', b3) := remove_invalid b2 c rest in
      Ok ((if overlaps king attacked then rest' else m :: rest'), b3)
  end.

(* generate_valid_moves *)
Definition gen_moves (b : board) (c : color) : res (list cmove * board) :=
  let* cands := pseudo_moves b c in
  remove_invalid b c cands.

(* evaluate::player_is_in_check (uncached attack map) *)
Definition in_check (b : board) (c : color) : bool :=
  overlaps (kg (pieces b c)) (attack_targets b (opp_c c)).

Definition is_nil {A} (l : list A) : bool := match l with [] => true | _ => false end.

(* MoveGenerator::lazily_calculate_chess_move_effect (uncached) *)
Definition effect_of (b : board) (c : color) (m : cmove) : res (effect * board) :=
  let* b1 := unwrap (apply_move T m b) in
  let* (replies, b1') := gen_moves b1 (opp_c c) in
  let chk := in_check b1' (opp_c c) in
  let e := if chk && is_nil replies then ECheckmate else if chk then ECheck else ENone in
  let* b2 := unwrap (undo_move T m b1') in
  Ok (e, b2).

Fixpoint annotate (b : board) (c : color) (ms : list cmove) : res (list (cmove * effect) * board) :=
  match ms with
  | [] => Ok ([], b)
  | m :: rest =>
      let* (e, b1) := effect_of b c m in
      let* (rest', b2) := annotate b1 c rest in
      Ok ((m, e) :: rest', b2)
  end.

(* generate_moves_and_lazily_update_chess_move_effects (uncached) *)
Definition gen_annotated (b : board) (c : color) : res (list (cmove * effect) * board) :=
  let* (ms, b1) := gen_moves b c in
  annotate b1 c ms.

End Gen.
