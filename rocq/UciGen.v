(* UciGen.v — every move the generator emits `fits` the position (UciProofs.fits), hence
   C19's round trip and injectivity apply to all generated (in particular all legal) moves.
   The board invariant needed is stated here as `gen_wf` in semantic form (what the proof
   uses); the integrator derives it from the reachable-board invariant.  No axioms. *)
From Coq Require Import Lia ZArith NArith List Bool String Ascii.
From ChessV Require Import Bits Types Board Moves Rays MoveGen Rules Abs San GeomProofs UciProofs.
Import ListNotations.
Open Scope N_scope.
Open Scope list_scope.
#[local] Arguments N.add : simpl never.
#[local] Arguments N.sub : simpl never.
#[local] Arguments N.mul : simpl never.
#[local] Arguments N.eqb : simpl never.
#[local] Arguments N.ltb : simpl never.
#[local] Arguments N.leb : simpl never.
#[local] Arguments N.shiftl : simpl never.
#[local] Arguments N.shiftr : simpl never.
#[local] Arguments N.land : simpl never.
#[local] Arguments N.lor : simpl never.
#[local] Arguments N.lxor : simpl never.
#[local] Arguments N.ldiff : simpl never.
#[local] Arguments N.testbit : simpl never.

(* ------------------------------------------------------------------ *)
(* the invariant                                                       *)
(* ------------------------------------------------------------------ *)
(* a piece set whose six boards are pairwise disjoint and contained in `occ` *)
Definition pset_ok (s : pset) : Prop :=
  (forall i p, mem i (locate s p) = true -> pget s i = Some p) /\
  (forall i p, mem i (locate s p) = true -> mem i (occ s) = true) /\
  pw s <= ALL64.

Definition home (c : color) : N := match c with White => 4 | Black => 60 end.
Definition ks_mask (c : color) : N := match c with White => WK | Black => BK end.
Definition qs_mask (c : color) : N := match c with White => WQ | Black => BQ end.

Definition gen_wf (b : board) (c : color) : Prop :=
  pset_ok (white b) /\ pset_ok (black b) /\
  (* no square holds a piece of both colours *)
  (forall i, mem i (occ (white b)) = true -> mem i (occ (black b)) = false) /\
  (* the en-passant target, when set, is a single empty square and the pawn that skipped
     it stands right behind it (seen from the capturer c) *)
  (forall ept, peek_ep b = Ok ept ->
     ept = 0 \/ exists e, e < 64 /\ ept = bit e /\ is_occupied b e = false
                /\ mem (ep_captured_square c e) (occ (pieces b (opp_c c))) = true) /\
  (* a held castling right implies the king is at home *)
  (forall r, peek_rights b = Ok r ->
     (0 <? N.land (ks_mask c) r) || (0 <? N.land (qs_mask c) r) = true ->
     mem (home c) (kg (pieces b c)) = true).

(* ------------------------------------------------------------------ *)
(* bit-level helpers                                                   *)
(* ------------------------------------------------------------------ *)
Lemma UciGen_mem_lor : forall i x y, mem i (N.lor x y) = mem i x || mem i y.
Proof. intros. unfold mem. apply N.lor_spec. Qed.
Lemma UciGen_mem_land : forall i x y, mem i (N.land x y) = mem i x && mem i y.
Proof. intros. unfold mem. apply N.land_spec. Qed.
Lemma UciGen_mem_andn : forall i x y, mem i (andn x y) = mem i x && negb (mem i y).
Proof. intros. unfold mem, andn. apply N.ldiff_spec. Qed.
Lemma UciGen_mem_0 : forall i, mem i 0 = false.
Proof. intros. unfold mem. apply N.bits_0. Qed.

Lemma UciGen_overlaps_false : forall x y i,
  overlaps x y = false -> mem i x = true -> mem i y = false.
Proof.
  intros x y i H Hx. unfold overlaps in H. apply negb_false_iff in H. apply N.eqb_eq in H.
  assert (E : mem i (N.land x y) = false) by (rewrite H; apply UciGen_mem_0).
  rewrite UciGen_mem_land, Hx in E. exact E.
Qed.

Lemma UciGen_overlaps_true : forall x y, overlaps x y = true -> exists i, mem i x = true /\ mem i y = true.
Proof.
  intros x y H. unfold overlaps in H. apply negb_true_iff in H. apply N.eqb_neq in H.
  destruct (N.land x y) as [|p] eqn:E; [contradiction|].
  assert (Hne : N.land x y <> 0) by (rewrite E; discriminate).
  exists (N.log2 (N.land x y)).
  assert (Hb : N.testbit (N.land x y) (N.log2 (N.land x y)) = true) by (apply N.bit_log2; exact Hne).
  rewrite N.land_spec in Hb. apply andb_true_iff in Hb. exact Hb.
Qed.

Lemma UciGen_in_bits_of_lt : forall x t, In t (bits_of x) -> t < 64 /\ mem t x = true.
Proof. intros x t H. exact (proj1 (in_bits_of x t) H). Qed.

Lemma UciGen_ordered_lt : forall i, In i ordered_squares -> i < 64.
Proof.
  intros i Hi.
  assert (H : forallb (fun i => i <? 64) ordered_squares = true) by (vm_compute; reflexivity).
  rewrite forallb_forall in H. apply N.ltb_lt. apply H. exact Hi.
Qed.

(* ------------------------------------------------------------------ *)
(* reading the board on own / foreign squares                          *)
(* ------------------------------------------------------------------ *)
Lemma pget_locate : forall s i p, pget s i = Some p -> mem i (locate s p) = true.
Proof.
  intros s i p H. unfold pget in H.
  destruct (mem i (pw s)) eqn:E1; [inversion H; subst; exact E1|].
  destruct (mem i (kn s)) eqn:E2; [inversion H; subst; exact E2|].
  destruct (mem i (bi s)) eqn:E3; [inversion H; subst; exact E3|].
  destruct (mem i (rk s)) eqn:E4; [inversion H; subst; exact E4|].
  destruct (mem i (qn s)) eqn:E5; [inversion H; subst; exact E5|].
  destruct (mem i (kg s)) eqn:E6; [inversion H; subst; exact E6|discriminate].
Qed.

Lemma pget_none_outside : forall s i, pset_ok s -> mem i (occ s) = false -> pget s i = None.
Proof.
  intros s i [_ [H2 _]] Ho. destruct (pget s i) as [p|] eqn:E; [|reflexivity].
  apply pget_locate in E. apply H2 in E. rewrite E in Ho. discriminate.
Qed.

(* two sweeps relating pawn pushes to the square "behind" an en-passant target *)
Lemma step_ep_behind : forall c x t, x < 64 -> t < 64 ->
  mem t (pawn_step c (bit x)) = true -> ep_captured_square c t = x.
Proof.
  intros c x t Hx Ht Hm.
  pose proof (GeomAux_sweep_c64x64 (fun c x t =>
      implb (mem t (pawn_step c (bit x))) (ep_captured_square c t =? x))
      ltac:(vm_compute; reflexivity) c x t Hx Ht) as H.
  cbv beta in H. rewrite Hm in H. apply N.eqb_eq. exact H.
Qed.

Lemma step2_ep_behind : forall c x t, x < 64 -> t < 64 ->
  mem t (pawn_step c (pawn_step c (bit x))) = true ->
  mem (ep_captured_square c t) (pawn_step c (bit x)) = true.
Proof.
  intros c x t Hx Ht Hm.
  pose proof (GeomAux_sweep_c64x64 (fun c x t =>
      implb (mem t (pawn_step c (pawn_step c (bit x))))
            (mem (ep_captured_square c t) (pawn_step c (bit x))))
      ltac:(vm_compute; reflexivity) c x t Hx Ht) as H.
  cbv beta in H. rewrite Hm in H. exact H.
Qed.

Lemma UciGen_bit_neq_0 : forall i, bit i <> 0.
Proof. intros i. unfold bit. rewrite N.shiftl_1_l. apply N.pow_nonzero. discriminate. Qed.

Lemma UciGen_bit_inj : forall i j, bit i = bit j -> i = j.
Proof.
  intros i j H. unfold bit in H. rewrite !N.shiftl_1_l in H.
  apply N.pow_inj_r in H; [exact H|lia].
Qed.

Lemma UciGen_opp_opp : forall c, opp_c (opp_c c) = c.
Proof. intros [|]; reflexivity. Qed.

Section WF.
Variable T : ztable.
Variables rook_t bishop_t : N -> N -> N.
Variable b : board.
Variable c : color.
Hypothesis WF : gen_wf b c.

Lemma wf_pieces : forall c', pset_ok (pieces b c').
Proof. destruct WF as [Hw [Hb _]]. intros [|]; assumption. Qed.

Lemma wf_disjoint : forall c' i, mem i (occ (pieces b c')) = true -> mem i (occ (pieces b (opp_c c'))) = false.
Proof.
  destruct WF as [_ [_ [Hd _]]]. intros [|] i H; cbn [pieces opp_c] in *.
  - destruct (mem i (occ (white b))) eqn:E; [|reflexivity]. apply Hd in E. rewrite E in H. discriminate.
  - apply Hd. exact H.
Qed.

Lemma bget_own : forall c' i p, mem i (locate (pieces b c') p) = true -> bget b i = Some (p, c').
Proof.
  intros c' i p H.
  destruct (wf_pieces c') as [H1 [H2 _]].
  pose proof (H2 i p H) as Ho. pose proof (H1 i p H) as Hg.
  unfold bget. destruct c'; cbn [pieces opp_c] in *.
  - pose proof (wf_disjoint Black i Ho) as Hn. cbn [pieces opp_c] in Hn.
    rewrite Hn, Ho, Hg. reflexivity.
  - rewrite Ho, Hg. reflexivity.
Qed.

Lemma bget_cap : forall c' t, mem t (occ (pieces b c')) = false ->
  option_map fst (bget b t) = pget (pieces b (opp_c c')) t.
Proof.
  intros c' t H. unfold bget. destruct c'; cbn [pieces opp_c] in *.
  - (* own = Black *)
    rewrite H. destruct (mem t (occ (white b))) eqn:E.
    + destruct (pget (white b) t); reflexivity.
    + symmetry. apply pget_none_outside; [exact (wf_pieces White)|exact E].
  - (* own = White *)
    rewrite H. destruct (mem t (occ (black b))) eqn:E.
    + destruct (pget (black b) t); reflexivity.
    + symmetry. apply pget_none_outside; [exact (wf_pieces Black)|exact E].
Qed.

(* ------------------------------------------------------------------ *)
(* the generic step: a Std move from an own piece to a non-own square   *)
(* ------------------------------------------------------------------ *)
Lemma std_fits : forall p f t ept,
  f < 64 -> t < 64 -> peek_ep b = Ok ept ->
  mem f (locate (pieces b c) p) = true ->
  mem t (occ (pieces b c)) = false ->
  (p = Pawn -> bit t <> ept) -> (p = King -> castle_pair f t = false) ->
  fits b (Std f t (pget (pieces b (opp_c c)) t)).
Proof.
  intros p f t ept Hf Ht He Hown Hfree Hp Hk.
  split; [exact Hf|]. split; [exact Ht|].
  exists p, c, ept. cbn [mv_from]. split; [apply bget_own; exact Hown|]. split; [exact He|].
  split; [symmetry; apply bget_cap; exact Hfree|]. split; assumption.
Qed.

(* a target entry: origin holds an own p, and every target square is acceptable *)
Definition good_pt (p : piece) (ept : N) (pt : N * N) : Prop :=
  fst pt < 64 /\ mem (fst pt) (locate (pieces b c) p) = true /\
  forall t, t < 64 -> mem t (snd pt) = true ->
    mem t (occ (pieces b c)) = false /\ (p = Pawn -> bit t <> ept) /\ (p = King -> castle_pair (fst pt) t = false).

Lemma in_expand : forall pts m, In m (expand b c pts) ->
  exists pt t, In pt pts /\ In t (bits_of (snd pt)) /\ m = Std (fst pt) t (pget (pieces b (opp_c c)) t).
Proof.
  intros pts m H. unfold expand in H. apply in_flat_map in H. destruct H as [pt [Hin H]].
  apply in_map_iff in H. destruct H as [t [E Ht]]. exists pt, t. auto.
Qed.

Lemma expand_inv : forall (Q : piece -> Prop) ept pts,
  (forall pt, In pt pts -> exists p, Q p /\ good_pt p ept pt) ->
  forall m, In m (expand b c pts) ->
  exists p f t, Q p /\ m = Std f t (pget (pieces b (opp_c c)) t) /\ f < 64 /\ t < 64 /\
    mem f (locate (pieces b c) p) = true /\ mem t (occ (pieces b c)) = false /\
    (p = Pawn -> bit t <> ept) /\ (p = King -> castle_pair f t = false).
Proof.
  intros Q ept pts Hgood m Hm.
  destruct (in_expand pts m Hm) as [pt [t [Hin [Ht E]]]].
  destruct (Hgood pt Hin) as [p [HQ [G1 [G2 G3]]]].
  apply UciGen_in_bits_of_lt in Ht. destruct Ht as [Ht Hmem].
  destruct (G3 t Ht Hmem) as [Hfree [Hp Hk]].
  exists p, (fst pt), t. repeat (split; [assumption|]). assumption.
Qed.

Lemma expand_fits : forall ept pts, peek_ep b = Ok ept ->
  (forall pt, In pt pts -> exists p, good_pt p ept pt) ->
  forall m, In m (expand b c pts) -> fits b m.
Proof.
  intros ept pts He Hgood m Hm.
  destruct (expand_inv (fun _ => True) ept pts) with (m := m)
    as [p [f [t [_ [E [Hf [Ht [Hown [Hfree [Hp Hk]]]]]]]]]].
  - intros pt Hin. destruct (Hgood pt Hin) as [p G]. exists p. auto.
  - exact Hm.
  - subst m. apply (std_fits p f t ept); assumption.
Qed.

(* ------------------------------------------------------------------ *)
(* knights, kings, sliders                                             *)
(* ------------------------------------------------------------------ *)
Lemma table_targets_good : forall tbl p ept,
  p <> Pawn ->
  (p = King -> forall sq t, mem t (tbl sq) = true -> castle_pair sq t = false) ->
  forall pt, In pt (table_targets tbl b c p) -> good_pt p ept pt.
Proof.
  intros tbl p ept Hnp Hking pt Hin. unfold table_targets in Hin.
  apply in_flat_map in Hin. destruct Hin as [sq [Hsq Hin]].
  destruct (mem sq (locate (pieces b c) p)) eqn:Eown; [|destruct Hin].
  cbv zeta in Hin.
  destruct (is_empty (andn (tbl sq) (occ (pieces b c)))); [destruct Hin|].
  destruct Hin as [E|[]]. subst pt. unfold good_pt. cbn [fst snd].
  split; [apply UciGen_ordered_lt; exact Hsq|]. split; [exact Eown|].
  intros t Ht Hm. rewrite UciGen_mem_andn in Hm. apply andb_true_iff in Hm. destruct Hm as [H1 H2].
  apply negb_true_iff in H2. split; [exact H2|]. split.
  - intro E. contradiction.
  - intro E. apply (Hking E). exact H1.
Qed.

Lemma UciGen_strip_mem : forall own x t,
  mem t (N.lxor x (N.land own x)) = true -> mem t own = false.
Proof.
  intros own x t H. unfold mem in *. rewrite N.lxor_spec, N.land_spec in H.
  destruct (N.testbit own t); [|reflexivity]. cbn [andb] in H.
  rewrite xorb_nilpotent in H. discriminate.
Qed.

Lemma sliding_targets_good : forall ept pt, In pt (sliding_targets rook_t bishop_t b c) ->
  exists p, good_pt p ept pt.
Proof.
  intros ept pt Hin. unfold sliding_targets in Hin.
  apply in_flat_map in Hin. destruct Hin as [sq [Hsq Hin]].
  assert (G : forall p x, pget (pieces b c) sq = Some p -> p <> Pawn -> p <> King ->
              good_pt p ept (sq, N.lxor x (N.land (occ (pieces b c)) x))).
  { intros p x Hg Hnp Hnk. unfold good_pt. cbn [fst snd].
    split; [apply in_squares_lt; exact Hsq|]. split; [apply pget_locate; exact Hg|].
    intros t Ht Hm. split; [exact (UciGen_strip_mem _ _ _ Hm)|]. split; intro E; contradiction. }
  destruct (pget (pieces b c) sq) as [p|] eqn:Eg; [|destruct Hin].
  destruct p; try (destruct Hin; fail);
    (destruct Hin as [E|[]]; subst pt; eexists; apply G; [reflexivity|discriminate|discriminate]).
Qed.

(* ------------------------------------------------------------------ *)
(* pawns                                                               *)
(* ------------------------------------------------------------------ *)
Lemma not_occupied_own : forall c' t, mem t (occupied b) = false -> mem t (occ (pieces b c')) = false.
Proof.
  intros c' t H. unfold occupied in H. rewrite UciGen_mem_lor in H. apply orb_false_iff in H.
  destruct H as [H1 H2]. destruct c'; assumption.
Qed.

Lemma occupied_of_side : forall c' t, mem t (occ (pieces b c')) = true -> mem t (occupied b) = true.
Proof.
  intros c' t H. unfold occupied. rewrite UciGen_mem_lor. destruct c'; cbn [pieces] in H; rewrite H.
  - apply orb_true_r.
  - reflexivity.
Qed.

(* the en-passant clause of the invariant, unpacked for a target equal to bit t *)
Lemma ep_clause : forall t, peek_ep b = Ok (bit t) -> t < 64 ->
  is_occupied b t = false /\ mem (ep_captured_square c t) (occ (pieces b (opp_c c))) = true.
Proof.
  intros t He Ht. destruct WF as [_ [_ [_ [Hep _]]]].
  destruct (Hep _ He) as [E0|[e [He64 [Eb [Hfree Hbehind]]]]].
  - exfalso. exact (UciGen_bit_neq_0 t E0).
  - apply UciGen_bit_inj in Eb. subst e. auto.
Qed.

Lemma pawn_move_targets_good : forall ept, peek_ep b = Ok ept ->
  forall pt, In pt (pawn_move_targets b c) -> good_pt Pawn ept pt.
Proof.
  intros ept He pt Hin. unfold pawn_move_targets in Hin.
  apply in_flat_map in Hin. destruct Hin as [x [Hx Hin]].
  apply in_squares_lt in Hx.
  destruct (mem x (pw (pieces b c))) eqn:Epawn; [|destruct Hin].
  cbv zeta in Hin.
  set (occd := occupied b) in *.
  set (single := pawn_step c (bit x)) in *.
  set (mt := andn (N.lor (pawn_step c (pw (pieces b c))) match c with White => RANK_4 | Black => RANK_5 end) occd) in *.
  destruct (overlaps single occd) eqn:Eblk; [destruct Hin|].
  destruct (is_empty (N.lor (N.land single mt) (N.land (pawn_step c single) mt))); [destruct Hin|].
  destruct Hin as [E|[]]. subst pt. unfold good_pt. cbn [fst snd].
  split; [exact Hx|]. split; [exact Epawn|].
  intros t Ht Hm.
  assert (Hmt : mem t mt = true).
  { rewrite UciGen_mem_lor, !UciGen_mem_land in Hm. apply orb_true_iff in Hm.
    destruct Hm as [Hm|Hm]; apply andb_true_iff in Hm; destruct Hm as [_ Hm]; exact Hm. }
  assert (Hfree : mem t occd = false).
  { unfold mt in Hmt. rewrite UciGen_mem_andn in Hmt. apply andb_true_iff in Hmt.
    destruct Hmt as [_ Hmt]. apply negb_true_iff in Hmt. exact Hmt. }
  split; [apply not_occupied_own; exact Hfree|]. split; [|discriminate].
  intros _ Eept. rewrite <- Eept in He.
  destruct (ep_clause t He Ht) as [_ Hbehind].
  rewrite UciGen_mem_lor, !UciGen_mem_land in Hm. apply orb_true_iff in Hm.
  destruct Hm as [Hm|Hm]; apply andb_true_iff in Hm; destruct Hm as [Hm _].
  - (* single push onto the target: the pawn itself would stand where the enemy pawn is *)
    rewrite (step_ep_behind c x t Hx Ht Hm) in Hbehind.
    destruct (wf_pieces c) as [_ [H2 _]].
    pose proof (H2 x Pawn Epawn) as Hown.
    rewrite (wf_disjoint c x Hown) in Hbehind. discriminate.
  - (* double push onto the target: the square in between holds the enemy pawn *)
    pose proof (step2_ep_behind c x t Hx Ht Hm) as Hs. fold single in Hs.
    pose proof (UciGen_overlaps_false _ _ _ Eblk Hs) as Hno.
    unfold occd in Hno. rewrite (occupied_of_side _ _ Hbehind) in Hno. discriminate.
Qed.

Definition pawn_caps : ptl :=
  flat_map (fun pt =>
     if overlaps (snd pt) (occ (pieces b (opp_c c))) then [(fst pt, N.land (snd pt) (occ (pieces b (opp_c c))))] else [])
    (pawn_attack_targets b c).

Lemma pawn_caps_good : forall ept, peek_ep b = Ok ept ->
  forall pt, In pt pawn_caps -> good_pt Pawn ept pt.
Proof.
  intros ept He pt Hin. unfold pawn_caps in Hin.
  apply in_flat_map in Hin. destruct Hin as [pt0 [Hin0 Hin]].
  unfold pawn_attack_targets in Hin0. apply in_flat_map in Hin0. destruct Hin0 as [x [Hx Hin0]].
  apply in_squares_lt in Hx.
  destruct (mem x (pw (pieces b c))) eqn:Epawn; [|destruct Hin0].
  destruct Hin0 as [E|[]]. subst pt0. cbn [fst snd] in Hin.
  destruct (overlaps _ _); [|destruct Hin]. destruct Hin as [E|[]]. subst pt.
  unfold good_pt. cbn [fst snd]. split; [exact Hx|]. split; [exact Epawn|].
  intros t Ht Hm. rewrite UciGen_mem_land in Hm. apply andb_true_iff in Hm. destruct Hm as [_ Hopp].
  split.
  - pose proof (wf_disjoint (opp_c c) t Hopp) as H. rewrite UciGen_opp_opp in H. exact H.
  - split; [|discriminate]. intros _ Eept. rewrite <- Eept in He.
    destruct (ep_clause t He Ht) as [Hfree _]. unfold is_occupied in Hfree.
    rewrite (occupied_of_side _ _ Hopp) in Hfree. discriminate.
Qed.

Lemma ep_moves_fit : forall l, ep_moves b c = Ok l -> forall m, In m l -> fits b m.
Proof.
  intros l H m Hin. rewrite ep_moves_unfold in H.
  destruct (peek_ep b) as [t| |] eqn:He; try discriminate. cbn [bind] in H.
  destruct (is_empty t) eqn:Eempty; [inversion H; subst l; destruct Hin|].
  assert (Hne : t <> 0) by (unfold is_empty in Eempty; apply N.eqb_neq; exact Eempty).
  assert (Hwf := WF). destruct Hwf as [_ [_ [_ [Hep _]]]].
  destruct (Hep _ He) as [E0|[e [He64 [Eb _]]]]; [contradiction|]. subst t.
  destruct (wf_pieces c) as [_ [_ Hle]].
  assert (Src : forall g, lor_hom g -> overlaps (g (pw (pieces b c))) (bit e) = true ->
            exists i, i < 64 /\ mem i (pw (pieces b c)) = true /\ mem e (g (bit i)) = true).
  { intros g Hg Ho. apply UciGen_overlaps_true in Ho. destruct Ho as [j [Hj1 Hj2]].
    rewrite mem_bit in Hj2. apply N.eqb_eq in Hj2. subst j.
    apply (lor_hom_lift_mem g _ e Hg Hle). exact Hj1. }
  assert (Fit : forall i, i < 64 -> mem i (pw (pieces b c)) = true -> fits b (EnPassant i e)).
  { intros i Hi Hpawn. split; [exact Hi|]. split; [exact He64|].
    exists Pawn, c, (bit e). cbn [mv_from]. split; [apply (bget_own c i Pawn); exact Hpawn|].
    split; [exact He|]. split; reflexivity. }
  inversion H; subst l; clear H. rewrite (tz_bit e He64) in Hin.
  apply in_app_or in Hin. destruct Hin as [Hin|Hin].
  - destruct (overlaps (pawn_attack_west c (pw (pieces b c))) (bit e)) eqn:Eo; [|destruct Hin].
    destruct Hin as [E|[]]. subst m.
    destruct (Src _ (pawn_attack_west_hom c) Eo) as [i [Hi [Hpawn Hatt]]].
    destruct (ep_source_west c i e Hi He64 Hatt) as [_ [Htz _]]. rewrite Htz. apply Fit; assumption.
  - destruct (overlaps (pawn_attack_east c (pw (pieces b c))) (bit e)) eqn:Eo; [|destruct Hin].
    destruct Hin as [E|[]]. subst m.
    destruct (Src _ (pawn_attack_east_hom c) Eo) as [i [Hi [Hpawn Hatt]]].
    destruct (ep_source_east c i e Hi He64 Hatt) as [_ [Htz _]]. rewrite Htz. apply Fit; assumption.
Qed.

Lemma pawn_moves_unfold : pawn_moves b c =
  (let all := expand b c (pawn_move_targets b c ++ pawn_caps) in
   let '(std, promotable) := partition (fun m => negb (mem (mv_to m) match c with White => RANK_8 | Black => RANK_1 end)) all in
   let promos := flat_map (fun m => map (fun pp => Promo (mv_from m) (mv_to m) (mv_captures m) pp) PAWN_PROMOTIONS) promotable in
   let* eps := ep_moves b c in Ok (promos ++ std ++ eps)).
Proof. reflexivity. Qed.

Lemma pawn_moves_fit : forall l, pawn_moves b c = Ok l -> forall m, In m l -> fits b m.
Proof.
  intros l H m Hin. rewrite pawn_moves_unfold in H. cbv zeta in H.
  destruct (partition _ (expand b c (pawn_move_targets b c ++ pawn_caps))) as [std promotable] eqn:Epart.
  apply UciAux_bind_ok in H. destruct H as [eps [Heps H]]. inversion H; subst l; clear H.
  (* peek_ep is Ok because ep_moves is *)
  assert (Hpeek : exists ept, peek_ep b = Ok ept).
  { rewrite ep_moves_unfold in Heps. destruct (peek_ep b) as [t| |]; try discriminate. exists t. reflexivity. }
  destruct Hpeek as [ept He].
  assert (Hgood : forall pt, In pt (pawn_move_targets b c ++ pawn_caps) -> exists p, p = Pawn /\ good_pt p ept pt).
  { intros pt Hpt. exists Pawn. split; [reflexivity|]. apply in_app_or in Hpt. destruct Hpt as [Hpt|Hpt].
    - apply pawn_move_targets_good; assumption.
    - apply pawn_caps_good; assumption. }
  pose proof (elements_in_partition _ _ Epart) as Hpart.
  apply in_app_or in Hin. destruct Hin as [Hin|Hin].
  - (* promotions *)
    apply in_flat_map in Hin. destruct Hin as [m0 [Hm0 Hin]].
    assert (Hpp : exists pp, m = Promo (mv_from m0) (mv_to m0) (mv_captures m0) pp /\ promo_ok pp = true).
    { cbn [In map PAWN_PROMOTIONS] in Hin.
      destruct Hin as [E|[E|[E|[E|[]]]]]; subst m; eexists; split; reflexivity. }
    destruct Hpp as [pp [E Hpp]]. subst m.
    assert (Hall : In m0 (expand b c (pawn_move_targets b c ++ pawn_caps))) by (apply Hpart; right; exact Hm0).
    destruct (expand_inv (fun p => p = Pawn) ept _ Hgood m0 Hall)
      as [p [f [t [Hp [E [Hf [Ht [Hown [Hfree _]]]]]]]]].
    subst p m0. cbn [mv_from mv_to mv_captures].
    split; [exact Hf|]. split; [exact Ht|].
    exists Pawn, c, ept. cbn [mv_from]. split; [apply bget_own; exact Hown|]. split; [exact He|].
    split; [reflexivity|]. split; [symmetry; apply bget_cap; exact Hfree|].
    exact Hpp.
  - apply in_app_or in Hin. destruct Hin as [Hin|Hin].
    + (* ordinary pawn moves *)
      apply (expand_fits ept (pawn_move_targets b c ++ pawn_caps) He).
      * intros pt Hpt. destruct (Hgood pt Hpt) as [p [_ G]]. exists p. exact G.
      * apply Hpart. left. exact Hin.
    + exact (ep_moves_fit eps Heps m Hin).
Qed.

(* ------------------------------------------------------------------ *)
(* castling                                                            *)
(* ------------------------------------------------------------------ *)
Lemma castle_moves_fit : forall ept l, peek_ep b = Ok ept -> turn b = c ->
  castle_moves rook_t bishop_t b c = Ok l -> forall m, In m l -> fits b m.
Proof.
  intros ept l He Hturn H m Hin. unfold castle_moves in H.
  destruct (overlaps (kg (pieces b c)) (attack_targets rook_t bishop_t b (opp_c c)));
    [inversion H; subst l; destruct Hin|].
  apply UciAux_bind_ok in H. destruct H as [r [Hr H]]. cbv zeta in H.
  destruct WF as [_ [_ [_ [_ Hrights]]]]. specialize (Hrights r Hr).
  assert (Fit : forall t, (0 <? N.land (ks_mask c) r) || (0 <? N.land (qs_mask c) r) = true ->
            castle_for c (home c) t = true -> t < 64 -> fits b (Castle (home c) t)).
  { intros t Hheld Hcf Ht. split; [destruct c; reflexivity|]. split; [exact Ht|].
    exists King, c, ept. cbn [mv_from]. split; [apply (bget_own c (home c) King); apply Hrights; exact Hheld|].
    split; [exact He|]. split; [reflexivity|]. rewrite Hturn. exact Hcf. }
  inversion H; subst l; clear H. apply in_app_or in Hin. destruct Hin as [Hin|Hin].
  - match type of Hin with In _ (if ?cond then _ else _) => destruct cond eqn:Ec end; [|destruct Hin].
    destruct Hin as [E|[]]. subst m.
    rewrite !andb_true_iff in Ec. destruct Ec as [[[[Hk1 _] _] _] _].
    change (match c with White => Moves.E1 | Black => Moves.E8 end) with (home c).
    apply Fit.
    + change (N.land (ks_mask c) r) with (N.land match c with White => WK | Black => BK end r).
      rewrite Hk1. reflexivity.
    + destruct c; reflexivity.
    + destruct c; reflexivity.
  - match type of Hin with In _ (if ?cond then _ else _) => destruct cond eqn:Ec end; [|destruct Hin].
    destruct Hin as [E|[]]. subst m.
    rewrite !andb_true_iff in Ec. destruct Ec as [[[[[Hk1 _] _] _] _] _].
    change (match c with White => Moves.E1 | Black => Moves.E8 end) with (home c).
    apply Fit.
    + change (N.land (qs_mask c) r) with (N.land match c with White => WQ | Black => BQ end r).
      rewrite Hk1. apply orb_true_r.
    + destruct c; reflexivity.
    + destruct c; reflexivity.
Qed.

(* ------------------------------------------------------------------ *)
(* the whole pseudo-legal list, and the legal list                     *)
(* ------------------------------------------------------------------ *)
Theorem pseudo_moves_fit : forall l, turn b = c ->
  pseudo_moves rook_t bishop_t b c = Ok l -> forall m, In m l -> fits b m.
Proof.
  intros l Hturn H m Hin. unfold pseudo_moves in H. cbv zeta in H.
  apply UciAux_bind_ok in H. destruct H as [pawns [Hpawns H]].
  apply UciAux_bind_ok in H. destruct H as [castles [Hcastles H]].
  inversion H; subst l; clear H.
  assert (Hpeek : exists ept, peek_ep b = Ok ept).
  { rewrite pawn_moves_unfold in Hpawns. cbv zeta in Hpawns.
    destruct (partition _ _) as [std promotable].
    apply UciAux_bind_ok in Hpawns. destruct Hpawns as [eps [Heps _]].
    rewrite ep_moves_unfold in Heps. destruct (peek_ep b) as [t| |]; try discriminate. exists t. reflexivity. }
  destruct Hpeek as [ept He].
  apply in_app_or in Hin. destruct Hin as [Hin|Hin].
  { apply (expand_fits ept (table_targets knight_targets b c Knight) He); [|exact Hin].
    intros pt Hpt. exists Knight. apply (table_targets_good knight_targets Knight ept); [discriminate|discriminate|exact Hpt]. }
  apply in_app_or in Hin. destruct Hin as [Hin|Hin].
  { apply (expand_fits ept (sliding_targets rook_t bishop_t b c) He); [|exact Hin].
    intros pt Hpt. apply (sliding_targets_good ept pt Hpt). }
  apply in_app_or in Hin. destruct Hin as [Hin|Hin].
  { apply (expand_fits ept (table_targets king_targets b c King) He); [|exact Hin].
    intros pt Hpt. exists King. apply (table_targets_good king_targets King ept); [discriminate| |exact Hpt].
    intros _ sq t Hm. destruct (castle_pair sq t) eqn:E; [|reflexivity].
    rewrite (king_targets_never_castle_pair sq t E) in Hm. discriminate. }
  apply in_app_or in Hin. destruct Hin as [Hin|Hin].
  - exact (pawn_moves_fit pawns Hpawns m Hin).
  - exact (castle_moves_fit ept castles He Hturn Hcastles m Hin).
Qed.

End WF.

(* remove_invalid only drops candidates *)
Lemma remove_invalid_incl : forall T rook_t bishop_t c cands b l b',
  remove_invalid T rook_t bishop_t b c cands = Ok (l, b') -> incl l cands.
Proof.
  intros T rook_t bishop_t c. induction cands as [|m rest IH]; intros b l b' H.
  - cbn [remove_invalid] in H. inversion H. intros x Hx. exact Hx.
  - cbn [remove_invalid] in H.
    apply UciAux_bind_ok in H. destruct H as [b1 [_ H]]. cbv zeta in H.
    apply UciAux_bind_ok in H. destruct H as [b2 [_ H]].
    apply UciAux_bind_ok in H. destruct H as [[rest' b3] [Hrec H]].
    specialize (IH _ _ _ Hrec).
    destruct (overlaps _ _); inversion H; subst l b'; intros x Hx.
    + right. apply IH. exact Hx.
    + destruct Hx as [E|Hx]; [left; exact E|right; apply IH; exact Hx].
Qed.

(* C19 applies to every generated move: each legal move of the side to move fits *)
Theorem gen_moves_fit : forall T rook_t bishop_t b c l b',
  gen_wf b c -> turn b = c ->
  gen_moves T rook_t bishop_t b c = Ok (l, b') -> forall m, In m l -> fits b m.
Proof.
  intros T rook_t bishop_t b c l b' WF Hturn H m Hin. unfold gen_moves in H.
  apply UciAux_bind_ok in H. destruct H as [cands [Hc H]].
  apply (pseudo_moves_fit rook_t bishop_t b c WF cands Hturn Hc).
  exact (remove_invalid_incl _ _ _ _ _ _ _ _ H m Hin).
Qed.

Corollary gen_moves_uci_roundtrip : forall T rook_t bishop_t b c l b',
  gen_wf b c -> turn b = c -> gen_moves T rook_t bishop_t b c = Ok (l, b') ->
  forall m, In m l -> exists s, to_uci m = Ok s /\ from_uci b s = Ok m.
Proof.
  intros T rook_t bishop_t b c l b' WF Hturn H m Hin.
  apply uci_roundtrip. exact (gen_moves_fit T rook_t bishop_t b c l b' WF Hturn H m Hin).
Qed.

Corollary gen_moves_uci_injective : forall T rook_t bishop_t b c l b',
  gen_wf b c -> turn b = c -> gen_moves T rook_t bishop_t b c = Ok (l, b') ->
  forall m1 m2, In m1 l -> In m2 l -> to_uci m1 = to_uci m2 -> m1 = m2.
Proof.
  intros T rook_t bishop_t b c l b' WF Hturn H m1 m2 H1 H2 E.
  apply (uci_injective b); [| |exact E];
    eapply gen_moves_fit; eassumption.
Qed.

(* ------------------------------------------------------------------ *)
(* a decidable sufficient condition for gen_wf, and non-vacuity         *)
(* ------------------------------------------------------------------ *)
Definition all_pieces : list piece := [Pawn; Knight; Bishop; Rook; Queen; King].

Definition pset_okb (s : pset) : bool :=
  forallb (fun p => locate s p <=? ALL64) all_pieces &&
  forallb (fun i => forallb (fun p =>
     implb (mem i (locate s p)) (opt_piece_eqb (pget s i) (Some p) && mem i (occ s))) all_pieces) squares.

Lemma UciGen_mem_lt : forall x i, x <= ALL64 -> mem i x = true -> i < 64.
Proof.
  intros x i Hx Hm. destruct (N.lt_ge_cases i 64) as [H|H]; [exact H|].
  unfold mem in Hm. rewrite (testbit_high x i Hx H) in Hm. discriminate.
Qed.

Lemma pset_okb_sound : forall s, pset_okb s = true -> pset_ok s.
Proof.
  intros s H. unfold pset_okb in H. apply andb_true_iff in H. destruct H as [Hle Hsw].
  rewrite forallb_forall in Hle.
  assert (Hall : forall p, In p all_pieces) by (intros []; cbn; tauto).
  assert (Key : forall i p, mem i (locate s p) = true -> pget s i = Some p /\ mem i (occ s) = true).
  { intros i p Hm.
    assert (Hi : i < 64).
    { apply (UciGen_mem_lt (locate s p)); [|exact Hm]. apply N.leb_le. apply Hle. apply Hall. }
    pose proof (sweep64 _ Hsw i Hi) as H1. cbv beta in H1. rewrite forallb_forall in H1.
    specialize (H1 p (Hall p)). rewrite Hm in H1. cbn [implb] in H1.
    apply andb_true_iff in H1. destruct H1 as [H1 H2].
    apply UciAux_opt_piece_eqb_eq in H1. auto. }
  split; [intros i p Hm; apply (Key i p Hm)|]. split; [intros i p Hm; apply (Key i p Hm)|].
  apply N.leb_le. apply (Hle Pawn). apply Hall.
Qed.

Definition gen_wfb (b : board) (c : color) : bool :=
  pset_okb (white b) && pset_okb (black b) &&
  (occ (white b) <=? ALL64) &&
  forallb (fun i => implb (mem i (occ (white b))) (negb (mem i (occ (black b))))) squares &&
  match peek_ep b with
  | Ok ept => (ept =? 0) || existsb (fun e => (ept =? bit e) && negb (is_occupied b e)
                                && mem (ep_captured_square c e) (occ (pieces b (opp_c c)))) squares
  | _ => true
  end &&
  match peek_rights b with
  | Ok r => implb ((0 <? N.land (ks_mask c) r) || (0 <? N.land (qs_mask c) r)) (mem (home c) (kg (pieces b c)))
  | _ => true
  end.

Theorem gen_wfb_sound : forall b c, gen_wfb b c = true -> gen_wf b c.
Proof.
  intros b c H. unfold gen_wfb in H. rewrite !andb_true_iff in H.
  destruct H as [[[[[Hw Hb] Hle] Hd] Hep] Hr].
  split; [apply pset_okb_sound; exact Hw|]. split; [apply pset_okb_sound; exact Hb|].
  split; [|split].
  - intros i Hm. apply N.leb_le in Hle. pose proof (UciGen_mem_lt _ _ Hle Hm) as Hi.
    pose proof (sweep64 _ Hd i Hi) as H1. cbv beta in H1. rewrite Hm in H1. cbn [implb] in H1.
    apply negb_true_iff in H1. exact H1.
  - intros ept He. rewrite He in Hep. apply orb_true_iff in Hep. destruct Hep as [H0|Hex].
    + left. apply N.eqb_eq. exact H0.
    + right. apply existsb_exists in Hex. destruct Hex as [e [Hin He']].
      rewrite !andb_true_iff in He'. destruct He' as [[H1 H2] H3].
      exists e. split; [apply in_squares_lt; exact Hin|]. split; [apply N.eqb_eq; exact H1|].
      split; [apply negb_true_iff; exact H2|exact H3].
  - intros r Hpr Hheld. rewrite Hpr in Hr. rewrite Hheld in Hr. exact Hr.
Qed.

Example gen_wf_initial : gen_wf initial_board White.
Proof. apply gen_wfb_sound. vm_compute. reflexivity. Qed.
Example gen_wf_ep_board : gen_wf ep_board White.
Proof. apply gen_wfb_sound. vm_compute. reflexivity. Qed.
Example gen_wf_castle_board : gen_wf castle_board White.
Proof. apply gen_wfb_sound. vm_compute. reflexivity. Qed.

(* the generator really produces moves on these boards (slider lookup = ray walk) *)
Example gen_moves_initial_20 :
  match gen_moves Z0 rook_ref bishop_ref initial_board White with
  | Ok (l, _) => length l = 20%nat /\ forallb (fitsb initial_board) l = true
  | _ => False
  end.
Proof. vm_compute. split; reflexivity. Qed.
(* ep_board keeps board_new's full castling rights without rooks, on which the generator
   emits castle candidates that apply_castle rejects (unwrap -> Panic); reachable boards
   never hold a right without its rook, so drop the rights for the example *)
Definition ep_board_norights : board := set_cr ep_board [0].
Example gen_wf_ep_board_norights : gen_wf ep_board_norights White.
Proof. apply gen_wfb_sound. vm_compute. reflexivity. Qed.
Example gen_moves_ep_board_has_ep :
  match gen_moves Z0 rook_ref bishop_ref ep_board_norights White with
  | Ok (l, _) => existsb (cmove_eqb (EnPassant 36 43)) l = true /\ forallb (fitsb ep_board_norights) l = true
  | _ => False
  end.
Proof. vm_compute. split; reflexivity. Qed.
Example gen_moves_castle_board_has_castles :
  match gen_moves Z0 rook_ref bishop_ref castle_board White with
  | Ok (l, _) => existsb (cmove_eqb (Castle 4 6)) l = true /\ existsb (cmove_eqb (Castle 4 2)) l = true
  | _ => False
  end.
Proof. vm_compute. split; reflexivity. Qed.

Print Assumptions gen_moves_fit.
Print Assumptions gen_moves_uci_injective.
Print Assumptions gen_wfb_sound.
