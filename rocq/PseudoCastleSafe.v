(* PseudoCastleSafe.v — C01: the castles the engine emits beyond the rules' list (king
   target square attacked) are removed by the legality filter.
   If the king's destination is attacked by the opponent before castling, it is still
   attacked after the king and the rook have moved (no attacker stood on, and no attacking
   ray passed over, the four squares that change), so `leaves_king_safe` is false.
   Uses AttackProofs (attack map = Rules.attacked_by) and SuccProofs1.apply_castle_obs.
   No axioms. *)
From Coq Require Import Lia ZArith NArith List Bool.
From ChessV Require Import Bits Types Board Moves Rays MoveGen Rules Abs GeomProofs.
From ChessV Require Import BitsLemmas BoardLemmas WfReflect PseudoBase PseudoProofs3 PseudoProofs.
From ChessV Require AttackProofs SuccProofs1 GenFrame.
Import ListNotations.
Open Scope N_scope.
Open Scope list_scope.

Section Transfer.
Variables b b1 : board.
Variable c : color.
Variables f t rf rt : N.
Variable r : Z.
Hypothesis W : WF b.
Hypothesis W1 : WF b1.
Hypothesis Hb1 : forall j, bget b1 j =
  if j =? rt then Some (Rook, c) else if j =? rf then None
  else if j =? t then Some (King, c) else if j =? f then None else bget b j.
Hypothesis Kf : bget b f = Some (King, c).
Hypothesis Et : bget b t = None.
Hypothesis Rrf : bget b rf = Some (Rook, c).
Hypothesis Ert : bget b rt = None.
Hypothesis Lt : t < 64.
Hypothesis Gf : fileZ f = 4%Z /\ rankZ f = r.
Hypothesis Gt : rankZ t = r /\ rankZ rt = r
  /\ ((fileZ t = 6 /\ fileZ rt = 5) \/ (fileZ t = 2 /\ fileZ rt = 3))%Z.

Lemma enemy_kept i P : bget b i = Some (P, opp_c c) -> bget b1 i = Some (P, opp_c c).
Proof.
  intro H. rewrite Hb1.
  destruct (N.eqb_spec i rt) as [->|_]; [rewrite Ert in H; discriminate|].
  destruct (N.eqb_spec i rf) as [->|_].
  { rewrite Rrf in H. injection H as Ep Ec. exfalso. exact (opp_c_neq c (eq_sym Ec)). }
  destruct (N.eqb_spec i t) as [->|_]; [rewrite Et in H; discriminate|].
  destruct (N.eqb_spec i f) as [->|_]; [|exact H].
  rewrite Kf in H. injection H as Ep Ec. exfalso. exact (opp_c_neq c (eq_sym Ec)).
Qed.

Lemma empty_kept s : bget b s = None -> s <> t -> s <> rt -> bget b1 s = None.
Proof.
  intros H N1 N2. rewrite Hb1.
  destruct (N.eqb_spec s rt); [contradiction|]. destruct (N.eqb_spec s rf); [reflexivity|].
  destruct (N.eqb_spec s t); [contradiction|]. destruct (N.eqb_spec s f); [reflexivity|]. exact H.
Qed.

Lemma step_att_kept P offs :
  AttackProofs.step_att b (opp_c c) P offs t -> AttackProofs.step_att b1 (opp_c c) P offs t.
Proof.
  intros [i [df [dr (Bi & Ho & F & R)]]]. exists i, df, dr. split; [apply enemy_kept, Bi|]. tauto.
Qed.

Lemma f_is_sq : f = sq 4 r.
Proof. destruct Gf as [F R]. rewrite <- F, <- R. symmetry. apply sq_file_rank. Qed.

Lemma slide_att_kept P deltas : AttackProofs.unit_dirs deltas ->
  AttackProofs.slide_att b (opp_c c) P deltas t -> AttackProofs.slide_att b1 (opp_c c) P deltas t.
Proof.
  intros UD [i [dr [df [n (Bi & Hd & Hn & Ft & Rt & Path)]]]].
  exists i, dr, df, n. split; [apply enemy_kept, Bi|]. split; [exact Hd|]. split; [exact Hn|].
  split; [exact Ft|]. split; [exact Rt|].
  intros k Hk.
  pose proof (UD dr df Hd) as U. pose proof U as ((D1 & D2) & (D3 & D4) & D5).
  pose proof (bget_lt64 b i _ W Bi) as Li.
  assert (OBn : on_board (fileZ i + n * df) (rankZ i + n * dr) = true).
  { rewrite <- Ft, <- Rt. apply file_rank_bounds, Lt. }
  destruct (AttackProofs.between_on_board _ _ df dr n k U (file_rank_bounds i Li) OBn ltac:(lia)) as [OBk _].
  destruct (sq_on_board _ _ OBk) as (Lk & Fk & Rk).
  destruct Gf as [Ff Rf]. destruct Gt as (Rt' & Rrt & Files).
  assert (CD : (dr = -1 \/ dr = 0 \/ dr = 1)%Z) by lia.
  assert (CF : (df = -1 \/ df = 0 \/ df = 1)%Z) by lia.
  apply empty_kept; [apply Path, Hk | |].
  - intro E. rewrite E in Fk, Rk. rewrite Ft in Fk. rewrite Rt in Rk.
    destruct CD as [->|[->| ->]]; destruct CF as [->|[->| ->]]; lia.
  - intro E. rewrite E in Fk, Rk.
    (* the path square is the rook's destination: the ray runs along the home rank from
       beyond the king's home square *)
    destruct CD as [->|[->| ->]]; [lia | | lia].
    assert (Hstep : (n = k + 1)%Z /\ (fileZ i + (k - 1) * df = 4)%Z).
    { destruct CF as [->|[->| ->]]; destruct Files as [[F1 F2]|[F1 F2]]; lia. }
    destruct Hstep as [En E4].
    destruct (Z.eq_dec k 1) as [->|Nk].
    + assert (i = f) as ->.
      { apply PseudoProofs2.coords_eq; [exact Li | | lia | lia].
        apply (bget_lt64 b f _ W Kf). }
      rewrite Kf in Bi. injection Bi as Ep Ec. exact (opp_c_neq c (eq_sym Ec)).
    + assert (Hp : bget b (sq (fileZ i + (k - 1) * df) (rankZ i + (k - 1) * 0)) = None)
        by (apply Path; lia).
      replace (rankZ i + (k - 1) * 0)%Z with r in Hp by lia. rewrite E4, <- f_is_sq, Kf in Hp.
      discriminate.
Qed.

Theorem attacked_kept :
  attacked_by (abstract b) (opp_c c) (fileZ t) (rankZ t) = true ->
  attacked_by (abstract b1) (opp_c c) (fileZ t) (rankZ t) = true.
Proof.
  intro H. apply (AttackProofs.attacked_by_mem b (opp_c c) t W Lt) in H.
  apply (AttackProofs.attacked_by_mem b1 (opp_c c) t W1 Lt).
  destruct H as [H|[H|[H|H]]].
  - left. apply step_att_kept, H.
  - right. left. unfold AttackProofs.slider_att in *.
    destruct H as [H|[H|[H|H]]];
      [left | right; left | right; right; left | right; right; right];
      (apply slide_att_kept; [|exact H]);
      first [exact AttackProofs.unit_dirs_rook | exact AttackProofs.unit_dirs_bishop].
  - right. right. left. apply step_att_kept, H.
  - right. right. right. apply step_att_kept, H.
Qed.

End Transfer.

(* ------------------------------------------------------------------ *)
(** * the engine-level statement *)

Section Filter.
Variable T : ztable.
Variables rook_t bishop_t : N -> N -> N.
Hypothesis rook_t_ref : forall x o, x < 64 -> rook_t x o = rook_ref x o.
Hypothesis bishop_t_ref : forall x o, x < 64 -> bishop_t x o = bishop_ref x o.

Lemma castle_shape_of c :
  castle_shape (home_sq c) (ks_target c) = Ok (c, ks_rook_sq c, ks_transit c)
  /\ castle_shape (home_sq c) (qs_target c) = Ok (c, qs_rook_sq c, qs_transit c).
Proof. destruct c; vm_compute; split; reflexivity. Qed.

Theorem castle_into_attack_unsafe b c lc m : PInv b c ->
  castle_moves rook_t bishop_t b c = Ok lc -> In m lc ->
  attacked_by (abstract b) (opp_c c) (fileZ (mv_to m)) (rankZ (mv_to m)) = true ->
  GenFrame.leaves_king_safe T rook_t bishop_t b c m = false.
Proof.
  intros PI Hc Hin A. pose proof PI as (W & _).
  unfold GenFrame.leaves_king_safe.
  destruct (apply_move T m b) as [b1| |] eqn:Ap; try reflexivity.
  apply negb_false_iff.
  assert (exists t rf rt, m = Castle (home_sq c) t /\ t < 64
            /\ castle_shape (home_sq c) t = Ok (c, rf, rt)
            /\ rankZ t = rankZ (home_sq c) /\ rankZ rt = rankZ (home_sq c)
            /\ ((fileZ t = 6 /\ fileZ rt = 5) \/ (fileZ t = 2 /\ fileZ rt = 3))%Z) as X.
  { destruct (castle_shape_of c) as [S1 S2].
    destruct (castle_moves_shape rook_t bishop_t b c PI lc m Hc Hin) as [->| ->].
    - exists (ks_target c), (ks_rook_sq c), (ks_transit c). split; [reflexivity|].
      split; [destruct c; reflexivity|]. split; [exact S1|]. destruct c; vm_compute; tauto.
    - exists (qs_target c), (qs_rook_sq c), (qs_transit c). split; [reflexivity|].
      split; [destruct c; reflexivity|]. split; [exact S2|]. destruct c; vm_compute; tauto. }
  destruct X as [t [rf [rt (-> & Lt & Sh & Gt1 & Gt2 & Gt3)]]].
  cbn [apply_move mv_to] in *.
  destruct (SuccProofs1.apply_castle_obs T b (home_sq c) t b1 W Lt Ap)
    as [c0 [rf0 [rt0 (Sh0 & Kf & Et & Rrf & Ert & W1 & Hb1 & _)]]].
  rewrite Sh in Sh0. inversion Sh0; subst c0 rf0 rt0.
  assert (A1 : attacked_by (abstract b1) (opp_c c) (fileZ t) (rankZ t) = true).
  { apply (attacked_kept b b1 c (home_sq c) t rf rt (rankZ (home_sq c)) W W1 Hb1 Kf Et Rrf Ert Lt); [|tauto|exact A].
    split; [destruct c; reflexivity | reflexivity]. }
  assert (Kt : bget b1 t = Some (King, c)).
  { rewrite Hb1.
    assert (t <> rt /\ t <> rf) as [N1 N2].
    { split; intro E; subst; [rewrite Et in Ert || idtac | rewrite Et in Rrf; discriminate].
      destruct Gt3 as [[G1 G2]|[G1 G2]]; lia. }
    destruct (N.eqb_spec t rt); [contradiction|]. destruct (N.eqb_spec t rf); [contradiction|].
    rewrite N.eqb_refl. reflexivity. }
  apply overlaps_spec. exists t. split.
  - apply (bget_mem b1 t King c W1) in Kt. exact Kt.
  - rewrite (AttackProofs.attack_targets_spec rook_t bishop_t rook_t_ref bishop_t_ref b1 (opp_c c) t W1 Lt).
    + exact A1.
    + apply (WF_disjoint b1 t c W1). apply (bget_own_iff b1 t c W1). exists King. exact Kt.
Qed.

(* with PseudoProofs.pseudo_exact: what the filter keeps of the engine's pseudo-legal list are
   moves of the rules' pseudo-legal list *)
Corollary filter_pseudo_incl b c l m : PInv b c ->
  pseudo_moves rook_t bishop_t b c = Ok l ->
  In m (filter (GenFrame.leaves_king_safe T rook_t bishop_t b c) l) ->
  In m (pseudo_legal (abstract b) c).
Proof.
  intros PI H Hin. apply filter_In in Hin. destruct Hin as [Hin Safe].
  destruct (proj1 (proj2 (pseudo_exact rook_t bishop_t rook_t_ref bishop_t_ref b c PI l H) m) Hin)
    as [X|(_ & Hc & A)]; [exact X|].
  exfalso.
  destruct (pseudo_moves_inv rook_t bishop_t b c l H) as [lp [lc (Hp & Hcm & ->)]].
  assert (In m lc) as Hlc.
  { pose proof PI as (W & S & _ & EI & _).
    repeat (apply in_app_or in Hin; destruct Hin as [Hin|Hin]); [exfalso.. | exact Hin].
    - exact (cls_piece_castle_clash b c _ m (knights_cls b c PI m Hin) Hc).
    - exact (cls_piece_castle_clash b c _ m (sliders_cls rook_t bishop_t b c PI m Hin) Hc).
    - exact (cls_piece_castle_clash b c _ m (kings_cls b c PI m Hin) Hc).
    - exact (cls_pawn_castle_clash b c m (pawns_cls b c PI lp m Hp Hin) Hc). }
  rewrite (castle_into_attack_unsafe b c lc m PI Hcm Hlc A) in Safe. discriminate.
Qed.

End Filter.

(* non-vacuity: the position of PseudoProofs3 (black rook on g8 attacks g1) *)
Example PCS_filtered :
  let b := set_cr PP3_board [3 + 8] in
  castle_moves rook_ref bishop_ref b White = Ok [Castle 4 6; Castle 4 2]
  /\ GenFrame.leaves_king_safe example_table rook_ref bishop_ref b White (Castle 4 6) = false
  /\ GenFrame.leaves_king_safe example_table rook_ref bishop_ref b White (Castle 4 2) = true.
Proof. vm_compute. repeat split; reflexivity. Qed.

Print Assumptions castle_into_attack_unsafe.
Print Assumptions filter_pseudo_incl.
