(* Watch.v — src/game/game.rs make_waterfall_book_then_alpha_beta_move and the loop of
   src/game/computer_vs_computer.rs (the `chess watch` command; human_vs_computer lets the engine
   move the same way on its turns).  The random book index of each turn is an explicit input.
   Executable only; WatchProofs.v proves the statements. *)
From Coq Require Import NArith List.
From ChessV Require Export Game.
Import ListNotations.
Open Scope N_scope.

Section WithGen.
Variable T : ztable.
Variables rook_t bishop_t : N -> N -> N.

(* Game::make_waterfall_book_then_alpha_beta_move: select, apply to the game's board, record *)
Definition engine_move (g : game) (choice : nat) : gres (cmove * game) :=
  match engine_select T rook_t bishop_t g choice with
  | GOk m => game_apply T g (gboard g) m
  | GInvalidMove => GInvalidMove
  | GBoardError => GBoardError
  | GSearchError e => GSearchError e
  | GPanic => GPanic
  end.

(* how the loop ends *)
Inductive watch_end :=
  | WOver (e : ending)        (* "checkmate!" / "stalemate!" / "draw!" *)
  | WLimit                    (* the move limit *)
  | WError                    (* "error: ..." printed: the engine did not produce a move *)
  | WCrash                    (* a panic *)
  | WRunning.                 (* the list of random choices ran out first *)

(* computer_vs_computer(move_limit, _, depth) from the game [g]: at the top of the loop the verdict
   for the side to move, then the limit test (fullmove_clock() > move_limit when the limit is not 0),
   then one engine move and the turn is passed.  Returns the moves made, the states shown after
   each, and how it stopped. *)
Fixpoint watch_run (limit : N) (g : game) (choices : list nat) : list (cmove * game) * watch_end :=
  match game_ending T rook_t bishop_t (gboard g) (turn (gboard g)) with
  | Ok (Some e, _) => ([], WOver e)
  | Ok (None, _) =>
      if (0 <? limit) && (limit <? fullmove (gboard g)) then ([], WLimit)
      else
        match choices with
        | [] => ([], WRunning)
        | ch :: rest =>
            match engine_move g ch with
            | GOk (m, g1) =>
                let g2 := {| gboard := toggle_turn (gboard g1); ghist := ghist g1; gdepth := gdepth g1 |} in
                let (ms, w) := watch_run limit g2 rest in ((m, g2) :: ms, w)
            | GPanic => ([], WCrash)
            | _ => ([], WError)
            end
        end
  | _ => ([], WCrash)
  end.

End WithGen.
