(* SearchIx.v — SearchFrame.Total and SearchLink.Link re-proved for a DEPTH-INDEXED invariant.

   SearchFrame.v (Section Total) and SearchLink.v (Section Link) prove totality of the chess
   search and its equality with the generic alpha-beta / minimax under an invariant
   `Good : board -> Prop` that does not mention the remaining depth, with a depth bound D.
   The invariant of the real reachable states has to say "the half-move clock and the full-move
   counter are at least k plies away from their limits", which every ply consumes; it is
   therefore indexed by the number k of plies still to be searched:

       Good k b  :  b may be searched k more plies.

   Here the same theorems are proved for such an indexed invariant.  There is no depth bound D
   any more: Search.ab calls the static scorer only with remaining depth = the index
   (score b (turn b) 0 at d = 0 and score b (turn b) (N.of_nat (S d')) at a node without moves),
   so Good_score / score_range are needed at the index only.

     ab_total_ix, search_total_ix, search_never_panics_ix          (SearchFrame.Total)
     ab_link_ix, mm_link_ix, ab_full_window_chess_ix, ab_fail_soft_chess_ix, children_Good_ix,
     search_root_value_ix, search_score_is_minimax_ix, search_move_attains_ix,
     root_values_link_ix, search_in_root_values_ix                  (SearchLink.Link, cache-free part)

   Everything that does not depend on the invariant is re-used from SearchFrame.v / SearchLink.v.
   Proofs only. *)
From Coq Require Import Lia List ZArith Permutation Bool.
From ChessV Require Import BoardLemmas Game UndoProofs EpFrame GenFrame TurnFrame WfReflect SearchFrame SearchLink.
From ChessV Require AlphaBeta.
Import ListNotations.
Open Scope N_scope.
Open Scope list_scope.

#[local] Arguments N.add : simpl never.
#[local] Arguments N.sub : simpl never.
#[local] Arguments N.mul : simpl never.
#[local] Arguments N.eqb : simpl never.
#[local] Arguments N.ltb : simpl never.
#[local] Arguments N.leb : simpl never.
#[local] Arguments N.land : simpl never.
#[local] Arguments N.lor : simpl never.
#[local] Arguments N.lxor : simpl never.
#[local] Arguments N.of_nat : simpl never.
#[local] Arguments Z.max : simpl never.
#[local] Arguments Z.min : simpl never.
#[local] Arguments Z.leb : simpl never.
#[local] Arguments Z.ltb : simpl never.

Section Ix.
Variable T : ztable.
Variables rook_t bishop_t : N -> N -> N.

Notation gen_moves := (gen_moves T rook_t bishop_t).
Notation gen_annotated := (gen_annotated T rook_t bishop_t).
Notation score := (score T rook_t bishop_t).
Notation root_task := (root_task T rook_t bishop_t).
Notation root_scores := (root_scores T rook_t bishop_t).
Notation search := (search T rook_t bishop_t).
Notation kid := (kid T).
Notation kids := (kids T).
Notation children := (children T rook_t bishop_t).
Notation children_gen := (children_gen T rook_t bishop_t).
Notation leaf := (leaf T rook_t bishop_t).
Notation child_of := (child_of T).

Notation gab := (AlphaBeta.ab board children leaf I16_MIN I16_MAX).
Notation gmm := (AlphaBeta.mm board children leaf I16_MIN I16_MAX).
Notation gmm_gen := (AlphaBeta.mm board children_gen leaf I16_MIN I16_MAX).

(* `Good k b`: position b may be searched k more plies.
   (1) it implies the two position invariants, (2) with at least one ply left the generator
   answers, (3) playing a generated legal move and passing the turn uses up one ply,
   (4) the static scorer answers for remaining depth k, (5) strictly inside (i16::MIN, i16::MAX). *)
Variable Good : nat -> board -> Prop.
Hypothesis Good_inv : forall k b, Good k b -> WF b /\ ep_wf b (turn b).
Hypothesis Good_gen : forall k b, Good (S k) b -> exists l b', gen_annotated b (turn b) = Ok (l, b').
Hypothesis Good_step : forall k b ms m b1,
  Good (S k) b -> gen_moves b (turn b) = Ok (ms, b) -> In m ms -> apply_move T m b = Ok b1 ->
  Good k (toggle_turn b1).
Hypothesis Good_score : forall k b, Good k b -> exists v b', score b (turn b) (N.of_nat k) = Ok (v, b').
Hypothesis score_range : forall k b v b',
  Good k b -> score b (turn b) (N.of_nat k) = Ok (v, b') -> (I16_MIN < v < I16_MAX)%Z.

(* move m can be made in b and leads to a position that may be searched k more plies *)
Definition step_ok_ix (k : nat) (b : board) (m : cmove) : Prop :=
  sq_ok m /\ ep_ok m b = true /\ exists b1, apply_move T m b = Ok b1 /\ Good k (toggle_turn b1).

(* ------------------------------------------------------------------ *)
(** * totality (SearchFrame.Total, indexed) *)

Lemma lp_max_total_ix k rec bound :
  (forall b al be mx, Good k b -> exists v, rec b al be mx = Ok (v, b)) ->
  forall ms b value al, WF b -> Forall (fun me => step_ok_ix k b (fst me)) ms ->
    exists v, lp_max T rec bound ms b value al = Ok (v, b).
Proof.
  intros Hrec. induction ms as [|me rest IH]; intros b value al HW HF.
  - exists value. reflexivity.
  - inversion HF as [|? ? [HSm [HPm [b2 [Ha HG2]]]] HFrest]; subst.
    cbn [lp_max]. rewrite Ha. cbn [unwrap bind].
    destruct (Hrec (toggle_turn b2) al bound false HG2) as [v1 Hr]. rewrite Hr. cbn [bind].
    cbv beta iota zeta.
    rewrite (undo_after_toggle T _ _ _ HW HSm HPm Ha). cbn [unwrap bind].
    rewrite toggle_turn_involutive.
    destruct (_ <=? _)%Z; [eexists; reflexivity|]. exact (IH b _ _ HW HFrest).
Qed.

Lemma lp_min_total_ix k rec bound :
  (forall b al be mx, Good k b -> exists v, rec b al be mx = Ok (v, b)) ->
  forall ms b value be, WF b -> Forall (fun me => step_ok_ix k b (fst me)) ms ->
    exists v, lp_min T rec bound ms b value be = Ok (v, b).
Proof.
  intros Hrec. induction ms as [|me rest IH]; intros b value be HW HF.
  - exists value. reflexivity.
  - inversion HF as [|? ? [HSm [HPm [b2 [Ha HG2]]]] HFrest]; subst.
    cbn [lp_min]. rewrite Ha. cbn [unwrap bind].
    destruct (Hrec (toggle_turn b2) bound be true HG2) as [v1 Hr]. rewrite Hr. cbn [bind].
    cbv beta iota zeta.
    rewrite (undo_after_toggle T _ _ _ HW HSm HPm Ha). cbn [unwrap bind].
    rewrite toggle_turn_involutive.
    destruct (_ <=? _)%Z; [eexists; reflexivity|]. exact (IH b _ _ HW HFrest).
Qed.

(* every generated legal move can be made, and leads to a position with one ply less to go *)
Lemma legal_steps_ix k b l b' :
  Good (S k) b -> gen_annotated b (turn b) = Ok (l, b') ->
  b' = b /\ forall m, In m (map fst l) -> step_ok_ix k b m.
Proof.
  intros HG Hg. destruct (Good_inv _ b HG) as [HW HEp].
  destruct (gen_annotated_board T rook_t bishop_t _ _ _ _ HW HEp Hg) as [Eb Hgm].
  destruct (gen_annotated_cand_ok T rook_t bishop_t _ _ _ _ HW HEp Hg) as [HS HA].
  split; [exact Eb|]. intros m Hin.
  rewrite Forall_forall in HS, HA. destruct (HS m Hin) as (HSq & HPq & _).
  split; [exact HSq|]. split; [exact HPq|].
  destruct (HA m Hin) as [b1 Ha]. exists b1. split; [exact Ha|].
  exact (Good_step k b _ m b1 HG Hgm Hin Ha).
Qed.

Lemma score_total_ix k b : Good k b -> exists v, score b (turn b) (N.of_nat k) = Ok (v, b).
Proof.
  intro HG. destruct (Good_inv _ b HG) as [HW HEp].
  destruct (Good_score k b HG) as [v [b' Hs]]. exists v.
  rewrite Hs. rewrite (score_board T rook_t bishop_t _ _ _ _ _ HW HEp Hs). reflexivity.
Qed.

(* alpha_beta_minimax answers (never Panic, never Err) on a position that may be searched d
   more plies, and hands the position back *)
Theorem ab_total_ix : forall d b alpha beta mx,
  Good d b -> exists v, Search.ab T rook_t bishop_t d b alpha beta mx = Ok (v, b).
Proof.
  induction d as [|d' IH]; intros b alpha beta mx HG; destruct (Good_inv _ b HG) as [HW HEp].
  - rewrite ab_0. exact (score_total_ix 0 b HG).
  - rewrite ab_S. destruct (Good_gen d' b HG) as [l [b' Hg]].
    destruct (legal_steps_ix d' b l b' HG Hg) as [Eb Hsteps]. subst b'.
    rewrite Hg. cbn [bind]. cbv beta iota zeta.
    destruct (is_nil _).
    + exact (score_total_ix (S d') b HG).
    + assert (HF : Forall (fun me => step_ok_ix d' b (fst me)) (sort_moves b l)).
      { apply Forall_forall. intros me Hin. apply Hsteps. apply in_map.
        exact (Permutation_in _ (sort_moves_perm b l) Hin). }
      destruct mx.
      * exact (lp_max_total_ix d' (Search.ab T rook_t bishop_t d') beta
                 (fun b0 al be mx0 HG0 => IH b0 al be mx0 HG0) _ b _ _ HW HF).
      * exact (lp_min_total_ix d' (Search.ab T rook_t bishop_t d') alpha
                 (fun b0 al be mx0 HG0 => IH b0 al be mx0 HG0) _ b _ _ HW HF).
Qed.

Theorem root_task_total_ix : forall k b l b' m,
  Good (S k) b -> gen_annotated b (turn b) = Ok (l, b') -> In m (map fst l) ->
  exists v, root_task (S k) b m = Ok v.
Proof.
  intros k b l b' m HG Hg Hin.
  destruct (legal_steps_ix k b l b' HG Hg) as [_ Hsteps].
  destruct (Hsteps m Hin) as [_ [_ [b1 [Ha HG1]]]].
  rewrite root_task_unfold, Ha. cbn [unwrap bind Nat.pred].
  destruct (ab_total_ix k (toggle_turn b1) I16_MIN I16_MAX (negb (maximize (turn b))) HG1) as [v Hv].
  rewrite Hv. cbn [bind]. exists v. reflexivity.
Qed.

(* C07 on positions that may be searched `depth` plies: at depth >= 1 the search answers SOk
   with a legal move and the caller's board when there is a legal move, and NoAvailableMoves
   when there is none; SPanic is impossible *)
Theorem search_total_ix : forall depth b,
  1 <= depth -> Good (N.to_nat depth) b ->
  (exists v m (cands : list (cmove * effect)), search depth b = SOk (v, m, b)
       /\ gen_moves b (turn b) = Ok (map fst cands, b) /\ In m (map fst cands))
  \/ (search depth b = SErr NoAvailableMoves /\ gen_moves b (turn b) = Ok ([], b)).
Proof.
  intros depth b HL HG. destruct (Good_inv _ b HG) as [HW HEp].
  assert (Ed : N.to_nat depth = S (Nat.pred (N.to_nat depth))) by lia.
  rewrite Ed in HG.
  destruct (Good_gen _ b HG) as [l [b' Hg]].
  destruct (legal_steps_ix _ b l b' HG Hg) as [Eb _]. subst b'.
  destruct l as [|me0 l0] eqn:El.
  - right. split; [exact (search_no_moves T rook_t bishop_t depth b b Hg HL)|].
    exact (proj2 (gen_annotated_board T rook_t bishop_t _ _ _ _ HW HEp Hg)).
  - left. rewrite <- El in Hg.
    destruct (search_total_tasks T rook_t bishop_t depth b l b HL Hg) as [v [m Hs]].
    { rewrite El. discriminate. }
    { intros me Hin. rewrite Ed.
      apply (root_task_total_ix _ b l b (fst me)); [exact HG|exact Hg|].
      apply in_map. exact Hin. }
    destruct (search_legal T rook_t bishop_t depth b v m b HW HEp Hs) as [_ [_ [cands [Hg' [Hin Hgm]]]]].
    exists v, m, cands. split; [exact Hs|]. split; [exact Hgm|exact Hin].
Qed.

Theorem search_never_panics_ix : forall depth b, Good (N.to_nat depth) b -> search depth b <> SPanic.
Proof.
  intros depth b HG. destruct (N.ltb_spec depth 1) as [HL|HL].
  - rewrite (search_depth0 T rook_t bishop_t depth b HL). discriminate.
  - destruct (search_total_ix depth b HL HG) as [[v [m [cands [HE _]]]]|[HE _]]; rewrite HE; discriminate.
Qed.

(* ------------------------------------------------------------------ *)
(** * the link with the generic alpha-beta (SearchLink.Link, indexed) *)

Lemma leaf_good_ix b d v b' :
  Good d b -> score b (turn b) (N.of_nat d) = Ok (v, b') -> leaf b d = v /\ b' = b.
Proof.
  intros HG Hs. destruct (Good_inv _ b HG) as [HW HEp]. split.
  - unfold SearchLink.leaf. rewrite Hs. apply clamp_id. exact (score_range d b v b' HG Hs).
  - exact (score_board T rook_t bishop_t _ _ _ _ _ HW HEp Hs).
Qed.

(* the static score of a position, as the engine computes it, is the generic leaf value *)
Lemma score_leaf_ix b d :
  Good d b -> score b (turn b) (N.of_nat d) = Ok (leaf b d, b).
Proof.
  intros HG. destruct (Good_score d b HG) as [v [b' Hs]].
  destruct (leaf_good_ix b d v b' HG Hs) as [Hl Hb]. rewrite Hs, Hl, Hb. reflexivity.
Qed.

Lemma kid_step_ix k b m : step_ok_ix k b m ->
  exists b1, apply_move T m b = Ok b1 /\ Good k (toggle_turn b1) /\ kid b m = [toggle_turn b1].
Proof.
  intros (_ & _ & b1 & Ha & HG1). exists b1. split; [exact Ha|]. split; [exact HG1|].
  unfold SearchLink.kid. rewrite Ha. reflexivity.
Qed.

(* the generated list of a position with a ply to go: board handed back, every move is a good step *)
Lemma good_gen_ix k b : Good (S k) b ->
  exists l, gen_annotated b (turn b) = Ok (l, b) /\ gen_moves b (turn b) = Ok (map fst l, b)
            /\ forall m, In m (map fst l) -> step_ok_ix k b m.
Proof.
  intro HG. destruct (Good_gen k b HG) as [l [b' Hg]]. destruct (Good_inv _ b HG) as [HW HEp].
  destruct (legal_steps_ix k b l b' HG Hg) as [Hb Hst]. subst b'.
  exists l. split; [exact Hg|]. split; [|exact Hst].
  exact (proj2 (gen_annotated_board T rook_t bishop_t _ _ _ _ HW HEp Hg)).
Qed.

Lemma children_good_ix b l : gen_annotated b (turn b) = Ok (l, b) ->
  children b = kids b (map fst (sort_moves b l)) /\ children_gen b = kids b (map fst l).
Proof. intros Hg. unfold SearchLink.children, SearchLink.children_gen. rewrite Hg. split; reflexivity. Qed.

Lemma kids_nil_iff_ix k b ms : (forall m, In m ms -> step_ok_ix k b m) -> (kids b ms = [] <-> ms = []).
Proof.
  intro Hst. split.
  - destruct ms as [|m rest]; [reflexivity|]. intro HK. exfalso.
    destruct (kid_step_ix k b m (Hst m (or_introl eq_refl))) as [b1 [_ [_ Hk]]].
    unfold SearchLink.kids in HK. cbn [flat_map] in HK. rewrite Hk in HK. discriminate HK.
  - intros ->. reflexivity.
Qed.

Lemma kids_good_ix k b ms c : (forall m, In m ms -> step_ok_ix k b m) -> In c (kids b ms) -> Good k c.
Proof.
  intros Hst Hin. unfold SearchLink.kids in Hin. apply in_flat_map in Hin. destruct Hin as [m [Hm Hc]].
  destruct (kid_step_ix k b m (Hst m Hm)) as [b1 [_ [HG1 Hk]]]. rewrite Hk in Hc.
  destruct Hc as [<-|[]]. exact HG1.
Qed.

(* every child of a position that may be searched S k plies may be searched k plies *)
Lemma children_Good_ix k b c : Good (S k) b -> In c (children b) -> Good k c.
Proof.
  intros HG Hin. destruct (good_gen_ix k b HG) as [l [Hg [_ Hst]]].
  rewrite (proj1 (children_good_ix b l Hg)) in Hin.
  apply (kids_good_ix k b (map fst (sort_moves b l))); [|exact Hin].
  intros m Hm. apply Hst.
  exact (Permutation_in _ (Permutation_map fst (sort_moves_perm b l)) Hm).
Qed.

Lemma children_Forall_Good_ix k b : Good (S k) b -> Forall (Good k) (children b).
Proof. intro HG. apply Forall_forall. intros c Hc. exact (children_Good_ix k b c HG Hc). Qed.

(* the engine's maximising loop (make, recurse, unmake; board threaded) over a list of good
   steps computes the generic loop over the child positions and hands the board back *)
Lemma lp_max_link_ix k (rec : board -> Z -> Z -> bool -> res (Z * board)) (g : board -> Z -> Z -> Z) bound :
  (forall c al be, Good k c -> rec c al be false = Ok (g c al be, c)) ->
  forall ms b value al, WF b -> Forall (fun me => step_ok_ix k b (fst me)) ms ->
    lp_max T rec bound ms b value al
    = Ok (AlphaBeta.loop_max board g (kids b (map fst ms)) value al bound, b).
Proof.
  intros Hrec. induction ms as [|me rest IH]; intros b value al HW HF.
  - reflexivity.
  - inversion HF as [|? ? Hme HFrest]; subst.
    pose proof Hme as (HSq & HPq & _).
    destruct (kid_step_ix k b (fst me) Hme) as [b2 [Ha [HG2 Hk]]].
    cbn [lp_max map]. unfold SearchLink.kids. cbn [flat_map]. rewrite Hk. cbn [app].
    rewrite Ha. cbn [unwrap bind].
    rewrite (Hrec (toggle_turn b2) al bound HG2). cbn [bind]. cbv beta iota zeta.
    rewrite (undo_after_toggle T _ _ _ HW HSq HPq Ha). cbn [unwrap bind].
    rewrite toggle_turn_involutive.
    cbn [AlphaBeta.loop_max]. cbv zeta.
    destruct (_ <=? _)%Z; [reflexivity|]. exact (IH b _ _ HW HFrest).
Qed.

Lemma lp_min_link_ix k (rec : board -> Z -> Z -> bool -> res (Z * board)) (g : board -> Z -> Z -> Z) bound :
  (forall c al be, Good k c -> rec c al be true = Ok (g c al be, c)) ->
  forall ms b value be, WF b -> Forall (fun me => step_ok_ix k b (fst me)) ms ->
    lp_min T rec bound ms b value be
    = Ok (AlphaBeta.loop_min board g (kids b (map fst ms)) value bound be, b).
Proof.
  intros Hrec. induction ms as [|me rest IH]; intros b value be HW HF.
  - reflexivity.
  - inversion HF as [|? ? Hme HFrest]; subst.
    pose proof Hme as (HSq & HPq & _).
    destruct (kid_step_ix k b (fst me) Hme) as [b2 [Ha [HG2 Hk]]].
    cbn [lp_min map]. unfold SearchLink.kids. cbn [flat_map]. rewrite Hk. cbn [app].
    rewrite Ha. cbn [unwrap bind].
    rewrite (Hrec (toggle_turn b2) bound be HG2). cbn [bind]. cbv beta iota zeta.
    rewrite (undo_after_toggle T _ _ _ HW HSq HPq Ha). cbn [unwrap bind].
    rewrite toggle_turn_involutive.
    cbn [AlphaBeta.loop_min]. cbv zeta.
    destruct (_ <=? _)%Z; [reflexivity|]. exact (IH b _ _ HW HFrest).
Qed.

(* C08 core, indexed: on a position that may be searched d plies, for every window and either
   side, the board-threading alpha_beta_minimax of the engine returns exactly the value of the
   generic alpha-beta over (children, leaf), and hands back the caller's board *)
Theorem ab_link_ix : forall d b alpha beta mx,
  Good d b ->
  Search.ab T rook_t bishop_t d b alpha beta mx = Ok (gab d mx b alpha beta, b).
Proof.
  induction d as [|d' IH]; intros b alpha beta mx HG.
  - rewrite ab_0. cbn [AlphaBeta.ab]. exact (score_leaf_ix b 0 HG).
  - rewrite ab_S. destruct (Good_inv _ b HG) as [HW HEp].
    destruct (good_gen_ix d' b HG) as [l [Hg [_ Hst]]].
    rewrite Hg. cbn [bind]. cbv beta iota zeta.
    assert (HF : Forall (fun me => step_ok_ix d' b (fst me)) (sort_moves b l)).
    { apply Forall_forall. intros me Hin. apply Hst. apply in_map.
      exact (Permutation_in _ (sort_moves_perm b l) Hin). }
    cbn [AlphaBeta.ab]. rewrite (proj1 (children_good_ix b l Hg)).
    destruct (sort_moves b l) as [|me rest] eqn:Es.
    + cbn [is_nil map]. unfold SearchLink.kids. cbn [flat_map]. exact (score_leaf_ix b (S d') HG).
    + cbn [is_nil].
      destruct (kids b (map fst (me :: rest))) as [|c cs] eqn:Ek.
      { exfalso. apply (kids_nil_iff_ix d' b (map fst (me :: rest))) in Ek; [discriminate Ek|].
        intros m Hm. apply in_map_iff in Hm. destruct Hm as [me' [<- Hin]].
        rewrite Forall_forall in HF. exact (HF me' Hin). }
      rewrite <- Ek. destruct mx.
      * apply (lp_max_link_ix d' (Search.ab T rook_t bishop_t d') (gab d' false) beta); [|exact HW|exact HF].
        intros c0 al be HG0. exact (IH c0 al be false HG0).
      * apply (lp_min_link_ix d' (Search.ab T rook_t bishop_t d') (gab d' true) alpha); [|exact HW|exact HF].
        intros c0 al be HG0. exact (IH c0 al be true HG0).
Qed.

(* ------------------------------------------------------------------ *)
(** * the oracle Search.mm = the generic minimax *)

Lemma mm_fold_link_ix k (rec : board -> bool -> res Z) (g : board -> Z) (mx : bool) :
  (forall c, Good k c -> rec c (negb mx) = Ok (g c)) ->
  forall ms b a0, (forall m, In m ms -> step_ok_ix k b m) ->
    fold_left (fun acc m =>
        let* a := acc in
        let* b2 := unwrap (apply_move T m b) in
        let* v := rec (toggle_turn b2) (negb mx) in
        Ok (if mx then Z.max a v else Z.min a v)) ms (Ok a0)
    = Ok (fold_left (fun v c => if mx then Z.max v (g c) else Z.min v (g c)) (kids b ms) a0).
Proof.
  intros Hrec. induction ms as [|m rest IH]; intros b a0 Hst.
  - reflexivity.
  - destruct (kid_step_ix k b m (Hst m (or_introl eq_refl))) as [b2 [Ha [HG2 Hk]]].
    cbn [fold_left]. unfold SearchLink.kids. cbn [flat_map]. rewrite Hk. cbn [app fold_left].
    cbn [bind]. rewrite Ha. cbn [unwrap bind]. rewrite (Hrec _ HG2). cbn [bind].
    apply IH. intros m' Hm'. apply Hst. right. exact Hm'.
Qed.

Lemma mm_link_gen_ix : forall d b mx,
  Good d b -> Search.mm T rook_t bishop_t d b mx = Ok (gmm_gen d mx b).
Proof.
  induction d as [|d' IH]; intros b mx HG.
  - rewrite mm_0. cbn [AlphaBeta.mm]. pose proof (score_leaf_ix b 0 HG) as Hs0.
    change (N.of_nat 0) with 0 in Hs0. rewrite Hs0. reflexivity.
  - rewrite mm_S. destruct (good_gen_ix d' b HG) as [l [Hg [Hgm Hst]]].
    rewrite Hgm. cbn [bind]. cbv beta iota zeta.
    cbn [AlphaBeta.mm]. rewrite (proj2 (children_good_ix b l Hg)).
    destruct (map fst l) as [|m rest] eqn:Es.
    + cbn [is_nil]. unfold SearchLink.kids. cbn [flat_map]. rewrite (score_leaf_ix b (S d') HG). reflexivity.
    + cbn [is_nil].
      destruct (kids b (m :: rest)) as [|c cs] eqn:Ek.
      { exfalso. apply (kids_nil_iff_ix d' b (m :: rest)) in Ek; [discriminate Ek|exact Hst]. }
      rewrite <- Ek. destruct mx.
      * exact (mm_fold_link_ix d' (Search.mm T rook_t bishop_t d') (gmm_gen d' false) true
                 (fun c0 HG0 => IH c0 false HG0) (m :: rest) b I16_MIN Hst).
      * exact (mm_fold_link_ix d' (Search.mm T rook_t bishop_t d') (gmm_gen d' true) false
                 (fun c0 HG0 => IH c0 true HG0) (m :: rest) b I16_MAX Hst).
Qed.

(* the oracle of Search.v (plain minimax over the legal moves in generation order, no window,
   no pruning, no sorting) computes the generic minimax value over (children, leaf) *)
Theorem mm_link_ix : forall d b mx,
  Good d b -> Search.mm T rook_t bishop_t d b mx = Ok (gmm d mx b).
Proof.
  intros d b mx HG. rewrite (gmm_order T rook_t bishop_t). exact (mm_link_gen_ix d b mx HG).
Qed.

(* pruning changes speed only: with the full window alpha_beta_minimax returns the oracle's value *)
Theorem ab_full_window_chess_ix : forall d b mx,
  Good d b ->
  exists v, Search.ab T rook_t bishop_t d b I16_MIN I16_MAX mx = Ok (v, b)
            /\ Search.mm T rook_t bishop_t d b mx = Ok v.
Proof.
  intros d b mx HG. exists (gmm d mx b). split.
  - rewrite (ab_link_ix d b I16_MIN I16_MAX mx HG).
    rewrite (AlphaBeta.ab_full_window board children leaf I16_MIN I16_MAX (leaf_range T rook_t bishop_t)).
    reflexivity.
  - exact (mm_link_ix d b mx HG).
Qed.

(* ... and with ANY window the result obeys the fail-soft contract w.r.t. the oracle's value *)
Theorem ab_fail_soft_chess_ix : forall d b alpha beta mx,
  Good d b -> (alpha < beta)%Z ->
  exists v w, Search.ab T rook_t bishop_t d b alpha beta mx = Ok (v, b)
              /\ Search.mm T rook_t bishop_t d b mx = Ok w
              /\ AlphaBeta.fs v w alpha beta.
Proof.
  intros d b alpha beta mx HG Hab.
  exists (gab d mx b alpha beta), (gmm d mx b). split; [exact (ab_link_ix d b alpha beta mx HG)|].
  split; [exact (mm_link_ix d b mx HG)|].
  exact (AlphaBeta.ab_fs board children leaf I16_MIN I16_MAX d mx b alpha beta Hab).
Qed.

(* ------------------------------------------------------------------ *)
(** * the root *)

Lemma root_task_link_ix k b m :
  step_ok_ix k b m ->
  exists b2, apply_move T m b = Ok b2 /\ Good k (toggle_turn b2) /\ kid b m = [toggle_turn b2] /\
    root_task (S k) b m = Ok (gmm k (negb (maximize (turn b))) (toggle_turn b2)).
Proof.
  intros Hst. destruct (kid_step_ix k b m Hst) as [b2 [Ha [HG2 Hk]]].
  exists b2. split; [exact Ha|]. split; [exact HG2|]. split; [exact Hk|].
  rewrite root_task_unfold, Ha. cbn [unwrap bind Nat.pred].
  rewrite (ab_link_ix _ _ I16_MIN I16_MAX (negb (maximize (turn b))) HG2). cbn [bind].
  rewrite (AlphaBeta.ab_full_window board children leaf I16_MIN I16_MAX (leaf_range T rook_t bishop_t)).
  reflexivity.
Qed.

(* everything about the answer of `search`, in terms of the generic minimax *)
Lemma search_root_value_ix : forall depth b v m b1,
  1 <= depth -> Good (N.to_nat depth) b -> search depth b = SOk (v, m, b1) ->
  b1 = b /\ v = gmm (N.to_nat depth) (maximize (turn b)) b /\
  exists b2, apply_move T m b = Ok b2 /\ Good (Nat.pred (N.to_nat depth)) (toggle_turn b2) /\
    v = gmm (Nat.pred (N.to_nat depth)) (negb (maximize (turn b))) (toggle_turn b2).
Proof.
  intros depth b v m b1 HL HG Hs.
  destruct (search_value_in_root_scores T rook_t bishop_t depth b v m b1 Hs)
    as [cands [scored [Hg0 [Hrs [Hin [_ Hbest]]]]]].
  set (pd := Nat.pred (N.to_nat depth)) in *.
  assert (Ed : N.to_nat depth = S pd) by (unfold pd; lia).
  rewrite Ed in HG, Hrs. rewrite Ed.
  destruct (good_gen_ix pd b HG) as [l [Hg [_ Hst]]].
  rewrite Hg in Hg0. apply SL_Ok_inj in Hg0.
  assert (El : cands = l) by (symmetry; exact (f_equal fst Hg0)).
  assert (Eb : b1 = b) by (symmetry; exact (f_equal snd Hg0)).
  clear Hg0. subst cands b1.
  destruct (root_scores_spec T rook_t bishop_t _ _ _ _ Hrs) as [Hmap Hall].
  set (mx := maximize (turn b)) in *.
  assert (Ech : children b = kids b (map fst (sort_moves b l))) by exact (proj1 (children_good_ix b l Hg)).
  (* every scored pair is the minimax value of one child *)
  assert (HA : forall v' m', In (v', m') scored ->
            exists b2, apply_move T m' b = Ok b2 /\ Good pd (toggle_turn b2) /\
                       In (toggle_turn b2) (children b) /\ v' = gmm pd (negb mx) (toggle_turn b2)).
  { intros v' m' Hin'.
    assert (Hm' : In m' (map fst (sort_moves b l))).
    { rewrite <- Hmap. apply in_map_iff. exists (v', m'). split; [reflexivity|exact Hin']. }
    assert (Hs' : step_ok_ix pd b m').
    { apply Hst. exact (Permutation_in _ (Permutation_map fst (sort_moves_perm b l)) Hm'). }
    destruct (root_task_link_ix pd b m' Hs') as [b2 [Ha [HG2 [Hk Hrt]]]].
    exists b2. split; [exact Ha|]. split; [exact HG2|]. split.
    - rewrite Ech. unfold SearchLink.kids. apply in_flat_map. exists m'. split; [exact Hm'|].
      rewrite Hk. left. reflexivity.
    - pose proof (Hall v' m' Hin') as Hrt'. rewrite Hrt in Hrt'. apply SL_Ok_inj in Hrt'.
      symmetry. exact Hrt'. }
  (* every child's minimax value is one of the scored values *)
  assert (HB : forall c, In c (children b) -> exists v' m', In (v', m') scored /\ v' = gmm pd (negb mx) c).
  { intros c Hc. rewrite Ech in Hc. unfold SearchLink.kids in Hc. apply in_flat_map in Hc.
    destruct Hc as [m' [Hm' Hc]]. rewrite <- Hmap in Hm'.
    destruct (in_map_snd_inv scored m' Hm') as [v' Hin'].
    exists v', m'. split; [exact Hin'|].
    destruct (HA v' m' Hin') as [b2 [Ha [_ [_ Hv']]]].
    unfold SearchLink.kid in Hc. rewrite Ha in Hc. destruct Hc as [<-|[]]. exact Hv'. }
  destruct (HA v m Hin) as [b2 [Ha [HG2 [Hc2 Hv]]]].
  split; [reflexivity|]. split; [|exists b2; split; [exact Ha|]; split; [exact HG2|exact Hv]].
  assert (Hne : children b <> []) by (intro HE; rewrite HE in Hc2; exact Hc2).
  pose proof (AlphaBeta.ab_full_window board children leaf I16_MIN I16_MAX (leaf_range T rook_t bishop_t)) as Hfw.
  destruct mx eqn:Emx; cbn [negb] in *.
  - destruct (AlphaBeta.root_best_max board children leaf I16_MIN I16_MAX (leaf_range T rook_t bishop_t) pd b
                (children b) eq_refl Hne) as [Hmem Hub]. cbv zeta in Hmem, Hub.
    assert (Hle : (v <= gmm (S pd) true b)%Z).
    { apply Hub. apply in_map_iff. exists (toggle_turn b2). split; [|exact Hc2].
      rewrite Hfw. symmetry. exact Hv. }
    apply in_map_iff in Hmem. destruct Hmem as [c [HEc Hc]]. rewrite Hfw in HEc.
    destruct (HB c Hc) as [v' [m' [Hin' Hv']]].
    pose proof (Hbest v' m' Hin') as Hb'. cbv beta iota in Hb'. lia.
  - destruct (AlphaBeta.root_best_min board children leaf I16_MIN I16_MAX (leaf_range T rook_t bishop_t) pd b
                (children b) eq_refl Hne) as [Hmem Hlb]. cbv zeta in Hmem, Hlb.
    assert (Hge : (gmm (S pd) false b <= v)%Z).
    { apply Hlb. apply in_map_iff. exists (toggle_turn b2). split; [|exact Hc2].
      rewrite Hfw. symmetry. exact Hv. }
    apply in_map_iff in Hmem. destruct Hmem as [c [HEc Hc]]. rewrite Hfw in HEc.
    destruct (HB c Hc) as [v' [m' [Hin' Hv']]].
    pose proof (Hbest v' m' Hin') as Hb'. cbv beta iota in Hb'. lia.
Qed.

(* C08, first clause: the score reported by a depth-N search is the exact depth-N minimax value
   of the position, as computed by the oracle Search.mm for the side to move *)
Theorem search_score_is_minimax_ix : forall depth b v m b1,
  1 <= depth -> Good (N.to_nat depth) b -> search depth b = SOk (v, m, b1) ->
  Search.mm T rook_t bishop_t (N.to_nat depth) b (maximize (turn b)) = Ok v.
Proof.
  intros depth b v m b1 HL HG Hs.
  destruct (search_root_value_ix depth b v m b1 HL HG Hs) as [_ [Hv _]].
  rewrite Hv. apply mm_link_ix. exact HG.
Qed.

(* C08, second clause: the returned move attains that value *)
Theorem search_move_attains_ix : forall depth b v m b1,
  1 <= depth -> Good (N.to_nat depth) b -> search depth b = SOk (v, m, b1) ->
  exists b2, apply_move T m b = Ok b2 /\
    Search.mm T rook_t bishop_t (Nat.pred (N.to_nat depth)) (toggle_turn b2)
              (negb (maximize (turn b))) = Ok v.
Proof.
  intros depth b v m b1 HL HG Hs.
  destruct (search_root_value_ix depth b v m b1 HL HG Hs) as [_ [_ [b2 [Ha [HG2 Hv]]]]].
  exists b2. split; [exact Ha|]. rewrite Hv. apply mm_link_ix. exact HG2.
Qed.

(* ------------------------------------------------------------------ *)
(** * the oracle's table of root moves (Search.root_values) *)

Lemma root_values_fold_ix pd mx b :
  forall ms, (forall m, In m ms -> step_ok_ix pd b m) ->
  fold_right (fun m acc =>
      let* r := acc in
      let* b2 := unwrap (apply_move T m b) in
      let* v := Search.mm T rook_t bishop_t pd (toggle_turn b2) mx in
      Ok ((m, v) :: r)) (Ok []) ms
  = Ok (map (fun m => (m, gmm pd mx (child_of b m))) ms).
Proof.
  induction ms as [|m rest IH]; intro Hst.
  - reflexivity.
  - cbn [fold_right map]. rewrite (IH (fun m' Hm' => Hst m' (or_intror Hm'))). cbn [bind].
    destruct (kid_step_ix pd b m (Hst m (or_introl eq_refl))) as [b2 [Ha [HG2 _]]].
    unfold SearchLink.child_of. rewrite Ha. cbn [unwrap bind]. rewrite (mm_link_ix pd _ mx HG2). reflexivity.
Qed.

(* the oracle's table lists, for every legal move, the minimax value of the position after it *)
Theorem root_values_link_ix : forall k b l,
  Good (S k) b -> gen_annotated b (turn b) = Ok (l, b) ->
  Search.root_values T rook_t bishop_t (S k) b
  = Ok (map (fun m => (m, gmm k (negb (maximize (turn b))) (child_of b m))) (map fst l)).
Proof.
  intros k b l HG Hg. destruct (Good_inv _ b HG) as [HW HEp].
  rewrite root_values_unfold.
  rewrite (proj2 (gen_annotated_board T rook_t bishop_t _ _ _ _ HW HEp Hg)). cbn [bind Nat.pred]. cbv beta iota.
  apply root_values_fold_ix. exact (proj2 (legal_steps_ix k b l b HG Hg)).
Qed.

(* C08, second clause against the oracle's table: the pair (returned move, reported score) is a
   row of Search.root_values, and no row is better for the side to move *)
Theorem search_in_root_values_ix : forall depth b v m b1,
  1 <= depth -> Good (N.to_nat depth) b -> search depth b = SOk (v, m, b1) ->
  exists rv, Search.root_values T rook_t bishop_t (N.to_nat depth) b = Ok rv /\ In (m, v) rv /\
    forall m' v', In (m', v') rv -> if maximize (turn b) then (v' <= v)%Z else (v <= v')%Z.
Proof.
  intros depth b v m b1 HL HG Hs.
  destruct (Good_inv _ b HG) as [HW HEp].
  destruct (search_root_value_ix depth b v m b1 HL HG Hs) as [_ [Hv [b2 [Ha [HG2 Hv2]]]]].
  destruct (search_legal T rook_t bishop_t depth b v m b1 HW HEp Hs) as [_ [_ [l [Hg [Hin _]]]]].
  set (pd := Nat.pred (N.to_nat depth)) in *.
  assert (Ed : N.to_nat depth = S pd) by (unfold pd; lia).
  rewrite Ed in HG, Hv. rewrite Ed.
  eexists. split; [exact (root_values_link_ix pd b l HG Hg)|]. split.
  - apply in_map_iff. exists m. split; [|exact Hin]. unfold SearchLink.child_of. rewrite Ha, Hv2. reflexivity.
  - intros m' v' Hin'. apply in_map_iff in Hin'. destruct Hin' as [m0 [HE Hm0]].
    assert (Em : m0 = m') by exact (f_equal fst HE).
    assert (Ev : gmm pd (negb (maximize (turn b))) (child_of b m0) = v') by exact (f_equal snd HE).
    subst m0. clear HE.
    destruct (kid_step_ix pd b m' (proj2 (legal_steps_ix pd b l b HG Hg) m' Hm0)) as [b3 [Ha3 [HG3 Hk3]]].
    assert (Hc : In (child_of b m') (children b)).
    { rewrite (proj1 (children_good_ix b l Hg)). unfold SearchLink.kids. apply in_flat_map. exists m'. split.
      - exact (Permutation_in _ (Permutation_sym (Permutation_map fst (sort_moves_perm b l))) Hm0).
      - rewrite Hk3. unfold SearchLink.child_of. rewrite Ha3. left. reflexivity. }
    assert (Hne : children b <> []) by (intro HE; rewrite HE in Hc; exact Hc).
    pose proof (AlphaBeta.ab_full_window board children leaf I16_MIN I16_MAX (leaf_range T rook_t bishop_t)) as Hfw.
    destruct (maximize (turn b)); cbn [negb] in *.
    + destruct (AlphaBeta.root_best_max board children leaf I16_MIN I16_MAX (leaf_range T rook_t bishop_t) pd b
                  (children b) eq_refl Hne) as [_ Hub]. cbv zeta in Hub.
      rewrite Hv, <- Ev. apply Hub. apply in_map_iff. exists (child_of b m'). split; [apply Hfw|exact Hc].
    + destruct (AlphaBeta.root_best_min board children leaf I16_MIN I16_MAX (leaf_range T rook_t bishop_t) pd b
                  (children b) eq_refl Hne) as [_ Hlb]. cbv zeta in Hlb.
      rewrite Hv, <- Ev. apply Hlb. apply in_map_iff. exists (child_of b m'). split; [apply Hfw|exact Hc].
Qed.

(* a search that answers SOk had at least one child position at the root *)
Lemma search_children_nonempty_ix : forall depth b v m b1,
  1 <= depth -> Good (N.to_nat depth) b -> search depth b = SOk (v, m, b1) -> children b <> [].
Proof.
  intros depth b v m b1 HL HG Hs.
  destruct (Good_inv _ b HG) as [HW HEp].
  destruct (search_legal T rook_t bishop_t depth b v m b1 HW HEp Hs) as [_ [_ [cands [Hg [Hin _]]]]].
  assert (Ed : N.to_nat depth = S (Nat.pred (N.to_nat depth))) by lia.
  rewrite Ed in HG.
  rewrite (proj1 (children_good_ix b cands Hg)). intro HE.
  apply (kids_nil_iff_ix (Nat.pred (N.to_nat depth)) b) in HE.
  - apply map_eq_nil in HE.
    pose proof (sort_moves_perm b cands) as HP. rewrite HE in HP.
    apply Permutation_nil in HP. subst cands. exact Hin.
  - intros m' Hm'. destruct (legal_steps_ix _ b cands b HG Hg) as [_ Hst]. apply Hst.
    exact (Permutation_in _ (Permutation_map fst (sort_moves_perm b cands)) Hm').
Qed.

End Ix.

(* ------------------------------------------------------------------ *)
(** * non-vacuity *)

(* all hypotheses of Section Ix are satisfiable together:
   Good k b := "k <= 3 and b is the checkmated position SF_mated" *)
Definition SIx_Good (k : nat) (b : board) : Prop := (k <= 3)%nat /\ b = SF_mated.

Example ix_hypotheses_satisfiable :
  (forall k b, SIx_Good k b -> WF b /\ ep_wf b (turn b)) /\
  (forall k b, SIx_Good (S k) b -> exists l b', gen_annotated example_table rook_ref bishop_ref b (turn b) = Ok (l, b')) /\
  (forall k b ms m b1, SIx_Good (S k) b -> gen_moves example_table rook_ref bishop_ref b (turn b) = Ok (ms, b) ->
     In m ms -> apply_move example_table m b = Ok b1 -> SIx_Good k (toggle_turn b1)) /\
  (forall k b, SIx_Good k b -> exists v b', score example_table rook_ref bishop_ref b (turn b) (N.of_nat k) = Ok (v, b')) /\
  (forall k b v b', SIx_Good k b -> score example_table rook_ref bishop_ref b (turn b) (N.of_nat k) = Ok (v, b') ->
     (I16_MIN < v < I16_MAX)%Z).
Proof.
  destruct total_hypotheses_satisfiable as [Hinv [Hgen [Hscore Hnone]]].
  split; [|split; [|split; [|split]]].
  - intros k b [_ ->]. exact Hinv.
  - intros k b [_ ->]. exact Hgen.
  - intros k b ms m b1 [_ ->] Hg Hin _. rewrite Hnone in Hg. apply SL_Ok_inj in Hg.
    assert (Em : ms = []) by (symmetry; exact (f_equal fst Hg)). subst ms. destruct Hin.
  - intros k b [Hk ->]. apply Hscore. lia.
  - intros k b v b' [Hk ->] Hs.
    assert (Hc : In (N.of_nat k) [0; 1; 2; 3]) by (cbn [In]; lia).
    assert (Hall : forallb (fun d => match score example_table rook_ref bishop_ref SF_mated (turn SF_mated) d with
                                     | Ok (v, _) => in_open v | _ => false end) [0; 1; 2; 3] = true)
      by (vm_compute; reflexivity).
    rewrite forallb_forall in Hall. specialize (Hall _ Hc). rewrite Hs in Hall.
    unfold in_open in Hall. apply andb_true_iff in Hall. destruct Hall as [Hlo Hhi].
    apply Z.ltb_lt in Hlo. apply Z.ltb_lt in Hhi. split; assumption.
Qed.

(* ... so the theorems apply: e.g. ab_link_ix instantiated there, a closed statement *)
Example ab_link_ix_instance : forall d alpha beta mx, (d <= 3)%nat ->
  Search.ab example_table rook_ref bishop_ref d SF_mated alpha beta mx
  = Ok (AlphaBeta.ab board (children example_table rook_ref bishop_ref)
          (leaf example_table rook_ref bishop_ref) I16_MIN I16_MAX d mx SF_mated alpha beta, SF_mated).
Proof.
  destruct ix_hypotheses_satisfiable as [H1 [H2 [H3 [H4 H5]]]].
  intros d alpha beta mx Hd.
  exact (ab_link_ix example_table rook_ref bishop_ref SIx_Good H1 H2 H3 H4 H5 d SF_mated alpha beta mx
           (conj Hd eq_refl)).
Qed.

Example search_total_ix_instance :
  search example_table rook_ref bishop_ref 2 SF_mated = SErr NoAvailableMoves.
Proof.
  destruct ix_hypotheses_satisfiable as [H1 [H2 [H3 [H4 H5]]]].
  destruct (search_total_ix example_table rook_ref bishop_ref SIx_Good H1 H2 H3 H4 2 SF_mated)
    as [[v [m [cands [_ [Hg Hin]]]]]|[HE _]].
  - lia.
  - split; [cbn; lia|reflexivity].
  - exfalso. destruct total_hypotheses_satisfiable as [_ [_ [_ Hnone]]].
    rewrite Hnone in Hg. apply SL_Ok_inj in Hg.
    assert (Em : [] = map fst cands) by exact (f_equal fst Hg). rewrite <- Em in Hin. destruct Hin.
  - exact HE.
Qed.

Print Assumptions ab_total_ix.
Print Assumptions search_total_ix.
Print Assumptions search_never_panics_ix.
Print Assumptions ab_link_ix.
Print Assumptions mm_link_ix.
Print Assumptions ab_full_window_chess_ix.
Print Assumptions ab_fail_soft_chess_ix.
Print Assumptions search_score_is_minimax_ix.
Print Assumptions search_move_attains_ix.
Print Assumptions root_values_link_ix.
Print Assumptions search_in_root_values_ix.
