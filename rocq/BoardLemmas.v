(* BoardLemmas.v — the representation invariant of PieceSet / Board as a Prop, and the
   algebra of put / remove and of the stack operations of Board.v.  Proofs only. *)
From Coq Require Import Lia.
From ChessV Require Export Board BitsLemmas.


(* ------------------------------------------------------------------ *)
(** * tz *)

(* see the CAUTION in BitsLemmas.v: use [rewrite tz_unfold], never [unfold tz in H] *)
Lemma tz_unfold x : tz x = hd 64 (bits_of x).
Proof. unfold tz. reflexivity. Qed.

Lemma tz_bit i : i < 64 -> tz (bit i) = i.
Proof. intro H. rewrite tz_unfold, (bits_of_bit i H). reflexivity. Qed.

Lemma tz_0 : tz 0 = 64.
Proof. reflexivity. Qed.

Lemma tz_spec x :
  (exists i, i < 64 /\ mem i x = true) ->
  tz x < 64 /\ mem (tz x) x = true /\ (forall j, j < 64 -> mem j x = true -> tz x <= j).
Proof.
  intros [i [Li Mi]]. rewrite tz_unfold.
  destruct (bits_of x) as [|a r] eqn:E.
  - assert (Hin : In i (bits_of x)) by (apply bits_of_spec; tauto).
    rewrite E in Hin. destruct Hin.
  - cbn [hd]. apply (hd_bits_of_least x a r E).
Qed.

Lemma tz_none x : (forall i, i < 64 -> mem i x = false) -> tz x = 64.
Proof. intro H. rewrite tz_unfold. apply bits_of_nil in H. rewrite H. reflexivity. Qed.

Lemma tz_le_64 x : tz x <= 64.
Proof.
  rewrite tz_unfold. destruct (bits_of x) as [|a r] eqn:E; cbn [hd]; [lia|].
  destruct (hd_bits_of_least x a r E) as [L _]. lia.
Qed.

(* ------------------------------------------------------------------ *)
(** * pieces and colours *)

Lemma piece_eqb_eq a b : piece_eqb a b = true <-> a = b.
Proof. destruct a, b; cbn; split; intro H; try reflexivity; try discriminate. Qed.

Lemma piece_eqb_refl a : piece_eqb a a = true.
Proof. destruct a; reflexivity. Qed.

Lemma piece_eqb_neq a b : piece_eqb a b = false <-> a <> b.
Proof. destruct a, b; cbn; split; intro H; try reflexivity; try discriminate; try congruence. Qed.

Lemma piece_eq_dec (a b : piece) : {a = b} + {a <> b}.
Proof. decide equality. Qed.

Lemma color_eqb_eq a b : color_eqb a b = true <-> a = b.
Proof. destruct a, b; cbn; split; intro H; try reflexivity; try discriminate. Qed.

Lemma color_eqb_refl a : color_eqb a a = true.
Proof. destruct a; reflexivity. Qed.

Lemma color_eqb_neq a b : color_eqb a b = false <-> a <> b.
Proof. destruct a, b; cbn; split; intro H; try reflexivity; try discriminate; try congruence. Qed.

Lemma opp_c_involutive c : opp_c (opp_c c) = c.
Proof. destruct c; reflexivity. Qed.

Lemma opp_c_neq c : opp_c c <> c.
Proof. destruct c; discriminate. Qed.

Lemma pc_eqb_eq a b : pc_eqb a b = true <-> a = b.
Proof.
  destruct a as [p c], b as [q d]. unfold pc_eqb. cbn [fst snd].
  rewrite andb_true_iff, piece_eqb_eq, color_eqb_eq. split; [intros [-> ->]; reflexivity|].
  intro H; inversion H; tauto.
Qed.

Lemma opt_pc_eqb_eq a b : opt_pc_eqb a b = true <-> a = b.
Proof.
  destruct a as [x|], b as [y|]; cbn [opt_pc_eqb]; try (split; [discriminate|discriminate]).
  - rewrite pc_eqb_eq. split; [intros ->; reflexivity | intro H; inversion H; reflexivity].
  - split; reflexivity.
Qed.

Lemma opt_piece_eqb_eq a b : opt_piece_eqb a b = true <-> a = b.
Proof.
  destruct a as [x|], b as [y|]; cbn [opt_piece_eqb]; try (split; [discriminate|discriminate]).
  - rewrite piece_eqb_eq. split; [intros ->; reflexivity | intro H; inversion H; reflexivity].
  - split; reflexivity.
Qed.

(* ------------------------------------------------------------------ *)
(** * the piece-set invariant *)

Definition kinds : list piece := [Pawn; Knight; Bishop; Rook; Queen; King].

Lemma in_kinds p : In p kinds.
Proof. destruct p; cbn; tauto. Qed.

Definition WFs (s : pset) : Prop :=
  (forall i p q, mem i (locate s p) = true -> mem i (locate s q) = true -> p = q)
  /\ (forall i, mem i (occ s) = existsb (fun p => mem i (locate s p)) [Pawn; Knight; Bishop; Rook; Queen; King])
  /\ fits64 (occ s).

Lemma WFs_empty : WFs pset_empty.
Proof.
  split; [|split].
  - intros i p q H. destruct p; cbn [locate pset_empty pw kn bi rk qn kg] in H;
      rewrite mem_0 in H; discriminate.
  - intro i. cbn [existsb locate pset_empty pw kn bi rk qn kg occ]. rewrite mem_0. reflexivity.
  - apply fits64_0.
Qed.

Lemma occ_existsb_unfold s i :
  existsb (fun p => mem i (locate s p)) [Pawn; Knight; Bishop; Rook; Queen; King]
  = mem i (locate s Pawn) || (mem i (locate s Knight) || (mem i (locate s Bishop) ||
     (mem i (locate s Rook) || (mem i (locate s Queen) || (mem i (locate s King) || false))))).
Proof. reflexivity. Qed.

Lemma WFs_locate_occ s i p : WFs s -> mem i (locate s p) = true -> mem i (occ s) = true.
Proof.
  intros (_ & O & _) H. rewrite O, occ_existsb_unfold.
  destruct p; rewrite H; rewrite ?orb_true_r; reflexivity.
Qed.

Lemma WFs_occ_locate s i : WFs s -> mem i (occ s) = true -> exists p, mem i (locate s p) = true.
Proof.
  intros (_ & O & _) H. rewrite O in H. apply existsb_exists in H.
  destruct H as [p [_ H]]. exists p. exact H.
Qed.

Lemma WFs_occ_false s i p : WFs s -> mem i (occ s) = false -> mem i (locate s p) = false.
Proof.
  intros W H. destruct (mem i (locate s p)) eqn:E; [|reflexivity].
  rewrite (WFs_locate_occ s i p W E) in H. discriminate.
Qed.

Lemma WFs_disjoint s i p q : WFs s -> mem i (locate s p) = true -> q <> p -> mem i (locate s q) = false.
Proof.
  intros (D & _) H Hne. destruct (mem i (locate s q)) eqn:E; [|reflexivity].
  exfalso. apply Hne. apply (D i q p E H).
Qed.

Lemma WFs_fits_occ s : WFs s -> fits64 (occ s).
Proof. intros (_ & _ & F). exact F. Qed.

Lemma WFs_fits_locate s p : WFs s -> fits64 (locate s p).
Proof.
  intros W i Hi. apply (WFs_occ_false s i p W). apply (WFs_fits_occ s W i Hi).
Qed.

Lemma WFs_locate_lt64 s i p : WFs s -> mem i (locate s p) = true -> i < 64.
Proof. intros W H. apply (mem_lt64 _ _ (WFs_fits_locate s p W) H). Qed.

(* ---- pget ---- *)

Lemma pget_unfold s i : pget s i =
  if mem i (locate s Pawn) then Some Pawn
  else if mem i (locate s Knight) then Some Knight
  else if mem i (locate s Bishop) then Some Bishop
  else if mem i (locate s Rook) then Some Rook
  else if mem i (locate s Queen) then Some Queen
  else if mem i (locate s King) then Some King
  else None.
Proof. reflexivity. Qed.

(* no invariant needed for this direction *)
Lemma pget_some_mem s i p : pget s i = Some p -> mem i (locate s p) = true.
Proof.
  rewrite pget_unfold.
  destruct (mem i (locate s Pawn)) eqn:E1; [intro H; inversion H; subst; exact E1|].
  destruct (mem i (locate s Knight)) eqn:E2; [intro H; inversion H; subst; exact E2|].
  destruct (mem i (locate s Bishop)) eqn:E3; [intro H; inversion H; subst; exact E3|].
  destruct (mem i (locate s Rook)) eqn:E4; [intro H; inversion H; subst; exact E4|].
  destruct (mem i (locate s Queen)) eqn:E5; [intro H; inversion H; subst; exact E5|].
  destruct (mem i (locate s King)) eqn:E6; [intro H; inversion H; subst; exact E6|].
  discriminate.
Qed.

Lemma pget_none_all s i : pget s i = None <-> (forall p, mem i (locate s p) = false).
Proof.
  rewrite pget_unfold. split.
  - destruct (mem i (locate s Pawn)) eqn:E1; [discriminate|].
    destruct (mem i (locate s Knight)) eqn:E2; [discriminate|].
    destruct (mem i (locate s Bishop)) eqn:E3; [discriminate|].
    destruct (mem i (locate s Rook)) eqn:E4; [discriminate|].
    destruct (mem i (locate s Queen)) eqn:E5; [discriminate|].
    destruct (mem i (locate s King)) eqn:E6; [discriminate|].
    intros _ p. destruct p; assumption.
  - intro H. rewrite !H. reflexivity.
Qed.

Lemma pget_spec s i p : WFs s -> (pget s i = Some p <-> mem i (locate s p) = true).
Proof.
  intros (D & _). split; [apply pget_some_mem|].
  intro H. rewrite pget_unfold.
  destruct (mem i (locate s Pawn)) eqn:E1; [f_equal; apply (D i); assumption|].
  destruct (mem i (locate s Knight)) eqn:E2; [f_equal; apply (D i); assumption|].
  destruct (mem i (locate s Bishop)) eqn:E3; [f_equal; apply (D i); assumption|].
  destruct (mem i (locate s Rook)) eqn:E4; [f_equal; apply (D i); assumption|].
  destruct (mem i (locate s Queen)) eqn:E5; [f_equal; apply (D i); assumption|].
  destruct (mem i (locate s King)) eqn:E6; [f_equal; apply (D i); assumption|].
  destruct p; congruence.
Qed.

Lemma pget_none s i : WFs s -> (pget s i = None <-> mem i (occ s) = false).
Proof.
  intros W. rewrite pget_none_all. split.
  - intro H. destruct W as (_ & O & _). rewrite O, occ_existsb_unfold, !H. reflexivity.
  - intros H p. apply (WFs_occ_false s i p W H).
Qed.

Lemma pget_some_occ s i p : WFs s -> pget s i = Some p -> mem i (occ s) = true.
Proof. intros W H. apply (WFs_locate_occ s i p W). apply pget_some_mem, H. Qed.

Lemma pget_occ_some s i : WFs s -> mem i (occ s) = true -> exists p, pget s i = Some p.
Proof.
  intros W H. destruct (WFs_occ_locate s i W H) as [p Hp]. exists p. apply pget_spec; assumption.
Qed.

Lemma pget_lt64 s i p : WFs s -> pget s i = Some p -> i < 64.
Proof. intros W H. apply (WFs_locate_lt64 s i p W). apply pget_some_mem, H. Qed.

Lemma pget_ext s s' i :
  (forall q, mem i (locate s' q) = mem i (locate s q)) -> pget s' i = pget s i.
Proof. intro H. rewrite !pget_unfold, !H. reflexivity. Qed.

(* two well-formed piece sets with the same mailbox view are the same record *)
Lemma pset_ext s s' : WFs s -> WFs s' -> (forall i, pget s i = pget s' i) -> s = s'.
Proof.
  intros W W' H.
  assert (L : forall p, locate s p = locate s' p).
  { intro p. apply bb_ext. intro i.
    destruct (mem i (locate s p)) eqn:E.
    - apply (pget_spec s i p W) in E. rewrite H in E. apply (pget_spec s' i p W') in E. congruence.
    - destruct (mem i (locate s' p)) eqn:E'; [|reflexivity].
      apply (pget_spec s' i p W') in E'. rewrite <- H in E'. apply (pget_spec s i p W) in E'. congruence. }
  assert (O : occ s = occ s').
  { apply bb_ext. intro i. destruct W as (_ & O & _), W' as (_ & O' & _).
    rewrite O, O', !occ_existsb_unfold, !L. reflexivity. }
  pose proof (L Pawn) as L1. pose proof (L Knight) as L2. pose proof (L Bishop) as L3.
  pose proof (L Rook) as L4. pose proof (L Queen) as L5. pose proof (L King) as L6.
  destruct s as [a1 a2 a3 a4 a5 a6 a7], s' as [c1 c2 c3 c4 c5 c6 c7].
  cbn [locate pw kn bi rk qn kg occ] in *. congruence.
Qed.

(* ---- upd ---- *)

Lemma locate_upd s p f q :
  locate (upd s p f) q = if piece_eqb p q then f (locate s q) else locate s q.
Proof. destruct p, q; reflexivity. Qed.

Lemma locate_upd_same s p f : locate (upd s p f) p = f (locate s p).
Proof. rewrite locate_upd, piece_eqb_refl. reflexivity. Qed.

Lemma locate_upd_other s p f q : q <> p -> locate (upd s p f) q = locate s q.
Proof.
  intro H. rewrite locate_upd. destruct (piece_eqb p q) eqn:E; [|reflexivity].
  apply piece_eqb_eq in E. congruence.
Qed.

Lemma occ_upd s p f : occ (upd s p f) = f (occ s).
Proof. destruct p; reflexivity. Qed.

Lemma upd_upd s p f g : upd (upd s p f) p g = upd s p (fun x => g (f x)).
Proof. destruct p; reflexivity. Qed.

Lemma upd_id s p f : f (locate s p) = locate s p -> f (occ s) = occ s -> upd s p f = s.
Proof.
  destruct s as [a1 a2 a3 a4 a5 a6 a7], p; cbn [upd locate pw kn bi rk qn kg occ]; intros -> ->; reflexivity.
Qed.

Lemma upd_ext s p f g : f (locate s p) = g (locate s p) -> f (occ s) = g (occ s) -> upd s p f = upd s p g.
Proof.
  destruct s as [a1 a2 a3 a4 a5 a6 a7], p; cbn [upd locate pw kn bi rk qn kg occ]; intros -> ->; reflexivity.
Qed.

(* ---- pput ---- *)

Lemma pput_ok_inv s i p s' :
  pput s i p = Ok s' -> mem i (occ s) = false /\ s' = upd s p (fun x => N.lor x (bit i)).
Proof.
  unfold pput. destruct (mem i (occ s)); [discriminate|]. intro H. inversion H. tauto.
Qed.

Lemma pput_free s i p : mem i (occ s) = false -> pput s i p = Ok (upd s p (fun x => N.lor x (bit i))).
Proof. intro H. unfold pput. rewrite H. reflexivity. Qed.

Lemma pput_occupied s i p : mem i (occ s) = true -> pput s i p = Err SquareOccupied.
Proof. intro H. unfold pput. rewrite H. reflexivity. Qed.

Lemma pput_never_panics s i p : pput s i p <> Panic.
Proof. unfold pput. destruct (mem i (occ s)); discriminate. Qed.

Lemma mem_locate_put s p i q j :
  mem j (locate (upd s p (fun x => N.lor x (bit i))) q)
  = if piece_eqb p q && (j =? i) then true else mem j (locate s q).
Proof.
  rewrite locate_upd. destruct (piece_eqb p q); cbn [andb]; [apply mem_set_bit | reflexivity].
Qed.

Lemma mem_locate_flip s p i q j :
  mem j (locate (upd s p (fun x => N.lxor x (bit i))) q)
  = if piece_eqb p q && (j =? i) then negb (mem j (locate s q)) else mem j (locate s q).
Proof.
  rewrite locate_upd. destruct (piece_eqb p q); cbn [andb]; [apply mem_flip_bit | reflexivity].
Qed.

Lemma WFs_put s i p : WFs s -> i < 64 -> mem i (occ s) = false -> WFs (upd s p (fun x => N.lor x (bit i))).
Proof.
  intros W Li Hi. pose proof W as (D & O & F). split; [|split].
  - intros j q1 q2. rewrite !mem_locate_put.
    destruct (N.eqb_spec j i) as [->|Hne].
    + rewrite !andb_true_r, !(WFs_occ_false s i _ W Hi).
      destruct (piece_eqb p q1) eqn:E1; [|discriminate].
      destruct (piece_eqb p q2) eqn:E2; [|discriminate].
      apply piece_eqb_eq in E1, E2. congruence.
    + rewrite !andb_false_r. apply D.
  - intro j. rewrite occ_upd, mem_set_bit, !occ_existsb_unfold, !mem_locate_put, O, occ_existsb_unfold.
    destruct (j =? i); [|rewrite !andb_false_r; reflexivity].
    rewrite !andb_true_r. destruct p; cbn [piece_eqb]; rewrite ?orb_true_r; reflexivity.
  - rewrite occ_upd. apply fits64_lor; [exact F | apply fits64_bit, Li].
Qed.

Lemma pget_put s i p j : WFs s -> i < 64 -> mem i (occ s) = false ->
  pget (upd s p (fun x => N.lor x (bit i))) j = if j =? i then Some p else pget s j.
Proof.
  intros W Li Hi. pose proof (WFs_put s i p W Li Hi) as W'.
  destruct (N.eqb_spec j i) as [->|Hne].
  - apply (pget_spec _ _ _ W'). rewrite mem_locate_put, piece_eqb_refl, N.eqb_refl. reflexivity.
  - apply pget_ext. intro q. rewrite mem_locate_put.
    apply N.eqb_neq in Hne. rewrite Hne, andb_false_r. reflexivity.
Qed.

Lemma pput_spec s i p s' : pput s i p = Ok s' -> WFs s -> i < 64 ->
  WFs s' /\ (forall j, pget s' j = if j =? i then Some p else pget s j).
Proof.
  intros H W Li. apply pput_ok_inv in H. destruct H as [Hi ->]. split.
  - apply WFs_put; assumption.
  - intro j. apply pget_put; assumption.
Qed.

(* ---- premove ---- *)

Lemma premove_some_inv s i p s' :
  premove s i = Some (p, s') -> pget s i = Some p /\ s' = upd s p (fun x => N.lxor x (bit i)).
Proof.
  unfold premove. destruct (pget s i) as [q|]; [|discriminate]. intro H. inversion H. tauto.
Qed.

Lemma premove_some s i p : pget s i = Some p -> premove s i = Some (p, upd s p (fun x => N.lxor x (bit i))).
Proof. intro H. unfold premove. rewrite H. reflexivity. Qed.

Lemma premove_none s i : premove s i = None <-> pget s i = None.
Proof. unfold premove. destruct (pget s i); split; intro H; try discriminate; reflexivity. Qed.

Lemma WFs_remove s i p : WFs s -> mem i (locate s p) = true -> WFs (upd s p (fun x => N.lxor x (bit i))).
Proof.
  intros W Hp. pose proof W as (D & O & F).
  pose proof (WFs_locate_lt64 s i p W Hp) as Li.
  split; [|split].
  - intros j q1 q2. rewrite !mem_locate_flip.
    destruct (N.eqb_spec j i) as [->|Hne].
    + rewrite !andb_true_r.
      destruct (piece_eqb p q1) eqn:E1.
      { apply piece_eqb_eq in E1. subst q1. rewrite Hp. discriminate. }
      destruct (piece_eqb p q2) eqn:E2.
      { apply piece_eqb_eq in E2. subst q2. rewrite Hp. discriminate. }
      apply D.
    + rewrite !andb_false_r. apply D.
  - intro j. rewrite occ_upd, mem_flip_bit, !occ_existsb_unfold, !mem_locate_flip, O, occ_existsb_unfold.
    destruct (N.eqb_spec j i) as [->|Hne]; [|rewrite !andb_false_r; reflexivity].
    rewrite !andb_true_r.
    assert (Z : forall q, q <> p -> mem i (locate s q) = false)
      by (intros q Hq; apply (WFs_disjoint s i p q W Hp Hq)).
    destruct p; cbn [piece_eqb]; rewrite Hp; cbn [negb orb];
      rewrite ?Z by discriminate; reflexivity.
  - rewrite occ_upd. apply fits64_lxor; [exact F | apply fits64_bit, Li].
Qed.

Lemma pget_remove s i p j : WFs s -> mem i (locate s p) = true ->
  pget (upd s p (fun x => N.lxor x (bit i))) j = if j =? i then None else pget s j.
Proof.
  intros W Hp. pose proof (WFs_remove s i p W Hp) as W'.
  destruct (N.eqb_spec j i) as [->|Hne].
  - apply (pget_none _ _ W'). rewrite occ_upd, mem_flip_bit, N.eqb_refl.
    rewrite (WFs_locate_occ s i p W Hp). reflexivity.
  - apply pget_ext. intro q. rewrite mem_locate_flip.
    apply N.eqb_neq in Hne. rewrite Hne, andb_false_r. reflexivity.
Qed.

Lemma premove_spec s i p s' : premove s i = Some (p, s') -> WFs s ->
  WFs s' /\ pget s i = Some p /\ (forall j, pget s' j = if j =? i then None else pget s j).
Proof.
  intros H W. apply premove_some_inv in H. destruct H as [Hg ->].
  pose proof (pget_some_mem s i p Hg) as Hp. split; [|split].
  - apply WFs_remove; assumption.
  - exact Hg.
  - intro j. apply pget_remove; assumption.
Qed.

(* ---- put and remove are inverse, as records ---- *)

Lemma pput_premove s i p s' : pput s i p = Ok s' -> WFs s -> premove s' i = Some (p, s).
Proof.
  intros H W. apply pput_ok_inv in H. destruct H as [Hi ->].
  pose proof (WFs_occ_false s i p W Hi) as Hp.
  assert (G : pget (upd s p (fun x => N.lor x (bit i))) i = Some p).
  { rewrite pget_unfold, !mem_locate_put, N.eqb_refl, !andb_true_r, !(WFs_occ_false s i _ W Hi).
    destruct p; reflexivity. }
  rewrite (premove_some _ _ _ G), upd_upd. f_equal. f_equal.
  apply upd_id; apply lor_bit_lxor_bit; assumption.
Qed.

Lemma premove_pput s i p s' : premove s i = Some (p, s') -> WFs s -> pput s' i p = Ok s.
Proof.
  intros H W. apply premove_some_inv in H. destruct H as [Hg ->].
  pose proof (pget_some_mem s i p Hg) as Hp.
  pose proof (WFs_locate_occ s i p W Hp) as Ho.
  rewrite pput_free.
  - rewrite upd_upd. f_equal. apply upd_id; apply lxor_bit_lor_bit; assumption.
  - rewrite occ_upd, mem_flip_bit, N.eqb_refl, Ho. reflexivity.
Qed.

(* ------------------------------------------------------------------ *)
(** * the board invariant *)

Definition WF (b : board) : Prop :=
  WFs (white b) /\ WFs (black b)
  /\ (forall i, mem i (occ (white b)) && mem i (occ (black b)) = false).

Ltac bsimpl :=
  cbn [white black turn ep_stack cr_stack hm_stack fullmove pos_count seen_stack hash
       set_white set_black set_turn set_ep set_cr set_hm set_fullmove set_counts set_hash
       pieces set_pieces toggle_piece toggle_rights push_halfmove reset_halfmove toggle_turn
       bind fst snd].
Ltac bunfold :=
  unfold toggle_turn, reset_halfmove, push_halfmove, toggle_piece, toggle_rights, set_pieces,
         set_white, set_black, set_turn, set_ep, set_cr, set_hm, set_fullmove, set_counts, set_hash;
  cbn [white black turn ep_stack cr_stack hm_stack fullmove pos_count seen_stack hash].
Ltac bsimpl_in H :=
  cbn [white black turn ep_stack cr_stack hm_stack fullmove pos_count seen_stack hash
       set_white set_black set_turn set_ep set_cr set_hm set_fullmove set_counts set_hash
       pieces set_pieces toggle_piece toggle_rights push_halfmove reset_halfmove toggle_turn
       bind fst snd] in H.

Lemma WF_new : WF board_new.
Proof.
  split; [exact WFs_empty | split; [exact WFs_empty|]].
  intro i. cbn [board_new white pset_empty occ]. rewrite mem_0. reflexivity.
Qed.

Lemma WF_pieces b c : WF b -> WFs (pieces b c).
Proof. intros (Ww & Wb & _). destruct c; assumption. Qed.

Lemma WF_disjoint b i c : WF b -> mem i (occ (pieces b c)) = true -> mem i (occ (pieces b (opp_c c))) = false.
Proof.
  intros (_ & _ & X) H. specialize (X i).
  destruct c; cbn [pieces opp_c] in *; rewrite H in X; [rewrite andb_true_r in X | ]; exact X.
Qed.

Lemma WF_fits_occupied b : WF b -> fits64 (occupied b).
Proof. intros (Ww & Wb & _). apply fits64_lor; apply WFs_fits_occ; assumption. Qed.

(* WF only looks at the two piece sets *)
Lemma WF_same_sets b b' : white b' = white b -> black b' = black b -> WF b -> WF b'.
Proof. unfold WF. intros -> ->. tauto. Qed.

Lemma mem_occupied b i : mem i (occupied b) = mem i (occ (white b)) || mem i (occ (black b)).
Proof. apply mem_lor. Qed.

Lemma mem_occupied_c b i c :
  mem i (occupied b) = mem i (occ (pieces b c)) || mem i (occ (pieces b (opp_c c))).
Proof. rewrite mem_occupied. destruct c; cbn [pieces opp_c]; [apply orb_comm | reflexivity]. Qed.

Lemma pieces_set_pieces_same b c s : pieces (set_pieces b c s) c = s.
Proof. destruct c; reflexivity. Qed.

Lemma pieces_set_pieces_other b c s : pieces (set_pieces b c s) (opp_c c) = pieces b (opp_c c).
Proof. destruct c; reflexivity. Qed.

Lemma pieces_set_pieces b c s d :
  pieces (set_pieces b c s) d = if color_eqb c d then s else pieces b d.
Proof. destruct c, d; reflexivity. Qed.

Lemma set_pieces_set_pieces b c s s' : set_pieces (set_pieces b c s) c s' = set_pieces b c s'.
Proof. destruct c; reflexivity. Qed.

Lemma set_pieces_id b c : set_pieces b c (pieces b c) = b.
Proof. destruct b, c; reflexivity. Qed.

(* ---- bget ---- *)

Lemma bget_pget b i p c : bget b i = Some (p, c) -> pget (pieces b c) i = Some p.
Proof.
  unfold bget. destruct (mem i (occ (white b))).
  - destruct (pget (white b) i) as [q|] eqn:G; cbn [option_map]; [|discriminate].
    intro H; inversion H; subst. exact G.
  - destruct (mem i (occ (black b))); [|discriminate].
    destruct (pget (black b) i) as [q|] eqn:G; cbn [option_map]; [|discriminate].
    intro H; inversion H; subst. exact G.
Qed.

Lemma bget_some_iff b i p c : WF b -> (bget b i = Some (p, c) <-> pget (pieces b c) i = Some p).
Proof.
  intros W. split; [apply bget_pget|].
  intro H. pose proof (pget_some_occ _ _ _ (WF_pieces b c W) H) as Ho.
  pose proof (WF_disjoint b i c W Ho) as Hd.
  unfold bget. destruct c; cbn [pieces opp_c] in *.
  - rewrite Hd, Ho, H. reflexivity.
  - rewrite Ho, H. reflexivity.
Qed.

Lemma bget_mem b i p c : WF b -> (bget b i = Some (p, c) <-> mem i (locate (pieces b c) p) = true).
Proof.
  intro W. rewrite (bget_some_iff b i p c W). apply pget_spec. apply WF_pieces, W.
Qed.

Lemma bget_none_iff b i : WF b -> (bget b i = None <-> mem i (occupied b) = false).
Proof.
  intros (Ww & Wb & X). rewrite mem_occupied. unfold bget.
  destruct (mem i (occ (white b))) eqn:E1.
  - destruct (pget_occ_some _ _ Ww E1) as [p Hp]. rewrite Hp. cbn. split; discriminate.
  - destruct (mem i (occ (black b))) eqn:E2.
    + destruct (pget_occ_some _ _ Wb E2) as [p Hp]. rewrite Hp. cbn. split; discriminate.
    + cbn. split; reflexivity.
Qed.

Lemma bget_is_occupied b i : WF b -> is_occupied b i = negb (match bget b i with None => true | Some _ => false end).
Proof.
  intro W. unfold is_occupied. destruct (bget b i) as [pc|] eqn:E.
  - destruct (mem i (occupied b)) eqn:M; [reflexivity|].
    apply (bget_none_iff b i W) in M. congruence.
  - apply (bget_none_iff b i W) in E. rewrite E. reflexivity.
Qed.

Lemma bget_lt64 b i pc : WF b -> bget b i = Some pc -> i < 64.
Proof.
  intros W H. destruct pc as [p c]. apply bget_pget in H.
  apply (pget_lt64 _ _ _ (WF_pieces b c W) H).
Qed.

Lemma bget_ge64 b i : WF b -> 64 <= i -> bget b i = None.
Proof.
  intros W Hi. destruct (bget b i) as [pc|] eqn:E; [|reflexivity].
  pose proof (bget_lt64 b i pc W E). lia.
Qed.

Lemma bget_same_sets b b' : white b' = white b -> black b' = black b -> bget b' = bget b.
Proof. intros H1 H2. unfold bget. rewrite H1, H2. reflexivity. Qed.

(* the mailbox view in terms of the two piece sets *)
Lemma bget_by_color b i : WF b ->
  bget b i = match pget (white b) i with
             | Some p => Some (p, White)
             | None => match pget (black b) i with Some p => Some (p, Black) | None => None end
             end.
Proof.
  intro W. destruct (pget (white b) i) as [p|] eqn:Ew.
  - apply (bget_some_iff b i p White W). exact Ew.
  - destruct (pget (black b) i) as [p|] eqn:Eb.
    + apply (bget_some_iff b i p Black W). exact Eb.
    + destruct W as (Ww & Wb & _). apply (pget_none _ _ Ww) in Ew. apply (pget_none _ _ Wb) in Eb.
      unfold bget. rewrite Ew, Eb. reflexivity.
Qed.

(* two well-formed boards with the same mailbox view have the same piece sets *)
Lemma WF_sets_ext b b' : WF b -> WF b' -> (forall i, bget b i = bget b' i) ->
  white b = white b' /\ black b = black b'.
Proof.
  intros W W' H.
  assert (P : forall c i, pget (pieces b c) i = pget (pieces b' c) i).
  { intros c i. destruct (pget (pieces b c) i) as [p|] eqn:E.
    - apply (bget_some_iff b i p c W) in E. rewrite H in E. apply (bget_some_iff b' i p c W') in E. congruence.
    - destruct (pget (pieces b' c) i) as [p|] eqn:E'; [|reflexivity].
      apply (bget_some_iff b' i p c W') in E'. rewrite <- H in E'. apply (bget_some_iff b i p c W) in E'. congruence. }
  split.
  - apply pset_ext; [apply W | apply W' | apply (P White)].
  - apply pset_ext; [apply W | apply W' | apply (P Black)].
Qed.

Section WithTable.
Variable T : ztable.

(* the en-passant component of the key for a target bitboard *)
Definition epk (x : N) : N := if is_empty x then 0 else ze T (tz x).

Lemma epk_0 : epk 0 = 0.
Proof. reflexivity. Qed.

Lemma epk_bit i : i < 64 -> epk (bit i) = ze T i.
Proof. intro H. unfold epk. rewrite is_empty_bit, (tz_bit i H). reflexivity. Qed.

Lemma set_hash_same b : set_hash b (hash b) = b.
Proof. destruct b; reflexivity. Qed.

Lemma toggle_ep_eq b x : toggle_ep T b x = set_hash b (N.lxor (hash b) (epk x)).
Proof.
  unfold toggle_ep, epk. destruct (is_empty x); [|reflexivity].
  rewrite N.lxor_0_r, set_hash_same. reflexivity.
Qed.

(* ---- put ---- *)

Lemma put_ok_inv b i p c b' : put T b i p c = Ok b' ->
  mem i (occupied b) = false
  /\ b' = toggle_piece T (set_pieces b c (upd (pieces b c) p (fun x => N.lor x (bit i)))) i p c.
Proof.
  unfold put, is_occupied. destruct (mem i (occupied b)) eqn:E; [discriminate|].
  rewrite (mem_occupied_c b i c) in E. apply orb_false_elim in E. destruct E as [E1 E2].
  rewrite (pput_free _ _ _ E1). cbn [bind]. intro H. inversion H. split; reflexivity.
Qed.

Lemma put_free b i p c : mem i (occupied b) = false ->
  put T b i p c = Ok (toggle_piece T (set_pieces b c (upd (pieces b c) p (fun x => N.lor x (bit i)))) i p c).
Proof.
  intro E. unfold put, is_occupied. rewrite E.
  rewrite (mem_occupied_c b i c) in E. apply orb_false_elim in E. destruct E as [E1 E2].
  rewrite (pput_free _ _ _ E1). reflexivity.
Qed.

Lemma put_occupied b i p c : mem i (occupied b) = true -> put T b i p c = Err SquareOccupied.
Proof. intro E. unfold put, is_occupied. rewrite E. reflexivity. Qed.

Lemma put_never_panics b i p c : put T b i p c <> Panic.
Proof.
  destruct (mem i (occupied b)) eqn:E.
  - rewrite (put_occupied _ _ _ _ E). discriminate.
  - rewrite (put_free _ _ _ _ E). discriminate.
Qed.

Lemma put_cases b i p c :
  (exists b', put T b i p c = Ok b') \/ put T b i p c = Err SquareOccupied.
Proof.
  destruct (mem i (occupied b)) eqn:E.
  - right. apply put_occupied, E.
  - left. eexists. apply put_free, E.
Qed.

Lemma put_err_iff b i p c : WF b -> (put T b i p c = Err SquareOccupied <-> bget b i <> None).
Proof.
  intro W. rewrite (bget_none_iff b i W). destruct (mem i (occupied b)) eqn:E.
  - rewrite (put_occupied _ _ _ _ E). split; [discriminate | reflexivity].
  - rewrite (put_free _ _ _ _ E). split; [discriminate | congruence].
Qed.

Lemma put_ok_iff b i p c : WF b -> ((exists b', put T b i p c = Ok b') <-> bget b i = None).
Proof.
  intro W. rewrite (bget_none_iff b i W). split.
  - intros [b' H]. apply put_ok_inv in H. tauto.
  - intro E. eexists. apply put_free, E.
Qed.

Lemma put_WF b i p c b' : put T b i p c = Ok b' -> WF b -> i < 64 -> WF b'.
Proof.
  intros H W Li. apply put_ok_inv in H. destruct H as [E ->].
  rewrite (mem_occupied_c b i c) in E. apply orb_false_elim in E. destruct E as [E1 E2].
  pose proof (WFs_put _ i p (WF_pieces b c W) Li E1) as W'.
  destruct W as (Ww & Wb & X).
  destruct c; cbn [pieces opp_c] in *; unfold WF; bsimpl.
  - split; [exact Ww|]. split; [exact W'|]. intro j. rewrite occ_upd, mem_set_bit.
    destruct (N.eqb_spec j i) as [->|Hne]; [rewrite E2; reflexivity | apply X].
  - split; [exact W'|]. split; [exact Wb|]. intro j. rewrite occ_upd, mem_set_bit.
    destruct (N.eqb_spec j i) as [->|Hne]; [rewrite E2; reflexivity | apply X].
Qed.

Lemma put_bget b i p c b' : put T b i p c = Ok b' -> WF b -> i < 64 ->
  forall j, bget b' j = if j =? i then Some (p, c) else bget b j.
Proof.
  intros H W Li j. pose proof (put_WF _ _ _ _ _ H W Li) as W'.
  apply put_ok_inv in H. destruct H as [E Hb'].
  rewrite (mem_occupied_c b i c) in E. apply orb_false_elim in E. destruct E as [E1 E2].
  pose proof (pget_put _ i p j (WF_pieces b c W) Li E1) as G.
  rewrite (bget_by_color b' j W'), (bget_by_color b j W). subst b'.
  destruct c; cbn [pieces opp_c] in *; bsimpl; rewrite G;
    destruct (N.eqb_spec j i) as [->|Hne]; try reflexivity.
  - (* Black put at i: white has nothing at i *)
    destruct W as (Ww & _). apply (pget_none _ _ Ww) in E2. rewrite E2. reflexivity.
Qed.

Lemma put_hash b i p c b' : put T b i p c = Ok b' -> hash b' = N.lxor (hash b) (zp T p i c).
Proof.
  intro H. apply put_ok_inv in H. destruct H as [_ ->]. destruct c; reflexivity.
Qed.

Lemma put_frame b i p c b' : put T b i p c = Ok b' ->
  turn b' = turn b /\ ep_stack b' = ep_stack b /\ cr_stack b' = cr_stack b /\ hm_stack b' = hm_stack b
  /\ fullmove b' = fullmove b /\ pos_count b' = pos_count b /\ seen_stack b' = seen_stack b
  /\ pieces b' (opp_c c) = pieces b (opp_c c).
Proof.
  intro H. apply put_ok_inv in H. destruct H as [_ ->]. destruct c; repeat split; reflexivity.
Qed.

Lemma put_pieces b i p c b' : put T b i p c = Ok b' ->
  pieces b' c = upd (pieces b c) p (fun x => N.lor x (bit i)).
Proof.
  intro H. apply put_ok_inv in H. destruct H as [_ ->]. destruct c; reflexivity.
Qed.

(* ---- remove ---- *)

Lemma bremove_some_inv b i p c b' : bremove T b i = Some ((p, c), b') ->
  bget b i = Some (p, c)
  /\ b' = toggle_piece T (set_pieces b c (upd (pieces b c) p (fun x => N.lxor x (bit i)))) i p c.
Proof.
  unfold bremove. destruct (bget b i) as [[q d]|] eqn:E; [|discriminate].
  rewrite (premove_some _ _ _ (bget_pget _ _ _ _ E)). intro H. inversion H. subst. tauto.
Qed.

Lemma bremove_some b i p c : bget b i = Some (p, c) ->
  bremove T b i = Some ((p, c), toggle_piece T (set_pieces b c (upd (pieces b c) p (fun x => N.lxor x (bit i)))) i p c).
Proof.
  intro E. unfold bremove. rewrite E, (premove_some _ _ _ (bget_pget _ _ _ _ E)). reflexivity.
Qed.

(* no invariant needed *)
Lemma bremove_none_iff b i : bremove T b i = None <-> bget b i = None.
Proof.
  split.
  - intro H. destruct (bget b i) as [[p c]|] eqn:E; [|reflexivity].
    rewrite (bremove_some _ _ _ _ E) in H. discriminate.
  - intro E. unfold bremove. rewrite E. reflexivity.
Qed.

Lemma bremove_WF b i p c b' : bremove T b i = Some ((p, c), b') -> WF b -> WF b'.
Proof.
  intros H W. apply bremove_some_inv in H. destruct H as [E ->].
  apply (bget_mem b i p c W) in E.
  pose proof (WFs_remove _ i p (WF_pieces b c W) E) as W'.
  pose proof (WFs_locate_occ _ _ _ (WF_pieces b c W) E) as Ho.
  pose proof (WF_disjoint b i c W Ho) as Hd.
  destruct W as (Ww & Wb & X).
  destruct c; cbn [pieces opp_c] in *; unfold WF; bsimpl.
  - split; [exact Ww|]. split; [exact W'|]. intro j. rewrite occ_upd, mem_flip_bit.
    destruct (N.eqb_spec j i) as [->|Hne]; [rewrite Hd; reflexivity | apply X].
  - split; [exact W'|]. split; [exact Wb|]. intro j. rewrite occ_upd, mem_flip_bit.
    destruct (N.eqb_spec j i) as [->|Hne]; [rewrite Hd; apply andb_false_r | apply X].
Qed.

Lemma bremove_bget b i p c b' : bremove T b i = Some ((p, c), b') -> WF b ->
  bget b i = Some (p, c) /\ (forall j, bget b' j = if j =? i then None else bget b j).
Proof.
  intros H W. pose proof (bremove_WF _ _ _ _ _ H W) as W'.
  apply bremove_some_inv in H. destruct H as [E Hb']. split; [exact E|]. intro j.
  pose proof E as Em. apply (bget_mem b i p c W) in Em.
  pose proof (WFs_locate_occ _ _ _ (WF_pieces b c W) Em) as Ho.
  pose proof (WF_disjoint b i c W Ho) as Hd.
  pose proof (pget_remove _ i p j (WF_pieces b c W) Em) as G.
  rewrite (bget_by_color b' j W'), (bget_by_color b j W). subst b'.
  destruct c; cbn [pieces opp_c] in *; bsimpl; rewrite G;
    destruct (N.eqb_spec j i) as [->|Hne]; try reflexivity.
  - (* Black removed at i: white has nothing there *)
    destruct W as (Ww & _). apply (pget_none _ _ Ww) in Hd. rewrite Hd. reflexivity.
  - (* White removed at i: black has nothing there *)
    destruct W as (_ & Wb & _). apply (pget_none _ _ Wb) in Hd. rewrite Hd. reflexivity.
Qed.

Lemma bremove_hash b i p c b' : bremove T b i = Some ((p, c), b') -> hash b' = N.lxor (hash b) (zp T p i c).
Proof.
  intro H. apply bremove_some_inv in H. destruct H as [_ ->]. destruct c; reflexivity.
Qed.

Lemma bremove_frame b i p c b' : bremove T b i = Some ((p, c), b') ->
  turn b' = turn b /\ ep_stack b' = ep_stack b /\ cr_stack b' = cr_stack b /\ hm_stack b' = hm_stack b
  /\ fullmove b' = fullmove b /\ pos_count b' = pos_count b /\ seen_stack b' = seen_stack b
  /\ pieces b' (opp_c c) = pieces b (opp_c c).
Proof.
  intro H. apply bremove_some_inv in H. destruct H as [_ ->]. destruct c; repeat split; reflexivity.
Qed.

Lemma bremove_lt64 b i pc b' : bremove T b i = Some (pc, b') -> WF b -> i < 64.
Proof.
  intros H W. destruct pc as [p c]. apply bremove_some_inv in H. destruct H as [E _].
  apply (bget_lt64 b i _ W E).
Qed.

(* ---- put and remove are inverse, as records ---- *)

Lemma toggle_set_pieces_roundtrip b c s i p :
  toggle_piece T (set_pieces (toggle_piece T (set_pieces b c s) i p c) c (pieces b c)) i p c = b.
Proof.
  destruct b, c; unfold toggle_piece; bsimpl; rewrite lxor_lxor_cancel; reflexivity.
Qed.

Lemma pieces_toggle_piece b i p c d : pieces (toggle_piece T b i p c) d = pieces b d.
Proof. destruct d; reflexivity. Qed.

Lemma put_bremove b i p c b' : put T b i p c = Ok b' -> WF b -> i < 64 -> bremove T b' i = Some ((p, c), b).
Proof.
  intros H W Li.
  pose proof (put_bget _ _ _ _ _ H W Li i) as G. rewrite N.eqb_refl in G.
  apply put_ok_inv in H. destruct H as [E ->].
  rewrite (mem_occupied_c b i c) in E. apply orb_false_elim in E. destruct E as [E1 E2].
  rewrite (bremove_some _ _ _ _ G). f_equal. f_equal.
  rewrite pieces_toggle_piece, pieces_set_pieces_same, upd_upd.
  rewrite (upd_id (pieces b c) p (fun x => N.lxor (N.lor x (bit i)) (bit i))).
  - apply toggle_set_pieces_roundtrip.
  - apply lor_bit_lxor_bit. apply (WFs_occ_false _ _ _ (WF_pieces b c W) E1).
  - apply lor_bit_lxor_bit. exact E1.
Qed.

Lemma bremove_put b i p c b' : bremove T b i = Some ((p, c), b') -> WF b -> put T b' i p c = Ok b.
Proof.
  intros H W. apply bremove_some_inv in H. destruct H as [E ->].
  pose proof E as Em. apply (bget_mem b i p c W) in Em.
  pose proof (WFs_locate_occ _ _ _ (WF_pieces b c W) Em) as Ho.
  pose proof (WF_disjoint b i c W Ho) as Hd.
  rewrite put_free.
  - f_equal. rewrite pieces_toggle_piece, pieces_set_pieces_same, upd_upd.
    rewrite (upd_id (pieces b c) p (fun x => N.lor (N.lxor x (bit i)) (bit i))).
    + apply toggle_set_pieces_roundtrip.
    + apply lxor_bit_lor_bit. exact Em.
    + apply lxor_bit_lor_bit. exact Ho.
  - rewrite (mem_occupied_c _ i c), !pieces_toggle_piece, pieces_set_pieces_same, pieces_set_pieces_other.
    rewrite occ_upd, mem_flip_bit, N.eqb_refl, Ho, Hd. reflexivity.
Qed.

(* ------------------------------------------------------------------ *)
(** * the stack operations: closed forms *)

Lemma push_ep_eq b t : push_ep T b t =
  match ep_stack b with
  | [] => Panic
  | prev :: _ =>
      Ok (set_ep (set_hash b (N.lxor (N.lxor (hash b) (epk prev)) (epk t))) (t :: ep_stack b))
  end.
Proof.
  unfold push_ep, peek_ep. destruct (ep_stack b) as [|prev rest] eqn:E; [reflexivity|].
  cbn [bind]. rewrite !toggle_ep_eq. bsimpl. rewrite ?E. reflexivity.
Qed.

Lemma pop_ep_eq b : pop_ep T b =
  match ep_stack b with
  | [] => Panic
  | t :: rest =>
      match rest with
      | [] => Panic
      | r :: _ => Ok (t, set_ep (set_hash b (N.lxor (N.lxor (hash b) (epk t)) (epk r))) rest)
      end
  end.
Proof.
  unfold pop_ep, peek_ep. destruct (ep_stack b) as [|t rest] eqn:E; [reflexivity|].
  rewrite !toggle_ep_eq. bsimpl. destruct rest as [|r rest']; [reflexivity|].
  cbn [bind]. rewrite !toggle_ep_eq. bsimpl. reflexivity.
Qed.

Lemma lose_rights_eq b lost : lose_rights T b lost =
  match cr_stack b with
  | [] => Panic
  | old :: _ =>
      let new := N.lxor old (N.land old lost) in
      Ok (set_cr (set_hash b (N.lxor (N.lxor (hash b) (zc T old)) (zc T new))) (new :: cr_stack b))
  end.
Proof.
  unfold lose_rights, peek_rights. destruct (cr_stack b) as [|old rest] eqn:E; [reflexivity|].
  cbn [bind]. unfold toggle_rights. bsimpl. rewrite ?E. reflexivity.
Qed.

Lemma pop_rights_eq b : pop_rights T b =
  match cr_stack b with
  | [] => Panic
  | old :: rest =>
      match rest with
      | [] => Panic
      | new :: _ => Ok (set_cr (set_hash b (N.lxor (N.lxor (hash b) (zc T old)) (zc T new))) rest)
      end
  end.
Proof.
  unfold pop_rights, peek_rights. destruct (cr_stack b) as [|old rest] eqn:E; [reflexivity|].
  bsimpl. destruct rest as [|new rest']; [reflexivity|].
  cbn [bind]. unfold toggle_rights. bsimpl. reflexivity.
Qed.

Lemma preserve_rights_eq b : preserve_rights b =
  match cr_stack b with
  | [] => Panic
  | r :: _ => Ok (set_cr b (r :: cr_stack b))
  end.
Proof.
  unfold preserve_rights, peek_rights. destruct (cr_stack b) as [|r rest] eqn:E; reflexivity.
Qed.

Lemma inc_halfmove_eq b : inc_halfmove b =
  match hm_stack b with
  | [] => Panic
  | old :: _ => if old =? U8_MAX then Panic else Ok (set_hm b ((old + 1) :: hm_stack b))
  end.
Proof.
  unfold inc_halfmove, halfmove, push_halfmove. destruct (hm_stack b) as [|old rest] eqn:E; reflexivity.
Qed.

(* ------------------------------------------------------------------ *)
(** * the stack operations: which fields change, and how *)

Ltac fields_done :=
  bsimpl; repeat split; try reflexivity; try discriminate; try assumption; try congruence.

Lemma push_ep_spec b t b' : push_ep T b t = Ok b' ->
  ep_stack b <> []
  /\ ep_stack b' = t :: ep_stack b
  /\ hash b' = N.lxor (N.lxor (hash b) (epk (hd 0 (ep_stack b)))) (epk t)
  /\ white b' = white b /\ black b' = black b /\ turn b' = turn b /\ cr_stack b' = cr_stack b
  /\ hm_stack b' = hm_stack b /\ fullmove b' = fullmove b /\ pos_count b' = pos_count b
  /\ seen_stack b' = seen_stack b.
Proof.
  rewrite push_ep_eq. destruct (ep_stack b) as [|prev rest] eqn:E; [discriminate|].
  intro H. inversion H. subst b'. cbn [hd]. fields_done.
Qed.

Lemma pop_ep_spec b t b' : pop_ep T b = Ok (t, b') ->
  ep_stack b = t :: ep_stack b'
  /\ ep_stack b' <> []
  /\ hash b' = N.lxor (N.lxor (hash b) (epk t)) (epk (hd 0 (ep_stack b')))
  /\ white b' = white b /\ black b' = black b /\ turn b' = turn b /\ cr_stack b' = cr_stack b
  /\ hm_stack b' = hm_stack b /\ fullmove b' = fullmove b /\ pos_count b' = pos_count b
  /\ seen_stack b' = seen_stack b.
Proof.
  rewrite pop_ep_eq. destruct (ep_stack b) as [|t0 [|r rest]] eqn:E; try discriminate.
  intro H. inversion H. subst t0 b'. cbn [hd]. fields_done.
Qed.

Lemma lose_rights_spec b lost b' : lose_rights T b lost = Ok b' ->
  cr_stack b <> []
  /\ cr_stack b' = N.lxor (hd 0 (cr_stack b)) (N.land (hd 0 (cr_stack b)) lost) :: cr_stack b
  /\ hash b' = N.lxor (N.lxor (hash b) (zc T (hd 0 (cr_stack b)))) (zc T (hd 0 (cr_stack b')))
  /\ white b' = white b /\ black b' = black b /\ turn b' = turn b /\ ep_stack b' = ep_stack b
  /\ hm_stack b' = hm_stack b /\ fullmove b' = fullmove b /\ pos_count b' = pos_count b
  /\ seen_stack b' = seen_stack b.
Proof.
  rewrite lose_rights_eq. destruct (cr_stack b) as [|old rest] eqn:E; [discriminate|].
  cbv zeta. intro H. inversion H. subst b'. cbn [hd]. fields_done.
Qed.

Lemma pop_rights_spec b b' : pop_rights T b = Ok b' ->
  cr_stack b = hd 0 (cr_stack b) :: cr_stack b'
  /\ cr_stack b' <> []
  /\ hash b' = N.lxor (N.lxor (hash b) (zc T (hd 0 (cr_stack b)))) (zc T (hd 0 (cr_stack b')))
  /\ white b' = white b /\ black b' = black b /\ turn b' = turn b /\ ep_stack b' = ep_stack b
  /\ hm_stack b' = hm_stack b /\ fullmove b' = fullmove b /\ pos_count b' = pos_count b
  /\ seen_stack b' = seen_stack b.
Proof.
  rewrite pop_rights_eq. destruct (cr_stack b) as [|old [|new rest]] eqn:E; try discriminate.
  intro H. inversion H. subst b'. cbn [hd]. fields_done.
Qed.

Lemma preserve_rights_spec b b' : preserve_rights b = Ok b' ->
  cr_stack b <> []
  /\ cr_stack b' = hd 0 (cr_stack b) :: cr_stack b
  /\ hash b' = hash b
  /\ white b' = white b /\ black b' = black b /\ turn b' = turn b /\ ep_stack b' = ep_stack b
  /\ hm_stack b' = hm_stack b /\ fullmove b' = fullmove b /\ pos_count b' = pos_count b
  /\ seen_stack b' = seen_stack b.
Proof.
  rewrite preserve_rights_eq. destruct (cr_stack b) as [|r rest] eqn:E; [discriminate|].
  intro H. inversion H. subst b'. cbn [hd]. fields_done.
Qed.

Lemma inc_fullmove_spec b b' : inc_fullmove b = Ok b' ->
  fullmove b <> FULLMOVE_MAX
  /\ fullmove b' = fullmove b + 1
  /\ hash b' = hash b
  /\ white b' = white b /\ black b' = black b /\ turn b' = turn b /\ ep_stack b' = ep_stack b
  /\ cr_stack b' = cr_stack b /\ hm_stack b' = hm_stack b /\ pos_count b' = pos_count b
  /\ seen_stack b' = seen_stack b.
Proof.
  unfold inc_fullmove. destruct (N.eqb_spec (fullmove b) FULLMOVE_MAX) as [|Hne]; [discriminate|].
  intro H. inversion H. subst b'. fields_done.
Qed.

Lemma dec_fullmove_spec b b' : dec_fullmove b = Ok b' ->
  fullmove b <> 0
  /\ fullmove b' = fullmove b - 1
  /\ hash b' = hash b
  /\ white b' = white b /\ black b' = black b /\ turn b' = turn b /\ ep_stack b' = ep_stack b
  /\ cr_stack b' = cr_stack b /\ hm_stack b' = hm_stack b /\ pos_count b' = pos_count b
  /\ seen_stack b' = seen_stack b.
Proof.
  unfold dec_fullmove. destruct (N.eqb_spec (fullmove b) 0) as [|Hne]; [discriminate|].
  intro H. inversion H. subst b'. fields_done.
Qed.

Lemma push_halfmove_spec b n :
  hm_stack (push_halfmove b n) = n :: hm_stack b
  /\ hash (push_halfmove b n) = hash b
  /\ white (push_halfmove b n) = white b /\ black (push_halfmove b n) = black b
  /\ turn (push_halfmove b n) = turn b /\ ep_stack (push_halfmove b n) = ep_stack b
  /\ cr_stack (push_halfmove b n) = cr_stack b /\ fullmove (push_halfmove b n) = fullmove b
  /\ pos_count (push_halfmove b n) = pos_count b /\ seen_stack (push_halfmove b n) = seen_stack b.
Proof. fields_done. Qed.

Lemma reset_halfmove_spec b :
  hm_stack (reset_halfmove b) = 0 :: hm_stack b
  /\ hash (reset_halfmove b) = hash b
  /\ white (reset_halfmove b) = white b /\ black (reset_halfmove b) = black b
  /\ turn (reset_halfmove b) = turn b /\ ep_stack (reset_halfmove b) = ep_stack b
  /\ cr_stack (reset_halfmove b) = cr_stack b /\ fullmove (reset_halfmove b) = fullmove b
  /\ pos_count (reset_halfmove b) = pos_count b /\ seen_stack (reset_halfmove b) = seen_stack b.
Proof. fields_done. Qed.

Lemma inc_halfmove_spec b b' : inc_halfmove b = Ok b' ->
  hm_stack b <> [] /\ hd 0 (hm_stack b) <> U8_MAX
  /\ hm_stack b' = (hd 0 (hm_stack b) + 1) :: hm_stack b
  /\ hash b' = hash b
  /\ white b' = white b /\ black b' = black b /\ turn b' = turn b /\ ep_stack b' = ep_stack b
  /\ cr_stack b' = cr_stack b /\ fullmove b' = fullmove b /\ pos_count b' = pos_count b
  /\ seen_stack b' = seen_stack b.
Proof.
  rewrite inc_halfmove_eq. destruct (hm_stack b) as [|old rest] eqn:E; [discriminate|].
  destruct (N.eqb_spec old U8_MAX) as [|Hne]; [discriminate|].
  intro H. inversion H. subst b'. cbn [hd]. fields_done.
Qed.

Lemma pop_halfmove_spec b b' : pop_halfmove b = Ok b' ->
  hm_stack b = hd 0 (hm_stack b) :: hm_stack b'
  /\ hash b' = hash b
  /\ white b' = white b /\ black b' = black b /\ turn b' = turn b /\ ep_stack b' = ep_stack b
  /\ cr_stack b' = cr_stack b /\ fullmove b' = fullmove b /\ pos_count b' = pos_count b
  /\ seen_stack b' = seen_stack b.
Proof.
  unfold pop_halfmove. destruct (hm_stack b) as [|old rest] eqn:E; [discriminate|].
  intro H. inversion H. subst b'. cbn [hd]. fields_done.
Qed.

Lemma toggle_turn_spec b :
  turn (toggle_turn b) = opp_c (turn b)
  /\ hash (toggle_turn b) = hash b
  /\ white (toggle_turn b) = white b /\ black (toggle_turn b) = black b
  /\ ep_stack (toggle_turn b) = ep_stack b /\ cr_stack (toggle_turn b) = cr_stack b
  /\ hm_stack (toggle_turn b) = hm_stack b /\ fullmove (toggle_turn b) = fullmove b
  /\ pos_count (toggle_turn b) = pos_count b /\ seen_stack (toggle_turn b) = seen_stack b.
Proof. fields_done. Qed.

Lemma toggle_turn_involutive b : toggle_turn (toggle_turn b) = b.
Proof. destruct b as [w bl t e c h f pc ss hs]. unfold toggle_turn. bsimpl. rewrite opp_c_involutive. reflexivity. Qed.

Lemma count_position_spec b n b' : count_position b = Ok (n, b') ->
  n = match cnt_get (pos_count b) (hash b, turn b) with None => 1 | Some v => v + 1 end
  /\ cnt_get (pos_count b) (hash b, turn b) <> Some U8_MAX
  /\ pos_count b' = cnt_set (pos_count b) (hash b, turn b) n
  /\ seen_stack b' = n :: seen_stack b
  /\ hash b' = hash b
  /\ white b' = white b /\ black b' = black b /\ turn b' = turn b /\ ep_stack b' = ep_stack b
  /\ cr_stack b' = cr_stack b /\ hm_stack b' = hm_stack b /\ fullmove b' = fullmove b.
Proof.
  unfold count_position. destruct (cnt_get (pos_count b) (hash b, turn b)) as [v|] eqn:E.
  - destruct (N.eqb_spec v U8_MAX) as [|Hne]; [discriminate|].
    intro H. inversion H. subst n b'. fields_done.
  - intro H. inversion H. subst n b'. fields_done.
Qed.

Lemma uncount_position_spec b n b' : uncount_position b = Ok (n, b') ->
  (exists v, cnt_get (pos_count b) (hash b, turn b) = Some v /\ v <> 0 /\ n = v - 1)
  /\ pos_count b' = cnt_set (pos_count b) (hash b, turn b) n
  /\ seen_stack b' = tl (seen_stack b)
  /\ hash b' = hash b
  /\ white b' = white b /\ black b' = black b /\ turn b' = turn b /\ ep_stack b' = ep_stack b
  /\ cr_stack b' = cr_stack b /\ hm_stack b' = hm_stack b /\ fullmove b' = fullmove b.
Proof.
  unfold uncount_position. destruct (cnt_get (pos_count b) (hash b, turn b)) as [v|] eqn:E; [|discriminate].
  destruct (N.eqb_spec v 0) as [|Hne]; [discriminate|].
  intro H. inversion H. subst n b'. split; [exists v; tauto|]. fields_done.
Qed.

(* ------------------------------------------------------------------ *)
(** * the stack operations preserve the piece-set invariant *)

Lemma push_ep_WF b t b' : push_ep T b t = Ok b' -> WF b -> WF b'.
Proof. intros H. apply push_ep_spec in H. apply WF_same_sets; tauto. Qed.
Lemma pop_ep_WF b t b' : pop_ep T b = Ok (t, b') -> WF b -> WF b'.
Proof. intros H. apply pop_ep_spec in H. apply WF_same_sets; tauto. Qed.
Lemma lose_rights_WF b l b' : lose_rights T b l = Ok b' -> WF b -> WF b'.
Proof. intros H. apply lose_rights_spec in H. apply WF_same_sets; tauto. Qed.
Lemma pop_rights_WF b b' : pop_rights T b = Ok b' -> WF b -> WF b'.
Proof. intros H. apply pop_rights_spec in H. apply WF_same_sets; tauto. Qed.
Lemma preserve_rights_WF b b' : preserve_rights b = Ok b' -> WF b -> WF b'.
Proof. intros H. apply preserve_rights_spec in H. apply WF_same_sets; tauto. Qed.
Lemma inc_fullmove_WF b b' : inc_fullmove b = Ok b' -> WF b -> WF b'.
Proof. intros H. apply inc_fullmove_spec in H. apply WF_same_sets; tauto. Qed.
Lemma dec_fullmove_WF b b' : dec_fullmove b = Ok b' -> WF b -> WF b'.
Proof. intros H. apply dec_fullmove_spec in H. apply WF_same_sets; tauto. Qed.
Lemma inc_halfmove_WF b b' : inc_halfmove b = Ok b' -> WF b -> WF b'.
Proof. intros H. apply inc_halfmove_spec in H. apply WF_same_sets; tauto. Qed.
Lemma pop_halfmove_WF b b' : pop_halfmove b = Ok b' -> WF b -> WF b'.
Proof. intros H. apply pop_halfmove_spec in H. apply WF_same_sets; tauto. Qed.
Lemma reset_halfmove_WF b : WF b -> WF (reset_halfmove b).
Proof. apply WF_same_sets; reflexivity. Qed.
Lemma push_halfmove_WF b n : WF b -> WF (push_halfmove b n).
Proof. apply WF_same_sets; reflexivity. Qed.
Lemma toggle_turn_WF b : WF b -> WF (toggle_turn b).
Proof. apply WF_same_sets; reflexivity. Qed.
Lemma count_position_WF b n b' : count_position b = Ok (n, b') -> WF b -> WF b'.
Proof. intros H. apply count_position_spec in H. apply WF_same_sets; tauto. Qed.
Lemma uncount_position_WF b n b' : uncount_position b = Ok (n, b') -> WF b -> WF b'.
Proof. intros H. apply uncount_position_spec in H. apply WF_same_sets; tauto. Qed.

(* all of them at once *)
Lemma stack_ops_WF b : WF b ->
  (forall t b', push_ep T b t = Ok b' -> WF b')
  /\ (forall t b', pop_ep T b = Ok (t, b') -> WF b')
  /\ (forall l b', lose_rights T b l = Ok b' -> WF b')
  /\ (forall b', pop_rights T b = Ok b' -> WF b')
  /\ (forall b', preserve_rights b = Ok b' -> WF b')
  /\ (forall b', inc_fullmove b = Ok b' -> WF b')
  /\ (forall b', dec_fullmove b = Ok b' -> WF b')
  /\ (forall b', inc_halfmove b = Ok b' -> WF b')
  /\ (forall b', pop_halfmove b = Ok b' -> WF b')
  /\ WF (reset_halfmove b)
  /\ (forall n, WF (push_halfmove b n))
  /\ WF (toggle_turn b)
  /\ (forall n b', count_position b = Ok (n, b') -> WF b')
  /\ (forall n b', uncount_position b = Ok (n, b') -> WF b').
Proof.
  intro W.
  split; [intros; eapply push_ep_WF; eassumption|].
  split; [intros; eapply pop_ep_WF; eassumption|].
  split; [intros; eapply lose_rights_WF; eassumption|].
  split; [intros; eapply pop_rights_WF; eassumption|].
  split; [intros; eapply preserve_rights_WF; eassumption|].
  split; [intros; eapply inc_fullmove_WF; eassumption|].
  split; [intros; eapply dec_fullmove_WF; eassumption|].
  split; [intros; eapply inc_halfmove_WF; eassumption|].
  split; [intros; eapply pop_halfmove_WF; eassumption|].
  split; [apply reset_halfmove_WF, W|].
  split; [intros; apply push_halfmove_WF, W|].
  split; [apply toggle_turn_WF, W|].
  split; [intros; eapply count_position_WF; eassumption|].
  intros; eapply uncount_position_WF; eassumption.
Qed.

(* ------------------------------------------------------------------ *)
(** * inverse pairs (structural equality of boards) *)

Lemma set_ep_set_hash_id b : set_ep (set_hash b (hash b)) (ep_stack b) = b.
Proof. destruct b; reflexivity. Qed.

Lemma push_ep_pop_ep b t b' : push_ep T b t = Ok b' -> pop_ep T b' = Ok (t, b).
Proof.
  rewrite push_ep_eq. destruct (ep_stack b) as [|prev rest] eqn:E; [discriminate|].
  intro H. inversion H. subst b'. clear H. rewrite pop_ep_eq. bsimpl. f_equal. f_equal.
  destruct b as [w bl tu e c h f pc ss hs]. cbn [ep_stack] in E. subst e. bunfold.
  f_equal. xor_cancel.
Qed.

Lemma lose_rights_pop_rights b l b' : lose_rights T b l = Ok b' -> pop_rights T b' = Ok b.
Proof.
  rewrite lose_rights_eq. destruct (cr_stack b) as [|old rest] eqn:E; [discriminate|].
  cbv zeta. intro H. inversion H. subst b'. clear H. rewrite pop_rights_eq. bsimpl. f_equal.
  destruct b as [w bl tu e c h f pc ss hs]. cbn [cr_stack] in E. subst c. bunfold.
  f_equal. xor_cancel.
Qed.

Lemma preserve_rights_pop_rights b b' : preserve_rights b = Ok b' -> pop_rights T b' = Ok b.
Proof.
  rewrite preserve_rights_eq. destruct (cr_stack b) as [|r rest] eqn:E; [discriminate|].
  intro H. inversion H. subst b'. clear H. rewrite pop_rights_eq. bsimpl. f_equal.
  destruct b as [w bl tu e c h f pc ss hs]. cbn [cr_stack] in E. subst c. bunfold.
  f_equal. xor_cancel.
Qed.

Lemma inc_halfmove_pop_halfmove b b' : inc_halfmove b = Ok b' -> pop_halfmove b' = Ok b.
Proof.
  rewrite inc_halfmove_eq. destruct (hm_stack b) as [|old rest] eqn:E; [discriminate|].
  destruct (old =? U8_MAX); [discriminate|].
  intro H. inversion H. subst b'. clear H. unfold pop_halfmove. bsimpl. f_equal.
  destruct b as [w bl tu e c h f pc ss hs]. cbn [hm_stack] in E. subst h. reflexivity.
Qed.

Lemma push_halfmove_pop_halfmove b n : pop_halfmove (push_halfmove b n) = Ok b.
Proof. destruct b; reflexivity. Qed.

Lemma reset_halfmove_pop_halfmove b : pop_halfmove (reset_halfmove b) = Ok b.
Proof. apply push_halfmove_pop_halfmove. Qed.

Lemma inc_fullmove_dec_fullmove b b' : inc_fullmove b = Ok b' -> dec_fullmove b' = Ok b.
Proof.
  unfold inc_fullmove. destruct (fullmove b =? FULLMOVE_MAX); [discriminate|].
  intro H. inversion H. subst b'. clear H. unfold dec_fullmove. bsimpl.
  destruct (N.eqb_spec (fullmove b + 1) 0) as [Hz|_]; [lia|].
  f_equal. replace (fullmove b + 1 - 1) with (fullmove b) by lia.
  destruct b; reflexivity.
Qed.

(* the other direction, for undo-then-redo arguments *)
Lemma pop_ep_push_ep b t b' : pop_ep T b = Ok (t, b') -> push_ep T b' t = Ok b.
Proof.
  rewrite pop_ep_eq. destruct (ep_stack b) as [|t0 [|r rest]] eqn:E; try discriminate.
  intro H. inversion H. subst t0 b'. clear H. rewrite push_ep_eq. bsimpl. f_equal.
  destruct b as [w bl tu e c h f pc ss hs]. cbn [ep_stack] in E. subst e. bunfold.
  f_equal. xor_cancel.
Qed.

Lemma pop_halfmove_push_halfmove b b' : pop_halfmove b = Ok b' ->
  push_halfmove b' (hd 0 (hm_stack b)) = b.
Proof.
  unfold pop_halfmove. destruct (hm_stack b) as [|old rest] eqn:E; [discriminate|].
  intro H. inversion H. subst b'. clear H. cbn [hd].
  destruct b as [w bl tu e c h f pc ss hs]. cbn [hm_stack] in E. subst h. reflexivity.
Qed.

Lemma dec_fullmove_inc_fullmove b b' : dec_fullmove b = Ok b' -> fullmove b <= FULLMOVE_MAX ->
  inc_fullmove b' = Ok b.
Proof.
  unfold dec_fullmove. destruct (N.eqb_spec (fullmove b) 0) as [|Hnz]; [discriminate|].
  intros H Hle. inversion H. subst b'. clear H. unfold inc_fullmove. bsimpl.
  destruct (N.eqb_spec (fullmove b - 1) FULLMOVE_MAX) as [Hz|_]; [lia|].
  f_equal. replace (fullmove b - 1 + 1) with (fullmove b) by lia.
  destruct b; reflexivity.
Qed.

End WithTable.

(* non-vacuity: a concrete table and a concrete board on which the put/remove lemmas fire *)
Definition example_table : ztable :=
  {| zp := fun p i c => 1 + piece_idx p + 6 * (i + 64 * color_idx c);
     zc := fun r => r;
     ze := fun i => 1000 + i |}.

Example put_example :
  exists b', put example_table board_new 12 Knight White = Ok b'
             /\ bget b' 12 = Some (Knight, White)
             /\ bremove example_table b' 12 = Some ((Knight, White), board_new).
Proof. eexists. split; [vm_compute; reflexivity|]. split; vm_compute; reflexivity. Qed.

Example push_pop_example :
  match push_ep example_table board_new (bit 20) with
  | Ok b' => pop_ep example_table b' = Ok (bit 20, board_new) /\ hash b' = 1020
  | _ => False
  end.
Proof. vm_compute. split; reflexivity. Qed.

Print Assumptions put_bremove.
Print Assumptions bremove_put.
Print Assumptions push_ep_pop_ep.
Print Assumptions stack_ops_WF.
