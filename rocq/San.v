(* San.v — src/chess_move/algebraic_notation.rs (model, after the D10 repair) and the
   FIDE/PGN labelling rule over the mailbox position (spec); ChessMove::to_uci and the
   UCI reader of src/game/stockfish_elo.rs.  Executable only. *)
From Coq Require Export String Ascii.
From ChessV Require Export Abs.
Open Scope string_scope.
Open Scope N_scope.

Definition file_char (i : N) : ascii := ascii_of_N (97 + i mod 8).   (* 'a'.. *)
Definition rank_char (i : N) : ascii := ascii_of_N (49 + i / 8).     (* '1'.. *)
Definition ch (a : ascii) : string := String a EmptyString.
Definition sq_str (i : N) : string := String (file_char i) (ch (rank_char i)).   (* to_algebraic *)

Definition piece_str (p : piece) : string :=
  match p with Pawn => "" | Knight => "N" | Bishop => "B" | Rook => "R" | Queen => "Q" | King => "K" end.

Definition suffix_of (e : effect) : string :=
  match e with ECheck => "+" | ECheckmate => "#" | _ => "" end.

Definition is_some {A} (o : option A) : bool := match o with Some _ => true | None => false end.

(* ---------- model of chess_move_to_algebraic_notation ---------- *)
Definition san_label (b : board) (all : list cmove) (m : cmove) (e : effect) : res string :=
  match m with
  | Castle f t =>
      if ((f =? 4) && (t =? 6)) || ((f =? 60) && (t =? 62)) then Ok ("O-O" ++ suffix_of e)
      else if ((f =? 4) && (t =? 2)) || ((f =? 60) && (t =? 58)) then Ok ("O-O-O" ++ suffix_of e)
      else Panic
  | _ =>
      let from := mv_from m in
      let to := mv_to m in
      match bget b from with
      | None => Panic
      | Some (p, _) =>
          (* get_ambiguous_moves: board.get(other.from).unwrap() for EVERY candidate *)
          if negb (forallb (fun o => is_some (bget b (mv_from o))) all) then Panic
          else
            let amb := filter (fun o =>
                          negb (mv_from o =? from) && (mv_to o =? to)
                          && match bget b (mv_from o) with Some (q, _) => piece_eqb q p | None => false end) all in
            let is_cap := is_some (mv_captures m) in
            let dis :=
              if piece_eqb p Pawn && is_cap then ch (file_char from)
              else
                let same_file := existsb (fun o => N.eqb (mv_from o mod 8) (from mod 8)) amb in
                let same_rank := existsb (fun o => N.eqb (mv_from o / 8) (from / 8)) amb in
                match same_file, same_rank with
                | true, true => sq_str from
                | true, false => ch (rank_char from)
                | false, true => ch (file_char from)
                | false, false => if is_nil amb then "" else ch (file_char from)
                end in
            let promo := match m with Promo _ _ _ pp => "=" ++ piece_str pp | _ => "" end in
            Ok (piece_str p ++ dis ++ (if is_cap then "x" else "") ++ sq_str to ++ promo ++ suffix_of e)
      end
  end.

Fixpoint san_all (b : board) (all : list cmove) (l : list (cmove * effect)) : res (list (cmove * string)) :=
  match l with
  | [] => Ok []
  | (m, e) :: rest =>
      let* s := san_label b all m e in
      let* r := san_all b all rest in
      Ok ((m, s) :: r)
  end.

(* ---------- spec: the FIDE / PGN rule over the mailbox position ---------- *)
(* file letter if it singles the piece out among the legal like-piece moves to the same
   square; otherwise the rank digit if that does; otherwise both *)
Definition spec_label (p : Rules.position) (legal : list cmove) (m : cmove) (e : effect) : string :=
  match m with
  | Castle _ t => (if (t mod 8 =? 6) then "O-O" else "O-O-O") ++ suffix_of e
  | _ =>
      let from := mv_from m in
      let to := mv_to m in
      let pc := match Rules.at_ p from with Some (q, _) => q | None => Pawn end in
      let is_cap := is_some (mv_captures m) in
      let rivals := filter (fun o =>
                       negb (mv_from o =? from) && (mv_to o =? to)
                       && match o with Castle _ _ => false | _ => true end
                       && match Rules.at_ p (mv_from o) with Some (q, _) => piece_eqb q pc | None => false end) legal in
      let dis :=
        match pc with
        | Pawn => if is_cap then ch (file_char from) else ""
        | _ =>
            if is_nil rivals then ""
            else if negb (existsb (fun o => N.eqb (mv_from o mod 8) (from mod 8)) rivals) then ch (file_char from)
            else if negb (existsb (fun o => N.eqb (mv_from o / 8) (from / 8)) rivals) then ch (rank_char from)
            else sq_str from
        end in
      let promo := match m with Promo _ _ _ pp => "=" ++ piece_str pp | _ => "" end in
      piece_str pc ++ dis ++ (if is_cap then "x" else "") ++ sq_str to ++ promo ++ suffix_of e
  end.

(* ---------- UCI ---------- *)
Definition promo_letter (p : piece) : res string :=
  match p with Queen => Ok "q" | Rook => Ok "r" | Bishop => Ok "b" | Knight => Ok "n" | _ => Panic end.

(* ChessMove::to_uci *)
Definition to_uci (m : cmove) : res string :=
  match m with
  | Promo f t _ pp => let* l := promo_letter pp in Ok (sq_str f ++ sq_str t ++ l)
  | _ => Ok (sq_str (mv_from m) ++ sq_str (mv_to m))
  end.

(* square_string_to_bitboard on a 2-character slice: ^[a-hA-H][1-8]$ else panic *)
Definition parse_square (f r : ascii) : res N :=
  let fn := N_of_ascii f in
  let rn := N_of_ascii r in
  let fl := if (97 <=? fn) && (fn <=? 104) then Some (fn - 97)
            else if (65 <=? fn) && (fn <=? 72) then Some (fn - 65) else None in
  match fl with
  | Some fi => if (49 <=? rn) && (rn <=? 56) then Ok (fi + 8 * (rn - 49)) else Panic
  | None => Panic
  end.

(* create_chess_move_from_uci *)
Definition from_uci (b : board) (s : string) : res cmove :=
  match s with
  | String f1 (String r1 (String f2 (String r2 rest))) =>
      let* from := parse_square f1 r1 in
      let* to := parse_square f2 r2 in
      let* promo := (match rest with
                     | EmptyString => Ok None
                     | String c _ =>
                         match N_of_ascii c with
                         | 113 => Ok (Some Queen) | 114 => Ok (Some Rook)
                         | 98 => Ok (Some Bishop) | 110 => Ok (Some Knight)
                         | _ => Panic
                         end
                     end) in
      match bget b from with
      | None => Panic
      | Some (pc, _) =>
          let cap := option_map fst (bget b to) in
          let* ept := peek_ep b in
          match pc, promo with
          | Pawn, Some pp => Ok (Promo from to cap pp)
          | Pawn, None => if bit to =? ept then Ok (EnPassant from to) else Ok (Std from to cap)
          | King, None =>
              if ((from =? 4) && (to =? 6)) || ((from =? 60) && (to =? 62)) then
                Ok (match turn b with White => Castle 4 6 | Black => Castle 60 62 end)
              else if ((from =? 4) && (to =? 2)) || ((from =? 60) && (to =? 58)) then
                Ok (match turn b with White => Castle 4 2 | Black => Castle 60 58 end)
              else Ok (Std from to cap)
          | _, _ => Ok (Std from to cap)
          end
      end
  | _ => Panic
  end.
