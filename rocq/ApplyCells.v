(* ApplyCells.v — what a successful move application does to every observable except the
   counters (for those see CountFrame.v): the cell map [bget b' j] on every square, the side to
   move, the en-passant stack and the castle-rights stack, per move kind; and the totality
   facts that fall out (a piece stands on the origin square, what stands on the destination).
   Proofs only.  Companion of UndoProofs.v. *)
From Coq Require Import Lia.
From ChessV Require Import Moves.
From ChessV Require Export UndoProofs.

Definition is_some {A} (o : option A) : bool := match o with Some _ => true | None => false end.

Section WithTable.
Variable T : ztable.

(* ------------------------------------------------------------------ *)
(** * Standard moves *)

Lemma std_tail_inv b2 hmv t l to p c b' :
  (let* b4 := inc_fullmove (push_halfmove b2 hmv) in
   let* b5 := push_ep T b4 t in
   let* b6 := lose_rights T b5 l in
   unwrap (put T b6 to p c)) = Ok b' ->
  exists prev er old crr,
    ep_stack b2 = prev :: er /\ cr_stack b2 = old :: crr
    /\ fullmove b2 <> FULLMOVE_MAX
    /\ put T (bump b2 hmv t (N.lxor old (N.land old l))
                (N.lxor (N.lxor (N.lxor (N.lxor (hash b2) (epk T prev)) (epk T t)) (zc T old))
                        (zc T (N.lxor old (N.land old l))))) to p c = Ok b'.
Proof.
  intro H. bstep H S4. bstep H S5. bstep H S6. apply unwrap_ok_inv in H.
  destruct (fwd_lose T _ _ _ _ _ _ _ S4 S5 S6) as (prev & er & old & crr & Eep & Ecr & ->).
  exists prev, er, old, crr. split; [exact Eep|]. split; [exact Ecr|]. split; [|exact H].
  apply inc_fullmove_spec in S4. destruct S4 as [S4 _]. exact S4.
Qed.

(* the shape of every successful standard move: two removals (the second one optional and
   agreeing with the move's capture field), then one [bump], then one put *)
Lemma apply_std_inv b from to cap b' :
  WF b -> apply_std T b from to cap = Ok b' ->
  exists p c b1 b2 hmv prev er old crr,
    bremove T b from = Some ((p, c), b1)
    /\ match cap with
       | Some cp => bremove T b1 to = Some ((cp, opp_c c), b2)
       | None => bremove T b1 to = None /\ b2 = b1
       end
    /\ hmv = (if piece_eqb p Pawn || is_some cap then 0 else hd 0 (hm_stack b) + 1)
    /\ (piece_eqb p Pawn || is_some cap = false -> hm_stack b <> [] /\ hd 0 (hm_stack b) <> U8_MAX)
    /\ ep_stack b2 = prev :: er /\ cr_stack b2 = old :: crr /\ fullmove b2 <> FULLMOVE_MAX
    /\ let t := ep_target_of p c from to in
       let l := N.lor (lost_if_moved p c from)
                      (lost_if_taken (option_map (fun cp => (cp, opp_c c)) cap) to) in
       put T (bump b2 hmv t (N.lxor old (N.land old l))
                (N.lxor (N.lxor (N.lxor (N.lxor (hash b2) (epk T prev)) (epk T t)) (zc T old))
                        (zc T (N.lxor old (N.land old l))))) to p c = Ok b'.
Proof.
  intros W H. unfold apply_std in H.
  destruct (bremove T b from) as [[[p c] b1]|] eqn:R1; [|discriminate].
  destruct (bremove T b1 to) as [[[q d] b2]|] eqn:R2.
  - destruct cap as [cp|]; cbn [option_map opt_pc_eqb] in H; [|discriminate].
    destruct (pc_eqb (q, d) (cp, opp_c c)) eqn:Epc; cbn [negb] in H; [|discriminate].
    apply pc_eqb_eq in Epc. inversion Epc; subst q d. cbn [bind] in H.
    change (reset_halfmove b2) with (push_halfmove b2 0) in H.
    destruct (std_tail_inv _ _ _ _ _ _ _ _ H) as (prev & er & old & crr & Eep & Ecr & Fm & P).
    exists p, c, b1, b2, 0, prev, er, old, crr.
    split; [reflexivity|]. split; [exact R2|].
    split; [cbn [is_some]; rewrite orb_true_r; reflexivity|].
    split; [cbn [is_some]; rewrite orb_true_r; discriminate|]. split; [exact Eep|]. split; [exact Ecr|]. split; [exact Fm|].
    exact P.
  - destruct cap as [cp|]; cbn [option_map opt_pc_eqb negb] in H; [discriminate|].
    destruct (piece_eqb p Pawn) eqn:EP.
    + cbn [bind] in H. change (reset_halfmove b1) with (push_halfmove b1 0) in H.
      destruct (std_tail_inv _ _ _ _ _ _ _ _ H) as (prev & er & old & crr & Eep & Ecr & Fm & P).
      exists p, c, b1, b1, 0, prev, er, old, crr.
      split; [reflexivity|]. split; [split; [exact R2|reflexivity]|].
      split; [rewrite EP; reflexivity|]. split; [rewrite EP; cbn [orb]; discriminate|]. split; [exact Eep|]. split; [exact Ecr|]. split; [exact Fm|].
      exact P.
    + bstep H S3. pose proof (inc_halfmove_spec _ _ S3) as (Hn & Hm & Hs & _).
      destruct (inc_halfmove_push _ _ S3) as [v Ev].
      assert (v = hd 0 (hm_stack b1) + 1).
      { rewrite Ev in Hs. cbn [push_halfmove set_hm hm_stack] in Hs. inversion Hs. reflexivity. }
      subst a v.
      destruct (std_tail_inv _ _ _ _ _ _ _ _ H) as (prev & er & old & crr & Eep & Ecr & Fm & P).
      destruct (bremove_frame T _ _ _ _ _ R1) as (_ & _ & _ & Fd & _).
      rewrite Fd in *.
      exists p, c, b1, b1, (hd 0 (hm_stack b) + 1), prev, er, old, crr.
      split; [reflexivity|]. split; [split; [exact R2|reflexivity]|].
      split; [rewrite EP; reflexivity|]. split; [intros _; split; assumption|]. split; [exact Eep|]. split; [exact Ecr|]. split; [exact Fm|].
      exact P.
Qed.

(* the cell map, side to move, en-passant and rights stacks after a standard move *)
Theorem apply_std_cells b from to cap b' :
  WF b -> to < 64 -> apply_std T b from to cap = Ok b' ->
  exists p c old crr,
    bget b from = Some (p, c)
    /\ (if to =? from then None else bget b to) = option_map (fun cp => (cp, opp_c c)) cap
    /\ (forall j, bget b' j = if j =? to then Some (p, c) else if j =? from then None else bget b j)
    /\ turn b' = turn b
    /\ ep_stack b' = ep_target_of p c from to :: ep_stack b
    /\ cr_stack b = old :: crr
    /\ cr_stack b' =
         N.lxor old (N.land old (N.lor (lost_if_moved p c from)
                                       (lost_if_taken (option_map (fun cp => (cp, opp_c c)) cap) to)))
         :: cr_stack b
    /\ hm_stack b' = (if piece_eqb p Pawn || is_some cap then 0 else hd 0 (hm_stack b) + 1) :: hm_stack b
    /\ fullmove b' = fullmove b + 1
    /\ pos_count b' = pos_count b /\ seen_stack b' = seen_stack b.
Proof.
  intros W Lt H.
  destruct (apply_std_inv _ _ _ _ _ W H)
    as (p & c & b1 & b2 & hmv & prev & er & old & crr & R1 & R2 & Hh & Hh0 & Eep & Ecr & Fm & P).
  cbv zeta in P.
  pose proof (bremove_WF T _ _ _ _ _ R1 W) as W1.
  destruct (bremove_bget T _ _ _ _ _ R1 W) as [K1 G1].
  destruct (bremove_frame T _ _ _ _ _ R1) as (Fa1 & Fb1 & Fc1 & Fd1 & Fe1 & Ff1 & Fg1 & _).
  assert (X : WF b2 /\ bget b1 to = option_map (fun cp => (cp, opp_c c)) cap
              /\ (forall j, bget b2 j = if j =? to then None else bget b1 j)
              /\ turn b2 = turn b1 /\ ep_stack b2 = ep_stack b1 /\ cr_stack b2 = cr_stack b1
              /\ hm_stack b2 = hm_stack b1 /\ fullmove b2 = fullmove b1
              /\ pos_count b2 = pos_count b1 /\ seen_stack b2 = seen_stack b1).
  { destruct cap as [cp|].
    - destruct (bremove_bget T _ _ _ _ _ R2 W1) as [K2 G2].
      destruct (bremove_frame T _ _ _ _ _ R2) as (Fa2 & Fb2 & Fc2 & Fd2 & Fe2 & Ff2 & Fg2 & _).
      split; [apply (bremove_WF T _ _ _ _ _ R2 W1)|]. split; [exact K2|]. split; [exact G2|].
      repeat split; assumption.
    - destruct R2 as [R2 ->]. apply bremove_none_iff in R2.
      split; [exact W1|]. split; [exact R2|].
      split; [intro j; destruct (N.eqb_spec j to) as [->|_]; [exact R2|reflexivity]|].
      repeat split; reflexivity. }
  destruct X as (W2 & K2 & G2 & Fa2 & Fb2 & Fc2 & Fd2 & Fe2 & Ff2 & Fg2).
  match type of P with put T (bump b2 ?a1 ?a2 ?a3 ?a4) _ _ _ = _ =>
    pose proof (bump_WF b2 a1 a2 a3 a4 W2) as W6 end.
  pose proof (put_bget T _ _ _ _ _ P W6 Lt) as G'.
  destruct (put_frame T _ _ _ _ _ P) as (Fa & Fb & Fc & Fd & Fe & Ff & Fg & _).
  cbn [bump turn ep_stack cr_stack hm_stack fullmove pos_count seen_stack] in Fa, Fb, Fc, Fd, Fe, Ff, Fg.
  exists p, c, old, crr.
  split; [exact K1|].
  split; [rewrite <- K2; symmetry; apply G1|].
  split.
  { intro j. rewrite G'. destruct (j =? to) eqn:Ej; [reflexivity|].
    rewrite bget_bump, G2, Ej. apply G1. }
  split; [congruence|]. split; [congruence|]. split; [congruence|]. split; [congruence|].
  split.
  { rewrite Fd, Fd2, Fd1, Hh. reflexivity. }
  split; [congruence|]. split; congruence.
Qed.


(* the position key after a standard move, as an XOR over the key before *)
Theorem apply_std_hash b from to cap b' :
  WF b -> apply_std T b from to cap = Ok b' ->
  exists p c old,
    bget b from = Some (p, c) /\ hd 0 (cr_stack b) = old /\
    let t := ep_target_of p c from to in
    let l := N.lor (lost_if_moved p c from) (lost_if_taken (option_map (fun cp => (cp, opp_c c)) cap) to) in
    hash b' =
      N.lxor (N.lxor (N.lxor (N.lxor (N.lxor (N.lxor (N.lxor (hash b)
        (zp T p from c))
        (match cap with Some cp => zp T cp to (opp_c c) | None => 0 end))
        (epk T (hd 0 (ep_stack b)))) (epk T t))
        (zc T old)) (zc T (N.lxor old (N.land old l))))
        (zp T p to c).
Proof.
  intros W H.
  destruct (apply_std_inv _ _ _ _ _ W H)
    as (p & c & b1 & b2 & hmv & prev & er & old & crr & R1 & R2 & _ & _ & Eep & Ecr & _ & P).
  cbv zeta in P. exists p, c, old.
  destruct (bremove_some_inv T _ _ _ _ _ R1) as [K1 _].
  destruct (bremove_frame T _ _ _ _ _ R1) as (_ & Fb1 & Fc1 & _).
  pose proof (bremove_hash T _ _ _ _ _ R1) as H1'.
  pose proof (put_hash T _ _ _ _ _ P) as HP. cbn [bump hash] in HP.
  split; [exact K1|]. cbv zeta.
  destruct cap as [cp|].
  - destruct (bremove_frame T _ _ _ _ _ R2) as (_ & Fb2 & Fc2 & _).
    pose proof (bremove_hash T _ _ _ _ _ R2) as H2'.
    rewrite <- Fc1, <- Fc2, <- Fb1, <- Fb2, Ecr, Eep. cbn [hd]. split; [reflexivity|].
    rewrite HP, H2', H1'. xor_cancel.
  - destruct R2 as [_ ->].
    rewrite <- Fc1, <- Fb1, Ecr, Eep. cbn [hd]. split; [reflexivity|].
    rewrite HP, H1'. xor_cancel.
Qed.

(* ------------------------------------------------------------------ *)
(** * Promotions *)

Theorem apply_promo_cells b from to cap pp b' :
  WF b -> to < 64 -> apply_promo T b from to cap pp = Ok b' ->
  exists c old crr,
    bget b from = Some (Pawn, c)
    /\ (if to =? from then None else bget b to) = option_map (fun cp => (cp, opp_c c)) cap
    /\ (forall j, bget b' j = if j =? to then Some (pp, c) else if j =? from then None else bget b j)
    /\ turn b' = turn b
    /\ ep_stack b' = ep_target_of Pawn c from to :: ep_stack b
    /\ cr_stack b = old :: crr
    /\ cr_stack b' =
         N.lxor old (N.land old (N.lor (lost_if_moved Pawn c from)
                                       (lost_if_taken (option_map (fun cp => (cp, opp_c c)) cap) to)))
         :: cr_stack b
    /\ hm_stack b' = 0 :: hm_stack b
    /\ fullmove b' = fullmove b + 1
    /\ pos_count b' = pos_count b /\ seen_stack b' = seen_stack b.
Proof.
  intros W Lt H. unfold apply_promo in H. bstep H S1.
  destruct (apply_std_ok T _ _ _ _ _ W Lt S1) as [W1 _].
  destruct (apply_std_cells _ _ _ _ _ W Lt S1)
    as (p & c & old & crr & K & Kc & G & Fa & Fb & Ec & Fc & Fd & Fe & Ff & Fg).
  destruct (bremove T a to) as [[[q d] b2]|] eqn:R2; [|discriminate].
  destruct (bremove_bget T _ _ _ _ _ R2 W1) as [K2 G2].
  rewrite G, N.eqb_refl in K2. inversion K2; subst q d. clear K2.
  destruct p; try discriminate.
  pose proof (bremove_WF T _ _ _ _ _ R2 W1) as W2.
  pose proof (put_bget T _ _ _ _ _ H W2 Lt) as G'.
  destruct (bremove_frame T _ _ _ _ _ R2) as (Ja & Jb & Jc & Jd & Je & Jf & Jg & _).
  destruct (put_frame T _ _ _ _ _ H) as (Ia & Ib & Ic & Id & Ie & If' & Ig & _).
  exists c, old, crr.
  split; [exact K|]. split; [exact Kc|].
  split.
  { intro j. rewrite G'. destruct (j =? to) eqn:Ej; [reflexivity|]. rewrite G2, Ej, G, Ej. reflexivity. }
  cbn [piece_eqb orb] in Fd.
  repeat split; congruence.
Qed.

(* ------------------------------------------------------------------ *)
(** * En passant *)

Lemma ep_captured_square_neq c to : to < 64 -> ep_captured_square c to <> to.
Proof.
  intro Lt. unfold ep_captured_square. destruct c.
  - destruct (N.leb_spec 56 to); lia.
  - destruct (N.ltb_spec to 8); lia.
Qed.

Theorem apply_ep_cells b from to b' :
  WF b -> to < 64 -> apply_ep T b from to = Ok b' ->
  exists c v old crr,
    bget b from = Some (Pawn, c)
    /\ ep_captured_square c to <> from /\ ep_captured_square c to <> to
    /\ bget b (ep_captured_square c to) = Some v
    /\ (if to =? from then None else bget b to) = None
    /\ (forall j, bget b' j = if j =? to then Some (Pawn, c) else if j =? from then None
                              else if j =? ep_captured_square c to then None else bget b j)
    /\ turn b' = turn b
    /\ ep_stack b' = 0 :: ep_stack b
    /\ cr_stack b = old :: crr
    /\ cr_stack b' = old :: cr_stack b
    /\ hm_stack b' = 0 :: hm_stack b
    /\ fullmove b' = fullmove b + 1
    /\ pos_count b' = pos_count b /\ seen_stack b' = seen_stack b.
Proof.
  intros W Lt H. unfold apply_ep in H.
  destruct (bremove T b from) as [[[p c] b1]|] eqn:R1; [|discriminate].
  destruct (piece_eqb p Pawn) eqn:Ep; cbn [negb] in H; [|discriminate].
  apply piece_eqb_eq in Ep. subst p.
  destruct (bremove T b1 (ep_captured_square c to)) as [[v b2]|] eqn:R2; [|discriminate].
  destruct v as [q d].
  pose proof (bremove_WF T _ _ _ _ _ R1 W) as W1.
  pose proof (bremove_WF T _ _ _ _ _ R2 W1) as W2.
  destruct (bremove_bget T _ _ _ _ _ R1 W) as [K1 G1].
  destruct (bremove_bget T _ _ _ _ _ R2 W1) as [K2 G2].
  rewrite G1 in K2.
  destruct (N.eqb_spec (ep_captured_square c to) from) as [Ecs|Ncs]; [discriminate|].
  change (reset_halfmove b2) with (push_halfmove b2 0) in H.
  bstep H S4. bstep H S5. bstep H S6.
  destruct (fwd_preserve T _ _ _ _ _ _ S4 S5 S6) as (prev & er & old & crr & Eep & Ecr & ->).
  match type of H with put T (bump b2 ?a1 ?a2 ?a3 ?a4) _ _ _ = _ =>
    pose proof (bump_WF b2 a1 a2 a3 a4 W2) as W6 end.
  pose proof (put_bget T _ _ _ _ _ H W6 Lt) as G'.
  pose proof (proj1 (put_ok_iff T _ to Pawn c W6) (ex_intro _ _ H)) as Free.
  rewrite bget_bump, G2, G1 in Free.
  pose proof (ep_captured_square_neq c to Lt) as Nto.
  rewrite (proj2 (N.eqb_neq to (ep_captured_square c to))) in Free by (apply not_eq_sym; exact Nto).
  destruct (bremove_frame T _ _ _ _ _ R1) as (Fa1 & Fb1 & Fc1 & Fd1 & Fe1 & Ff1 & Fg1 & _).
  destruct (bremove_frame T _ _ _ _ _ R2) as (Fa2 & Fb2 & Fc2 & Fd2 & Fe2 & Ff2 & Fg2 & _).
  destruct (put_frame T _ _ _ _ _ H) as (Fa & Fb & Fc & Fd & Fe & Ff & Fg & _).
  cbn [bump turn ep_stack cr_stack hm_stack fullmove pos_count seen_stack] in Fa, Fb, Fc, Fd, Fe, Ff, Fg.
  exists c, (q, d), old, crr.
  split; [exact K1|]. split; [exact Ncs|]. split; [exact Nto|]. split; [exact K2|].
  split; [exact Free|].
  split.
  { intro j. rewrite G'. destruct (j =? to) eqn:Ej; [reflexivity|].
    rewrite bget_bump, G2, G1.
    destruct (j =? from); destruct (j =? ep_captured_square c to); reflexivity. }
  repeat split; congruence.
Qed.

(* ------------------------------------------------------------------ *)
(** * Castling *)

Theorem apply_castle_cells b from to b' :
  WF b -> apply_castle T b from to = Ok b' ->
  exists c rf rt old crr,
    castle_shape from to = Ok (c, rf, rt)
    /\ bget b from = Some (King, c) /\ bget b to = None
    /\ bget b rf = Some (Rook, c) /\ bget b rt = None
    /\ NoDup [from; to; rf; rt]
    /\ (forall j, bget b' j = if j =? rt then Some (Rook, c) else if j =? rf then None
                              else if j =? to then Some (King, c) else if j =? from then None
                              else bget b j)
    /\ turn b' = turn b
    /\ ep_stack b' = 0 :: ep_stack b
    /\ cr_stack b = old :: crr
    /\ cr_stack b' =
         N.lxor old (N.land old (match c with White => N.lor WK WQ | Black => N.lor BK BQ end))
         :: cr_stack b
    /\ hm_stack b' = (hd 0 (hm_stack b) + 1) :: hm_stack b
    /\ fullmove b' = fullmove b + 1
    /\ pos_count b' = pos_count b /\ seen_stack b' = seen_stack b.
Proof.
  intros W H. unfold apply_castle in H.
  destruct (castle_shape from to) as [[[c rf] rt]| |] eqn:Es; cbn [bind] in H; try discriminate.
  destruct (opt_pc_eqb (bget b from) (Some (King, c))) eqn:C1; cbn [negb] in H; [|discriminate].
  destruct (is_none (bget b to)) eqn:C2; cbn [negb] in H; [|discriminate].
  destruct (opt_pc_eqb (bget b rf) (Some (Rook, c))) eqn:C3; cbn [negb] in H; [|discriminate].
  destruct (is_none (bget b rt)) eqn:C4; cbn [negb] in H; [|discriminate].
  apply opt_pc_eqb_eq in C1, C3. apply is_none_true in C2, C4.
  destruct (castle_shape_inv _ _ _ _ _ (bget_lt64 b from _ W C1) Es) as (Lto & Lrf & Lrt & Nrr).
  bstep H S1. destruct (remove_unwrap_inv T _ _ _ S1) as [[p1 c1] R1]. clear S1.
  bstep H S2. apply unwrap_ok_inv in S2.
  bstep H S3. destruct (remove_unwrap_inv T _ _ _ S3) as [[p3 c3] R3]. clear S3.
  bstep H S4. apply unwrap_ok_inv in S4.
  bstep H S5. pose proof (inc_halfmove_spec _ _ S5) as (_ & _ & Hs & _).
  destruct (inc_halfmove_push _ _ S5) as [v Ev].
  assert (v = hd 0 (hm_stack a2) + 1).
  { rewrite Ev in Hs. cbn [push_halfmove set_hm hm_stack] in Hs. inversion Hs. reflexivity. }
  subst a3 v. clear S5 Hs.
  bstep H S6. bstep H S7.
  destruct (fwd_lose T _ _ _ _ _ _ _ S6 S7 H) as (prev & er & old & crr & Eep & Ecr & ->).
  (* the cell maps of the four piece operations *)
  assert (N1 : from <> to) by (intros ->; congruence).
  assert (N2 : from <> rf) by (intros ->; congruence).
  assert (N3 : from <> rt) by (intros ->; congruence).
  assert (N4 : to <> rf) by (intros ->; congruence).
  pose proof (bremove_WF T _ _ _ _ _ R1 W) as W1.
  destruct (bremove_bget T _ _ _ _ _ R1 W) as [_ G1].
  pose proof (put_WF T _ _ _ _ _ S2 W1 Lto) as W2.
  pose proof (put_bget T _ _ _ _ _ S2 W1 Lto) as G2.
  pose proof (bremove_WF T _ _ _ _ _ R3 W2) as W3.
  destruct (bremove_bget T _ _ _ _ _ R3 W2) as [_ G3].
  pose proof (put_bget T _ _ _ _ _ S4 W3 Lrt) as G4.
  assert (N5 : to <> rt).
  { intros ->. pose proof (proj1 (put_ok_iff T _ rt Rook c W3) (ex_intro _ _ S4)) as Y.
    rewrite G3, G2 in Y. revert Y. eqb_simp. discriminate. }
  destruct (bremove_frame T _ _ _ _ _ R1) as (Fa1 & Fb1 & Fc1 & Fd1 & Fe1 & Ff1 & Fg1 & _).
  destruct (put_frame T _ _ _ _ _ S2) as (Fa2 & Fb2 & Fc2 & Fd2 & Fe2 & Ff2 & Fg2 & _).
  destruct (bremove_frame T _ _ _ _ _ R3) as (Fa3 & Fb3 & Fc3 & Fd3 & Fe3 & Ff3 & Fg3 & _).
  destruct (put_frame T _ _ _ _ _ S4) as (Fa4 & Fb4 & Fc4 & Fd4 & Fe4 & Ff4 & Fg4 & _).
  exists c, rf, rt, old, crr.
  split; [reflexivity|]. split; [exact C1|]. split; [exact C2|]. split; [exact C3|]. split; [exact C4|].
  split.
  { repeat constructor; cbn [In]; intuition congruence. }
  split.
  { intro j. rewrite bget_bump, G4. destruct (j =? rt); [reflexivity|].
    rewrite G3. destruct (j =? rf); [reflexivity|].
    rewrite G2. destruct (j =? to); [reflexivity|]. apply G1. }
  cbn [bump turn ep_stack cr_stack hm_stack fullmove pos_count seen_stack].
  repeat split; congruence.
Qed.

(* ------------------------------------------------------------------ *)
(** * All kinds at once: the squares a move can change *)

Definition ep_victim_sq (m : cmove) (b : board) : list N :=
  match m with
  | EnPassant f t => match bget b f with Some (_, c) => [ep_captured_square c t] | None => [] end
  | _ => []
  end.

Definition castle_rook_sqs (m : cmove) : list N :=
  match m with
  | Castle f t => match castle_shape f t with Ok (_, rf, rt) => [rf; rt] | _ => [] end
  | _ => []
  end.

(* every square other than from / to / en-passant victim / castling rook squares is untouched,
   and the origin square is empty afterwards unless it is also the destination *)
Theorem apply_move_frame_cells m b b' :
  WF b -> mv_to m < 64 -> apply_move T m b = Ok b' ->
  (forall j, j <> mv_from m -> j <> mv_to m -> ~ In j (ep_victim_sq m b) -> ~ In j (castle_rook_sqs m) ->
             bget b' j = bget b j)
  /\ (mv_from m <> mv_to m -> bget b' (mv_from m) = None)
  /\ (exists p c, bget b' (mv_to m) = Some (p, c) /\ exists q, bget b (mv_from m) = Some (q, c))
  /\ turn b' = turn b.
Proof.
  intros W Lt H. destruct m as [f t cap|f t cap pp|f t|f t];
    cbn [apply_move mv_from mv_to ep_victim_sq castle_rook_sqs] in *.
  - destruct (apply_std_cells _ _ _ _ _ W Lt H) as (p & c & old & crr & K & _ & G & Ft & _).
    split; [intros j J1 J2 _ _; rewrite G; apply N.eqb_neq in J1, J2; rewrite J1, J2; reflexivity|].
    split; [intro J; rewrite G, N.eqb_refl; apply N.eqb_neq in J; rewrite J; reflexivity|].
    split; [|exact Ft]. exists p, c. rewrite G, N.eqb_refl. split; [reflexivity|]. exists p. exact K.
  - destruct (apply_promo_cells _ _ _ _ _ _ W Lt H) as (c & old & crr & K & _ & G & Ft & _).
    split; [intros j J1 J2 _ _; rewrite G; apply N.eqb_neq in J1, J2; rewrite J1, J2; reflexivity|].
    split; [intro J; rewrite G, N.eqb_refl; apply N.eqb_neq in J; rewrite J; reflexivity|].
    split; [|exact Ft]. exists pp, c. rewrite G, N.eqb_refl. split; [reflexivity|]. exists Pawn. exact K.
  - destruct (apply_ep_cells _ _ _ _ W Lt H) as (c & v & old & crr & K & _ & _ & _ & _ & G & Ft & _).
    rewrite K. cbn [In].
    split.
    { intros j J1 J2 J3 _. rewrite G. apply N.eqb_neq in J1, J2. rewrite J1, J2.
      destruct (N.eqb_spec j (ep_captured_square c t)) as [->|_]; [exfalso; apply J3; left; reflexivity|].
      reflexivity. }
    split; [intro J; rewrite G, N.eqb_refl; apply N.eqb_neq in J; rewrite J; reflexivity|].
    split; [|exact Ft]. exists Pawn, c. rewrite G, N.eqb_refl. split; [reflexivity|]. exists Pawn. reflexivity.
  - destruct (apply_castle_cells _ _ _ _ W H)
      as (c & rf & rt & old & crr & Es & K1 & K2 & K3 & K4 & ND & G & Ft & _).
    rewrite Es. cbn [In].
    inversion ND as [|x1 l1 Hn1 ND1]; subst. inversion ND1 as [|x2 l2 Hn2 ND2]; subst.
    cbn [In] in Hn1, Hn2.
    split.
    { intros j J1 J2 _ J4. rewrite G.
      destruct (N.eqb_spec j rt) as [->|_]; [exfalso; apply J4; right; left; reflexivity|].
      destruct (N.eqb_spec j rf) as [->|_]; [exfalso; apply J4; left; reflexivity|].
      apply N.eqb_neq in J1, J2. rewrite J1, J2. reflexivity. }
    split.
    { intros _. rewrite G.
      destruct (N.eqb_spec f rt) as [E|_]; [exfalso; apply Hn1; right; right; left; symmetry; exact E|].
      destruct (N.eqb_spec f rf) as [E|_]; [exfalso; apply Hn1; right; left; symmetry; exact E|].
      destruct (N.eqb_spec f t) as [E|_]; [exfalso; apply Hn1; left; symmetry; exact E|].
      rewrite N.eqb_refl. reflexivity. }
    split; [|exact Ft]. exists King, c. rewrite G.
    destruct (N.eqb_spec t rt) as [E|_]; [exfalso; apply Hn2; right; left; symmetry; exact E|].
    destruct (N.eqb_spec t rf) as [E|_]; [exfalso; apply Hn2; left; symmetry; exact E|].
    rewrite N.eqb_refl. split; [reflexivity|]. exists King. exact K1.
Qed.

End WithTable.

(* ------------------------------------------------------------------ *)
(** * Non-vacuity *)

Example ex_std_cells :
  exists b', apply_std example_table demo_b 18 35 (Some Pawn) = Ok b'
    /\ bget b' 35 = Some (Knight, White) /\ bget b' 18 = None /\ bget demo_b 35 = Some (Pawn, Black).
Proof. eexists. split; [vm_compute; reflexivity|]. repeat split; vm_compute; reflexivity. Qed.

Example ex_promo_cells :
  exists b', apply_promo example_table demo_b 49 56 (Some Knight) Queen = Ok b'
    /\ bget b' 56 = Some (Queen, White) /\ bget b' 49 = None.
Proof. eexists. split; [vm_compute; reflexivity|]. repeat split; vm_compute; reflexivity. Qed.

Example ex_ep_cells :
  exists b', apply_ep example_table demo_b 36 43 = Ok b'
    /\ bget b' 43 = Some (Pawn, White) /\ bget b' 36 = None /\ bget b' 35 = None.
Proof. eexists. split; [vm_compute; reflexivity|]. repeat split; vm_compute; reflexivity. Qed.

Example ex_castle_cells :
  exists b', apply_castle example_table demo_b 4 2 = Ok b'
    /\ bget b' 2 = Some (King, White) /\ bget b' 3 = Some (Rook, White) /\ bget b' 4 = None /\ bget b' 0 = None
    /\ hd 0 (cr_stack b') = 5.
Proof. eexists. split; [vm_compute; reflexivity|]. repeat split; vm_compute; reflexivity. Qed.

Print Assumptions apply_std_cells.
Print Assumptions apply_promo_cells.
Print Assumptions apply_ep_cells.
Print Assumptions apply_castle_cells.
Print Assumptions apply_move_frame_cells.
Print Assumptions apply_std_hash.
