(* props/C13.v — C13: every legal move gets its standard algebraic notation and no two moves of
   a position share a label.  position_likeb (decidable, evaluated by the runner on the generated
   move list of every scenario state) collects the hypotheses about the candidate list. *)
From ChessV Require Import Rays MoveGen InvProofs2 SanClosed.
From ChessV Require Rules.
From Coq Require Import NArith List String.
From ChessV Require Import Abs San UciProofs SanProofs.
Open Scope N_scope.

Theorem C13_san_matches_spec : forall b all m e,
  cands_fit b all -> one_king_origin b all -> In m all -> quiet_pawn_unrivalled b all m ->
  san_label b all m e = Ok (spec_label (abstract b) all m e).
Proof. exact san_matches_spec. Qed.

Theorem C13_san_labels_nodup : forall b all m1 m2 e1 e2 s,
  legal_like b all -> In m1 all -> In m2 all ->
  san_label b all m1 e1 = Ok s -> san_label b all m2 e2 = Ok s -> m1 = m2.
Proof. exact san_labels_nodup. Qed.

Theorem C13_whole_list : forall b all l r,
  position_likeb b all = true -> (forall m e, In (m, e) l -> In m all) -> NoDup (map fst l) ->
  san_all b all l = Ok r ->
  r = map (fun me => (fst me, spec_label (abstract b) all (fst me) (snd me))) l /\ NoDup (map snd r).
Proof. exact san_c13. Qed.

Theorem C13_no_panic : forall b all m e, cands_fit b all -> In m all ->
  san_label b all m e <> Panic /\ forall err, san_label b all m e <> Err err.
Proof. exact san_label_no_panic. Qed.

Check @render_inj.
Check @dis_separates.
Check @position_likeb_spec.


(* ---- closed (SanClosed.v): for every board satisfying the reachable-state invariant ---- *)
Section C13_closed.
Variable T : ztable.
Variables rook_t bishop_t : N -> N -> N.
Hypothesis rook_t_ref : forall x o, x < 64 -> rook_t x o = rook_ref x o.
Hypothesis bishop_t_ref : forall x o, x < 64 -> bishop_t x o = bishop_ref x o.

Theorem C13_san_exact : forall b cands b1, Inv rook_t bishop_t b ->
  gen_annotated T rook_t bishop_t b (turn b) = Ok (cands, b1) ->
  b1 = b /\ NoDup (map fst cands) /\
  (forall m, In m (map fst cands) <-> In m (Rules.legal_moves (abstract b))) /\
  exists r, (san_all b1 (map fst cands) cands = Ok r) /\
    (r = map (fun me => (fst me, spec_label (abstract b) (Rules.legal_moves (abstract b)) (fst me)
                               (Rules.move_effect (abstract b) (turn b) (fst me)))) cands) /\
    NoDup (map snd r).
Proof. exact (san_exact T rook_t bishop_t rook_t_ref bishop_t_ref). Qed.
End C13_closed.
Check @generated_list_position_likeb.

Print Assumptions C13_san_matches_spec.
Print Assumptions C13_san_labels_nodup.
Print Assumptions C13_whole_list.
Print Assumptions C13_no_panic.
Print Assumptions C13_san_exact.
