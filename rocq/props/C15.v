(* props/C15.v — C15: every opening-book line is a legal sequence from the standard starting
   position (complete sweep of gen/BookLines.v, regenerated from opening_lines.txt every run);
   the trie returns exactly the continuations of the lines; every book suggestion the engine
   can draw at a book node is the from/to of exactly one legal move there. *)
From Coq Require Import NArith List Permutation.
From ChessV Require Import Game BookProofs.
From ChessV Require Rules.
Open Scope N_scope.

Theorem C15_book_lines_prefix_legal : forall ln line,
  In (ln, line) BOOK_LINES -> forall k, play_line Rules.initial_position (firstn k line) = true.
Proof. exact book_lines_prefix_legal. Qed.

Theorem C15_book_trie_is_lines : forall reorder, (forall l, Permutation (reorder l) l) ->
  forall lines h,
    NoDup (get_next_moves (create_book reorder lines) h) /\ NoDup (book_next lines h) /\
    (forall m, In m (get_next_moves (create_book reorder lines) h) <-> In m (book_next lines h)).
Proof. exact book_trie_is_lines. Qed.

Theorem C15_engine_book_move_legal : forall h bm,
  In bm (book_next BOOK h) ->
  exists q m, reach Rules.initial_position h = Some q /\ In m (Rules.legal_moves q) /\
              mv_from m = fst bm /\ mv_to m = snd bm /\
              filter (bm_match bm) (Rules.legal_moves q) = [m].
Proof. exact engine_book_move_legal. Qed.

Check @engine_select_book_choice_legal.
Check @trie_book_move_legal.
Check @book_prefix_next_legal.
Check @book_match_unique.

Print Assumptions C15_book_lines_prefix_legal.
Print Assumptions C15_book_trie_is_lines.
Print Assumptions C15_engine_book_move_legal.
Print Assumptions engine_select_book_choice_legal.
Print Assumptions trie_book_move_legal.

(* ---- closed against the RULES (C15Closed.v): whenever the rules give the side to move a legal
   move, the engine (book first, search otherwise; any random book choice) answers with a legal
   move of the rules; when they give none it answers NoAvailableMoves; it never panics.  SoundW is
   the executable wide search invariant (ReachWide.soundWb_spec), inductive along legal play. ---- *)
From ChessV Require Import Types Board Moves MoveGen Abs Search.
From ChessV Require ReachWide C15Closed.

Section C15_closed.
Variable T : ztable.
Variables rook_t bishop_t : N -> N -> N.
Hypothesis rook_t_ref : forall x o, x < 64 -> rook_t x o = Rays.rook_ref x o.
Hypothesis bishop_t_ref : forall x o, x < 64 -> bishop_t x o = Rays.bishop_ref x o.

Theorem C15_engine_always_moves : forall g choice,
  1 <= gdepth g -> ReachWide.SoundW T rook_t bishop_t (N.to_nat (gdepth g)) (gboard g) ->
  Rules.legal_moves_for (abstract (gboard g)) (turn (gboard g)) <> [] ->
  exists m, engine_select T rook_t bishop_t g choice = GOk m
            /\ In m (Rules.legal_moves_for (abstract (gboard g)) (turn (gboard g))).
Proof. exact (C15Closed.engine_always_moves T rook_t bishop_t rook_t_ref bishop_t_ref). Qed.

Theorem C15_engine_no_moves : forall g choice,
  1 <= gdepth g -> ReachWide.SoundW T rook_t bishop_t (N.to_nat (gdepth g)) (gboard g) ->
  Rules.legal_moves_for (abstract (gboard g)) (turn (gboard g)) = [] ->
  engine_select T rook_t bishop_t g choice = GSearchError NoAvailableMoves.
Proof. exact (C15Closed.engine_no_moves T rook_t bishop_t rook_t_ref bishop_t_ref). Qed.

Theorem C15_engine_never_panics : forall g choice,
  1 <= gdepth g -> ReachWide.SoundW T rook_t bishop_t (N.to_nat (gdepth g)) (gboard g) ->
  engine_select T rook_t bishop_t g choice <> GPanic.
Proof. exact (C15Closed.engine_never_panics T rook_t bishop_t rook_t_ref bishop_t_ref). Qed.
End C15_closed.

Check C15Closed.start_game_engine_moves.
Print Assumptions C15_engine_always_moves.
Print Assumptions C15_engine_no_moves.
Print Assumptions C15_engine_never_panics.

(* ---- the whole engine-vs-engine LOOP (Watch.v = make_waterfall_book_then_alpha_beta_move + the
   loop of computer_vs_computer; WatchProofs.v): from any game in the search invariant, for every
   sequence of random book choices, the loop never prints an error and never crashes, every move
   is a legal move of the rules in the position it was made in, the invariant holds at every turn,
   and it stops only with the exact verdict or at the move limit ---- *)
From ChessV Require Watch WatchProofs PvpProofs.

Section C15_loop.
Variable T : ztable.
Variables rook_t bishop_t : N -> N -> N.
Hypothesis rook_t_ref : forall x o, x < 64 -> rook_t x o = Rays.rook_ref x o.
Hypothesis bishop_t_ref : forall x o, x < 64 -> bishop_t x o = Rays.bishop_ref x o.

Theorem C15_watch_run_spec : forall limit g choices steps w,
  1 <= gdepth g -> (N.to_nat (gdepth g) <= 154)%nat ->
  ReachWide.SoundW T rook_t bishop_t (N.to_nat (gdepth g)) (gboard g) ->
  hd 0 (hm_stack (gboard g)) <= 100 ->
  fullmove (gboard g) + N.of_nat (length choices) + N.of_nat (N.to_nat (gdepth g)) < FULLMOVE_MAX ->
  Watch.watch_run T rook_t bishop_t limit g choices = (steps, w) ->
  w <> Watch.WError /\ w <> Watch.WCrash
  /\ Forall (fun mg => ReachWide.SoundW T rook_t bishop_t (N.to_nat (gdepth g)) (gboard (snd mg))) steps
  /\ Forall (fun mg => gdepth (snd mg) = gdepth g /\ hd 0 (hm_stack (gboard (snd mg))) <= 100) steps
  /\ WatchProofs.watch_chain g steps
  /\ (length steps <= length choices)%nat
  /\ (forall e, w = Watch.WOver e -> PvpProofs.ending_is (WatchProofs.last_state g steps) (Some e))
  /\ (w = Watch.WLimit -> 0 < limit /\ limit < fullmove (gboard (WatchProofs.last_state g steps))
                          /\ PvpProofs.ending_is (WatchProofs.last_state g steps) None)
  /\ (w = Watch.WRunning -> length steps = length choices /\ PvpProofs.ending_is (WatchProofs.last_state g steps) None
                      /\ ~ (0 < limit /\ limit < fullmove (gboard (WatchProofs.last_state g steps)))).
Proof. exact (WatchProofs.watch_run_spec T rook_t bishop_t rook_t_ref bishop_t_ref). Qed.
End C15_loop.

Check @WatchProofs.engine_move_spec.
Check @WatchProofs.watch_chain_legal.
Check WatchProofs.watch_start_hyps.
Check WatchProofs.watch_start_run.
Print WatchProofs.watch_chain.
Print Assumptions C15_watch_run_spec.
Print Assumptions WatchProofs.engine_move_spec.

(* ---- the human-vs-computer LOOP (Play.v, PlayProofs.v): the human's turns through the input layer,
   the engine's turns through make_waterfall...; no crash, the invariant at every turn, every step
   either a legal move of the rules (typed line accepted iff it names one; the engine moves iff the
   rules give a move) or no change at all ---- *)
From ChessV Require Play PlayProofs.

Section C15_play.
Variable T : ztable.
Variables rook_t bishop_t : N -> N -> N.
Hypothesis rook_t_ref : forall x o, x < 64 -> rook_t x o = Rays.rook_ref x o.
Hypothesis bishop_t_ref : forall x o, x < 64 -> bishop_t x o = Rays.bishop_ref x o.

Theorem C15_play_run_spec : forall player g events steps w,
  1 <= gdepth g -> ReachWide.SoundW T rook_t bishop_t (N.to_nat (gdepth g)) (gboard g) ->
  hd 0 (hm_stack (gboard g)) + N.of_nat (length events) + N.of_nat (N.to_nat (gdepth g)) < U8_MAX ->
  fullmove (gboard g) + N.of_nat (length events) + N.of_nat (N.to_nat (gdepth g)) < FULLMOVE_MAX ->
  Play.play_run T rook_t bishop_t player g events = (steps, w) ->
  w <> Play.PCrash
  /\ Forall (fun s => ReachWide.SoundW T rook_t bishop_t (N.to_nat (gdepth g)) (gboard (fst s))) steps
  /\ Forall (fun s => gdepth (fst s) = gdepth g) steps
  /\ PlayProofs.play_chain T rook_t bishop_t player g events steps
  /\ (length steps <= length events)%nat
  /\ (w = Play.PMate -> PvpProofs.ending_is (PlayProofs.last_game g steps) (Some Checkmate))
  /\ (w = Play.PStalemate -> PvpProofs.ending_is (PlayProofs.last_game g steps) (Some Stalemate))
  /\ (w = Play.PRunning -> length steps = length events /\ PlayProofs.goes_on (PlayProofs.last_game g steps)).
Proof. exact (PlayProofs.play_run_spec T rook_t bishop_t rook_t_ref bishop_t_ref). Qed.
End C15_play.

Check @PlayProofs.play_step_spec.
Check @PlayProofs.play_step_accepts_iff.
Check @PlayProofs.play_step_engine_iff.
Print PlayProofs.play_clause.
Check PlayProofs.play_start_run.
Print Assumptions C15_play_run_spec.
Print Assumptions PlayProofs.play_step_engine_iff.
