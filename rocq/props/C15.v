(* props/C15.v — C15: every opening-book line is a legal sequence from the standard starting
   position (complete sweep of gen/BookLines.v, regenerated from opening_lines.txt every run);
   the trie returns exactly the continuations of the lines; every book suggestion the engine
   can draw at a book node is the from/to of exactly one legal move there. *)
From Coq Require Import NArith List Permutation.
From ChessV Require Import Game BookProofs.
From ChessV Require Rules.
Open Scope N_scope.

Theorem C15_book_lines_prefix_legal : forall ln line,
  In (ln, line) BOOK_LINES -> forall k, play_line Rules.initial_position (firstn k line) = true.
Proof. exact book_lines_prefix_legal. Qed.

Theorem C15_book_trie_is_lines : forall reorder, (forall l, Permutation (reorder l) l) ->
  forall lines h,
    NoDup (get_next_moves (create_book reorder lines) h) /\ NoDup (book_next lines h) /\
    (forall m, In m (get_next_moves (create_book reorder lines) h) <-> In m (book_next lines h)).
Proof. exact book_trie_is_lines. Qed.

Theorem C15_engine_book_move_legal : forall h bm,
  In bm (book_next BOOK h) ->
  exists q m, reach Rules.initial_position h = Some q /\ In m (Rules.legal_moves q) /\
              mv_from m = fst bm /\ mv_to m = snd bm /\
              filter (bm_match bm) (Rules.legal_moves q) = [m].
Proof. exact engine_book_move_legal. Qed.

Check @engine_select_book_choice_legal.
Check @trie_book_move_legal.
Check @book_prefix_next_legal.
Check @book_match_unique.

Print Assumptions C15_book_lines_prefix_legal.
Print Assumptions C15_book_trie_is_lines.
Print Assumptions C15_engine_book_move_legal.
Print Assumptions engine_select_book_choice_legal.
Print Assumptions trie_book_move_legal.
