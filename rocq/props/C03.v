(* props/C03.v — C03: making a legal move yields the successor position the rules prescribe.
   move_ok b m (decidable: move_okb, evaluated by the runner on every generated move of every
   scenario state) = the shape facts every generated move has + "a held right implies king and
   rook at home" (part of the C12 invariant). *)
From Coq Require Import NArith ZArith List.
From ChessV Require Import Moves Abs WfReflect SuccProofs1 SuccProofs.
From ChessV Require Rules.
Open Scope N_scope.

Theorem C03_apply_is_successor : forall T m b b',
  WF b -> move_ok b m -> apply_move T m b = Ok b' ->
  abstract b' = Rules.successor (abstract b) m.
Proof. exact apply_is_successor. Qed.

Theorem C03_turn_unchanged : forall T m b b',
  WF b -> move_ok b m -> apply_move T m b = Ok b' -> turn b' = turn b.
Proof. exact turn_unchanged. Qed.

(* never fails for a legal move (no Err, no Panic) while the counters are in range *)
Theorem C03_apply_total : forall T m b,
  WF b -> move_ok b m -> counters_ok b -> exists b', apply_move T m b = Ok b'.
Proof. exact apply_total. Qed.

Theorem C03_move_okb_spec : forall b m, move_okb b m = true <-> move_ok b m.
Proof. exact move_okb_spec. Qed.

(* the clauses of the statement, one by one *)
Definition C03_only_captured_piece_disappears := only_captured_piece_disappears.
Definition C03_ep_removes_pawn_beside_destination := ep_removes_pawn_beside_destination.
Definition C03_castle_moves_matching_rook := castle_moves_matching_rook.
Definition C03_promotion_replaces_pawn := promotion_replaces_pawn.
Definition C03_double_step_sets_ep_target := double_step_sets_ep_target.
Definition C03_other_moves_clear_ep_target := other_moves_clear_ep_target.
Definition C03_rights_lost_exactly := rights_lost_exactly.
Definition C03_apply_then_flip_is_succ_turn := apply_then_flip_is_succ_turn.
Check @only_captured_piece_disappears.
Check @ep_removes_pawn_beside_destination.
Check @castle_moves_matching_rook.
Check @promotion_replaces_pawn.
Check @double_step_sets_ep_target.
Check @other_moves_clear_ep_target.
Check @rights_lost_exactly.

Print Assumptions C03_apply_is_successor.
Print Assumptions C03_turn_unchanged.
Print Assumptions C03_apply_total.
Print Assumptions C03_rights_lost_exactly.
Print Assumptions C03_double_step_sets_ep_target.
Print Assumptions C03_castle_moves_matching_rook.

(* the model constants equal the ones translated from the source on this run *)
From ChessV Require ConstsTie.
Check ConstsTie.rights_masks_tie.
Check ConstsTie.promotions_tie.
Check ConstsTie.search_key_arity_tie.
Check ConstsTie.clock_key_threshold_tie.
