(* props/C10.v — C10: the position counter returns the cumulative number of move sequences.
   Perft.v models count_positions (parallel root, any reduction order) and count_positions_inner;
   the theorems are relative to the model's own generator (nseq), with the bridge to Rules.perft
   conditional on C01/C03 (closed in BridgeClosed.v when present); PerftCache.v adds "any state of
   the generator's caches". *)
From Coq Require Import NArith List Permutation.
From ChessV Require Import Perft PerftSpec Cache PerftCache.
Open Scope N_scope.

Definition C10_count_inner_exact := count_inner_exact.
Definition C10_count_top_exact := count_top_exact.
Definition C10_count_top_eq_inner := count_top_eq_inner.
Definition C10_count_top_schedule_irrelevant := count_top_schedule_irrelevant.
Definition C10_reduction_order_irrelevant := reduction_order_irrelevant.
Definition C10_count_top_is_perft := count_top_is_perft.
Definition C10_count_inner_c_exact := count_inner_c_exact.
Definition C10_count_top_c_exact := count_top_c_exact.
Check @count_inner_exact.
Check @count_top_exact.
Check @count_top_schedule_irrelevant.
Check @count_top_is_perft.
Check @count_top_c_exact.

Print Assumptions C10_count_inner_exact.
Print Assumptions C10_count_top_exact.
Print Assumptions C10_count_top_schedule_irrelevant.
Print Assumptions C10_count_top_is_perft.
Print Assumptions C10_count_top_c_exact.
