(* props/C10.v — C10: the position counter returns the cumulative number of move sequences.
   Perft.v models count_positions (parallel root, any reduction order) and count_positions_inner;
   the theorems are relative to the model's own generator (nseq), with the bridge to Rules.perft
   conditional on C01/C03 (closed in BridgeClosed.v when present); PerftCache.v adds "any state of
   the generator's caches". *)
From ChessV Require Import Rays Abs InvProofs2 BridgeClosed.
From ChessV Require Rules.
From Coq Require Import NArith List Permutation.
From ChessV Require Import Perft PerftSpec Cache PerftCache.
Open Scope N_scope.

Definition C10_count_inner_exact := count_inner_exact.
Definition C10_count_top_exact := count_top_exact.
Definition C10_count_top_eq_inner := count_top_eq_inner.
Definition C10_count_top_schedule_irrelevant := count_top_schedule_irrelevant.
Definition C10_reduction_order_irrelevant := reduction_order_irrelevant.
Definition C10_count_top_is_perft := count_top_is_perft.
Definition C10_count_inner_c_exact := count_inner_c_exact.
Definition C10_count_top_c_exact := count_top_c_exact.
Check @count_inner_exact.
Check @count_top_exact.
Check @count_top_schedule_irrelevant.
Check @count_top_is_perft.
Check @count_top_c_exact.


(* ---- closed against the RULES (BridgeClosed.v): for every fair reduction order of the root results ---- *)
Section C10_closed.
Variable T : ztable.
Variables rook_t bishop_t : N -> N -> N.
Hypothesis rook_t_ref : forall x o, x < 64 -> rook_t x o = rook_ref x o.
Hypothesis bishop_t_ref : forall x o, x < 64 -> bishop_t x o = bishop_ref x o.

Theorem C10_count_positions_is_perft : forall reduce d b n b',
  fair_reduce reduce -> Inv rook_t bishop_t b ->
  count_top_gen T rook_t bishop_t reduce d b (turn b) = Ok (n, b') ->
  b' = b /\ n = sumN (map (fun k => Rules.perft k (abstract b)) (seq 1 (S d))).
Proof. exact (count_positions_is_perft T rook_t bishop_t rook_t_ref bishop_t_ref). Qed.
End C10_closed.
Check @count_top_total.
Check @count_inner_is_perft_c.

Print Assumptions C10_count_inner_exact.
Print Assumptions C10_count_top_exact.
Print Assumptions C10_count_top_schedule_irrelevant.
Print Assumptions C10_count_top_is_perft.
Print Assumptions C10_count_top_c_exact.
Print Assumptions C10_count_positions_is_perft.
Print Assumptions count_top_total.

(* the command-line driver: one generator reused across the depths 1..d *)
Check @PerftCache.cli_counts_exact.
Print Assumptions PerftCache.cli_counts_exact.
