(* props/C18.v — C18: the static evaluation is colour-symmetric, cannot overflow and stays
   strictly below every mate score for legal material; stalemate scores zero; a mate with more
   depth remaining scores strictly better for the mating side.  All table facts are re-proved
   by the kernel on gen/EvalTables.v (translated from the source every run). *)
From Coq Require Import NArith ZArith List.
From ChessV Require Import Eval EvalProofs1 EvalProofs2 EvalProofs3 BoardLemmas.
Open Scope N_scope.

Theorem C18_static : forall b d,
  WF b -> legal_material (white b) -> legal_material (black b) -> d <= 255 ->
  exists s, material_score b = Ok s /\ material_score (flip_board b) = Ok (- s)%Z /\
    sub16 BLACK_WINS (Z.of_N d) = Ok (BLACK_WINS - Z.of_N d)%Z /\
    add16 WHITE_WINS (Z.of_N d) = Ok (WHITE_WINS + Z.of_N d)%Z /\
    (BLACK_WINS - Z.of_N d < s < WHITE_WINS + Z.of_N d)%Z /\
    (Z.abs s < Z.abs (WHITE_WINS + Z.of_N d))%Z /\ (Z.abs s < Z.abs (BLACK_WINS - Z.of_N d))%Z.
Proof. exact C18_static. Qed.

Theorem C18_eval_antisymmetric : forall b s,
  queens64 b -> material_score b = Ok s -> material_score (flip_board b) = Ok (- s)%Z.
Proof. exact eval_antisymmetric. Qed.

Theorem C18_eval_bounded : forall b, legal_material (white b) -> legal_material (black b) ->
  exists s, material_score b = Ok s /\ (Z.abs s < Z.abs WHITE_WINS - 255)%Z /\ (Z.abs s < Z.abs BLACK_WINS - 255)%Z.
Proof. exact eval_bounded. Qed.

Theorem C18_index_mirror : forall i, i < 64 -> bonus_index White i = bonus_index Black (63 - i).
Proof. exact index_mirror. Qed.

Definition C18_stalemate_zero := stalemate_zero.
Definition C18_mate_depth_monotone := mate_depth_monotone.
Definition C18_mate_dominates_static := mate_dominates_static.
Definition C18_mate_scores_no_overflow := mate_scores_no_overflow.
Check @stalemate_zero.
Check @mate_depth_monotone.
Check @mate_dominates_static.

Print Assumptions C18_static.
Print Assumptions C18_eval_antisymmetric.
Print Assumptions C18_eval_bounded.
Print Assumptions C18_stalemate_zero.
Print Assumptions C18_mate_depth_monotone.
Print Assumptions C18_mate_dominates_static.
