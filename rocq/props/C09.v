(* props/C09.v — C09, generic theory: for EVERY schedule of the root tasks' cache reads and
   writes, every finished task holds the pure alpha-beta value of its root move, the cache
   stays sound, no task can get stuck, and every partial schedule extends to a complete one
   with the same answers.  Hypothesis key_det: the cache key determines the value. *)
From Coq Require Import ZArith List.
From ChessV Require Import AlphaBeta Interleave.
Open Scope Z_scope.

Definition C09_pool_schedule_independent := pool_schedule_independent.
Definition C09_pool_task_result := pool_task_result.
Definition C09_pool_results_agree := pool_results_agree.
Definition C09_pool_completion := pool_completion.
Definition C09_pool_schedule_extends := pool_schedule_extends.
Definition C09_pool_root_minimax := pool_root_minimax.
Check @pool_schedule_independent.
Check @pool_results_agree.
Check @pool_schedule_extends.
Check @pool_root_minimax.
(* the hypothesis is necessary: with the engine's original (hash, alpha, beta) key two
   schedules give different answers *)
Check ILExample.key_without_depth_refuted.

Print Assumptions C09_pool_schedule_independent.
Print Assumptions C09_pool_results_agree.
Print Assumptions C09_pool_completion.
Print Assumptions C09_pool_schedule_extends.
Print Assumptions C09_pool_root_minimax.
