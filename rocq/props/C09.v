(* props/C09.v — C09, generic theory: for EVERY schedule of the root tasks' cache reads and
   writes, every finished task holds the pure alpha-beta value of its root move, the cache
   stays sound, no task can get stuck, and every partial schedule extends to a complete one
   with the same answers.  Hypothesis key_det: the cache key determines the value. *)
From Coq Require Import ZArith List.
From ChessV Require Import AlphaBeta Interleave.
Open Scope Z_scope.

Definition C09_pool_schedule_independent := pool_schedule_independent.
Definition C09_pool_task_result := pool_task_result.
Definition C09_pool_results_agree := pool_results_agree.
Definition C09_pool_completion := pool_completion.
Definition C09_pool_schedule_extends := pool_schedule_extends.
Definition C09_pool_root_minimax := pool_root_minimax.
Check @pool_schedule_independent.
Check @pool_results_agree.
Check @pool_schedule_extends.
Check @pool_root_minimax.
(* the hypothesis is necessary: with the engine's original (hash, alpha, beta) key two
   schedules give different answers *)
Check ILExample.key_without_depth_refuted.

Print Assumptions C09_pool_schedule_independent.
Print Assumptions C09_pool_results_agree.
Print Assumptions C09_pool_completion.
Print Assumptions C09_pool_schedule_extends.
Print Assumptions C09_pool_root_minimax.

(* ---- chess instance, closed (Closed.v): the only hypotheses are the executable invariant
   Reach.Sound of the position searched, a sound initial cache (the empty one is), and that the
   64-bit key is collision-free on the boards the search visits ---- *)
From Coq Require Import NArith.
From ChessV Require Import Types Board Moves MoveGen Search Congr.
From ChessV Require Reach Closed SearchLink SearchCacheIx.
Open Scope N_scope.

Theorem C09_closed_every_schedule : forall T rook_t bishop_t depth b0 v m b1 c0 sch,
  collision_free (Closed.searched T rook_t bishop_t b0) ->
  1 <= depth -> Reach.Sound T rook_t bishop_t (N.to_nat depth) b0 ->
  search T rook_t bishop_t depth b0 = SOk (v, m, b1) ->
  Closed.cache_ok T rook_t bishop_t (Closed.searched T rook_t bishop_t b0) c0 ->
  let mx := maximize (turn b0) in
  Search.mm T rook_t bishop_t (N.to_nat depth) b0 mx = Ok v /\
  exists sch' ws,
    snd (Interleave.run_sched SearchLink.skey SearchLink.skey_eqb (sch ++ sch')
           (Interleave.root_pool board SearchLink.skey (SearchLink.children T rook_t bishop_t)
              (SearchLink.leaf T rook_t bishop_t) I16_MIN I16_MAX SearchLink.mkkey
              c0 (Nat.pred (N.to_nat depth)) (negb mx) I16_MIN I16_MAX
              (SearchLink.children T rook_t bishop_t b0)))
      = map Interleave.Ret ws /\
    v = (if mx then fold_left Z.max ws I16_MIN else fold_left Z.min ws I16_MAX).
Proof. exact Closed.C09_closed. Qed.

Check @Closed.C09_any_schedule.
Check @Closed.C09_root_minimax.
Check @Closed.cache_ok_nil.

Print Assumptions C09_closed_every_schedule.
Print Assumptions Closed.C09_any_schedule.
Print Assumptions Closed.C09_root_minimax.

(* ---- the same on the WIDE domain (ClosedWide.v, ClockCongr.v): with the half-move clock in the
   key near the move-count draw (the code after the repair of D13), key determinacy holds wherever
   no counter overflows and no third repetition is recorded ---- *)
From ChessV Require ReachWide ClockCongr ClosedWide.

Theorem C09_wide_every_schedule : forall T rook_t bishop_t depth b0 v m b1 c0 sch,
  collision_free (Closed.searched T rook_t bishop_t b0) ->
  1 <= depth -> ClosedWide.SoundC T rook_t bishop_t (N.to_nat depth) b0 ->
  search T rook_t bishop_t depth b0 = SOk (v, m, b1) ->
  ClosedWide.cache_okC T rook_t bishop_t (Closed.searched T rook_t bishop_t b0) c0 ->
  let mx := maximize (turn b0) in
  Search.mm T rook_t bishop_t (N.to_nat depth) b0 mx = Ok v /\
  exists sch' ws,
    snd (Interleave.run_sched SearchLink.skey SearchLink.skey_eqb (sch ++ sch')
           (Interleave.root_pool board SearchLink.skey (SearchLink.children T rook_t bishop_t)
              (SearchLink.leaf T rook_t bishop_t) I16_MIN I16_MAX SearchLink.mkkey
              c0 (Nat.pred (N.to_nat depth)) (negb mx) I16_MIN I16_MAX
              (SearchLink.children T rook_t bishop_t b0)))
      = map Interleave.Ret ws /\
    v = (if mx then fold_left Z.max ws I16_MIN else fold_left Z.min ws I16_MAX).
Proof. exact ClosedWide.C09_wide. Qed.

Theorem C09_key_det_clock : forall T rook_t bishop_t (S : board -> Prop) d b1 b2 alpha beta,
  collision_free S -> S b1 -> S b2 -> ClockCongr.searchable' d b1 -> ClockCongr.searchable' d b2 ->
  hash b1 = hash b2 -> maximize (turn b1) = maximize (turn b2) ->
  SearchLink.clock_tag b1 d = SearchLink.clock_tag b2 d ->
  ab_value T rook_t bishop_t d b1 alpha beta (maximize (turn b1))
  = ab_value T rook_t bishop_t d b2 alpha beta (maximize (turn b2)).
Proof. exact ClockCongr.ab_key_det_clock. Qed.

Check @ClosedWide.C09w_any_schedule.
Check @ClosedWide.C09w_root_minimax.
Check @ClosedWide.cache_okC_nil.
Check @ClosedWide.soundCb_spec.
Check ClosedWide.SoundC_demo.
Check @ClockCongr.ab_value_congr_eqclock.

Print Assumptions C09_wide_every_schedule.
Print Assumptions C09_key_det_clock.
Print Assumptions ClosedWide.C09w_any_schedule.
Print Assumptions ClosedWide.C09w_root_minimax.

(* the model constants equal the ones translated from the source on this run *)
From ChessV Require ConstsTie.
Check ConstsTie.rights_masks_tie.
Check ConstsTie.promotions_tie.
Check ConstsTie.search_key_arity_tie.
Check ConstsTie.clock_key_threshold_tie.
