(* props/C01.v — C01: generated moves are exactly the legal moves of chess.
   Proved so far (closed, no axioms): the pseudo-legal layer of the bitboard generator equals
   the rules' mailbox generation as sets without duplicates, for every board satisfying PInv
   (implied by the reachable-state invariant InvC of C12), except that the engine also emits
   castles whose king destination is attacked; those are exactly the moves the legality filter
   removes; gen_moves IS that filter of the pseudo-legal list; the filter's attack test and the
   successor it is evaluated on are exact (AttackProofs, SuccProofs).  The final assembly
   `gen_exact` (GenExact.v) is pinned at the end of this file when present. *)
From ChessV Require Import GenExact RulesNoDup.
From Coq Require Import NArith ZArith List.
From ChessV Require Import MoveGen Abs Rays GenFrame EpFrame AttackProofs SuccProofs PseudoBase PseudoProofs PseudoLink PseudoCastleSafe InvProofs2.
From ChessV Require Rules.
Open Scope N_scope.

Section C01.
Variable T : ztable.
Variables rook_t bishop_t : N -> N -> N.
Hypothesis rook_t_ref : forall x o, x < 64 -> rook_t x o = rook_ref x o.      (* C11: true of the magic tables *)
Hypothesis bishop_t_ref : forall x o, x < 64 -> bishop_t x o = bishop_ref x o.

Theorem C01_pseudo_exact : forall b c l, PInv b c -> pseudo_moves rook_t bishop_t b c = Ok l ->
  NoDup l /\ forall m, (In m l <-> In m (Rules.pseudo_legal (abstract b) c) \/ PseudoProofs.castle_into_attack b c l m).
Proof. intros b c l PI. exact (pseudo_exact rook_t bishop_t rook_t_ref bishop_t_ref b c PI l). Qed.

Theorem C01_pseudo_total : forall b c, PInv b c -> exists l, pseudo_moves rook_t bishop_t b c = Ok l.
Proof. exact (pseudo_total rook_t bishop_t). Qed.

(* the engine's extra castles are removed by the legality filter; what survives is pseudo-legal by the rules *)
Theorem C01_filter_pseudo_incl : forall b c l m, PInv b c -> pseudo_moves rook_t bishop_t b c = Ok l ->
  In m (filter (leaves_king_safe T rook_t bishop_t b c) l) -> In m (Rules.pseudo_legal (abstract b) c).
Proof. exact (filter_pseudo_incl T rook_t bishop_t rook_t_ref bishop_t_ref). Qed.

(* gen_moves is the filter of the pseudo-legal list and returns the caller's board *)
Theorem C01_gen_moves_spec : forall b c ms b', WF b -> EpFrame.ep_wf b c -> gen_moves T rook_t bishop_t b c = Ok (ms, b') ->
  b' = b /\ exists cands, pseudo_moves rook_t bishop_t b c = Ok cands /\ Forall (cand_ok T b c) cands
    /\ Forall (applicable T b) cands /\ ms = filter (leaves_king_safe T rook_t bishop_t b c) cands.
Proof. exact (gen_moves_spec T rook_t bishop_t). Qed.

(* the invariant of reachable states implies PInv *)
Theorem C01_InvC_PInv : forall b c, InvC rook_t bishop_t b c -> PInv b c.
Proof. exact (InvC_PInv rook_t bishop_t). Qed.
End C01.


(* ---- the assembled statement: C01 in full (GenExact.v) ---- *)
Section C01_closed.
Variable T : ztable.
Variables rook_t bishop_t : N -> N -> N.
Hypothesis rook_t_ref : forall x o, x < 64 -> rook_t x o = rook_ref x o.
Hypothesis bishop_t_ref : forall x o, x < 64 -> bishop_t x o = bishop_ref x o.

(* for every board satisfying the reachable-state invariant and either colour: the generator
   hands back the caller's board and a duplicate-free list whose members are exactly the legal
   moves of the rules *)
Theorem C01_gen_exact : forall b c ms b', InvC rook_t bishop_t b c ->
  gen_moves T rook_t bishop_t b c = Ok (ms, b') ->
  b' = b /\ NoDup ms /\ forall m, In m ms <-> In m (Rules.legal_moves_for (abstract b) c).
Proof. exact (gen_exact T rook_t bishop_t rook_t_ref bishop_t_ref). Qed.

Theorem C01_gen_exact_turn : forall b ms b', Inv rook_t bishop_t b ->
  gen_moves T rook_t bishop_t b (turn b) = Ok (ms, b') ->
  b' = b /\ NoDup ms /\ forall m, In m ms <-> In m (Rules.legal_moves (abstract b)).
Proof. exact (gen_exact_turn T rook_t bishop_t rook_t_ref bishop_t_ref). Qed.
End C01_closed.
Check @gen_total.
Check @gen_perm.
Check @gen_exact_magic.
Check @legal_moves_NoDup.

Print Assumptions C01_pseudo_exact.
Print Assumptions C01_pseudo_total.
Print Assumptions C01_filter_pseudo_incl.
Print Assumptions C01_gen_moves_spec.
Print Assumptions C01_InvC_PInv.
Print Assumptions C01_gen_exact.
Print Assumptions C01_gen_exact_turn.
Print Assumptions gen_total.
Print Assumptions gen_exact_magic.

(* the model constants equal the ones translated from the source on this run *)
From ChessV Require ConstsTie.
Check ConstsTie.rights_masks_tie.
Check ConstsTie.promotions_tie.
Check ConstsTie.search_key_arity_tie.
Check ConstsTie.clock_key_threshold_tie.
