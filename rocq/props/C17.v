(* props/C17.v — C17: repetition accounting.  First sentence (counts are true recurrences,
   unregistering is the inverse) proved; second sentence (a game played through the Game API
   is drawn at the third occurrence) REFUTED for the code as it is: the Game API never
   registers a position (known finding, KNOWN_FINDINGS.json). *)
From Coq Require Import NArith List.
From ChessV Require Import Eval Abs Game CountFrame CounterProofs RepetitionProofs.
Open Scope N_scope.

Theorem C17_count_returns : forall b n b', count_position b = Ok (n, b') ->
  n = occ_of (pos_count b) (bkey b) + 1 /\
  (forall k, occ_of (pos_count b') k = if key_eqb k (bkey b) then n else occ_of (pos_count b) k) /\
  seen_stack b' = n :: seen_stack b /\ same_but_counts b b'.
Proof. exact count_returns. Qed.

Theorem C17_count_uncount_inverse : forall b n b1, count_position b = Ok (n, b1) ->
  exists b2, uncount_position b1 = Ok (n - 1, b2) /\ n - 1 = occ_of (pos_count b) (bkey b) /\
    (forall k, occ_of (pos_count b2) k = occ_of (pos_count b) k) /\
    seen_stack b2 = seen_stack b /\ same_but_counts b b2.
Proof. exact count_uncount_inverse. Qed.

Definition C17_history_count := history_count.
Definition C17_registered_game_count_from_start := registered_game_count_from_start.
Definition C17_registered_game_count_collision_free := registered_game_count_collision_free.
Definition C17_third_registration_draws := third_registration_draws.
Definition C17_registered_third_occurrence_draws := registered_third_occurrence_draws.
Check @history_count.
Check @registered_game_count_from_start.
Check @registered_game_count_collision_free.
Check @third_registration_draws.

(* the finding: nothing reachable through the Game API ever registers a position, so the
   repetition branch of game_ending is dead there *)
Definition C17_refuted_game_never_registers := api_reach_never_registers.
Definition C17_refuted_api_no_repetition_draw := api_no_repetition_draw.
Definition C17_refuted_threefold_not_reported := threefold_not_reported.
Check @api_no_repetition_draw.
Check threefold_not_reported.

Print Assumptions C17_count_returns.
Print Assumptions C17_count_uncount_inverse.
Print Assumptions C17_history_count.
Print Assumptions C17_registered_game_count_collision_free.
Print Assumptions C17_third_registration_draws.
Print Assumptions C17_refuted_api_no_repetition_draw.
Print Assumptions C17_refuted_threefold_not_reported.
