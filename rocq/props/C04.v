(* props/C04.v — C04: undo restores the previous state exactly (structural equality of the
   whole model board: both piece sets with all 14 bitboards, turn, the three stacks, move
   counter, repetition map and stack, position key), to any nesting depth.  ep_ok excludes
   only an en-passant move object whose victim square does not hold an enemy pawn (never
   emitted by the generator; see undo_apply_refuted_ep). *)
From Coq Require Import NArith List.
From ChessV Require Import Moves UndoProofs TurnIndep.
Open Scope N_scope.

Theorem C04_undo_apply : forall T m b b',
  WF b -> sq_ok m -> ep_ok m b = true -> apply_move T m b = Ok b' -> undo_move T m b' = Ok b.
Proof. exact undo_apply. Qed.

Theorem C04_apply_move_WF : forall T m b b',
  WF b -> sq_ok m -> apply_move T m b = Ok b' -> WF b'.
Proof. exact apply_move_WF. Qed.

(* sequences of any length undone in reverse order *)
Theorem C04_undo_apply_seq : forall T ms b b',
  WF b -> Forall sq_ok ms -> path_ok T ms b -> apply_all T ms b = Ok b' -> undo_all T ms b' = Ok b.
Proof. exact undo_apply_seq. Qed.

(* apply m1..mn then undo mn..mk+1 gives the state after m1..mk *)
Theorem C04_undo_apply_seq_prefix : forall T ms1 ms2 b b1 b2,
  WF b -> Forall sq_ok (ms1 ++ ms2) -> path_ok T (ms1 ++ ms2) b ->
  apply_all T ms1 b = Ok b1 -> apply_all T ms2 b1 = Ok b2 -> undo_all T ms2 b2 = Ok b1.
Proof. exact undo_apply_seq_prefix. Qed.

(* with the turn toggled between plies, as the game loop and the search do *)
Theorem C04_play_unplay_seq : forall T ms b b',
  WF b -> Forall sq_ok ms -> tpath_ok T ms b -> apply_toggle_all T ms b = Ok b' ->
  untoggle_undo_all T ms b' = Ok b.
Proof. exact play_unplay_seq. Qed.

Theorem C04_undo_toggled : forall T m b b',
  WF b -> sq_ok m -> ep_ok m b = true -> apply_move T m b = Ok b' ->
  exists b5, undo_move T m (toggle_turn b') = Ok b5 /\ toggle_turn b5 = b.
Proof. exact undo_toggled. Qed.

(* the side condition is necessary *)
Check undo_apply_refuted_ep.

Print Assumptions C04_undo_apply.
Print Assumptions C04_apply_move_WF.
Print Assumptions C04_undo_apply_seq.
Print Assumptions C04_undo_apply_seq_prefix.
Print Assumptions C04_play_unplay_seq.
Print Assumptions C04_undo_toggled.
