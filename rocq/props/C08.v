(* props/C08.v — C08, generic theory (no chess): fail-soft alpha-beta with any move order,
   with a sound result cache reused across searches, equals plain minimax.  The chess instance
   (SearchLink.v, Congr.v) is pinned below when present. *)
From Coq Require Import ZArith List Permutation.
From ChessV Require Import AlphaBeta Interleave.
Open Scope Z_scope.

Definition C08_ab_fs := ab_fs.
Definition C08_ab_full_window := ab_full_window.
Definition C08_root_best := root_best.
Definition C08_root_best_max := root_best_max.
Definition C08_root_best_min := root_best_min.
Definition C08_mm_perm := mm_perm.
Definition C08_run_abp_reused := run_abp_reused.
Definition C08_run_abp_minimax := run_abp_minimax.
Check @ab_fs.
Check @ab_full_window.
Check @root_best.
Check @mm_perm.
Check @run_abp_reused.
Check @run_abp_minimax.

Print Assumptions C08_ab_fs.
Print Assumptions C08_ab_full_window.
Print Assumptions C08_root_best.
Print Assumptions C08_mm_perm.
Print Assumptions C08_run_abp_reused.
Print Assumptions C08_run_abp_minimax.

(* ---- chess instance, closed (Closed.v): for every position satisfying the executable
   reachable-state invariant Reach.Sound, the score reported by the engine's search model is the
   exact minimax value under the engine's leaf evaluation and the returned move attains it ---- *)
From Coq Require Import NArith.
From ChessV Require Import Types Board Moves MoveGen Search.
From ChessV Require Reach Closed SearchLink.
Open Scope N_scope.

Theorem C08_closed_score_is_minimax : forall T rook_t bishop_t depth b v m b1,
  1 <= depth -> Reach.Sound T rook_t bishop_t (N.to_nat depth) b ->
  search T rook_t bishop_t depth b = SOk (v, m, b1) ->
  Search.mm T rook_t bishop_t (N.to_nat depth) b (maximize (turn b)) = Ok v
  /\ (exists b2, apply_move T m b = Ok b2 /\
        Search.mm T rook_t bishop_t (Nat.pred (N.to_nat depth)) (toggle_turn b2)
                  (negb (maximize (turn b))) = Ok v)
  /\ (exists rv, Search.root_values T rook_t bishop_t (N.to_nat depth) b = Ok rv /\ In (m, v) rv /\
        forall m' v', In (m', v') rv -> if maximize (turn b) then (v' <= v)%Z else (v <= v')%Z).
Proof. exact Closed.C08_closed. Qed.

Theorem C08_closed_ab_is_generic : forall T rook_t bishop_t d b alpha beta mx,
  Reach.Sound T rook_t bishop_t d b ->
  Search.ab T rook_t bishop_t d b alpha beta mx
  = Ok (AlphaBeta.ab board (SearchLink.children T rook_t bishop_t) (SearchLink.leaf T rook_t bishop_t)
          I16_MIN I16_MAX d mx b alpha beta, b)
  /\ Search.mm T rook_t bishop_t d b mx
     = Ok (AlphaBeta.mm board (SearchLink.children T rook_t bishop_t) (SearchLink.leaf T rook_t bishop_t)
             I16_MIN I16_MAX d mx b).
Proof. exact Closed.C08_ab_is_generic. Qed.

Check @Closed.C09_cached_search_same.

Print Assumptions C08_closed_score_is_minimax.
Print Assumptions C08_closed_ab_is_generic.
Print Assumptions Closed.C09_cached_search_same.

(* the fast oracle used by the correspondence at depth >= 4 is the plain-minimax oracle *)
Theorem C08_root_values_ab_eq : forall T rook_t bishop_t d b,
  Reach.Sound T rook_t bishop_t (S d) b ->
  Search.root_values_ab T rook_t bishop_t (S d) b = Search.root_values T rook_t bishop_t (S d) b.
Proof. exact Closed.root_values_ab_eq. Qed.
Print Assumptions C08_root_values_ab_eq.

(* D13 (repaired): the cache key must carry the half-move clock near the move-count draw *)
From ChessV Require ClockKey.
Check ClockKey.key_without_clock_refuted.
Print Assumptions ClockKey.key_without_clock_refuted.

(* ---- the cache-free statement on the WIDE domain (ReachWide.v) ---- *)
From ChessV Require ReachWide.

Theorem C08_wide_score_is_minimax : forall T rook_t bishop_t depth b v m b1,
  1 <= depth -> ReachWide.SoundW T rook_t bishop_t (N.to_nat depth) b ->
  search T rook_t bishop_t depth b = SOk (v, m, b1) ->
  Search.mm T rook_t bishop_t (N.to_nat depth) b (maximize (turn b)) = Ok v
  /\ (exists b2, apply_move T m b = Ok b2 /\
        Search.mm T rook_t bishop_t (Nat.pred (N.to_nat depth)) (toggle_turn b2)
                  (negb (maximize (turn b))) = Ok v)
  /\ (exists rv, Search.root_values T rook_t bishop_t (N.to_nat depth) b = Ok rv /\ In (m, v) rv /\
        forall m' v', In (m', v') rv -> if maximize (turn b) then (v' <= v)%Z else (v <= v')%Z).
Proof. exact ReachWide.C08_wide. Qed.

Theorem C08_root_values_ab_eq_wide : forall T rook_t bishop_t d b,
  ReachWide.SoundW T rook_t bishop_t (S d) b ->
  Search.root_values_ab T rook_t bishop_t (S d) b = Search.root_values T rook_t bishop_t (S d) b.
Proof. exact ReachWide.root_values_ab_eq_wide. Qed.

Print Assumptions C08_wide_score_is_minimax.
Print Assumptions C08_root_values_ab_eq_wide.

(* ---- through any sound cache, fresh or reused, on the wide domain (ClosedWide.v) ---- *)
From ChessV Require ClosedWide.
Check @ClosedWide.C09w_cached_search_same.
Print Assumptions ClosedWide.C09w_cached_search_same.

(* the model constants equal the ones translated from the source on this run *)
From ChessV Require ConstsTie.
Check ConstsTie.rights_masks_tie.
Check ConstsTie.promotions_tie.
Check ConstsTie.search_key_arity_tie.
Check ConstsTie.clock_key_threshold_tie.
