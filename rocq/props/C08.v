(* props/C08.v — C08, generic theory (no chess): fail-soft alpha-beta with any move order,
   with a sound result cache reused across searches, equals plain minimax.  The chess instance
   (SearchLink.v, Congr.v) is pinned below when present. *)
From Coq Require Import ZArith List Permutation.
From ChessV Require Import AlphaBeta Interleave.
Open Scope Z_scope.

Definition C08_ab_fs := ab_fs.
Definition C08_ab_full_window := ab_full_window.
Definition C08_root_best := root_best.
Definition C08_root_best_max := root_best_max.
Definition C08_root_best_min := root_best_min.
Definition C08_mm_perm := mm_perm.
Definition C08_run_abp_reused := run_abp_reused.
Definition C08_run_abp_minimax := run_abp_minimax.
Check @ab_fs.
Check @ab_full_window.
Check @root_best.
Check @mm_perm.
Check @run_abp_reused.
Check @run_abp_minimax.

Print Assumptions C08_ab_fs.
Print Assumptions C08_ab_full_window.
Print Assumptions C08_root_best.
Print Assumptions C08_mm_perm.
Print Assumptions C08_run_abp_reused.
Print Assumptions C08_run_abp_minimax.
