(* props/C05.v — C05: the position key is a pure function of the position, independent of
   history; fixed, pairwise distinct, non-zero constants so that positions differing in
   exactly one component have different keys.  Statement pins only: every theorem here is
   closed by `exact` of a lemma proved elsewhere. *)
From ChessV Require Import Abs WfReflect ZobristProofs KeyHistory.
From ChessV.gen Require Import Zobrist.
From ChessV Require Rules.

(* for EVERY key table T (every build), after ANY history of board operations, moves and
   take-backs from Board::new(), the incrementally maintained key is the XOR key_of of the
   observable position *)
Theorem C05_hash_is_key_of : forall (T : ztable) (ops : list hop) (b' : board),
  Forall hop_ok ops -> hrun T ops board_new = Some b' -> hash b' = key_of T (abstract b').
Proof. exact hash_is_key_of_new. Qed.

Theorem C05_history_independent : forall (T : ztable) ops1 ops2 b1 b2,
  Forall hop_ok ops1 -> Forall hop_ok ops2 ->
  hrun T ops1 board_new = Some b1 -> hrun T ops2 board_new = Some b2 ->
  Rules.cells (abstract b1) = Rules.cells (abstract b2) ->
  Rules.prights (abstract b1) = Rules.prights (abstract b2) ->
  Rules.pep (abstract b1) = Rules.pep (abstract b2) ->
  hash b1 = hash b2.
Proof. exact histories_same_position_same_key. Qed.

Theorem C05_apply_keeps_key : forall (T : ztable) m b b',
  apply_move T m b = Ok b' -> WF b -> mv_to m < 64 -> KeyInv T b -> KeyInv T b'.
Proof. exact apply_move_KeyInv. Qed.

Theorem C05_undo_keeps_key : forall (T : ztable) m b b',
  undo_move T m b = Ok b' -> WF b -> undo_squares_ok m -> KeyInv T b -> KeyInv T b'.
Proof. exact undo_move_KeyInv. Qed.

(* the constants of THIS build (gen/Zobrist.v, regenerated every run) are non-zero and
   pairwise distinct within their class *)
Theorem C05_current_table_ok : table_ok BUILD_TABLE.
Proof. apply table_okb_ok. vm_compute. reflexivity. Qed.

Theorem C05_separates_cell : forall p1 p2 i, i < 64 ->
  Rules.at_ p1 i <> Rules.at_ p2 i ->
  (forall j, j < 64 -> j <> i -> Rules.at_ p2 j = Rules.at_ p1 j) ->
  Rules.prights p1 = Rules.prights p2 -> Rules.pep p1 = Rules.pep p2 ->
  key_of BUILD_TABLE p1 <> key_of BUILD_TABLE p2.
Proof. intros p1 p2 i. exact (key_separates_cell BUILD_TABLE p1 p2 i C05_current_table_ok). Qed.

Theorem C05_separates_rights : forall p1 p2,
  (forall j, j < 64 -> Rules.at_ p2 j = Rules.at_ p1 j) -> Rules.pep p1 = Rules.pep p2 ->
  Rules.prights p1 < 16 -> Rules.prights p2 < 16 -> Rules.prights p1 <> Rules.prights p2 ->
  key_of BUILD_TABLE p1 <> key_of BUILD_TABLE p2.
Proof. intros p1 p2. exact (key_separates_rights BUILD_TABLE p1 p2 C05_current_table_ok). Qed.

Theorem C05_separates_ep : forall p1 p2,
  (forall j, j < 64 -> Rules.at_ p2 j = Rules.at_ p1 j) -> Rules.prights p1 = Rules.prights p2 ->
  ep_wf (Rules.pep p1) -> ep_wf (Rules.pep p2) -> Rules.pep p1 <> Rules.pep p2 ->
  key_of BUILD_TABLE p1 <> key_of BUILD_TABLE p2.
Proof. intros p1 p2. exact (key_separates_ep BUILD_TABLE p1 p2 C05_current_table_ok). Qed.

Print Assumptions C05_hash_is_key_of.
Print Assumptions C05_history_independent.
Print Assumptions C05_apply_keeps_key.
Print Assumptions C05_undo_keeps_key.
Print Assumptions C05_current_table_ok.
Print Assumptions C05_separates_cell.
Print Assumptions C05_separates_rights.
Print Assumptions C05_separates_ep.
