(* props/C11.v — C11: attack geometry tables are exact for every square, occupancy and build. *)
From Coq Require Import NArith List.
From ChessV Require Import Bits Rays Magic MagicProofs MoveGen Rules GeomProofs.
From ChessV.gen Require Import Magics.
Open Scope N_scope.

(* for ANY 64 entries that pass the build script's acceptance test (mask = relevant blockers,
   shift = 64 - popcount, offsets = running sums, no destructive collision in try_make_table),
   the runtime table answers every lookup with the ray walk, for every occupancy *)
Theorem C11_rook_any_build : forall es, entries_valid rook_deltas es = true ->
  forall sq occ, sq < 64 -> magic_rook es sq occ = rook_ref sq occ.
Proof. exact rook_lookup_exact. Qed.

Theorem C11_bishop_any_build : forall es, entries_valid bishop_deltas es = true ->
  forall sq occ, sq < 64 -> magic_bishop es sq occ = bishop_ref sq occ.
Proof. exact bishop_lookup_exact. Qed.

Theorem C11_queen_any_build : forall res bes, entries_valid rook_deltas res = true ->
  entries_valid bishop_deltas bes = true ->
  forall sq occ, sq < 64 -> magic_queen res bes sq occ = N.lor (rook_ref sq occ) (bishop_ref sq occ).
Proof. exact queen_lookup_exact. Qed.

(* the lookup index never leaves the table (no Vec bounds panic) *)
Theorem C11_index_in_range : forall deltas es, entries_valid deltas es = true ->
  forall sq occ, sq < 64 -> index_in_range es (magic_index (entry_of es sq) occ) = true.
Proof. exact magic_index_in_range. Qed.

(* the 128 entries of THIS build (gen/Magics.v, regenerated every run) pass the acceptance test:
   a complete sweep of 102,400 + 5,248 blocker sets inside the kernel's VM *)
Theorem C11_current_rook_entries_valid : entries_valid rook_deltas ROOK_ENTRIES = true.
Proof. vm_cast_no_check (eq_refl true). Qed.
Theorem C11_current_bishop_entries_valid : entries_valid bishop_deltas BISHOP_ENTRIES = true.
Proof. vm_cast_no_check (eq_refl true). Qed.

Theorem C11_current_rook : forall sq occ, sq < 64 -> magic_rook ROOK_ENTRIES sq occ = rook_ref sq occ.
Proof. exact (rook_lookup_exact ROOK_ENTRIES C11_current_rook_entries_valid). Qed.
Theorem C11_current_bishop : forall sq occ, sq < 64 -> magic_bishop BISHOP_ENTRIES sq occ = bishop_ref sq occ.
Proof. exact (bishop_lookup_exact BISHOP_ENTRIES C11_current_bishop_entries_valid). Qed.

(* knights and kings: exactly the on-board L-shaped / adjacent squares, no wrap-around *)
Theorem C11_knight_table : forall i, i < 64 -> knight_targets i = offsets_bb knight_offsets i.
Proof. exact knight_targets_exact. Qed.
Theorem C11_king_table : forall i, i < 64 -> king_targets i = offsets_bb king_offsets i.
Proof. exact king_targets_exact. Qed.

Print Assumptions C11_rook_any_build.
Print Assumptions C11_bishop_any_build.
Print Assumptions C11_queen_any_build.
Print Assumptions C11_index_in_range.
Print Assumptions C11_current_rook.
Print Assumptions C11_current_bishop.
Print Assumptions C11_knight_table.
Print Assumptions C11_king_table.
