(* props/C19.v — C19: coordinate (UCI) text is standard, injective on the legal moves of a
   position, and reading it back reconstructs exactly the move rendered. *)
From ChessV Require Import Rays InvProofs2 BridgeClosed.
From Coq Require Import NArith List String.
From ChessV Require Import Bits Types Board Moves MoveGen Abs San GeomProofs UciProofs UciGen.
Open Scope N_scope.

Theorem C19_to_uci_spec : forall m, bad_promo m = false ->
  to_uci m = Ok (sq_str (mv_from m) ++ sq_str (mv_to m) ++ uci_suffix m)%string.
Proof. exact to_uci_spec. Qed.

Theorem C19_roundtrip : forall b m, fits b m ->
  exists s, to_uci m = Ok s /\ from_uci b s = Ok m.
Proof. exact uci_roundtrip. Qed.

Theorem C19_roundtrip_iff : forall b m,
  fits b m <-> exists s, to_uci m = Ok s /\ from_uci b s = Ok m.
Proof. exact uci_roundtrip_iff. Qed.

Theorem C19_injective : forall b m1 m2, fits b m1 -> fits b m2 ->
  to_uci m1 = to_uci m2 -> m1 = m2.
Proof. exact uci_injective. Qed.

(* every move the generator emits fits the board it was generated from *)
Theorem C19_gen_moves_fit : forall T rook_t bishop_t b c l b',
  gen_wf b c -> turn b = c -> gen_moves T rook_t bishop_t b c = Ok (l, b') ->
  forall m, In m l -> fits b m.
Proof. exact gen_moves_fit. Qed.

Check @gen_moves_uci_roundtrip.
Check @gen_moves_uci_injective.
Check @sq_str_spec.
Check @gen_wfb_sound.


(* ---- closed (BridgeClosed.v): every generated move of a board satisfying the invariant fits ---- *)
Section C19_closed.
Variable T : ztable.
Variables rook_t bishop_t : N -> N -> N.
Hypothesis rook_t_ref : forall x o, x < 64 -> rook_t x o = rook_ref x o.
Hypothesis bishop_t_ref : forall x o, x < 64 -> bishop_t x o = bishop_ref x o.
Theorem C19_generated_moves_fit : forall b ms b', Inv rook_t bishop_t b ->
  gen_moves T rook_t bishop_t b (turn b) = Ok (ms, b') -> forall m, In m ms -> fits b m.
Proof. exact (generated_moves_fit T rook_t bishop_t). Qed.
End C19_closed.
Check @generated_moves_uci_roundtrip.
Check @generated_moves_uci_injective.

Print Assumptions C19_to_uci_spec.
Print Assumptions C19_roundtrip_iff.
Print Assumptions C19_injective.
Print Assumptions C19_gen_moves_fit.
Print Assumptions gen_moves_uci_roundtrip.
Print Assumptions gen_moves_uci_injective.
Print Assumptions C19_generated_moves_fit.
Print Assumptions generated_moves_uci_roundtrip.
Print Assumptions generated_moves_uci_injective.
