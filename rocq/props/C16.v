(* props/C16.v — C16: move counters are faithful; the move-count draw fires exactly at 100.
   (Statements are those of CounterProofs.v / CountFrame.v; each theorem is closed by `exact`.) *)
From Coq Require Import NArith List.
From ChessV Require Import Eval Abs CountFrame CounterProofs.
From ChessV Require Rules.
Open Scope N_scope.

(* one move: the move counter advances by exactly one, the half-move clock is reset by a pawn
   move or a capture and advances by one otherwise (the history of clocks is kept for undo) *)
Theorem C16_apply_clocks : forall T m b b', apply_move T m b = Ok b' ->
  fullmove b' = fullmove b + 1 /\
  hm_stack b' = (if resets b m then 0 else top (hm_stack b) + 1) :: hm_stack b.
Proof. exact apply_clocks. Qed.

Theorem C16_undo_clocks : forall T m b' b, undo_move T m b' = Ok b ->
  fullmove b = fullmove b' - 1 /\ hm_stack b = tl (hm_stack b') /\ 0 < fullmove b' /\ hm_stack b' <> [].
Proof. exact undo_clocks. Qed.

(* whole games: move counter = start + plies; clock = plies since the last reset *)
Theorem C16_clocks_faithful : forall T ms b b',
  play T ms b = Ok b' -> Forall (fun m => mv_from m < 64) ms ->
  fullmove b' = fullmove b + N.of_nat (length ms) /\
  top (hm_stack b') = since_last (rev (reset_flags T ms b)) (top (hm_stack b)) /\
  length (hm_stack b') = (length (hm_stack b) + length ms)%nat.
Proof. exact clocks_faithful. Qed.

(* agreement with the rules' successor on both clock fields *)
Theorem C16_clocks_agree_with_rules : forall T m b b',
  apply_move T m b = Ok b' -> mv_from m < 64 ->
  Rules.phalf (abstract b') = Rules.phalf (Rules.successor (abstract b) m) /\
  Rules.pfull (abstract b') = Rules.pfull (Rules.successor (abstract b) m).
Proof. exact apply_abs_clocks. Qed.

(* the threshold in the source is 100 (translated constant) and the draw is reported exactly then *)
Theorem C16_threshold_is_100 : HALFMOVE_DRAW_THRESHOLD = 100.
Proof. exact HALFMOVE_DRAW_THRESHOLD_is_100. Qed.

Theorem C16_draw_on_clock_iff : forall T rook_t bishop_t b c s h,
  max_seen b = Ok s -> s <> REPETITION_DRAW_COUNT -> halfmove b = Ok h ->
  ((exists b1, game_ending T rook_t bishop_t b c = Ok (Some Draw, b1)) <-> 100 <= h).
Proof. exact draw_on_clock_iff. Qed.

(* neither counter aborts in a game shorter than 65534 plies that is not yet drawn on move count *)
Definition C16_game_counters_in_range := game_counters_in_range.
Definition C16_apply_no_counter_panic := apply_no_counter_panic.
Definition C16_apply_move_counter_independent := apply_move_counter_independent.
Check @game_counters_in_range.
Check @apply_no_counter_panic.

Print Assumptions C16_apply_clocks.
Print Assumptions C16_undo_clocks.
Print Assumptions C16_clocks_faithful.
Print Assumptions C16_clocks_agree_with_rules.
Print Assumptions C16_draw_on_clock_iff.
Print Assumptions C16_game_counters_in_range.
Print Assumptions C16_apply_no_counter_panic.
