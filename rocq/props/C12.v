(* props/C12.v — C12: the representation invariants hold in every reachable state, including
   the transient states between a pseudo-legal move and its undo.  Repr b is the Prop form of
   the executable repr_ok (every clause of the statement); InvC adds "the side not to move is
   not in check" and the en-passant rank, which is what makes it inductive. *)
From Coq Require Import NArith List.
From ChessV Require Import Moves MoveGen Abs WfReflect UndoProofs InvProofs InvProofs2.
Open Scope N_scope.

Theorem C12_repr_ok_iff : forall b, repr_ok b = true <-> Repr b.
Proof. exact repr_ok_iff. Qed.

Theorem C12_apply_Repr : forall T m b b',
  Repr b -> gen_shape b m -> apply_move T m b = Ok b' -> Repr b'.
Proof. exact apply_Repr. Qed.

Theorem C12_rights_monotone : forall T m b b', apply_move T m b = Ok b' ->
  forall i, mem i (top (cr_stack b')) = true -> mem i (top (cr_stack b)) = true.
Proof. exact rights_monotone. Qed.

Section C12.
Variable T : ztable.
Variables rook_t bishop_t : N -> N -> N.

(* every generated move has the shape under which apply preserves the invariant *)
Theorem C12_generated_moves_have_shape : forall b ms b',
  Inv rook_t bishop_t b -> gen_moves T rook_t bishop_t b (turn b) = Ok (ms, b') ->
  forall m, In m ms -> gen_shape b m.
Proof. exact (generated_moves_have_shape T rook_t bishop_t). Qed.

(* every state reached by legal moves, turn flips and undos *)
Theorem C12_InvC_reachable : forall b0 c0 b c,
  InvC rook_t bishop_t b0 c0 -> reachable T rook_t bishop_t b0 c0 b c -> InvC rook_t bishop_t b c.
Proof. exact (InvC_reachable T rook_t bishop_t). Qed.

(* ... and every transient state visited inside generation and search *)
Theorem C12_Repr_visited : forall b0 c0 b,
  InvC rook_t bishop_t b0 c0 -> visited T rook_t bishop_t b0 c0 b -> Repr b.
Proof. exact (Repr_visited T rook_t bishop_t). Qed.

Theorem C12_invb_spec : forall b, invb rook_t bishop_t b = true <-> Inv rook_t bishop_t b.
Proof. exact (invb_spec rook_t bishop_t). Qed.
End C12.

Check @gen_shape_sq_ok_ep_ok.
Check @undo_Repr.
Check @rights_monotone_seq.

Print Assumptions C12_repr_ok_iff.
Print Assumptions C12_apply_Repr.
Print Assumptions C12_rights_monotone.
Print Assumptions C12_generated_moves_have_shape.
Print Assumptions C12_InvC_reachable.
Print Assumptions C12_Repr_visited.

(* ---- closed (Closed.v): from any position passing the executable invariant check ---- *)
From ChessV Require Closed.

Theorem C12_closed_every_visited_state : forall T rook_t bishop_t b0 b,
  invb rook_t bishop_t b0 = true -> visited T rook_t bishop_t b0 (turn b0) b -> Repr b.
Proof. exact Closed.C12_closed. Qed.

Theorem C12_closed_every_visited_state_bool : forall T rook_t bishop_t b0 b,
  invb rook_t bishop_t b0 = true -> visited T rook_t bishop_t b0 (turn b0) b -> repr_ok b = true.
Proof. exact Closed.C12_closed_bool. Qed.

Print Assumptions C12_closed_every_visited_state.
Print Assumptions C12_closed_every_visited_state_bool.
