(* props/C14.v — C14 (command-line level, data translated from src/input_handler/mod.rs every
   run): every label the SAN writer can print is classified as notation and never as a
   coordinate pair; every coordinate pair as coordinates.  The Game-API part (accepted iff
   legal, played exactly, rejected without effect) is pinned in the second half. *)
From Coq Require Import NArith List String.
From ChessV Require Import Regex San RegexProofs.
From ChessV.gen Require Import InputRegex.
Open Scope N_scope.

Theorem C14_labels_accepted : forall s,
  In s all_labels -> full_match ALGEBRAIC_RE s = true /\ full_match COORDINATE_RE s = false.
Proof. exact labels_accepted. Qed.

Theorem C14_coordinates_accepted : forall f t,
  f < 64 -> t < 64 -> full_match COORDINATE_RE (sq_str f ++ sq_str t) = true.
Proof. exact coordinates_accepted. Qed.

Theorem C14_san_label_shape : forall b all m e s,
  label_hyps b all m -> san_label b all m e = Ok s -> In s all_labels.
Proof. exact san_label_shape. Qed.

Theorem C14_printed_labels_accepted : forall b all m e s,
  san_label b all m e = Ok s -> label_hyps b all m ->
  full_match ALGEBRAIC_RE s = true /\ full_match COORDINATE_RE s = false.
Proof. exact printed_labels_accepted. Qed.

Theorem C14_printed_castle_accepted : forall b all f t e s,
  san_label b all (Castle f t) e = Ok s ->
  full_match ALGEBRAIC_RE s = true /\ full_match COORDINATE_RE s = false.
Proof. exact printed_castle_accepted. Qed.

Print Assumptions C14_labels_accepted.
Print Assumptions C14_coordinates_accepted.
Print Assumptions C14_san_label_shape.
Print Assumptions C14_printed_labels_accepted.
Print Assumptions C14_printed_castle_accepted.

(* ---- the Game-API part, closed against the RULES (C14Closed.v).  Inv = the reachable-state
   invariant (executable: invb), fine n = no counter overflows within n more plies.
   C14Closed.played g m g' says: m is a legal move of the rules, the history grew by exactly m, the
   search depth is unchanged, the caller's board received apply_move m, its abstraction is the
   rules' successor (turn not flipped; flipped it is succ_turn), and the invariant holds again. ---- *)
From ChessV Require Import Types Board Moves MoveGen Abs Game.
From ChessV Require Rules Congr InvProofs2 C14Closed.

Section C14_closed.
Variable T : ztable.
Variables rook_t bishop_t : N -> N -> N.
Hypothesis rook_t_ref : forall x o, x < 64 -> rook_t x o = Rays.rook_ref x o.
Hypothesis bishop_t_ref : forall x o, x < 64 -> bishop_t x o = Rays.bishop_ref x o.
Notation legal g := (Rules.legal_moves_for (abstract (gboard g)) (turn (gboard g))).

Theorem C14_coords_accepted_iff_legal : forall g f t,
  InvProofs2.Inv rook_t bishop_t (gboard g) -> Congr.fine 0 (gboard g) ->
  ((exists m g', apply_by_coords T rook_t bishop_t g f t = GOk (m, g')) <->
   (exists m, In m (legal g) /\ mv_from m = f /\ mv_to m = t)).
Proof. exact (C14Closed.C14_coords_accepted_iff_legal T rook_t bishop_t rook_t_ref bishop_t_ref). Qed.

Theorem C14_coords_ok_or_invalid : forall g f t,
  InvProofs2.Inv rook_t bishop_t (gboard g) -> Congr.fine 0 (gboard g) ->
  (exists m g', apply_by_coords T rook_t bishop_t g f t = GOk (m, g'))
  \/ apply_by_coords T rook_t bishop_t g f t = GInvalidMove.
Proof. exact (C14Closed.C14_coords_ok_or_invalid T rook_t bishop_t rook_t_ref bishop_t_ref). Qed.

Theorem C14_coords_plays_that_move : forall g f t m g',
  InvProofs2.Inv rook_t bishop_t (gboard g) -> Congr.fine 0 (gboard g) ->
  apply_by_coords T rook_t bishop_t g f t = GOk (m, g') ->
  mv_from m = f /\ mv_to m = t /\ C14Closed.played T rook_t bishop_t g m g'.
Proof. exact (C14Closed.C14_coords_plays_that_move T rook_t bishop_t rook_t_ref bishop_t_ref). Qed.

Theorem C14_coords_promotion_plays_queen : forall g f t cap pp,
  InvProofs2.Inv rook_t bishop_t (gboard g) -> Congr.fine 0 (gboard g) ->
  In (Promo f t cap pp) (legal g) ->
  exists g', apply_by_coords T rook_t bishop_t g f t = GOk (Promo f t cap Queen, g')
             /\ C14Closed.played T rook_t bishop_t g (Promo f t cap Queen) g'.
Proof. exact (C14Closed.C14_coords_promotion_plays_queen T rook_t bishop_t rook_t_ref bishop_t_ref). Qed.

Theorem C14_notation_accepted_iff_label : forall g s,
  InvProofs2.Inv rook_t bishop_t (gboard g) -> Congr.fine 1 (gboard g) ->
  ((exists m g', apply_by_notation T rook_t bishop_t g s = GOk (m, g')) <->
   (exists m, In m (legal g) /\ C14Closed.legal_label (abstract (gboard g)) m = s)).
Proof. exact (C14Closed.C14_notation_accepted_iff_label T rook_t bishop_t rook_t_ref bishop_t_ref). Qed.

Theorem C14_notation_ok_or_invalid : forall g s,
  InvProofs2.Inv rook_t bishop_t (gboard g) -> Congr.fine 1 (gboard g) ->
  (exists m g', apply_by_notation T rook_t bishop_t g s = GOk (m, g'))
  \/ apply_by_notation T rook_t bishop_t g s = GInvalidMove.
Proof. exact (C14Closed.C14_notation_ok_or_invalid T rook_t bishop_t rook_t_ref bishop_t_ref). Qed.

Theorem C14_notation_plays_that_move : forall g s m g',
  InvProofs2.Inv rook_t bishop_t (gboard g) -> Congr.fine 1 (gboard g) ->
  apply_by_notation T rook_t bishop_t g s = GOk (m, g') ->
  C14Closed.legal_label (abstract (gboard g)) m = s
  /\ (forall m', In m' (legal g) -> C14Closed.legal_label (abstract (gboard g)) m' = s -> m' = m)
  /\ C14Closed.played T rook_t bishop_t g m g'.
Proof. exact (C14Closed.C14_notation_plays_that_move T rook_t bishop_t rook_t_ref bishop_t_ref). Qed.
End C14_closed.

Check @C14Closed.C14_coords_generator_returns_board.
Check @C14Closed.C14_notation_generator_returns_board.
Print C14Closed.played.
Print C14Closed.legal_label.

Print Assumptions C14_coords_accepted_iff_legal.
Print Assumptions C14_coords_ok_or_invalid.
Print Assumptions C14_coords_plays_that_move.
Print Assumptions C14_coords_promotion_plays_queen.
Print Assumptions C14_notation_accepted_iff_label.
Print Assumptions C14_notation_ok_or_invalid.
Print Assumptions C14_notation_plays_that_move.

(* the model constants equal the ones translated from the source on this run *)
From ChessV Require ConstsTie.
Check ConstsTie.rights_masks_tie.
Check ConstsTie.promotions_tie.
Check ConstsTie.search_key_arity_tie.
Check ConstsTie.clock_key_threshold_tie.

(* ---- the typed LINE and the whole SESSION (Pvp.v = input layer + command dispatch + the
   player-vs-player loop; PvpProofs.v) ---- *)
From ChessV Require Pvp PvpProofs.

Section C14_session.
Variable T : ztable.
Variables rook_t bishop_t : N -> N -> N.
Hypothesis rook_t_ref : forall x o, x < 64 -> rook_t x o = Rays.rook_ref x o.
Hypothesis bishop_t_ref : forall x o, x < 64 -> bishop_t x o = Rays.bishop_ref x o.

(* one line: never a crash; either a legal move named by the line is played (history + 1, board =
   rules' successor with the turn passed, invariant again) or the game is exactly as it was *)
Theorem C14_pvp_step_spec : forall g raw g' out,
  InvProofs2.Inv rook_t bishop_t (gboard g) -> Congr.fine 1 (gboard g) ->
  Pvp.pvp_step T rook_t bishop_t g raw = (g', out) ->
  out <> Pvp.Crashed /\ PvpProofs.step_c14 T rook_t bishop_t g raw g' out.
Proof. exact (PvpProofs.pvp_step_spec T rook_t bishop_t rook_t_ref bishop_t_ref). Qed.

Theorem C14_pvp_step_accepts_iff : forall g raw,
  InvProofs2.Inv rook_t bishop_t (gboard g) -> Congr.fine 1 (gboard g) ->
  ((exists m, snd (Pvp.pvp_step T rook_t bishop_t g raw) = Pvp.Played m) <->
   exists m, In m (Rules.legal_moves (abstract (gboard g))) /\ PvpProofs.names g raw m).
Proof. exact (PvpProofs.pvp_step_accepts_iff T rook_t bishop_t rook_t_ref bishop_t_ref). Qed.

(* a whole session from any position in the invariant: no crash, the invariant at every prompt,
   consecutive states related by the line-level statement, the final verdict exact *)
Theorem C14_pvp_run_inv : forall inputs g gs r,
  InvProofs2.Inv rook_t bishop_t (gboard g) -> hm_stack (gboard g) <> [] -> hd 0 (hm_stack (gboard g)) <= 100 ->
  fullmove (gboard g) + N.of_nat (length inputs) < FULLMOVE_MAX ->
  Pvp.pvp_run T rook_t bishop_t g inputs = (gs, r) ->
  r <> Panic
  /\ (exists v, r = Ok v /\ PvpProofs.ending_is (last gs g) v /\ (v = None -> length gs = S (length inputs)))
  /\ (exists tl, gs = g :: tl)
  /\ (length gs <= S (length inputs))%nat
  /\ Forall (fun x => InvProofs2.Inv rook_t bishop_t (gboard x)) gs
  /\ PvpProofs.session_ok T rook_t bishop_t gs inputs.
Proof. exact (PvpProofs.pvp_run_inv T rook_t bishop_t rook_t_ref bishop_t_ref). Qed.
End C14_session.

Check @PvpProofs.parse_coord_line.
Check @PvpProofs.parse_label_line.
Check @PvpProofs.parse_input_sound.
Check @PvpProofs.no_shadowing.
Check @PvpProofs.pvp_step_promotion_queen.
Check @PvpProofs.pvp_step_rejected_unchanged.
Check PvpProofs.pvp_fools_mate.
Print PvpProofs.step_c14.
Print PvpProofs.accepted_state.
Print PvpProofs.names.
Print PvpProofs.ending_is.

Print Assumptions C14_pvp_step_spec.
Print Assumptions C14_pvp_step_accepts_iff.
Print Assumptions C14_pvp_run_inv.

(* the human's turns of the `chess play` loop obey the same line-level statement *)
From ChessV Require PlayProofs.
Check @PlayProofs.play_step_accepts_iff.
Print Assumptions PlayProofs.play_step_accepts_iff.
