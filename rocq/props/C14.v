(* props/C14.v — C14 (command-line level, data translated from src/input_handler/mod.rs every
   run): every label the SAN writer can print is classified as notation and never as a
   coordinate pair; every coordinate pair as coordinates.  The Game-API part (accepted iff
   legal, played exactly, rejected without effect) is pinned in the second half. *)
From Coq Require Import NArith List String.
From ChessV Require Import Regex San RegexProofs.
From ChessV.gen Require Import InputRegex.
Open Scope N_scope.

Theorem C14_labels_accepted : forall s,
  In s all_labels -> full_match ALGEBRAIC_RE s = true /\ full_match COORDINATE_RE s = false.
Proof. exact labels_accepted. Qed.

Theorem C14_coordinates_accepted : forall f t,
  f < 64 -> t < 64 -> full_match COORDINATE_RE (sq_str f ++ sq_str t) = true.
Proof. exact coordinates_accepted. Qed.

Theorem C14_san_label_shape : forall b all m e s,
  label_hyps b all m -> san_label b all m e = Ok s -> In s all_labels.
Proof. exact san_label_shape. Qed.

Theorem C14_printed_labels_accepted : forall b all m e s,
  san_label b all m e = Ok s -> label_hyps b all m ->
  full_match ALGEBRAIC_RE s = true /\ full_match COORDINATE_RE s = false.
Proof. exact printed_labels_accepted. Qed.

Theorem C14_printed_castle_accepted : forall b all f t e s,
  san_label b all (Castle f t) e = Ok s ->
  full_match ALGEBRAIC_RE s = true /\ full_match COORDINATE_RE s = false.
Proof. exact printed_castle_accepted. Qed.

Print Assumptions C14_labels_accepted.
Print Assumptions C14_coordinates_accepted.
Print Assumptions C14_san_label_shape.
Print Assumptions C14_printed_labels_accepted.
Print Assumptions C14_printed_castle_accepted.
