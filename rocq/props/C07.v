(* props/C07.v — C07: search answers with a legal move and leaves the board untouched
   (relative to the model's own generator; that gen = the FIDE legal moves is C01).
   ep_wf b c: the en-passant target, if any, has an enemy pawn on its victim square (part of
   the board invariant C12).  Termination ("never hangs") holds by construction: Search.ab
   is structurally recursive on the depth. *)
From Coq Require Import NArith ZArith List.
From ChessV Require Import Search Game UndoProofs EpFrame GenFrame SearchFrame.
Open Scope N_scope.

Section C07.
Variable T : ztable.
Variables rook_t bishop_t : N -> N -> N.

Theorem C07_search_depth0 : forall depth b, depth < 1 ->
  search T rook_t bishop_t depth b = SErr DepthTooLow.
Proof. exact (search_depth0 T rook_t bishop_t). Qed.

Theorem C07_search_no_moves : forall depth b b1,
  gen_annotated T rook_t bishop_t b (turn b) = Ok ([], b1) -> 1 <= depth ->
  search T rook_t bishop_t depth b = SErr NoAvailableMoves.
Proof. exact (search_no_moves T rook_t bishop_t). Qed.

Theorem C07_search_legal : forall depth b v m b1,
  WF b -> ep_wf b (turn b) -> search T rook_t bishop_t depth b = SOk (v, m, b1) ->
  1 <= depth /\ b1 = b /\
  exists cands, gen_annotated T rook_t bishop_t b (turn b) = Ok (cands, b) /\ In m (map fst cands)
                /\ gen_moves T rook_t bishop_t b (turn b) = Ok (map fst cands, b).
Proof. exact (search_legal T rook_t bishop_t). Qed.

Theorem C07_search_err_inv : forall depth b e,
  search T rook_t bishop_t depth b = SErr e ->
  (e = DepthTooLow /\ depth < 1) \/
  (e = NoAvailableMoves /\ 1 <= depth /\ exists b1, gen_annotated T rook_t bishop_t b (turn b) = Ok ([], b1)).
Proof. exact (search_err_inv T rook_t bishop_t). Qed.

(* the caller's board comes back from the recursive search, from generation, annotation,
   verdicts and scoring *)
Theorem C07_ab_board : forall d b alpha beta mx v b',
  WF b -> ep_wf b (turn b) -> ab T rook_t bishop_t d b alpha beta mx = Ok (v, b') -> b' = b.
Proof. exact (ab_board T rook_t bishop_t). Qed.

Theorem C07_gen_annotated_board : forall b c l b',
  WF b -> ep_wf b c -> gen_annotated T rook_t bishop_t b c = Ok (l, b') ->
  b' = b /\ gen_moves T rook_t bishop_t b c = Ok (map fst l, b).
Proof. exact (gen_annotated_board T rook_t bishop_t). Qed.

End C07.

(* totality under an invariant Good (never panics, always one of the three declared outcomes) *)
Check @search_total.
Check @search_never_panics.
Check @ab_total.
Check @engine_select_legal.

Print Assumptions C07_search_depth0.
Print Assumptions C07_search_no_moves.
Print Assumptions C07_search_legal.
Print Assumptions C07_search_err_inv.
Print Assumptions C07_ab_board.
Print Assumptions C07_gen_annotated_board.
Print Assumptions search_total.
Print Assumptions search_never_panics.

(* ---- closed statements (Closed.v): the abstract invariant Good is discharged with the concrete
   reachable-state invariant Reach.Sound (decidable: soundb), nothing else is assumed ---- *)
From ChessV Require Reach Closed.

Theorem C07_closed_legal_or_none : forall T rook_t bishop_t depth b,
  1 <= depth -> Reach.Sound T rook_t bishop_t (N.to_nat depth) b ->
  (exists v m (cands : list (cmove * effect)), search T rook_t bishop_t depth b = SOk (v, m, b)
       /\ gen_moves T rook_t bishop_t b (turn b) = Ok (map fst cands, b) /\ In m (map fst cands))
  \/ (search T rook_t bishop_t depth b = SErr NoAvailableMoves /\ gen_moves T rook_t bishop_t b (turn b) = Ok ([], b)).
Proof. exact Closed.C07_closed. Qed.

Theorem C07_closed_never_panics : forall T rook_t bishop_t depth b,
  Reach.Sound T rook_t bishop_t (N.to_nat depth) b -> search T rook_t bishop_t depth b <> SPanic.
Proof. exact Closed.C07_never_panics. Qed.

Theorem C07_closed_ab_total : forall T rook_t bishop_t d b alpha beta mx,
  Reach.Sound T rook_t bishop_t d b -> exists v, ab T rook_t bishop_t d b alpha beta mx = Ok (v, b).
Proof. exact Closed.C07_ab_total. Qed.

(* the invariant is executable, inductive along legal play, and holds of the initial position *)
Check @Reach.soundb_spec.
Check @Reach.Sound_step.
Check @Reach.Sound_initial.

Print Assumptions C07_closed_legal_or_none.
Print Assumptions C07_closed_never_panics.
Print Assumptions C07_closed_ab_total.
Print Assumptions Reach.Sound_step.

(* ---- the same statements on the WIDE domain (ReachWide.v): nothing but "no counter overflows
   within the depth" is asked of the clocks, so positions at or beyond the move-count draw and
   third repetitions are covered ---- *)
From ChessV Require ReachWide.

Theorem C07_wide_legal_or_none : forall T rook_t bishop_t depth b,
  1 <= depth -> ReachWide.SoundW T rook_t bishop_t (N.to_nat depth) b ->
  (exists v m (cands : list (cmove * effect)), search T rook_t bishop_t depth b = SOk (v, m, b)
       /\ gen_moves T rook_t bishop_t b (turn b) = Ok (map fst cands, b) /\ In m (map fst cands))
  \/ (search T rook_t bishop_t depth b = SErr NoAvailableMoves /\ gen_moves T rook_t bishop_t b (turn b) = Ok ([], b)).
Proof. exact ReachWide.C07_wide. Qed.

Theorem C07_wide_never_panics : forall T rook_t bishop_t depth b,
  ReachWide.SoundW T rook_t bishop_t (N.to_nat depth) b -> search T rook_t bishop_t depth b <> SPanic.
Proof. exact ReachWide.C07_wide_never_panics. Qed.

Check @ReachWide.soundWb_spec.
Check @ReachWide.SoundW_step.
Check @ReachWide.Sound_SoundW.
Check ReachWide.SoundW_demo.
Check ReachWide.wide_demo_not_far.

Print Assumptions C07_wide_legal_or_none.
Print Assumptions C07_wide_never_panics.
