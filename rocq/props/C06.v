(* props/C06.v — C06: check / checkmate / stalemate verdicts and annotations are exact.
   Proved so far: the engine's attack map equals the rules' attack predicate on every square not
   occupied by the attacker, hence `in_check` = `Rules.king_attacked` for every well-formed board
   with one king of that colour, for the ray-walk reference and for every magic table that
   passes the build script's acceptance test.  The verdict / annotation assembly
   (VerdictExact.v) is pinned at the end when present. *)
From ChessV Require Import Eval InvProofs2 GenExact VerdictExact.
From Coq Require Import NArith ZArith List.
From ChessV Require Import MoveGen Abs Rays Magic BoardLemmas AttackProofs.
From ChessV Require Rules.
Open Scope N_scope.

Theorem C06_attack_targets_spec_ref : forall b c j, WF b -> j < 64 -> mem j (occ (pieces b c)) = false ->
  mem j (attack_targets rook_ref bishop_ref b c) = Rules.attacked_by (abstract b) c (Rules.fileZ j) (Rules.rankZ j).
Proof. exact attack_targets_spec_ref. Qed.

Theorem C06_in_check_exact_ref : forall b c, WF b -> popcount (kg (pieces b c)) = 1 ->
  in_check rook_ref bishop_ref b c = Rules.king_attacked (abstract b) c.
Proof. exact in_check_exact_ref. Qed.

Theorem C06_in_check_exact_magic : forall res bes b c,
  entries_valid rook_deltas res = true -> entries_valid bishop_deltas bes = true ->
  WF b -> popcount (kg (pieces b c)) = 1 ->
  in_check (magic_rook res) (magic_bishop bes) b c = Rules.king_attacked (abstract b) c.
Proof. exact in_check_exact_magic. Qed.

Check @attack_targets_own_squares.
Check @attack_targets_sound.
Check @side_to_move_in_check_exact.


(* ---- the assembled statements: C06 in full (VerdictExact.v) ---- *)
Section C06_closed.
Variable T : ztable.
Variables rook_t bishop_t : N -> N -> N.
Hypothesis rook_t_ref : forall x o, x < 64 -> rook_t x o = rook_ref x o.
Hypothesis bishop_t_ref : forall x o, x < 64 -> bishop_t x o = bishop_ref x o.

Theorem C06_in_check_turn_exact : forall b, Inv rook_t bishop_t b ->
  in_check rook_t bishop_t b (turn b) = Rules.king_attacked (abstract b) (turn b).
Proof. exact (in_check_turn_exact rook_t bishop_t rook_t_ref bishop_t_ref). Qed.

(* on the decided domain (no count-based draw fires; current_turn = board.turn as every caller passes) *)
Theorem C06_game_ending_exact : forall b e b', Inv rook_t bishop_t b ->
  top (seen_stack b) <> REPETITION_DRAW_COUNT -> top (hm_stack b) < HALFMOVE_DRAW_THRESHOLD ->
  game_ending T rook_t bishop_t b (turn b) = Ok (e, b') ->
  b' = b /\ e = (if Rules.is_checkmate (abstract b) (turn b) then Some Checkmate
                 else if Rules.is_stalemate (abstract b) (turn b) then Some Stalemate else None).
Proof. exact (game_ending_exact T rook_t bishop_t rook_t_ref bishop_t_ref). Qed.

(* every listed move is annotated check / checkmate / neither according to the position it produces *)
Theorem C06_effects_exact : forall b l b', Inv rook_t bishop_t b ->
  gen_annotated T rook_t bishop_t b (turn b) = Ok (l, b') ->
  forall m e, In (m, e) l -> e = Rules.move_effect (abstract b) (turn b) m.
Proof. exact (effects_exact T rook_t bishop_t rook_t_ref bishop_t_ref). Qed.
End C06_closed.
Check @effects_total.
Check @game_ending_checkmate_iff.
Check @game_ending_exact_magic.

Print Assumptions C06_attack_targets_spec_ref.
Print Assumptions C06_in_check_exact_ref.
Print Assumptions C06_in_check_exact_magic.
Print Assumptions C06_in_check_turn_exact.
Print Assumptions C06_game_ending_exact.
Print Assumptions C06_effects_exact.
Print Assumptions effects_total.
