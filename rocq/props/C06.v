(* props/C06.v — C06: check / checkmate / stalemate verdicts and annotations are exact.
   Proved so far: the engine's attack map equals the rules' attack predicate on every square not
   occupied by the attacker, hence `in_check` = `Rules.king_attacked` for every well-formed board
   with one king of that colour, for the ray-walk reference and for every magic table that
   passes the build script's acceptance test.  The verdict / annotation assembly
   (VerdictExact.v) is pinned at the end when present. *)
From Coq Require Import NArith ZArith List.
From ChessV Require Import MoveGen Abs Rays Magic BoardLemmas AttackProofs.
From ChessV Require Rules.
Open Scope N_scope.

Theorem C06_attack_targets_spec_ref : forall b c j, WF b -> j < 64 -> mem j (occ (pieces b c)) = false ->
  mem j (attack_targets rook_ref bishop_ref b c) = Rules.attacked_by (abstract b) c (Rules.fileZ j) (Rules.rankZ j).
Proof. exact attack_targets_spec_ref. Qed.

Theorem C06_in_check_exact_ref : forall b c, WF b -> popcount (kg (pieces b c)) = 1 ->
  in_check rook_ref bishop_ref b c = Rules.king_attacked (abstract b) c.
Proof. exact in_check_exact_ref. Qed.

Theorem C06_in_check_exact_magic : forall res bes b c,
  entries_valid rook_deltas res = true -> entries_valid bishop_deltas bes = true ->
  WF b -> popcount (kg (pieces b c)) = 1 ->
  in_check (magic_rook res) (magic_bishop bes) b c = Rules.king_attacked (abstract b) c.
Proof. exact in_check_exact_magic. Qed.

Check @attack_targets_own_squares.
Check @attack_targets_sound.
Check @side_to_move_in_check_exact.

Print Assumptions C06_attack_targets_spec_ref.
Print Assumptions C06_in_check_exact_ref.
Print Assumptions C06_in_check_exact_magic.
