(* props/C02.v — C02: a long-lived generator answers exactly like a new one.  Cache.v models the
   two caches (move lists keyed (key, colour), attack maps keyed (colour, key)) with ARBITRARY
   eviction; the theorems hold for every sequence of earlier queries.  Hypotheses of Section
   C02: gen_congr (a theorem: Congr.gen_moves_congr), S_board_turn, and collision_free - the one
   genuine assumption (a 64-bit key cannot be injective on all of chess). *)
From Coq Require Import NArith List.
From ChessV Require Import Memo Cache Congr.
Open Scope N_scope.

Definition C02_cached_gen_eq_fresh := cached_gen_eq_fresh.
Definition C02_cached_attacks_eq_fresh := cached_attacks_eq_fresh.
Definition C02_grun_sound := grun_sound.
Definition C02_no_cross_service := no_cross_service.
Definition C02_gen_moves_congr := gen_moves_congr.
Definition C02_attack_targets_congr := attack_targets_congr.
Check @cached_gen_eq_fresh.
Check @cached_attacks_eq_fresh.
Check @no_cross_service.
Check @gen_moves_congr.

Print Assumptions C02_cached_gen_eq_fresh.
Print Assumptions C02_cached_attacks_eq_fresh.
Print Assumptions C02_grun_sound.
Print Assumptions C02_no_cross_service.
Print Assumptions C02_gen_moves_congr.

(* ---- closed (Closed.v): gen_congr discharged; the one hypothesis left is that the 64-bit key
   is collision-free on the boards asked about ---- *)
From ChessV Require Import Types Board Moves MoveGen.
From ChessV Require Closed.

Theorem C02_closed_cached_eq_fresh : forall T rook_t bishop_t qs ans st b c,
  (forall b1 b2, Closed.askable b1 -> Closed.askable b2 -> hash b1 = hash b2 -> Cache.same_pos_noturn b1 b2) ->
  Forall (fun q => Closed.askable (Cache.req_board q)) qs -> Closed.askable b ->
  Cache.grun T rook_t bishop_t Cache.gen_state_new qs ans st ->
  Cache.answer_of (Cache.generate_moves_cached T rook_t bishop_t st b c)
  = Cache.answer_of (Cache.generate_moves_cached T rook_t bishop_t Cache.gen_state_new b c).
Proof. exact Closed.C02_closed. Qed.

Print Assumptions C02_closed_cached_eq_fresh.
