(* Game.v — src/game/game.rs (move entry, engine move) and src/book/mod.rs over the
   translated book (gen/BookLines.v).  Executable only. *)
From ChessV Require Export Search San.
From ChessV.gen Require Export BookLines.

(* ---- Book: add_line builds a trie; get_next_moves = continuations of matching prefixes ---- *)
Definition bm_eqb (a b : N * N) : bool := (fst a =? fst b) && (snd a =? snd b).

Fixpoint strip_prefix (h line : list (N * N)) : option (list (N * N)) :=
  match h, line with
  | [], l => Some l
  | x :: h', y :: l' => if bm_eqb x y then strip_prefix h' l' else None
  | _ :: _, [] => None
  end.

Fixpoint dedup (l : list (N * N)) : list (N * N) :=
  match l with
  | [] => []
  | x :: r => if existsb (bm_eqb x) r then dedup r else x :: dedup r
  end.

Definition book_next (lines : list (list (N * N))) (h : list (N * N)) : list (N * N) :=
  dedup (flat_map (fun l => match strip_prefix h l with Some (m :: _) => [m] | _ => [] end) lines).

Definition BOOK : list (list (N * N)) := map snd BOOK_LINES.

(* ---- Game ---- *)
Record game := { gboard : board; ghist : list cmove; gdepth : N }.

Inductive gres (A : Type) := GOk (a : A) | GInvalidMove | GBoardError | GSearchError (e : search_err) | GPanic.
Arguments GOk {A} a.
Arguments GInvalidMove {A}.
Arguments GBoardError {A}.
Arguments GSearchError {A} e.
Arguments GPanic {A}.

Section WithGen.
Variable T : ztable.
Variables rook_t bishop_t : N -> N -> N.

(* Game::apply_chess_move *)
Definition game_apply (g : game) (bd : board) (m : cmove) : gres (cmove * game) :=
  match apply_move T m bd with
  | Ok b' => GOk (m, {| gboard := b'; ghist := ghist g ++ [m]; gdepth := gdepth g |})
  | Err _ => GBoardError
  | Panic => GPanic
  end.

(* Game::apply_chess_move_by_from_to_coordinates *)
Definition apply_by_coords (g : game) (from to : N) : gres (cmove * game) :=
  match gen_moves T rook_t bishop_t (gboard g) (turn (gboard g)) with
  | Ok (cands, b1) =>
      match find (fun m => (mv_from m =? from) && (mv_to m =? to)) cands with
      | Some m => game_apply g b1 m
      | None => GInvalidMove
      end
  | _ => GPanic
  end.

(* Game::apply_chess_move_from_raw_algebraic_notation *)
Definition apply_by_notation (g : game) (s : string) : gres (cmove * game) :=
  match gen_annotated T rook_t bishop_t (gboard g) (turn (gboard g)) with
  | Ok (cands, b1) =>
      match san_all b1 (map fst cands) cands with
      | Ok labelled =>
          match find (fun ml => String.eqb (snd ml) s) labelled with
          | Some (m, _) => game_apply g b1 m
          | None => GInvalidMove
          end
      | _ => GPanic
      end
  | _ => GPanic
  end.

Definition book_line_of (h : list cmove) : list (N * N) := map (fun m => (mv_from m, mv_to m)) h.

(* Game::select_waterfall_book_then_alpha_beta_best_move, with the random index explicit
   (after the D9 repair: a book suggestion that is not a legal move falls through to search) *)
Definition engine_select (g : game) (choice : nat) : gres cmove :=
  let bd := gboard g in
  let run_search :=
    match search T rook_t bishop_t (gdepth g) bd with
    | SOk (_, m, _) => GOk m
    | SErr e => GSearchError e
    | SPanic => GPanic
    end in
  match book_next BOOK (book_line_of (ghist g)) with
  | [] => run_search
  | next =>
      let bmv := nth (choice mod length next) next (0, 0) in
      match gen_annotated T rook_t bishop_t bd (turn bd) with
      | Ok (cands, _) =>
          match find (fun me => (mv_from (fst me) =? fst bmv) && (mv_to (fst me) =? snd bmv)) cands with
          | Some (m, _) => GOk m
          | None => run_search
          end
      | _ => GPanic
      end
  end.

End WithGen.
